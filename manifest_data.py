"""Per-property claims (source of MANIFEST.json; run tools_manifest.py after editing)."""
CLAIMED = {
 'C04': {
  'text': 'Lean theorems C04_step/C04_run/C04_no_dup/C04_index_is_position/C04_contains/C04_len_get: for every finite operation sequence, every index (negative, out of range) and every element, the patched OrderedSet model has the contents, results and raising behaviour of a Python list (insertions of present elements ignored), never holds a duplicate, and its position map is exactly the iteration position. The model is tied to the code by an exhaustive one-step correspondence (every small state x every operation x every index in a window, on real EOrderedSet/ESet/EList/EBag features of an EObject, attribute and reference) plus random histories.',
  'design_ref': 'DESIGN.md section 4 C04',
  'note': 'Trusted: Lean kernel, axioms {propext, Classical.choice, Quot.sound} at most; the correspondence harness; CPython list (EList/EBag are Python lists: for them the specification functions pyInsert/pyPop/... are validated against CPython in the same pass). Element equality is structural in the model, ==/hash in Python.',
  'technique': 'Lean 4 proof (invariant by induction over operations + refinement to a list spec) + exhaustive small-scope differential correspondence',
 },
 'C01': {
  'text': 'Lean theorems C01_step / C01_reachable / C01_release / C01_steal over the Store model, for an arbitrary well-formed metamodel value (all sixteen shapes at once): every public mutation, returned or raised, from any state satisfying the invariants re-establishes symmetry; after every finite history y in x.f <-> x in y.g; re-pointing and stealing release the previous partner. The model is tied to the code each run by a differential correspondence on generated histories (reference slots after every call + returned/raised) over enumerated opposite-pair shapes and random well-formed metamodels.',
  'design_ref': 'DESIGN.md section 4 C01',
  'note': 'Trusted: Lean kernel + at most {propext, Classical.choice, Quot.sound}; the correspondence harness and generators (a divergence on inputs never generated is not seen); the model is a net-effect model (unlinkRaw/detach/linkRaw), not a statement-by-statement mirror. Side conditions: MM.WF (EMF ConsistentUnique, SingleContainer, mutual opposites); list-like references are not offered a duplicate; no None into many-valued features.',
  'technique': 'Lean 4 proof (inductive invariant over all operations, parametric in the metamodel) + differential correspondence model vs implementation + independent oracle',
 },
 'C02': {
  'text': 'Lean theorems C02_step / C02_reachable / C02_one_owner / C02_failed_keeps / C02_move / C02_rappend / C02_eResource_root: back-pointers name exactly the containment slot or root list holding an object, there is at most one such position, a new owner removes the object from the previous one, a raising call leaves the whole state unchanged, descendants report their root resource. Tied to the code by correspondence on the ownership view (eContainer, eContainmentFeature, _eresource, containment slots, Resource.contents) after every call of generated histories.',
  'design_ref': 'DESIGN.md section 4 C02',
  'note': 'As C01. C02_eResource_root is stated for container chains that end within the fuel (acyclic containment; cycle-creating calls are outside the quantifier and are never generated).',
  'technique': 'Lean 4 proof (inductive invariant Own/ResOK/Card) + differential correspondence + independent oracle',
 },
 'C03': {
  'text': 'Lean theorems C03_typed / C03_reachable (every stored value conforms after every call of every history, given WF and the typing side conditions WFT), C03_reject (a non-conforming value through any value-carrying operation: BadValueError and the result state IS the input state), C03_accept (conforming values are never rejected as ill-typed). Correspondence: full state + the exception class BadValueError after every call, histories with about 12% non-conforming operands through set/eSet/append/insert/item assignment/extend/+=/whole-collection assignment.',
  'design_ref': 'DESIGN.md section 4 C03',
  'note': 'As C01. Modelled value kinds: None, bool, int, str, objects of a class hierarchy, other Python values; data types EInt/EString/EBoolean (bool conforms to EInt exactly as isinstance does). Enumerations, the other built-in data types, command execution and XMI/JSON load paths are exercised by other checks (C06, C08, C09, C17), not by this model.',
  'technique': 'Lean 4 proof (invariant Typed + rejection leaves the state identical) + differential correspondence + independent oracle',
 },
 'C07': {
  'text': 'Lean theorems C07_no_dangling / C07_deleted_clean / C07_frame / C07_inv: after delete(x, recursive) in any state satisfying the invariants (every reachable state), no object holds a deleted object in any feature, deleted objects hold no reference and have no container, every survivor keeps each reference value in the same order minus the deleted objects, attributes / resources / root lists untouched, containers kept unless deleted. List-level (order-preserving) characterisation of delete as a filter. The excluded corner (a list-like reference holding the object twice) is stated as a kernel-checked counterexample and is the recorded finding F-C07-1. Tie: after generated histories every object is deleted in turn (recursive and not) on the real code and on the model, full state compared; oracle scans all features against a pre-delete snapshot.',
  'design_ref': 'DESIGN.md section 4 C07',
  'note': 'The model finds referrers by scanning; the code finds them through _inverse_rels and opposite ends — that the bookkeeping is complete along every history is established by the correspondence, not by a theorem. Hypothesis Nd (no reference slot holds a value twice). delete() leaving the object in its resource root list is not judged.',
  'technique': 'Lean 4 proof (list-level characterisation of delete over folds of unlinkRaw) + differential correspondence (delete of every object after every history) + independent oracle; known finding F-C07-1',
 },
 'C11': {
  'text': 'Lean theorems C11_resolve_frag / C11_injective / C11_reachable: in every state satisfying the invariants (hence after every history), for every object whose container chain ends at a root of the resource, Resource.resolve applied to its eURIFragment returns that object, at any depth; fragments are injective. Tie: after every call of containment-heavy histories (collections of 2-9 children, insert/pop/remove/move at all positions, several roots and resources) the real fragment text of every object is compared with the rendered model path and fed to the real resolve.',
  'design_ref': 'DESIGN.md section 4 C11',
  'note': 'Positional fragments of instances. The index in a fragment is what the collection reports (index()); that this is the iteration position is C04. The string layer (render/parse of a path) is compared, not proved. Name-based fragments of metamodel elements and id/uuid lookups are checked under C08/C10.',
  'technique': 'Lean 4 proof (resolve o frag = id by induction on the container chain, from Own/Card/ResOK) + differential correspondence on fragment strings + independent oracle',
 },
 'C19': {
  'text': 'Lean theorems C19_contents / C19_contents_container / C19_allcontents / C19_root / C19_reachable: eContents is exactly the content of the containment references = the objects naming o as container; eAllContents yields exactly the objects some k>=1-th container of which is o; eRoot is the end of the container chain. Tie: after every call of generated histories all views of all objects on the real code vs the model and vs an independent recomputation from primary state; eGet by name / feature / attribute identical; eAllSuperTypes, eAllStructuralFeatures, eAllReferences, eAllAttributes, findEStructuralFeature vs the declared hierarchy for every generated metamodel.',
  'design_ref': 'DESIGN.md section 4 C19',
  'note': 'Order of eContents/eAllContents is not claimed (the code iterates a set of references). The metamodel-level views are checked by the oracle on the real code here; their Lean model is with C12.',
  'technique': 'Lean 4 proof (views characterised through the ownership invariant) + differential correspondence + independent oracle',
 },
 'C05': {
  'text': 'Lean theorems C05_step / C05_mirror / C05_raise_silent over the slot model (what each mutator of valuecontainer.py does to its slot and which notifications it emits, in order): for every history of mutator calls on a single-valued, list-like or set-like slot, an observer applying the emitted notifications ends with exactly the contents (equal / same multiset / same set); raising calls emit nothing. Tie (a): exhaustive slot-level correspondence — every small slot state x every mutator x every index on real EObject features (attribute and reference), emitted (kind, old, new) sequence and contents vs the model; tie (b): history-level oracle with an observer on every object and resource mirroring every feature, implicit opposite-end changes included.',
  'design_ref': 'DESIGN.md section 4 C05',
  'note': 'The theorems are per slot; that every change of a slot (also of the opposite end) goes through one of the modelled mutators is checked by the history-level oracle, not proved (it found two bypasses, both repaired). Order across different (notifier, feature) pairs and no-change notifications are not judged. set.discard() is outside the property\'s operation list.',
  'technique': 'Lean 4 proof (one-step mirror lemma per mutator, induction over histories) + exhaustive small-scope differential correspondence of emitted notifications + independent observer-side oracle',
 },
 'C15': {
  'text': 'Lean theorems C15_default / C15_never_set / C15_read_pure / C15_delete / C15_private / C15_private_reachable over the holder model (lazy EValue creation, get_default_value, type_as_factory, _isset, a heap of mutable values): a feature without holder reads its default and stays unset; a history without write/delete on (o,f) leaves eIsSet false; reads change neither _isset nor what save() looks at and are repeatable; del restores the default; under NoAlias (an invariant of every history when no declaration hands out a shared mutable default) mutating the value read from one feature changes no other feature. The default table `src` is read off the real declarations on every run and NoShared is a per-run table obligation. Kernel-checked counterexample for a shared default = recorded finding F-C15-1.',
  'design_ref': 'DESIGN.md section 4 C15',
  'note': 'Single-valued attributes over EInt-like, map-typed, list-typed and user data types. Trusted: the probing of get_default_value() (called twice per declaration) that builds the table; XMI save bytes before/after reads are compared by the oracle only.',
  'technique': 'Lean 4 proof (NoAlias invariant, read purity) + per-run table obligation on regenerated default table + differential correspondence + independent oracle; known finding F-C15-1',
 },
 'C06': {
  'text': 'PARTIAL proof. Lean theorems: C06_cursor / C06_truncate / C06_redo_after_execute / C06_undo_empty / C06_undo_redo (command-stack discipline: executing discards the redo tail, redo then reports an error and changes nothing, undo-then-redo is the identity whenever the command\'s redo inverts its undo at that state), C06_add_undo / C06_remove_undo / C06_move_undo (inverse laws of Add / Remove / Move on the collection they act on, for every index incl. negative and out of range), C06_inv (every letter keeps the C01/C02 invariants). Not proved: the whole-model inverse law for references with an opposite (false of the code: kernel-checked counterexample, findings F-C06-1/2) and Delete/Compound (not in the model). Those are decided by the differential correspondence (Set/Add/Remove/Move words incl. stealing ones, letter by letter: outcome, cursor, stack length, full model) and by the oracle (all six command kinds, whole-model dump equality pre-exec vs post-undo, post-exec vs post-redo, superseded redo).',
  'design_ref': 'DESIGN.md section 4 C06',
  'note': 'Commands that cannot execute, whose can_execute raises, or that steal (decidable predicate on the pre-state, the statement\'s exclusion) are skipped by the oracle; sub-commands of a generated Compound are independent (disjoint objects). A command that reports can_execute but raises in execute is outside the statement and not judged.',
  'technique': 'Lean 4 proof (stack discipline + per-index inverse laws; partial) + differential correspondence on command words + whole-model oracle; known findings F-C06-1, F-C06-2',
 },
}
NOT_APPLICABLE = {}
