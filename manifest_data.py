"""Per-property claims (source of MANIFEST.json; run tools_manifest.py after editing)."""
CLAIMED = {
 'C04': {
  'text': 'Lean theorems C04_step/C04_run/C04_no_dup/C04_index_is_position/C04_contains/C04_len_get: for every finite operation sequence, every index (negative, out of range) and every element, the patched OrderedSet model has the contents, results and raising behaviour of a Python list (insertions of present elements ignored), never holds a duplicate, and its position map is exactly the iteration position. The model is tied to the code by an exhaustive one-step correspondence (every small state x every operation x every index in a window, on real EOrderedSet/ESet/EList/EBag features of an EObject, attribute and reference) plus random histories.',
  'design_ref': 'DESIGN.md section 4 C04',
  'note': 'Trusted: Lean kernel, axioms {propext, Classical.choice, Quot.sound} at most; the correspondence harness; CPython list (EList/EBag are Python lists: for them the specification functions pyInsert/pyPop/... are validated against CPython in the same pass). Element equality is structural in the model, ==/hash in Python.',
  'technique': 'Lean 4 proof (invariant by induction over operations + refinement to a list spec) + exhaustive small-scope differential correspondence',
 },
}
NOT_APPLICABLE = {}
