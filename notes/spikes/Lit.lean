/-! spike: literal fuel-indexed interpreter of the EValue._set handshake (1-1 / 1-n), refinement to net effect -/
namespace Sp
abbrev Oid := Nat
abbrev Fid := Nat
structure Feature where
  many : Bool
  opp : Option Fid
structure MM where
  feat : Fid → Feature
inductive Err | badValue | keyError | recursion
deriving DecidableEq, Repr
structure St where
  slot : Oid → Fid → List Oid
  log : List (Oid × Fid × List Oid × List Oid)

def St.write (s : St) (o : Oid) (f : Fid) (v : List Oid) : St :=
  { s with slot := fun o' f' => if o' = o ∧ f' = f then v else s.slot o' f' }
def St.emit (s : St) (o : Oid) (f : Fid) (old new : List Oid) : St :=
  { s with log := s.log ++ [(o, f, old, new)] }

inductive Call
  | valSet (o : Oid) (f : Fid) (v : Option Oid) (updOpp : Bool)
  | collRemove (o : Oid) (f : Fid) (v : Oid) (updOpp : Bool)
  | collAppend (o : Oid) (f : Fid) (v : Oid) (updOpp : Bool)
  | featSet (o : Oid) (f : Fid) (v : Option Oid)

abbrev R := St × Except Err Unit

@[inline] def andThen (r : R) (k : St → R) : R :=
  match r with
  | (s, .ok _) => k s
  | (s, .error e) => (s, .error e)

def exec (mm : MM) : Nat → Call → St → R
  | 0, _, s => (s, .error .recursion)
  | n+1, .featSet o f v, s =>
      if (mm.feat f).many then (s, .error .badValue) else exec mm n (.valSet o f v true) s
  | n+1, .valSet o f v updOpp, s =>
      let prev := s.slot o f
      let s := (s.write o f v.toList).emit o f prev v.toList
      if !updOpp then (s, .ok ()) else
      match (mm.feat f).opp with
      | none => (s, .ok ())
      | some g =>
        match v with
        | none =>
          match prev with
          | [] => (s, .ok ())
          | p :: _ =>
            if (mm.feat g).many then exec mm n (.collRemove p g o false) s
            else exec mm n (.featSet p g none) s
        | some y =>
          if (mm.feat g).many then exec mm n (.collAppend y g o false) s
          else exec mm n (.valSet y g (some o) false) s
  | _+1, .collRemove o f v _, s =>
      if v ∈ s.slot o f then (((s.write o f ((s.slot o f).erase v)).emit o f [v] []), .ok ())
      else (s, .error .keyError)
  | _+1, .collAppend o f v _, s =>
      if v ∈ s.slot o f then (s.emit o f [] [v], .ok ())
      else ((s.write o f (s.slot o f ++ [v])).emit o f [] [v], .ok ())

/-- net effect of `x.f = some y` for a 1-1 pair when both ends are free -/
theorem valSet_free (mm : MM) (f g : Fid) (hf : (mm.feat f).opp = some g) (hg1 : (mm.feat g).many = false)
    (s : St) (x y : Oid) (n : Nat) (hn : 2 ≤ n) :
    (exec mm n (.valSet x f (some y) true) s).2 = .ok () ∧
    (exec mm n (.valSet x f (some y) true) s).1.slot =
      fun o' f' => if o' = y ∧ f' = g then [x] else if o' = x ∧ f' = f then [y] else s.slot o' f' := by
  obtain ⟨n, rfl⟩ : ∃ m, n = m + 2 := ⟨n - 2, by omega⟩
  simp [exec, hf, hg1, St.write, St.emit]

end Sp
