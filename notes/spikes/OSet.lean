/-! spike: OrderedSet model (items + position map as assoc list), fixed pop -/
namespace Sp

structure OSet (α : Type) where
  items : List α
  map   : List (α × Nat)      -- python dict, insertion ordered
deriving Repr

variable {α : Type} [DecidableEq α]

def lookup (m : List (α × Nat)) (k : α) : Option Nat :=
  match m with
  | [] => none
  | (k', v) :: t => if k' = k then some v else lookup t k

def OSet.contains (s : OSet α) (k : α) : Bool := (lookup s.map k).isSome

/-- python list.insert index clamping -/
def clampIns (n : Nat) (i : Int) : Nat :=
  if i < 0 then (if (n : Int) + i > 0 then ((n : Int) + i).toNat else 0)
  else (if i < n then i.toNat else n)

def listInsert (l : List α) (i : Nat) (x : α) : List α := l.take i ++ x :: l.drop i

/-- patched insert -/
def OSet.insert (s : OSet α) (index : Int) (key : α) : OSet α :=
  if s.contains key then s else
    let idx := clampIns s.items.length index
    { items := listInsert s.items idx key,
      map := (s.map.map fun (k, v) => if v ≥ idx then (k, v + 1) else (k, v)) ++ [(key, idx)] }

def MapOK (s : OSet α) : Prop :=
  s.items.Nodup ∧ ∀ k i, lookup s.map k = some i ↔ s.items[i]? = some k

theorem lookup_map_shift (m : List (α × Nat)) (idx : Nat) (k : α) :
    lookup (m.map fun (k, v) => if v ≥ idx then (k, v + 1) else (k, v)) k
      = (lookup m k).map (fun v => if v ≥ idx then v + 1 else v) := by
  induction m with
  | nil => simp [lookup]
  | cons h t ih =>
    obtain ⟨k', v⟩ := h
    simp only [List.map_cons, lookup]
    by_cases hk : k' = k
    · subst hk; split <;> simp [lookup] <;> omega
    · split <;> simp [lookup, hk, ih]

theorem lookup_append (m : List (α × Nat)) (k k' : α) (v : Nat) :
    lookup (m ++ [(k', v)]) k = match lookup m k with
      | some x => some x
      | none => if k' = k then some v else none := by
  induction m with
  | nil => simp [lookup]
  | cons h t ih =>
    obtain ⟨k2, v2⟩ := h
    simp only [List.cons_append, lookup]
    split <;> simp_all

theorem getElem?_listInsert (l : List α) (idx : Nat) (x : α) (h : idx ≤ l.length) (i : Nat) :
    (listInsert l idx x)[i]? = if i < idx then l[i]? else if i = idx then some x else l[i-1]? := by
  unfold listInsert
  rw [List.getElem?_append]
  simp only [List.length_take, Nat.min_eq_left h]
  split
  · rw [List.getElem?_take]; simp [*]
  · rename_i hlt
    split
    · rename_i heq; subst heq; simp
    · rename_i hne
      have : i - idx = (i - idx - 1) + 1 := by omega
      rw [this, List.getElem?_cons_succ, List.getElem?_drop]
      congr 1; omega


theorem insert_mapOK (s : OSet α) (index : Int) (key : α) (h : MapOK s) : MapOK (s.insert index key) := by
  unfold OSet.insert
  split
  · exact h
  · rename_i hc
    have hnot : lookup s.map key = none := by
      simpa [OSet.contains] using hc
    have hkey : key ∉ s.items := by
      intro hmem
      obtain ⟨i, hi, hget⟩ := List.getElem_of_mem hmem
      have := (h.2 key i).2 (by simp [hget, hi])
      simp [hnot] at this
    have hidx : clampIns s.items.length index ≤ s.items.length := by
      unfold clampIns; split <;> split <;> omega
    constructor
    · -- nodup
      simp only [listInsert]
      have hnd := h.1
      rw [← List.take_append_drop (clampIns s.items.length index) s.items] at hnd hkey
      rw [List.nodup_append] at hnd ⊢
      simp only [List.mem_append, not_or] at hkey
      refine ⟨hnd.1, ?_, ?_⟩
      · exact List.nodup_cons.2 ⟨hkey.2, hnd.2.1⟩
      · intro a ha b hb
        rcases List.mem_cons.1 hb with rfl | hb
        · intro hab; subst hab; exact hkey.1 ha
        · exact hnd.2.2 a ha b hb
    · intro k i
      simp only
      rw [lookup_append, lookup_map_shift, getElem?_listInsert _ _ _ hidx]
      have hk := h.2 k
      generalize hI : clampIns s.items.length index = I at *
      cases hl : lookup s.map k with
      | some j =>
        have hj := (hk j).1 hl
        have hjlt : j < s.items.length := by
          rcases Nat.lt_or_ge j s.items.length with h' | h'
          · exact h'
          · rw [List.getElem?_eq_none h'] at hj; cases hj
        have hkne : k ≠ key := by rintro rfl; rw [hnot] at hl; cases hl
        simp only [Option.map_some]
        constructor
        · intro he
          simp only [Option.some.injEq] at he
          subst he
          split
          · rename_i hge
            have h1 : ¬ (j + 1 < I) := by omega
            have h2 : ¬ (j + 1 = I) := by omega
            simp [h1, h2, hj]
          · rename_i hlt
            have h1 : j < I := by omega
            simp [h1, hj]
        · intro hget
          -- uniqueness of position via nodup
          have huniq : ∀ a : Nat, s.items[a]? = some k → a = j := by
            intro a ha
            have := (hk a).2 ha
            rw [hl] at this; cases this; rfl
          split at hget
          · rename_i hlt
            have := huniq i hget; subst this
            have : ¬ (i ≥ I) := by omega
            simp [this]
          · split at hget
            · cases hget; exact absurd rfl hkne
            · rename_i hnlt hne
              have := huniq (i-1) hget
              have : j ≥ I := by omega
              simp [this]; omega
      | none =>
        simp only [Option.map_none]
        have hnone : ∀ a : Nat, s.items[a]? ≠ some k := by
          intro a ha; have := (hk a).2 ha; rw [hl] at this; cases this
        split
        · rename_i heq
          subst heq
          constructor
          · intro he; cases he
            simp
          · intro hget
            split at hget
            · exact absurd hget (hnone _)
            · split at hget
              · rename_i h2; subst h2; rfl
              · exact absurd hget (hnone _)
        · rename_i hne
          constructor
          · intro he; cases he
          · intro hget
            split at hget
            · exact absurd hget (hnone _)
            · split at hget
              · cases hget; exact absurd rfl hne
              · exact absurd hget (hnone _)

end Sp
