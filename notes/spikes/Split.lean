/-! spike: python str.split() / ' '.join round trip on List Char -/
namespace Sp

variable (ws : Char → Bool)

/-- python `s.split()` : maximal runs of non-whitespace -/
def splitAux : List Char → List Char → List (List Char)
  | [], cur => if cur.isEmpty then [] else [cur.reverse]
  | c :: cs, cur =>
    if ws c then (if cur.isEmpty then splitAux cs [] else cur.reverse :: splitAux cs [])
    else splitAux cs (c :: cur)

def split (s : List Char) : List (List Char) := splitAux ws s []

def join : List (List Char) → List Char
  | [] => []
  | [x] => x
  | x :: y :: t => x ++ ' ' :: join (y :: t)

def Word (w : List Char) : Prop := w ≠ [] ∧ ∀ c ∈ w, ws c = false

theorem splitAux_word (w rest cur : List Char) (hw : ∀ c ∈ w, ws c = false) :
    splitAux ws (w ++ rest) cur = splitAux ws rest (w.reverse ++ cur) := by
  induction w generalizing cur with
  | nil => simp
  | cons c cs ih =>
    have hc : ws c = false := hw c (by simp)
    have hcs : ∀ c ∈ cs, ws c = false := fun c h => hw c (List.mem_cons_of_mem _ h)
    simp only [List.cons_append, splitAux, hc]
    have := ih (c :: cur) hcs
    simpa using this

theorem split_join (hsp : ws ' ' = true) (l : List (List Char)) (h : ∀ w ∈ l, Word ws w) :
    split ws (join l) = l := by
  unfold split
  induction l with
  | nil => simp [join, splitAux]
  | cons x t ih =>
    have hx := h x (by simp)
    cases t with
    | nil =>
      simp only [join]
      have := splitAux_word ws x [] [] hx.2
      simp only [List.append_nil] at this
      rw [this]
      simp [splitAux, hx.1]
    | cons y t =>
      simp only [join]
      rw [splitAux_word ws x _ [] hx.2]
      simp only [List.append_nil, splitAux, hsp]
      have : x.reverse.isEmpty = false := by
        cases x with
        | nil => exact absurd rfl hx.1
        | cons a b => simp
      simp only [this, List.reverse_reverse]
      rw [ih (fun w hw => h w (by simp [hw]))]
      simp

end Sp
