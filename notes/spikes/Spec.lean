/-! spike: spec layer — pair primitives preserving Sym and Own -/
namespace SpecSpike
abbrev Oid := Nat
abbrev Fid := Nat
structure Feature where
  many : Bool
  cont : Bool
  opp : Option Fid
structure MM where
  feat : Fid → Feature
def MM.WF (mm : MM) : Prop :=
  (∀ f g, (mm.feat f).opp = some g → (mm.feat g).opp = some f ∧ f ≠ g) ∧
  (∀ f g, (mm.feat f).opp = some g → (mm.feat f).cont = true → (mm.feat g).cont = false ∧ (mm.feat g).many = false)

structure St where
  slot : Oid → Fid → List Oid
  cont : Oid → Option (Oid × Fid)

def Sym (mm : MM) (s : St) : Prop :=
  ∀ f g, (mm.feat f).opp = some g → ∀ x y, y ∈ s.slot x f ↔ x ∈ s.slot y g
def Uniq (s : St) : Prop := ∀ o f, (s.slot o f).Nodup
def Own (mm : MM) (s : St) : Prop :=
  ∀ o p f, s.cont o = some (p, f) ↔ ((mm.feat f).cont = true ∧ o ∈ s.slot p f)

/-- write one slot -/
def St.w (s : St) (o : Oid) (f : Fid) (v : List Oid) : St :=
  { s with slot := fun o' f' => if o' = o ∧ f' = f then v else s.slot o' f' }
def St.setCont (s : St) (o : Oid) (c : Option (Oid × Fid)) : St :=
  { s with cont := fun o' => if o' = o then c else s.cont o' }

@[simp] theorem w_slot (s : St) (o f v o' f') :
    (s.w o f v).slot o' f' = if o' = o ∧ f' = f then v else s.slot o' f' := rfl
@[simp] theorem w_cont (s : St) (o f v) : (s.w o f v).cont = s.cont := rfl
@[simp] theorem setCont_slot (s : St) (o c) : (s.setCont o c).slot = s.slot := rfl
@[simp] theorem setCont_cont (s : St) (o c o') :
    (s.setCont o c).cont o' = if o' = o then c else s.cont o' := rfl

/-- remove the link x -f-> y on both ends, clearing the back-pointer of the contained end -/
def rmPair (mm : MM) (s : St) (x : Oid) (f : Fid) (y : Oid) : St :=
  let s1 := s.w x f ((s.slot x f).erase y)
  let s2 := match (mm.feat f).opp with
    | none => s1
    | some g => s1.w y g ((s1.slot y g).erase x)
  let s3 := if (mm.feat f).cont then s2.setCont y none else s2
  match (mm.feat f).opp with
  | none => s3
  | some g => if (mm.feat g).cont then s3.setCont x none else s3

theorem mem_erase_nodup {l : List Oid} (h : l.Nodup) (a b : Oid) : a ∈ l.erase b ↔ a ∈ l ∧ a ≠ b := by
  rw [List.Nodup.mem_erase_iff h]; constructor <;> (intro ⟨p, q⟩; exact ⟨q, p⟩)

theorem rmPair_slot (mm : MM) (s : St) (x f y) :
    (rmPair mm s x f y).slot =
      match (mm.feat f).opp with
      | none => (s.w x f ((s.slot x f).erase y)).slot
      | some g => ((s.w x f ((s.slot x f).erase y)).w y g (((s.w x f ((s.slot x f).erase y)).slot y g).erase x)).slot := by
  unfold rmPair
  cases (mm.feat f).opp <;> simp only [] <;> (repeat' split) <;> rfl

theorem rmPair_slot_mem (mm : MM) (hwf : mm.WF) (s : St) (hu : Uniq s) (x f y a f' b) :
    b ∈ (rmPair mm s x f y).slot a f' ↔
      b ∈ s.slot a f' ∧ ¬ (a = x ∧ f' = f ∧ b = y) ∧ ¬ ((mm.feat f).opp = some f' ∧ a = y ∧ b = x) := by
  rw [rmPair_slot]
  have e1 := mem_erase_nodup (hu x f) b y
  cases hopp : (mm.feat f).opp with
  | none =>
    simp only [w_slot]
    grind
  | some g =>
    have hne : f ≠ g := (hwf.1 f g hopp).2
    have e2 := mem_erase_nodup (hu y g) b x
    simp only [w_slot]
    grind

theorem rmPair_sym (mm : MM) (hwf : mm.WF) (s : St) (hu : Uniq s) (hs : Sym mm s) (x f y) :
    Sym mm (rmPair mm s x f y) := by
  intro f' g' hfg a b
  rw [rmPair_slot_mem mm hwf s hu, rmPair_slot_mem mm hwf s hu]
  have := hs f' g' hfg a b
  have h1 := hwf.1 f' g' hfg
  have h2 : ∀ g, (mm.feat f).opp = some g → (mm.feat g).opp = some f := fun g h => (hwf.1 f g h).1
  grind


theorem rmPair_cont (mm : MM) (s : St) (x f y o) :
    (rmPair mm s x f y).cont o =
      if (o = y ∧ (mm.feat f).cont = true) ∨ (o = x ∧ ∃ g, (mm.feat f).opp = some g ∧ (mm.feat g).cont = true)
      then none else s.cont o := by
  unfold rmPair
  cases hopp : (mm.feat f).opp with
  | none => simp only []; split <;> simp_all
  | some g => simp only []; split <;> split <;> simp_all <;> grind

theorem rmPair_own (mm : MM) (hwf : mm.WF) (s : St) (hu : Uniq s) (hs : Sym mm s) (ho : Own mm s)
    (x f y) (hxy : y ∈ s.slot x f) : Own mm (rmPair mm s x f y) := by
  intro o p f'
  rw [rmPair_cont, rmPair_slot_mem mm hwf s hu]
  have h0 := ho o p f'
  have hy := ho y x f
  have hwf2 := hwf.2 f
  have hwf1 := hwf.1 f
  -- an object has one container: cont is a function
  have hfun : ∀ o p1 f1 p2 f2, s.cont o = some (p1, f1) → s.cont o = some (p2, f2) → p1 = p2 ∧ f1 = f2 := by
    intro o p1 f1 p2 f2 h1 h2; rw [h1] at h2; cases h2; exact ⟨rfl, rfl⟩
  split
  · rename_i hc
    constructor
    · intro h; cases h
    · rintro ⟨hcont, hmem, hn1, hn2⟩
      rcases hc with ⟨rfl, hfc⟩ | ⟨rfl, g, hg, hgc⟩
      · -- o = y contained through f in x: its only container link is (x,f)
        have c1 := (ho o x f).2 ⟨hfc, hxy⟩
        have c2 := (ho o p f').2 ⟨hcont, hmem⟩
        have := hfun _ _ _ _ _ c1 c2
        grind
      · -- o = x contained in y through g = opp f
        have hyx : o ∈ s.slot y g := (hs f g hg o y).1 hxy
        have c1 := (ho o y g).2 ⟨hgc, hyx⟩
        have c2 := (ho o p f').2 ⟨hcont, hmem⟩
        have := hfun _ _ _ _ _ c1 c2
        grind
  · rename_i hc
    rw [h0]
    grind

end SpecSpike
