from pyecore.ecore import *
from pyecore.commands import *
from pyecore.notification import EObserver
A = EClass('A')
A.eStructuralFeatures.append(EAttribute('name', EString))
A.eStructuralFeatures.append(EAttribute('vals', EInt, upper=-1, unique=False))
A.eStructuralFeatures.append(EAttribute('uvals', EInt, upper=-1))
A.eStructuralFeatures.append(EReference('refs', A, upper=-1, unique=False))
A.eStructuralFeatures.append(EReference('urefs', A, upper=-1))
A.eStructuralFeatures.append(EReference('ref', A))
a,b,c = A(name='a'),A(name='b'),A(name='c')
log=[]
EObserver(a, notifyChanged=lambda n: log.append((n.kind.name, n.feature.name, n.old, n.new)))
a.vals.extend([1,2,3]); a.vals[1]=9; print(log[-2:]); 
a.vals[0:2]=[]; print(log[-2:], list(a.vals))
a.vals[0:1]=[7]; print(log[-2:], list(a.vals))
del a.vals[0]; print('del', log[-1:], list(a.vals))
a.vals.extend(x for x in [4,5]); print('gen extend', log[-1][0], list(a.vals))
a.uvals.extend(x for x in [4,5]); print('gen update', log[-1][0], list(a.uvals))
a.uvals.add(4); print('dup add', log[-1], list(a.uvals))
# delete with duplicates
a.refs.extend([b,b]); print(b._inverse_rels); b.delete(); print('after delete', list(a.refs))
# stack
s = CommandStack()
s.execute(Set(a,'name','n1')); s.undo(); s.execute(Set(a,'name','n2')); 
try:
    s.redo(); print('redo after new exec ->', a.name, len(s.stack))
except Exception as e: print('redo err', type(e).__name__)
# Add existing to set
a.urefs.append(c)
s = CommandStack(); s.execute(Add(a,'urefs',c)); print(list(a.urefs)); 
try:
    s.undo(); print('undo add dup', list(a.urefs))
except Exception as e: print('undo err', type(e).__name__, list(a.urefs))
# bool
print(EBooleanObject.from_string(True), EBoolean.from_string(True))
