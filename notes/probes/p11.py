from pyecore.ecore import *
from pyecore.resources import ResourceSet, URI
P = EPackage('p', nsURI='http://p', nsPrefix='p')
A = EClass('A'); P.eClassifiers.append(A)
A.eStructuralFeatures.append(EAttribute('name', EString))
A.eStructuralFeatures.append(EReference('kids', A, upper=-1, containment=True))
A.eStructuralFeatures.append(EReference('refs', A, upper=-1))
A.eStructuralFeatures.append(EReference('ref', A))
o = EReference('o', A, upper=-1); oo = EReference('oo', A, upper=-1, eOpposite=o); A.eStructuralFeatures.extend([o,oo])
for ext in ('xmi','json'):
    rs = ResourceSet()
    r1 = rs.create_resource(URI(f'/tmp/probe/d1/a.{ext}')); r2 = rs.create_resource(URI(f'/tmp/probe/d2/sub/b.{ext}'))
    a = A(name='a'); a1=A(name='a1'); a.kids.append(a1); b = A(name='b'); b1=A(name='b1'); b2=A(name='b2'); b.kids.extend([b1,b2])
    r1.append(a); r2.append(b)
    a.refs.extend([b2, a1, b1]); a.ref = b1; b1.ref = a1; a1.o.append(b2)
    r1.save(); r2.save()
    print(open(f'/tmp/probe/d1/a.{ext}').read())
    rs2 = ResourceSet(); rs2.metamodel_registry[P.nsURI]=P
    try:
        la = rs2.get_resource(URI(f'/tmp/probe/d1/a.{ext}')).contents[0]
        print('keys before', list(rs2.resources))
        x = la.ref; print(type(x).__name__, x.name)
        print('keys after', list(rs2.resources))
        lb = [r for k,r in rs2.resources.items() if k.endswith('b.'+ext)][0].contents[0]
        print('refs', [y.name for y in la.refs], 'is', x is lb.kids[0], x == lb.kids[0], hash(x)==hash(lb.kids[0]), lb.kids[0] in la.refs, la.refs.index(lb.kids[0]) if lb.kids[0] in la.refs else None)
        print('back', lb.kids[0].ref.name, lb.kids[0].ref == la.kids[0], [z.name for z in lb.kids[1].oo], [z.name for z in la.kids[0].o])
    except Exception as e:
        import traceback; traceback.print_exc()
