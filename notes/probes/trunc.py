import sys, os, signal, collections
from pyecore.ecore import *
from pyecore.resources import ResourceSet, URI
import pyecore.resources.resource as R
P = EPackage('p', nsURI='http://p', nsPrefix='p')
A = EClass('A'); P.eClassifiers.append(A)
A.eStructuralFeatures.append(EAttribute('name', EString))
A.eStructuralFeatures.append(EAttribute('n', EInt))
A.eStructuralFeatures.append(EReference('kids', A, upper=-1, containment=True))
A.eStructuralFeatures.append(EReference('refs', A, upper=-1))
A.eStructuralFeatures.append(EReference('par', A, eOpposite=A.findEStructuralFeature('kids')))
root=A(name='root', n=3); ks=[A(name=f'k{i}', n=i) for i in range(3)]; root.kids.extend(ks); ks[0].refs.extend([ks[1],ks[2]]); ks[2].kids.append(A(name='g')); ks[1].refs.append(ks[2].kids[0])
for ext in ('xmi','json'):
    rs=ResourceSet(); res=rs.create_resource(URI(f'/tmp/probe/fz/t.{ext}')); res.append(root); res.save(); res.remove(root)
    data=open(f'/tmp/probe/fz/t.{ext}','rb').read()
    stats=collections.Counter()
    def handler(s,f): raise TimeoutError()
    signal.signal(signal.SIGALRM, handler)
    for cut in range(len(data)+1):
        open(f'/tmp/probe/fz/c.{ext}','wb').write(data[:cut])
        rs2=ResourceSet(); rs2.metamodel_registry[P.nsURI]=P
        g0=dict(R.global_registry); 
        signal.alarm(5)
        try:
            r=rs2.get_resource(URI(f'/tmp/probe/fz/c.{ext}')); signal.alarm(0)
            stats['ok']+=1
            n=len(list(r.contents[0].eAllContents())) if r.contents else -1
            stats[f'ok_n{n}']+=1
            assert rs2.get_resource(URI(f'/tmp/probe/fz/c.{ext}')) is r
        except TimeoutError: stats['HANG']+=1
        except Exception as e:
            signal.alarm(0); stats['err:'+type(e).__name__]+=1
            if rs2.resources: stats['LEFTOVER']+=1; print(cut, rs2.resources)
        if dict(R.global_registry)!=g0: stats['GLOBAL_CHANGED']+=1
    print(ext, len(data), dict(stats))
