from pyecore.ecore import *
from pyecore.resources import ResourceSet, URI
from pyecore.resources.xmi import XMIResource
import datetime, decimal
# C15 defaults / privacy
A = EClass('A')
A.eStructuralFeatures.append(EAttribute('m', EStringToStringMapEntry))
A.eStructuralFeatures.append(EAttribute('i', EInt))
A.eStructuralFeatures.append(EAttribute('io', EIntegerObject))
A.eStructuralFeatures.append(EAttribute('lit', EInt, defaultValueLiteral='42'))
A.eStructuralFeatures.append(EAttribute('dv', EInt, default_value=7))
L = EDataType('L', instanceClassName='java.util.List')
A.eStructuralFeatures.append(EAttribute('l', L))
A.eStructuralFeatures.append(EAttribute('ld', L, default_value=[1]))
A.eStructuralFeatures.append(EAttribute('b', EBoolean))
A.eStructuralFeatures.append(EAttribute('d', EDate))
a1,a2=A(),A()
print(a1.i,a1.io,a1.lit,a1.dv,a1.l,a1.ld,a1.b,a1.m, a1.eIsSet('i'), len(a1._isset))
a1.m['k']='v'; a1.l.append(1); a1.ld.append(2)
print('a2 after a1 mutation:', a2.m, a2.l, a2.ld, 'a3:', A().ld)
a1.i = 5; del a1.i; print('del i ->', a1.i, a1.eIsSet('i'))
a1.lit = 5; del a1.lit; print('del lit ->', a1.lit, a1.eIsSet('lit'))
# C17
for dt, v in [(EDate, datetime.datetime(2020,1,2,3,4,5)), (EDate, datetime.datetime(2020,1,2,3,4,5,123, tzinfo=datetime.timezone(datetime.timedelta(hours=2)))),
              (EDate, datetime.datetime(2020,1,2,3,4,5, tzinfo=datetime.timezone(datetime.timedelta(hours=-2, seconds=30)))),
              (EDate, datetime.datetime(999,1,2,3,4,5)),
              (EDouble, float('inf')), (EDouble, 1e-320), (EDouble, float('nan')), (EBigDecimal, decimal.Decimal('1E+400')), (EBigDecimal, decimal.Decimal('NaN')),
              (EBoolean, True), (EBooleanObject, False), (EChar, ' '), (EString, ''), (EInt, -0), (EBigInteger, 10**50), (EByte, b'ab'), (EByteArray, bytearray(b'xy')), (EJavaObject, 3)]:
    try:
        s = dt.to_string(v); r = dt.from_string(s); print(dt.name, repr(v), '->', repr(s), '->', repr(r), r == v and type(r) is type(v))
    except Exception as e: print(dt.name, repr(v), 'ERR', type(e).__name__, e)
