"""throwaway round-trip fuzzer (design reconnaissance): XMI + JSON"""
import random, sys, os, traceback, collections, datetime, decimal
from pyecore.ecore import *
from pyecore.resources import ResourceSet, URI
from pyecore.resources.xmi import XMIOptions
from pyecore.resources.json import JsonResource, JsonOptions

DTS = [EString, EInt, EBoolean, EDouble, EBooleanObject, EIntegerObject, ELong, EBigInteger, EChar, EDate, EBigDecimal, EFloat]
STRS = ['', ' ', 'a', 'a b', ' lead', 'trail ', 'x\ty', 'l1\nl2', '<&>"\'', 'é', '\U0001F600', '[]', '#//@x.0', 'None', 'true']
def val(rng, dt, E):
    if dt is E: return rng.choice(list(E.eLiterals))
    if dt in (EString,): return rng.choice(STRS)
    if dt is EChar: return rng.choice(['a',' ','\n','é'])
    if dt in (EInt, EIntegerObject, ELong, EBigInteger): return rng.choice([0,1,-1,2**31,-2**63,10**30, 7])
    if dt in (EBoolean, EBooleanObject): return rng.choice([True, False])
    if dt in (EDouble, EFloat): return rng.choice([0.0,-0.0,1.5,1e300,1e-320,float('inf'),-float('inf'),0.1])
    if dt is EDate: return rng.choice([datetime.datetime(2020,1,2,3,4,5), datetime.datetime(1000,1,1), datetime.datetime(2021,12,31,23,59,59,999999, tzinfo=datetime.timezone(datetime.timedelta(hours=5,minutes=30)))])
    if dt is EBigDecimal: return rng.choice([decimal.Decimal('0'), decimal.Decimal('1.50'), decimal.Decimal('-1E+30'), decimal.Decimal('1E-30')])
    raise Exception(dt)

def gen_mm(rng, k):
    P = EPackage(f'p{k}', nsURI=f'http://p{k}', nsPrefix=f'p{k}')
    E = EEnum('E', literals=['l0','l1','l2']); P.eClassifiers.append(E)
    n = rng.randint(2,4)
    classes=[]
    for i in range(n):
        supers = tuple(rng.sample(classes, rng.randint(0,min(2,len(classes))))) if classes and rng.random()<0.5 else ()
        try:
            c = EClass(f'C{i}', superclass=supers, abstract=(rng.random()<0.15 and i>0))
        except Exception:
            c = EClass(f'C{i}')
        classes.append(c); P.eClassifiers.append(c)
    fid=0
    for c in classes:
        for _ in range(rng.randint(1,3)):
            dt = rng.choice(DTS+[E]); many = rng.random()<0.4
            kw={}
            if rng.random()<0.3 and not many:
                if dt is E: kw['default_value']=rng.choice(list(E.eLiterals))
                elif dt is not EDate and dt is not EBigDecimal: kw['default_value']=val(rng,dt,E)
            a = EAttribute(f'a{fid}', dt, upper=-1 if many else 1, unique=rng.random()<0.5, ordered=rng.random()<0.8, **kw); fid+=1
            c.eStructuralFeatures.append(a)
        if rng.random()<0.3:
            c.eStructuralFeatures.append(EAttribute(f'id{fid}', EString, iD=True)); fid+=1
    # references
    for c in classes:
        for _ in range(rng.randint(1,3)):
            t = rng.choice(classes); many = rng.random()<0.6; cont = rng.random()<0.45
            opp = rng.random()<0.4
            r = EReference(f'r{fid}', t, upper=-1 if many else 1, containment=cont, unique=True if (cont or opp) else rng.random()<0.7, ordered=rng.random()<0.8); fid+=1
            c.eStructuralFeatures.append(r)
            if opp:
                omany = (not cont) and rng.random()<0.5
                q = EReference(f'r{fid}', c, upper=-1 if omany else 1, eOpposite=r); fid+=1
                t.eStructuralFeatures.append(q)
    return P, classes, E

def gen_model(rng, classes, E, nobj):
    concrete=[c for c in classes if not c.abstract]
    objs=[rng.choice(concrete)() for _ in range(nobj)]
    for i,o in enumerate(objs): o._n=i
    def ancestors(o):
        while o is not None: yield o; o=o.eContainer()
    for o in objs:
        for f in o.eClass.eAllStructuralFeatures():
            if rng.random()<0.35: continue
            if f.is_attribute:
                dt=f._eType
                if f.many:
                    vs=[val(rng,dt,E) for _ in range(rng.randint(0,3))]
                    try: o.eGet(f).extend(vs)
                    except Exception as e: pass
                    if rng.random()<0.15: o.eGet(f).clear()
                else:
                    v = None if rng.random()<0.1 else val(rng,dt,E)
                    o.eSet(f, v)
            else:
                cands=[x for x in objs if isinstance(x, f._eType.python_class)]
                if f.containment or (f.eOpposite and f.eOpposite.containment):
                    continue
                if not cands: continue
                if f.many:
                    for x in rng.sample(cands, min(len(cands), rng.randint(0,3))):
                        o.eGet(f).append(x)
                else: o.eSet(f, rng.choice(cands))
    # containment: build forest
    for o in objs[1:]:
        if rng.random()<0.8:
            parents=[(p,f) for p in objs for f in sorted(p.eClass.eAllReferences(), key=lambda f: f.name) if f.containment and isinstance(o, f._eType.python_class) and p not in set(ancestors_of(o, objs)) and o not in list(ancestors(p))]
            if parents:
                p,f=rng.choice(parents)
                if f.many: p.eGet(f).append(o)
                elif p.eGet(f) is None: p.eSet(f,o)
    return objs
def ancestors_of(o, objs): return []

def dump(roots):
    ids={}
    order=[]
    def walk(o):
        ids[id(o)]=len(order); order.append(o)
        feats=sorted([f for f in o.eClass.eAllReferences() if f.containment and not f.derived], key=lambda f:f.name)
        for f in feats:
            v=o.eGet(f)
            for c in (v if f.many else ([v] if v is not None else [])): walk(c)
    for r in roots: walk(r)
    out=[]
    for o in order:
        rec=[o.eClass.name]
        for f in sorted(o.eClass.eAllStructuralFeatures(), key=lambda f:f.name):
            if f.derived: continue
            v=o.eGet(f)
            if f.is_attribute:
                def cv(x):
                    if isinstance(x, EEnumLiteral): return ('lit', x.name)
                    if isinstance(x,float): return ('f', repr(x))
                    return (type(x).__name__, x)
                rec.append((f.name, [cv(x) for x in v] if f.many else cv(v)))
            else:
                def rf(x):
                    if x is None: return None
                    try: x = x.force_resolve() if hasattr(x,'force_resolve') else x
                    except Exception as e: return 'UNRESOLVED'
                    return ids.get(id(x), 'EXT')
                rec.append((f.name, [rf(x) for x in v] if f.many else rf(v)))
        out.append(tuple(rec))
    return out

def main(seed, n, ext):
    rng=random.Random(seed); stats=collections.Counter(); fails=collections.defaultdict(list)
    for k in range(n):
        P,classes,E=gen_mm(rng,k)
        objs=gen_model(rng,classes,E,rng.randint(2,8))
        roots=[o for o in objs if o.eContainer() is None]
        if rng.random()<0.7: # single root: wrap? just keep first root and drop others' refs... simply use all roots
            pass
        uu = rng.random()<0.3; sd = rng.random()<0.3
        rs=ResourceSet(); path=f'/tmp/probe/fz/m{seed}_{k}.{ext}'
        res=rs.create_resource(URI(path), use_uuid=uu)
        for r in roots: res.append(r)
        before=dump(roots)
        try:
            opts=None
            if sd: opts={XMIOptions.SERIALIZE_DEFAULT_VALUES:True} if ext=='xmi' else {JsonOptions.SERIALIZE_DEFAULT_VALUES:True}
            res.save(options=opts)
        except Exception as e:
            stats['save_err']+=1; fails['save:'+type(e).__name__+':'+str(e)[:60]].append(k); continue
        rs2=ResourceSet(); rs2.metamodel_registry[P.nsURI]=P
        try:
            r2=rs2.get_resource(URI(path))
            after=dump(r2.contents)
        except Exception as e:
            stats['load_err']+=1; tb=traceback.extract_tb(e.__traceback__)[-1]; fails[f'load:{type(e).__name__}:{str(e)[:50]}@{tb.name}'].append(k); continue
        if before==after: stats['ok']+=1
        else:
            stats['diff']+=1
            # classify first diff
            why='len' if len(before)!=len(after) else None
            if not why:
                for b,a in zip(before,after):
                    if b!=a:
                        if b[0]!=a[0]: why='class'; break
                        for fb,fa in zip(b[1:],a[1:]):
                            if fb!=fa: why=f'{fb} -> {fa}'; break
                        break
            fails['diff:'+str(why)[:110]].append(k)
        os.remove(path)
    print(ext, dict(stats))
    for k,v in sorted(fails.items(), key=lambda kv:-len(kv[1]))[:40]: print(len(v), k, v[:3])
main(int(sys.argv[1]), int(sys.argv[2]), sys.argv[3])
