from pyecore.ecore import *
from pyecore.resources import ResourceSet, URI
P = EPackage('p', nsURI='http://p', nsPrefix='p')
A = EClass('A'); P.eClassifiers.append(A)
A.eStructuralFeatures.append(EAttribute('name', EString))
A.eStructuralFeatures.append(EReference('ref', A))
A.eStructuralFeatures.append(EReference('ref2', A))
base='/tmp/probe/c14'
rs=ResourceSet()
b1=A(name='b-in-common'); b2=A(name='b-in-d2-common'); a=A(name='a'); c=A(name='c')
r_b1=rs.create_resource(URI(f'{base}/common/b.xmi')); r_b1.append(b1)
r_b2=rs.create_resource(URI(f'{base}/d2/common/b.xmi')); r_b2.append(b2)
r_a=rs.create_resource(URI(f'{base}/d1/a.xmi')); r_a.append(a)
r_c=rs.create_resource(URI(f'{base}/d2/sub/c.xmi')); r_c.append(c)
a.ref=b1; c.ref=b2; a.ref2=c
for r in (r_b1,r_b2,r_a,r_c): r.save()
print(open(f'{base}/d1/a.xmi').read()); print(open(f'{base}/d2/sub/c.xmi').read())
rs2=ResourceSet(); rs2.metamodel_registry[P.nsURI]=P
la=rs2.get_resource(URI(f'{base}/d1/a.xmi')).contents[0]
print('a.ref ->', la.ref.name)
print('a.ref2 ->', la.ref2.name, ' c.ref ->', la.ref2.ref.name)
print(list(rs2.resources))
