from pyecore.ecore import *
from pyecore.notification import EObserver
import sys, types
# static rendering
mod = types.ModuleType('smm'); sys.modules['smm']=mod
src = '''
from pyecore.ecore import *
name='smm'; nsURI='http://smm'; nsPrefix='smm'
eClass = EPackage(name=name, nsURI=nsURI, nsPrefix=nsPrefix)
eClassifiers = {}
getEClassifier = lambda n: eClassifiers.get(n)
Color = EEnum('Color', literals=['R','G'])
class Base(EObject, metaclass=MetaEClass):
    name = EAttribute(eType=EString)
    tags = EAttribute(eType=EString, upper=-1, unique=False)
    def __init__(self, name=None, **kw):
        super().__init__(**kw)
        if name is not None: self.name = name
    def hello(self, x, y=2): return x
@abstract
class Abs(Base):
    n = EAttribute(eType=EInt, default_value=5)
    def __init__(self, **kw): super().__init__(**kw)
class Node(Abs):
    color = EAttribute(eType=Color)
    kids = EReference(upper=-1, containment=True)
    parent = EReference()
    ref = EReference()
    def __init__(self, **kw): super().__init__(**kw)
Node.kids.eType = Node; Node.parent.eType = Node; Node.ref.eType = Base
Node.parent.eOpposite = Node.kids
'''
exec(src, mod.__dict__)
S = mod
# dynamic rendering
Color = EEnum('Color', literals=['R','G'])
Base = EClass('Base'); Base.eStructuralFeatures.append(EAttribute('name', EString)); Base.eStructuralFeatures.append(EAttribute('tags', EString, upper=-1, unique=False))
Base.eOperations.append(EOperation('hello', params=[EParameter('x', required=True), EParameter('y')]))
Abs = EClass('Abs', superclass=Base, abstract=True); Abs.eStructuralFeatures.append(EAttribute('n', EInt, default_value=5))
Node = EClass('Node', superclass=Abs); Node.eStructuralFeatures.append(EAttribute('color', Color))
kids = EReference('kids', Node, upper=-1, containment=True); parent = EReference('parent', Node, eOpposite=kids); Node.eStructuralFeatures.extend([kids, parent, EReference('ref', Base)])
def desc(ec):
    return (ec.name, ec.abstract, [s.name for s in ec.eSuperTypes], [(f.name, type(f).__name__, f.eType.name if f.eType else None, f.lowerBound, f.upperBound, f.ordered, f.unique, getattr(f,'containment',None), f.eOpposite.name if getattr(f,'eOpposite',None) else None, getattr(f,'default_value',None) if f.is_attribute else None) for f in ec.eStructuralFeatures], [(o.name, [(p.name,p.required) for p in o.eParameters]) for o in ec.eOperations])
for a,b in [(S.Base.eClass, Base), (S.Abs.eClass, Abs), (S.Node.eClass, Node)]:
    da, db = desc(a), desc(b); print(da==db); 
    if da!=db: print(' S', da); print(' D', db)
def run(N, B, tag):
    log=[]
    out=[]
    def t(f):
        try: out.append(repr(f()))
        except Exception as e: out.append(type(e).__name__)
    n1=N(); n2=N(); b=B()
    EObserver(n1, notifyChanged=lambda n: log.append((n.kind.name, n.feature.name)))
    t(lambda: n1.n); t(lambda: n1.color); t(lambda: setattr(n1,'color','G')); t(lambda: n1.color); t(lambda: setattr(n1,'n','x'))
    t(lambda: n1.kids.append(n2)); t(lambda: n2.parent is n1); t(lambda: setattr(n1,'ref',b)); t(lambda: n1.kids.append(b)); t(lambda: n1.eIsSet('n')); t(lambda: sorted(dir(n1)))
    t(lambda: n1.hello(1)); t(lambda: isinstance(n1, B)); t(lambda: n1.eClass.eAllSuperTypes())
    t(lambda: N(name='zz').name); t(lambda: N(bogus=1))
    return out, log
ra = run(S.Node, S.Base, 's'); rb = run(Node, Base, 'd')
for x,y in zip(ra[0], rb[0]):
    print('==' if x==y else '!!', x[:90], '|', y[:90])
print(ra[1]==rb[1], ra[1], rb[1])
try: S.Abs()
except Exception as e: print('S abs', type(e).__name__)
try: Abs()
except Exception as e: print('D abs', type(e).__name__)
