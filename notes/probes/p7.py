from pyecore.ecore import *
from pyecore.resources import ResourceSet, URI
from pyecore.resources.xmi import XMIResource
import inspect
# C12
A = EClass('A'); B = EClass('B'); C = EClass('C', superclass=(A,)); D = EClass('D', superclass=(B,C))
A.eStructuralFeatures.append(EAttribute('x', EInt, default_value=3))
d = D(); print(d.x, isinstance(d, A), isinstance(d,B), EcoreUtils.isinstance(d, A))
B.eStructuralFeatures.append(EAttribute('y', EString)); print(d.y, dir(d))
A.eStructuralFeatures.remove(A.findEStructuralFeature('x'))
try: print('after remove x:', d.x)
except AttributeError as e: print('removed ok', e)
print(dir(d), d.__dict__.keys())
C.eSuperTypes.remove(A); print(isinstance(d, A), D.eAllSuperTypes())
# MRO conflict: X(A,B), Y(B,A), Z(X,Y)
A = EClass('A'); B = EClass('B'); X = EClass('X', superclass=(A,B)); Y = EClass('Y', superclass=(B,A))
try:
    Z = EClass('Z', superclass=(X,Y)); z=Z(); print('Z ok', isinstance(z,A), isinstance(z,B), Z.python_class.__mro__)
except Exception as e: print('Z err', type(e).__name__, e)
# order A then sub: E(A, C) where C extends A -> MRO conflict
A = EClass('A'); C = EClass('C', superclass=(A,)); 
try:
    E = EClass('E', superclass=(A,C)); e=E(); print('E ok', isinstance(e,A), isinstance(e,C), E.python_class.__mro__)
except Exception as ex: print('E err', type(ex).__name__, ex)
# upper bound change after creation
F = EClass('F'); f = EAttribute('v', EInt); F.eStructuralFeatures.append(f); i1=F(); print(i1.v); f.upperBound=-1; i2=F(); print(i1.v, i2.v)
# rename feature
f.name='w'; 
try: print(i2.w)
except Exception as ex: print('rename', type(ex).__name__, ex)
# C20
G = EClass('G'); H = EClass('H', superclass=(G,))
op = EOperation('class', params=[EParameter('a', EInt, required=True), EParameter('b', EString), EParameter('c', EInt)])
G.eOperations.append(op); h=H()
print(inspect.signature(h.class_))
try: h.class_(1)
except NotImplementedError as e: print('NIE', e)
G.eOperations.remove(op); print(hasattr(h,'class_'))
op2 = EOperation('foo', params=[EParameter('b', EString), EParameter('a', EInt, required=True)])
try: G.eOperations.append(op2); print(inspect.signature(h.foo))
except Exception as e: print('op2', type(e).__name__, e, G.eOperations)
class S(EObject, metaclass=MetaEClass):
    def m(self, a, b=1, *args, c, **kw): pass
    @staticmethod
    def st(x): pass
    def __dunder__(self): pass
    def _priv(self, z=2): pass
    def noself(this): pass
print([(o.name, [(p.name,p.required) for p in o.eParameters]) for o in S.eClass.eOperations])
