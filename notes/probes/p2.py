from pyecore.ecore import *
def mk(many1, many2, cont=False):
    A = EClass('A'); B = EClass('B')
    A.eStructuralFeatures.append(EAttribute('name', EString))
    B.eStructuralFeatures.append(EAttribute('name', EString))
    r = EReference('r', B, upper=-1 if many1 else 1, containment=cont)
    q = EReference('q', A, upper=-1 if many2 else 1, eOpposite=r)
    A.eStructuralFeatures.append(r); B.eStructuralFeatures.append(q)
    return A,B
def show(objs):
    out=[]
    for o in objs:
        for f in o.eClass.eAllReferences():
            v=o.eGet(f)
            if f.many: v=[x.name for x in v]
            else: v = v.name if v is not None else None
            out.append(f'{o.name}.{f.name}={v}')
    return ' '.join(sorted(out))
for cont in (False, True):
    print('== 1-1 cont', cont)
    A,B = mk(False, False, cont)
    a1,a2=A(name='a1'),A(name='a2'); b1,b2=B(name='b1'),B(name='b2')
    a1.r=b1; print(show([a1,a2,b1,b2]))
    a1.r=b2; print('repoint a1.r=b2:', show([a1,a2,b1,b2]))
    a2.r=b2; print('steal a2.r=b2:', show([a1,a2,b1,b2]))
    print('== 1-n (a.r single, b.q many) cont', cont)
    A,B = mk(False, True, cont)
    a1,a2=A(name='a1'),A(name='a2'); b1,b2=B(name='b1'),B(name='b2')
    a1.r=b1; a2.r=b1; print(show([a1,a2,b1,b2]))
    a1.r=b2; print('repoint a1.r=b2:', show([a1,a2,b1,b2]))
    b1.q.append(a1); print('b1.q.append(a1):', show([a1,a2,b1,b2]))
    print('== n-1 (a.r many, b.q single) cont', cont)
    A,B = mk(True, False, cont)
    a1,a2=A(name='a1'),A(name='a2'); b1,b2=B(name='b1'),B(name='b2')
    a1.r.append(b1); a1.r.append(b2); print(show([a1,a2,b1,b2]))
    a2.r.append(b1); print('steal a2.r.append(b1):', show([a1,a2,b1,b2]))
    b2.q = a2; print('b2.q=a2:', show([a1,a2,b1,b2]))
    print('== n-n cont', cont)
    A,B = mk(True, True, cont)
    a1,a2=A(name='a1'),A(name='a2'); b1,b2=B(name='b1'),B(name='b2')
    a1.r.append(b1); a1.r.append(b2); a2.r.append(b1); print(show([a1,a2,b1,b2]))
    a1.r.remove(b1); print('a1.r.remove(b1):', show([a1,a2,b1,b2]))
    a1.r = [b1]; print('a1.r=[b1]:', show([a1,a2,b1,b2]))
