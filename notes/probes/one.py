import sys, random
sys.argv=['x','1','0','xmi']
exec(open('/tmp/probe/fz/rt.py').read().split("main(int(sys.argv[1])")[0])
def one(seed, target, ext):
    rng=random.Random(seed)
    for k in range(target+1):
        P,classes,E=gen_mm(rng,k)
        objs=gen_model(rng,classes,E,rng.randint(2,8))
        roots=[o for o in objs if o.eContainer() is None]
        _=rng.random(); uu = rng.random()<0.3; sd = rng.random()<0.3
        if k==target: break
    rs=ResourceSet(); path=f'/tmp/probe/fz/one.{ext}'
    res=rs.create_resource(URI(path), use_uuid=uu)
    for r in roots: res.append(r)
    print('uuid',uu,'sd',sd)
    for c in classes:
        print(c.name, [s.name for s in c.eSuperTypes], [(f.name, f.eType.name, f.upperBound, getattr(f,'containment',None), f.eOpposite.name if getattr(f,'eOpposite',None) else None, f.unique) for f in c.eStructuralFeatures if f.is_reference])
    b=dump(roots); print(b)
    opts=None
    if sd: opts={XMIOptions.SERIALIZE_DEFAULT_VALUES:True} if ext=='xmi' else {JsonOptions.SERIALIZE_DEFAULT_VALUES:True}
    res.save(options=opts); print(open(path).read())
    rs2=ResourceSet(); rs2.metamodel_registry[P.nsURI]=P
    r2=rs2.get_resource(URI(path)); print(dump(r2.contents))
one(1, int(sys.argv[1]) if False else 264, 'xmi')
