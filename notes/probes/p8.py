from pyecore.ecore import *
from pyecore.resources import ResourceSet, URI
from pyecore.resources.xmi import XMIResource
import inspect
G = EClass('G'); H = EClass('H', superclass=(G,)); h=H()
op2 = EOperation('foo', params=[EParameter('b', EString), EParameter('a', EInt, required=True)])
try: G.eOperations.append(op2); print(inspect.signature(h.foo))
except Exception as e: print('op2', type(e).__name__, e, G.eOperations)
class S(EObject, metaclass=MetaEClass):
    def m(self, a, b=1, *args, c, **kw): pass
    @staticmethod
    def st(x): pass
    def __dunder__(self): pass
    def _priv(self, z=2): pass
    def noself(this): pass
    def kwonly(self, *, k=1): pass
print([(o.name, [(p.name,p.required) for p in o.eParameters]) for o in S.eClass.eOperations])
# C11 fragments
P = EPackage('p', nsURI='http://p', nsPrefix='p')
A = EClass('A'); P.eClassifiers.append(A)
A.eStructuralFeatures.append(EAttribute('name', EString))
A.eStructuralFeatures.append(EReference('kids', A, upper=-1, containment=True))
A.eStructuralFeatures.append(EReference('kid', A, containment=True))
r = XMIResource(URI('/tmp/probe/x.xmi'))
root=A(name='root'); r.append(root)
ks=[A(name=f'k{i}') for i in range(4)]; root.kids.extend(ks); ks[0].kid=A(name='g'); ks[1].kids.append(A(name='h'))
def chk():
    bad=[]
    for o in [x for rt in r.contents for x in [rt]+list(rt.eAllContents())]:
        f=o.eURIFragment()
        try: got=r.resolve(f)
        except Exception as e: got=e
        if got is not o: bad.append((o.name,f,getattr(got,'name',got)))
    return bad
print(chk()); root.kids.pop(); print('after pop()', chk()); root.kids.insert(0, A(name='n')); print(chk())
r2=A(name='root2'); r.append(r2); print('multi', chk(), root.eURIFragment(), r2.eURIFragment())
r.remove(root); print('after remove root0', chk(), r2.eURIFragment())
# name-based fragments: metamodel
rm = XMIResource(URI('/tmp/probe/m.ecore')); rm.append(P)
B = EClass('A'); P.eClassifiers.append(B)  # duplicate name
print(A.eURIFragment(), B.eURIFragment(), rm.resolve(B.eURIFragment()) is B)
f=A.findEStructuralFeature('kids'); print(f.eURIFragment(), rm.resolve(f.eURIFragment()) is f)
