from pyecore.ecore import *
A = EClass('A')
A.eStructuralFeatures.append(EAttribute('name', EString))
kids = EReference('kids', A, upper=-1, containment=True)
parent = EReference('parent', A, eOpposite=kids)
A.eStructuralFeatures.extend([kids, parent])
p1,p2,c = A(name='p1'),A(name='p2'),A(name='c')
p1.kids.append(c); print(c.parent.name, c.eContainer().name)
c.parent = p2
print('c.parent', c.parent.name if c.parent else None, 'cont', c.eContainer().name if c.eContainer() else None, [k.name for k in p1.kids], [k.name for k in p2.kids])
p1.kids.append(c)
print('c.parent', c.parent.name if c.parent else None, 'cont', c.eContainer().name if c.eContainer() else None, [k.name for k in p1.kids], [k.name for k in p2.kids])
