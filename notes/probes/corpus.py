import glob, os, sys, traceback
from pyecore.ecore import *
from pyecore.resources import ResourceSet, URI
def sig(p, depth=0):
    out=[('pkg', p.name, p.nsURI, p.nsPrefix)]
    for c in p.eClassifiers:
        if isinstance(c, EClass):
            out.append(('class', c.name, c.abstract, bool(c.interface), tuple(getattr(s,'name',None) for s in c.eSuperTypes),
                tuple((type(f).__name__, f.name, getattr(f.eType,'name',None), f.lowerBound, f.upperBound, f.ordered, f.unique, f.derived, f.transient, f.changeable, f.volatile,
                       getattr(f,'containment',None), getattr(getattr(f,'eOpposite',None),'name',None), getattr(f,'iD',None), getattr(f,'defaultValueLiteral',None)) for f in c.eStructuralFeatures),
                tuple((o.name, getattr(o.eType,'name',None), tuple((q.name, getattr(q.eType,'name',None)) for q in o.eParameters)) for o in c.eOperations),
                tuple((a.source, tuple(sorted(a.details.items()))) for a in c.eAnnotations)))
        elif isinstance(c, EEnum): out.append(('enum', c.name, tuple((l.name,l.value) for l in c.eLiterals)))
        else: out.append(('dt', c.name, c.instanceClassName))
    for sp in p.eSubpackages: out.append(sig(sp, depth+1))
    return tuple(out)
ok=bad=0
for f in sorted(glob.glob('/repo/**/*.ecore', recursive=True)):
    try:
        rs=ResourceSet(); r=rs.get_resource(URI(f)); p=r.contents[0]
    except Exception as e:
        print('LOADFAIL', os.path.basename(f), type(e).__name__); continue
    try:
        s1=sig(p)
        out='/tmp/probe/corp_'+os.path.basename(f)
        r2=rs.create_resource(URI(out)); 
        # save via same resource to another path
        r.save(output=URI(out))
        rs2=ResourceSet(); p2=rs2.get_resource(URI(out)).contents[0]
        s2=sig(p2)
        if s1==s2: ok+=1
        else:
            bad+=1
            def flat(t, acc):
                for x in t:
                    if isinstance(x, tuple) and x and x[0] in ('class','enum','dt','pkg'): acc.append(x)
                    elif isinstance(x, tuple): flat(x, acc)
                return acc
            a=flat(s1,[]); b=flat(s2,[])
            for x,y in zip(a,b):
                if x!=y:
                    if x[0]=='class' and y[0]=='class':
                        for i,(u,v) in enumerate(zip(x,y)):
                            if u!=v:
                                if isinstance(u,tuple):
                                    for uu,vv in zip(u,v):
                                        if uu!=vv: print('DIFF', os.path.basename(f), x[1], uu, '->', vv); break
                                    else: print('DIFF', os.path.basename(f), x[1], 'len', len(u), len(v))
                                else: print('DIFF', os.path.basename(f), x[1], i, u, v)
                                break
                    else: print('DIFF', os.path.basename(f), str(x)[:100], '->', str(y)[:100])
                    break
            else: print('DIFF', os.path.basename(f), 'len', len(a), len(b))
    except Exception as e:
        bad+=1; tb=traceback.extract_tb(e.__traceback__)[-1]; print('ERR', os.path.basename(f), type(e).__name__, str(e)[:80], tb.name, tb.lineno)
print(ok, bad)
