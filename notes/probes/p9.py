from pyecore.ecore import *
from pyecore.resources import ResourceSet, URI
from pyecore.resources.json import JsonResource
import os
P = EPackage('p', nsURI='http://p', nsPrefix='p')
A = EClass('A'); B=EClass('B'); P.eClassifiers.extend([A,B])
A.eStructuralFeatures.append(EAttribute('name', EString))
B.eStructuralFeatures.append(EAttribute('name', EString))
A.eStructuralFeatures.append(EAttribute('vals', EInt, upper=-1, unique=False))
A.eStructuralFeatures.append(EAttribute('strs', EString, upper=-1, unique=False))
A.eStructuralFeatures.append(EAttribute('bo', EBooleanObject))
A.eStructuralFeatures.append(EReference('kids', A, upper=-1, containment=True))
A.eStructuralFeatures.append(EReference('bs', B, upper=-1, containment=True))
r = EReference('r', B, upper=-1); q = EReference('q', A, upper=-1, eOpposite=r)
A.eStructuralFeatures.append(r); B.eStructuralFeatures.append(q)
A.eStructuralFeatures.append(EReference('plain', A, upper=-1))
root = A(name='root'); k1=A(name='k1'); k2=A(name='k2'); b1=B(name='b1'); b2=B(name='b2')
root.kids.extend([k1,k2]); root.bs.extend([b1,b2]); k1.r.extend([b1,b2]); k2.r.append(b1); root.plain.extend([k2,k1])
root.vals.append(1); root.vals.clear(); root.strs.extend(['a b','', ' c']); root.bo=True
def dump(o, ind=0):
    print(' '*ind, o.name, 'vals', list(o.vals) if hasattr(o,'vals') else '', 'strs', list(o.strs) if hasattr(o,'strs') else '', 'bo', getattr(o,'bo',None),
          *[f"{f.name}={[getattr(x,'name',x) for x in o.eGet(f)]}" for f in o.eClass.eAllReferences() if f.many and not f.containment])
    for c in o.eContents: dump(c, ind+2)
for ext in ('xmi','json'):
    rs = ResourceSet(); res = rs.create_resource(URI(f'/tmp/probe/m.{ext}')); res.append(root)
    try:
        res.save(); print(open(f'/tmp/probe/m.{ext}').read()[:1500])
        rs2 = ResourceSet(); rs2.metamodel_registry[P.nsURI]=P
        r2 = rs2.get_resource(URI(f'/tmp/probe/m.{ext}')); dump(r2.contents[0])
    except Exception as e:
        import traceback; traceback.print_exc()
    res.remove(root)
