import random, sys, collections, traceback
from pyecore.ecore import *
from pyecore.commands import *
def mk():
    A = EClass('A')
    A.eStructuralFeatures.append(EAttribute('name', EString))
    A.eStructuralFeatures.append(EAttribute('vals', EInt, upper=-1, unique=False))
    A.eStructuralFeatures.append(EAttribute('uvals', EInt, upper=-1))
    kids=EReference('kids', A, upper=-1, containment=True); A.eStructuralFeatures.append(kids)
    A.eStructuralFeatures.append(EReference('parent', A, eOpposite=kids))
    A.eStructuralFeatures.append(EReference('kid', A, containment=True))
    A.eStructuralFeatures.append(EReference('ref', A))
    A.eStructuralFeatures.append(EReference('refs', A, upper=-1))
    A.eStructuralFeatures.append(EReference('brefs', A, upper=-1, unique=False))
    m=EReference('m', A, upper=-1); n=EReference('n', A, upper=-1, eOpposite=m); A.eStructuralFeatures.extend([m,n])
    s=EReference('s', A); t=EReference('t', A, eOpposite=s); A.eStructuralFeatures.extend([s,t])
    return A
def view(objs):
    out=[]
    for o in objs:
        rec=[o.name, o.eContainer().name if o.eContainer() else None, o.eContainmentFeature().name if o.eContainmentFeature() else None]
        for f in sorted(o.eClass.eAllStructuralFeatures(), key=lambda f:f.name):
            v=o.eGet(f)
            if f.is_reference: v=[x.name for x in v] if f.many else (v.name if v is not None else None)
            elif f.many: v=list(v)
            rec.append((f.name,v))
        out.append(tuple(map(str,rec)))
    return out
def anc(o):
    while o is not None: yield o; o=o.eContainer()
def rand_cmd(rng, objs, A):
    o=rng.choice(objs); kind=rng.choice(['Set','Set','Add','Add','Remove','Move','Delete','SetAttr','AddAttr','RemoveIdx'])
    many_refs=['kids','refs','brefs','m','n']; single_refs=['kid','ref','s','t','parent']
    if kind=='Set':
        f=rng.choice(single_refs); v=rng.choice(objs+[None])
        if f in('kid','parent') and v is not None and (o in anc(v) or v in anc(o)): return None
        return Set(o,f,v), ('Set',o.name,f,v.name if v else None)
    if kind=='SetAttr': v=rng.choice(['x','y',None]); return Set(o,'name',v), ('Set',o.name,'name',v)
    if kind=='Add':
        f=rng.choice(many_refs); v=rng.choice(objs); idx=rng.choice([None,None,0,1,-1])
        if f=='kids' and (o in anc(v)): return None
        return Add(o,f,v,index=idx), ('Add',o.name,f,v.name,idx)
    if kind=='AddAttr':
        f=rng.choice(['vals','uvals']); v=rng.randint(0,3); idx=rng.choice([None,0,1]); return Add(o,f,v,index=idx), ('Add',o.name,f,v,idx)
    if kind=='Remove':
        f=rng.choice(many_refs); c=o.eGet(f)
        if not len(c): return None
        v=rng.choice(list(c)); return Remove(o,f,value=v), ('Remove',o.name,f,v.name)
    if kind=='RemoveIdx':
        f=rng.choice(many_refs+['vals','uvals']); c=o.eGet(f)
        if not len(c): return None
        i=rng.randrange(len(c)); return Remove(o,f,index=i), ('RemoveIdx',o.name,f,i)
    if kind=='Move':
        f=rng.choice(many_refs+['vals']); c=o.eGet(f)
        if len(c)<2: return None
        i=rng.randrange(len(c)); j=rng.randrange(len(c)); return Move(o,f,from_index=i,to_index=j), ('Move',o.name,f,i,j)
    if kind=='Delete': return Delete(o), ('Delete',o.name)
def steals(cmd, desc):
    # property's exclusion: value taken away from another container or opposite partner
    k=desc[0]
    if k in('Set','Add') and desc[2] in ('kid','kids','parent','s','t','n','m'):
        return True  # conservatively skip ops on containment/opposite when value has a partner; refine below
    return False
def main(seed, n):
    rng=random.Random(seed); stats=collections.Counter(); bad=collections.defaultdict(list)
    for it in range(n):
        A=mk(); objs=[A(name=f'o{i}') for i in range(5)]
        st=CommandStack()
        for step in range(rng.randint(3,12)):
            r=rng.random()
            if r<0.6:
                rc=rand_cmd(rng,objs,A)
                if not rc: continue
                cmd,desc=rc
                v0=view(objs)
                try:
                    st.execute(cmd)
                except Exception as e:
                    stats['exec_err:'+type(e).__name__]+=1
                    if view(objs)!=v0: bad['exec-raised-but-changed:'+desc[0]+':'+type(e).__name__].append((it,desc))
                    continue
                v1=view(objs); stats['exec:'+desc[0]]+=1
                # immediate undo/redo law
                try:
                    st.undo(); v2=view(objs)
                    if v2!=v0:
                        d=[(a,b) for a,b in zip(v0,v2) if a!=b][:1]
                        bad['undo!=before:'+desc[0]+(':'+str(desc[2]) if len(desc)>2 else '')].append((it,desc,d))
                    st.redo(); v3=view(objs)
                    if v3!=v1: bad['redo!=after:'+desc[0]+(':'+str(desc[2]) if len(desc)>2 else '')].append((it,desc))
                except Exception as e:
                    bad['undo/redo raised:'+desc[0]+(':'+str(desc[2]) if len(desc)>2 else '')+':'+type(e).__name__].append((it,desc)); break
            elif r<0.8:
                try: st.undo(); stats['undo']+=1
                except Exception as e: stats['undo_err:'+type(e).__name__]+=1
            else:
                try: st.redo(); stats['redo']+=1
                except Exception as e: stats['redo_err:'+type(e).__name__]+=1
    print(dict(stats))
    for k,v in sorted(bad.items(), key=lambda kv:-len(kv[1])): print(len(v), k, v[0])
main(int(sys.argv[1]), int(sys.argv[2]))
