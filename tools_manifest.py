#!/usr/bin/env python3
"""Regenerates MANIFEST.json from the table below (keeps it valid at all times)."""
import json, os
HERE = os.path.dirname(os.path.abspath(__file__))
props = [json.loads(l) for l in open(os.path.join(HERE, 'properties.jsonl'))]
from manifest_data import CLAIMED, NOT_APPLICABLE
checks = []
for p in props:
    pid = p['id']
    if pid in CLAIMED:
        c = CLAIMED[pid]
        checks.append({
            'property_id': pid,
            'quick_cmd': f'./check {pid} --tier quick',
            'thorough_cmd': f'./check {pid} --tier thorough',
            'evidence_file': f'evidence/{pid}.json',
            'replay_cmd_template': f'./check {pid} --replay {{path}}',
            'engine': 'lean4-model+correspondence',
            'level_claimed': {'category': 'proof', 'text': c['text'], 'design_ref': c['design_ref']},
            'level_note': c['note'],
            'technique': c['technique'],
        })
na = [{'property_id': p['id'], 'reason': NOT_APPLICABLE.get(p['id'], 'check not built yet in this session; not claimed')}
      for p in props if p['id'] not in CLAIMED]
m = {
    'version': 1,
    'setup_cmd': 'cd lean && lake build PyecoreModel driver',
    'hooks': {'guard': 'PYECORE_VERIF', 'enable': 'no instrumentation is needed: every check observes pyecore through its public API, in-process, from /repo\'s working tree',
              'baseline_off_cmd': 'cd /repo && /venv/bin/python -m pytest -ra -q -p no:cacheprovider --timeout=900 --continue-on-collection-errors',
              'source_commits': [], 'add_only': True},
    'engines': [{'name': 'lean4-model+correspondence', 'path': 'lean/ + harness/ + check',
                 'serves_properties': sorted(CLAIMED),
                 'kind_free_text': 'Lean 4 theorems about a hand-written executable model; model tied to /repo each run by a differential correspondence check (native Lean driver vs real pyecore in-process) and by tables regenerated from the source; independent oracle on the real code for failing-input search and known-finding classification'}],
    'checks': checks,
    'notes': 'See DESIGN.md. fix: commits in /repo are listed in known_findings.json ("fixed").',
    'not_applicable': na,
}
json.dump(m, open(os.path.join(HERE, 'MANIFEST.json'), 'w'), indent=1)
print('claimed', sorted(CLAIMED), 'unclaimed', [x['property_id'] for x in na])
