#!/bin/bash
# usage: tools_try.sh <commit|patch.diff> [--tests] Cxx [Cyy ...]   — run checks against a scratch copy of /repo (development aid)
set -u
what=$1; shift
wt=/tmp/wt_try_$$
if [ -f "$what" ]; then
  git -C /repo worktree add -q --detach $wt HEAD && git -C $wt apply "$(realpath $what)" || { echo "patch failed"; git -C /repo worktree remove --force $wt; exit 2; }
else
  git -C /repo worktree add -q --detach $wt "$what" || exit 2
fi
if [ "${1:-}" = "--tests" ]; then shift; (cd $wt && PYTHONPATH=$wt /venv/bin/python -m pytest -q -p no:cacheprovider -x 2>&1 | tail -1); fi
for p in "$@"; do (cd /verif && VERIF_REPO=$wt ./check $p --tier ${TIER:-quick} 2>&1 | grep -v "^WARNING" | tail -${TAIL:-3}); done
git -C /repo worktree remove --force $wt
