#!/usr/bin/env python3
"""Development aid: apply every seeded change (seeded/<id>/patch.diff) to a scratch worktree of /repo, confirm the suite
still passes and the demo fails, run the property's check against it and record the outcome in seeded/<id>/meta.json."""
import json, os, subprocess, sys
HERE = os.path.dirname(os.path.abspath(__file__))
ids = sys.argv[1:] or sorted(os.listdir(os.path.join(HERE, 'seeded')))
for m in ids:
    d = os.path.join(HERE, 'seeded', m)
    meta = json.load(open(os.path.join(d, 'meta.json')))
    prop = meta['property']
    wt = f'/tmp/wt_seed_{os.getpid()}'
    subprocess.run(['git', '-C', '/repo', 'worktree', 'add', '-q', '--detach', wt, 'HEAD'], check=True)
    try:
        ap = subprocess.run(['git', '-C', wt, 'apply', os.path.join(d, 'patch.diff')])
        if ap.returncode:
            meta['status'] = 'patch no longer applies'
            print(m, meta['status']); continue
        meta.pop('status', None)
        env = dict(os.environ, PYTHONPATH=wt)
        t = subprocess.run(['/venv/bin/python', '-m', 'pytest', '-q', '-p', 'no:cacheprovider', '-x'], cwd=wt, env=env, capture_output=True, text=True)
        meta['suite_with_change'] = t.stdout.strip().splitlines()[-1] if t.stdout.strip() else 'no output'
        demo = subprocess.run(['/venv/bin/python', os.path.join(d, 'demo.py')], env=env, capture_output=True, text=True, cwd='/tmp')
        clean = subprocess.run(['/venv/bin/python', os.path.join(d, 'demo.py')], env=dict(os.environ, PYTHONPATH='/repo'), capture_output=True, text=True, cwd='/tmp')
        meta['demo_exit_with_change'] = demo.returncode
        meta['demo_exit_clean'] = clean.returncode
        c = subprocess.run(['./check', prop, '--tier', 'quick'], cwd=HERE, env=dict(os.environ, VERIF_REPO=wt), capture_output=True, text=True)
        lines = [l for l in c.stdout.splitlines() if l.startswith('VIOLATION')]
        meta['check_run'] = f'VERIF_REPO=<scratch worktree with patch> ./check {prop} --tier quick'
        meta['check_exit'] = c.returncode
        meta['check_reported'] = lines[:2]
        meta['detected'] = c.returncode == 1 and bool(lines)
        print(m, 'suite:', meta['suite_with_change'][:20], 'demo:', demo.returncode, clean.returncode, 'check exit', c.returncode, 'detected' if meta['detected'] else 'MISSED')
    finally:
        subprocess.run(['git', '-C', '/repo', 'worktree', 'remove', '--force', wt])
        json.dump(meta, open(os.path.join(d, 'meta.json'), 'w'), indent=1)
