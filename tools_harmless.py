#!/usr/bin/env python3
"""Development aid: apply every behaviour-preserving refactoring (harmless/<id>/patch.diff) to a scratch worktree of
/repo, confirm the suite still passes, run every property's quick check against it and record the outcome in
harmless/<id>/meta.json.  A check that exits non-zero here is a false alarm (or the refactoring is not harmless)."""
import json, os, subprocess, sys
HERE = os.path.dirname(os.path.abspath(__file__))
PROPS = [f'C{i:02d}' for i in range(1, 21)]
ids = sys.argv[1:] or sorted(os.listdir(os.path.join(HERE, 'harmless')))
for m in ids:
    d = os.path.join(HERE, 'harmless', m)
    meta = json.load(open(os.path.join(d, 'meta.json')))
    wt = f'/tmp/wt_harmless_{os.getpid()}'
    subprocess.run(['git', '-C', '/repo', 'worktree', 'add', '-q', '--detach', wt, 'HEAD'], check=True)
    try:
        ap = subprocess.run(['git', '-C', wt, 'apply', os.path.join(d, 'patch.diff')])
        if ap.returncode:
            meta['status'] = 'patch no longer applies'
            print(m, meta['status']); continue
        meta.pop('status', None)
        env = dict(os.environ, PYTHONPATH=wt)
        t = subprocess.run(['/venv/bin/python', '-m', 'pytest', '-q', '-p', 'no:cacheprovider', '-x'], cwd=wt, env=env, capture_output=True, text=True)
        meta['suite_with_change'] = t.stdout.strip().splitlines()[-1] if t.stdout.strip() else 'no output'
        res = {}
        for p in PROPS:
            c = subprocess.run(['./check', p, '--tier', 'quick'], cwd=HERE, env=dict(os.environ, VERIF_REPO=wt), capture_output=True, text=True)
            lines = [l for l in c.stdout.splitlines() if l.startswith('VIOLATION') or l.startswith('INFRA')]
            res[p] = {'exit': c.returncode, 'reported': lines[:2]}
        meta['checks'] = res
        bad = [p for p in PROPS if res[p]['exit'] != 0]
        meta['alarms'] = bad
        print(m, 'suite:', meta['suite_with_change'][:20], 'alarms:', bad or 'none', flush=True)
    finally:
        subprocess.run(['git', '-C', '/repo', 'worktree', 'remove', '--force', wt])
        json.dump(meta, open(os.path.join(d, 'meta.json'), 'w'), indent=1)
