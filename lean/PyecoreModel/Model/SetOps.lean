import PyecoreModel.Model.Store
/-!
# The other mutators of a unique many-valued feature

`discard`, `difference_update` / `-=`, `intersection_update` / `&=`, `symmetric_difference_update` / `^=` of
`EAbstractSet` (`valuecontainer.py`): since the repair recorded in `known_findings.json` they are *programs over the
public calls* `remove()` and `update()` — no mutator rewrites the items behind the bookkeeping.  The model says
exactly that: a set call is a list of `Store.Op`s computed from the state it is called in, run until one raises.
(`|=` is `update`, i.e. `Op.extend`.)
-/
namespace Store

inductive SetOp
  | discard (x : Oid) (f : Fid) (v : PyVal)
  | diffUpd (x : Oid) (f : Fid) (vs : List PyVal)      -- difference_update / -=
  | interUpd (x : Oid) (f : Fid) (vs : List PyVal)     -- intersection_update / &=
  | symUpd (x : Oid) (f : Fid) (vs : List PyVal)       -- symmetric_difference_update / ^=
  -- … and of a list-like one (`EList`): `l[a:b] = vs` (`del l[a:b]` is `vs = []`), `l *= n`
  | setSlice (x : Oid) (f : Fid) (a b : Nat) (vs : List PyVal)
  | imul (x : Oid) (f : Fid) (n : Int)

def SetOp.target : SetOp → Oid × Fid
  | .discard x f _ | .diffUpd x f _ | .interUpd x f _ | .symUpd x f _ | .setSlice x f _ _ _ | .imul x f _ => (x, f)

/-- what iteration over the collection yields -/
def members (mm : MM) (s : St) (x : Oid) (f : Fid) : List PyVal :=
  if (mm.feat f).isRef then (s.rs x f).map .obj else s.as x f

/-- run public calls one after the other; the first one that raises ends the program -/
def runOps (mm : MM) : St → List Op → St × Res
  | s, [] => (s, .ok none)
  | s, op :: ops =>
    match step mm s op with
    | (s', .ok _) => runOps mm s' ops
    | (s', .error e) => (s', .error e)

/-- `discard(v)`: `if v in self: self.remove(v)` -/
def discardStep (mm : MM) (s : St) (x : Oid) (f : Fid) (v : PyVal) : St × Res :=
  if v ∈ members mm s x f then runOps mm s [.remove x f v] else (s, .ok none)

/-- `difference_update(vs)`: `for v in vs: self.discard(v)` (membership looked at when its turn comes) -/
def diffLoop (mm : MM) (x : Oid) (f : Fid) : St → List PyVal → St × Res
  | s, [] => (s, .ok none)
  | s, v :: vs =>
    match discardStep mm s x f v with
    | (s', .ok _) => diffLoop mm x f s' vs
    | (s', .error e) => (s', .error e)

/-- the elements of a symmetric difference that come in -/
def incoming (mm : MM) (s : St) (x : Oid) (f : Fid) (vs : List PyVal) : List PyVal :=
  vs.filter (· ∉ members mm s x f)

/-- `l[a:b] = vs` as public calls: the elements of the slice leave one by one, then `vs` come in at their positions -/
def sliceProgram (x : Oid) (f : Fid) (n a b : Nat) (vs : List PyVal) : List Op :=
  let a' := min a n
  let b' := max a' (min b n)
  List.replicate (b' - a') (.delItem x f a') ++ (List.range vs.length).zipWith (fun j v => .insert x f ((a' + j : Nat) : Int) v) vs

def setStep (mm : MM) (s : St) (o : SetOp) : St × Res :=
  if !hasFeat mm s o.target.1 o.target.2 then (s, .error .attributeError) else
  match o with
  | .discard x f v => discardStep mm s x f v
  | .diffUpd x f vs => diffLoop mm x f s vs
  | .interUpd x f vs => runOps mm s (((members mm s x f).filter (· ∉ vs)).map (.remove x f))
  | .symUpd x f vs =>
    -- every value named is checked before anything leaves
    if !vs.all (conforms mm s f) then (s, .error .badValue) else
    runOps mm s (((members mm s x f).filter (· ∈ vs)).map (.remove x f) ++
      (if incoming mm s x f vs = [] then [] else [.extend x f (incoming mm s x f vs)]))
  | .setSlice x f a b vs =>
    if !(mm.feat f).isList then (s, .error .keyError) else       -- sets refuse slices
    if !vs.all (conforms mm s f) then (s, .error .badValue) else   -- everything is checked before anything leaves
    runOps mm s (sliceProgram x f (members mm s x f).length a b vs)
  | .imul x f n =>
    if !(mm.feat f).isList then (s, .error .typeError) else
    runOps mm s (if n ≤ 0 then [.clear x f] else [.extend x f (List.replicate (n.toNat - 1) (members mm s x f)).flatten])

/-- histories over the public calls and the set mutators -/
def stepAny (mm : MM) (s : St) : Op ⊕ SetOp → St × Res
  | .inl op => step mm s op
  | .inr o => setStep mm s o

def runAny (mm : MM) (w : List (Op ⊕ SetOp)) : St := w.foldl (fun s a => (stepAny mm s a).1) init

end Store
