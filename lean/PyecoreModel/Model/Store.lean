import PyecoreModel.Model.PyList
/-!
# The Store: objects, reference/attribute slots, containers, resources

Executable model of `pyecore/valuecontainer.py` (`EValue._set`, `ECollection.*`, `EList.*`, `EAbstractSet.*`,
`PyEcoreValue._update_container/check`), `EStructuralFeature.__set__/__delete__`, `EObject.delete` and
`Resource.append/remove`, written at the level of their *net effect*: every mutator is a composition of three
link-level primitives

* `unlinkRaw x f y` — drop the link `x -f-> y` together with its mirror `y -g-> x` (g = eOpposite f) and the
                      container back-pointer of the contained end,
* `detach y`       — `y` leaves its owner (root list of a resource, or the containment slot holding it),
* `linkRaw x f y`  — write both ends and the back-pointer.

State is function-valued; the driver prints it on `0 … nObj-1 × 0 … nFeat-1`.  No Mathlib import.
-/
namespace Store
open Py (Err pyInsert normIdx)

abbrev Oid := Nat
abbrev Fid := Nat
abbrev Cid := Nat
abbrev Rid := Nat

/-- Python values the harness can present to a feature. -/
inductive PyVal
  | none | bool (b : Bool) | int (i : Int) | str (s : String) | obj (o : Oid) | other (k : String)
deriving DecidableEq, Repr, Inhabited

structure Feature where
  owner  : Cid := 0
  isRef  : Bool := true
  many   : Bool := false
  ordered : Bool := true
  unique : Bool := true
  cont   : Bool := false
  tcls   : Cid := 0            -- type of a reference
  tdt    : String := ""        -- data type of an attribute
  opp    : Option Fid := none
  dflt   : Option PyVal := none    -- default of a single-valued attribute (read off the real feature)
deriving Inhabited

structure MM where
  feat  : Fid → Feature
  nFeat : Nat
  sub   : Cid → Cid → Bool          -- `sub c t`: class c conforms to class t (reflexive-transitive eSuperTypes)
  abstr : Cid → Bool
  nCls  : Nat

/-- Well-formed Ecore as far as the properties' quantifiers grant it (DESIGN 3.2). -/
structure MM.WF (mm : MM) : Prop where
  opp_mutual : ∀ f g, (mm.feat f).opp = some g → (mm.feat g).opp = some f ∧ f ≠ g
  opp_ref    : ∀ f g, (mm.feat f).opp = some g → (mm.feat f).isRef = true
  opp_unique : ∀ f g, (mm.feat f).opp = some g → (mm.feat f).unique = true       -- ConsistentUnique
  cont_unique : ∀ f, (mm.feat f).cont = true → (mm.feat f).unique = true ∧ (mm.feat f).isRef = true
  cont_opp   : ∀ f g, (mm.feat f).opp = some g → (mm.feat f).cont = true →
                 (mm.feat g).cont = false ∧ (mm.feat g).many = false                -- SingleContainer

structure St where
  nObj  : Nat := 0
  cls   : Oid → Cid := fun _ => 0
  rs    : Oid → Fid → List Oid := fun _ _ => []       -- reference slots ([] = None for single-valued)
  as    : Oid → Fid → List PyVal := fun _ _ => []     -- attribute slots
  cont  : Oid → Option (Oid × Fid) := fun _ => none   -- _container, _containment_feature
  eres  : Oid → Option Rid := fun _ => none           -- _eresource
  rcont : Rid → List Oid := fun _ => []               -- Resource.contents
  nRes  : Nat := 0

def St.setRs (s : St) (x : Oid) (f : Fid) (l : List Oid) : St :=
  { s with rs := fun x' f' => if x' = x ∧ f' = f then l else s.rs x' f' }
def St.setAs (s : St) (x : Oid) (f : Fid) (l : List PyVal) : St :=
  { s with as := fun x' f' => if x' = x ∧ f' = f then l else s.as x' f' }
def St.setCont (s : St) (o : Oid) (c : Option (Oid × Fid)) : St :=
  { s with cont := fun o' => if o' = o then c else s.cont o' }
def St.setEres (s : St) (o : Oid) (r : Option Rid) : St :=
  { s with eres := fun o' => if o' = o then r else s.eres o' }
def St.setRcont (s : St) (r : Rid) (l : List Oid) : St :=
  { s with rcont := fun r' => if r' = r then l else s.rcont r' }

/-! ## List helpers shared by reference and attribute slots -/
section
variable {α : Type} [DecidableEq α]

/-- a collection declared many ∧ ¬unique is a Python list (first occurrence removed); everything else holds an
element at most once, so removing it is removing all of it -/
def rmVal (isList : Bool) (l : List α) (y : α) : List α :=
  if isList then l.erase y else l.filter (· ≠ y)

/-- insertion at a Python index; present elements of a unique collection are ignored -/
def addVal (isList : Bool) (l : List α) (y : α) (pos : Int) : List α :=
  if !isList && l.contains y then l else pyInsert l pos y

def appendVal (isList : Bool) (l : List α) (y : α) : List α :=
  if !isList && l.contains y then l else l ++ [y]
end

def Feature.isList (F : Feature) : Bool := F.many && !F.unique

/-! ## Link-level primitives -/

/-- Drop the link `x -f-> y` (if present) on both ends; clear the back-pointer of the contained end.
Mirrors the effect shared by `ECollection.remove/pop`, `EValue._set(None)` and their `update_opposite=False`
counterparts on the other end. -/
def unlinkRaw (mm : MM) (s : St) (x : Oid) (f : Fid) (y : Oid) : St :=
  if y ∈ s.rs x f then
    let F := mm.feat f
    let s1 := s.setRs x f (rmVal F.isList (s.rs x f) y)
    let s2 := if F.cont then s1.setCont y none else s1
    match F.opp with
    | none => s2
    | some g =>
      let G := mm.feat g
      let s3 := s2.setRs y g (rmVal G.isList (s2.rs y g) x)
      if G.cont then s3.setCont x none else s3
  else s

/-- `y` leaves its owner: `resource.remove(value)` when it is a root, `prev_container…remove_or_unset(value)`
when it is contained (`PyEcoreValue._update_container`, `Resource.append`). -/
def detach (mm : MM) (s : St) (y : Oid) : St :=
  let s1 := match s.eres y with
    | some r => (s.setRcont r ((s.rcont r).erase y)).setEres y none
    | none => s
  match s1.cont y with
  | some (p, pf) => unlinkRaw mm s1 p pf y
  | none => s1

/-- Write both ends of the link and the back-pointer of the contained end. -/
def linkRaw (mm : MM) (s : St) (x : Oid) (f : Fid) (y : Oid) (pos : Int) : St :=
  let F := mm.feat f
  let s1 := s.setRs x f (if F.many then addVal F.isList (s.rs x f) y pos else [y])
  let s2 := if F.cont then s1.setCont y (some (x, f)) else s1
  match F.opp with
  | none => s2
  | some g =>
    let G := mm.feat g
    let s3 := s2.setRs y g (if G.many then appendVal G.isList (s2.rs y g) x else [x])
    if G.cont then s3.setCont x (some (y, g)) else s3

/-- Net effect of storing `y` into `x.f` (assignment to a single-valued reference, `append/add/insert` on a
many-valued one): release whoever occupies a single-valued end, take `y` (resp. `x`) away from its previous owner
when the link is a containment, then link.  Storing a value that is already there changes nothing
(except for list-like references, which take duplicates). -/
def link (mm : MM) (s : St) (x : Oid) (f : Fid) (y : Oid) (pos : Int) : St :=
  let F := mm.feat f
  if y ∈ s.rs x f ∧ F.isList = false then s else
  let s1 := if F.many then s else
    match s.rs x f with
    | y0 :: _ => unlinkRaw mm s x f y0
    | [] => s
  let s2 := if F.cont then detach mm s1 y else s1
  let s3 := match F.opp with
    | none => s2
    | some g =>
      let G := mm.feat g
      let s' := if G.cont then detach mm s2 x else s2
      if G.many then s' else
        match s'.rs y g with
        | x0 :: _ => unlinkRaw mm s' x0 f y
        | [] => s'
  linkRaw mm s3 x f y pos

/-- `ECollection.clear` / `del obj.many`: every element is released. -/
def clearRef (mm : MM) (s : St) (x : Oid) (f : Fid) : St :=
  (s.rs x f).foldl (fun s y => unlinkRaw mm s x f y) s

/-- `extend/update/+=`: the elements one after the other, at the end. -/
def extendRef (mm : MM) (s : St) (x : Oid) (f : Fid) (ys : List Oid) : St :=
  ys.foldl (fun s y => link mm s x f y ((s.rs x f).length)) s

/-! ## Type checking (`PyEcoreValue.check` / `EcoreUtils.isinstance`) -/

def conformsDt (dt : String) : PyVal → Bool
  | .bool _ => dt == "EBoolean" || dt == "EInt"       -- isinstance(True, int)
  | .int _ => dt == "EInt"
  | .str _ => dt == "EString"
  | _ => false

/-- `check(value)` passes -/
def conforms (mm : MM) (s : St) (f : Fid) : PyVal → Bool
  | .none => true
  | .obj y => (mm.feat f).isRef && decide (y < s.nObj) && mm.sub (s.cls y) (mm.feat f).tcls
  | v => !(mm.feat f).isRef && conformsDt (mm.feat f).tdt v

def hasFeat (mm : MM) (s : St) (x : Oid) (f : Fid) : Bool :=
  decide (x < s.nObj) && decide (f < mm.nFeat) && mm.sub (s.cls x) (mm.feat f).owner

/-! ## `EObject.delete` -/

/-- every link of `x`: its own references, and the references to it from anywhere -/
def linksOf (mm : MM) (s : St) (x : Oid) : List (Oid × Fid × Oid) :=
  ((List.range mm.nFeat).flatMap fun f => (s.rs x f).map fun y => (x, f, y)) ++
  ((List.range s.nObj).flatMap fun o => (List.range mm.nFeat).flatMap fun f =>
      if x ∈ s.rs o f then [(o, f, x)] else [])

/-- list-like references can hold `x` several times; `delete()` removes one occurrence per referrer -/
def deleteOne (mm : MM) (s : St) (x : Oid) : St :=
  (linksOf mm s x).foldl (fun s (l : Oid × Fid × Oid) => unlinkRaw mm s l.1 l.2.1 l.2.2) s

/-- containment children of `o` (`eContents`), in feature order -/
def children (mm : MM) (s : St) (o : Oid) : List Oid :=
  (List.range mm.nFeat).flatMap fun f => if (mm.feat f).cont then s.rs o f else []

/-- the containment subtree below `o` (`eAllContents`), bounded by `fuel` levels -/
def descendants (mm : MM) (s : St) : Nat → Oid → List Oid
  | 0, _ => []
  | n + 1, o => (children mm s o).flatMap fun c => c :: descendants mm s n c

def delete (mm : MM) (s : St) (x : Oid) (recursive : Bool) : St :=
  let ds := if recursive then descendants mm s s.nObj x else []
  deleteOne mm (ds.foldl (deleteOne mm) s) x

/-! ## Resources -/

def rappend (mm : MM) (s : St) (r : Rid) (o : Oid) : St :=
  if s.eres o = some r ∧ o ∈ s.rcont r then s else
  let s1 := match s.eres o with
    | some r' => (s.setRcont r' ((s.rcont r').erase o)).setEres o none
    | none => s
  let s2 := (s1.setRcont r (s1.rcont r ++ [o])).setEres o (some r)
  match s2.cont o with
  | some (p, pf) => unlinkRaw mm s2 p pf o
  | none => s2

/-! ## Public operations -/

inductive Op
  | new (c : Cid) | res
  | set (x : Oid) (f : Fid) (v : PyVal)              -- x.f = v / eSet (single-valued)
  | del (x : Oid) (f : Fid)                          -- del x.f (single: default; many: clear)
  | add (x : Oid) (f : Fid) (v : PyVal)              -- append / add
  | insert (x : Oid) (f : Fid) (i : Int) (v : PyVal)
  | remove (x : Oid) (f : Fid) (v : PyVal)
  | pop (x : Oid) (f : Fid) (i : Int)
  | clear (x : Oid) (f : Fid)
  | setItem (x : Oid) (f : Fid) (i : Int) (v : PyVal)
  | delItem (x : Oid) (f : Fid) (i : Int)
  | extend (x : Oid) (f : Fid) (vs : List PyVal)     -- extend / update / +=
  | assign (x : Oid) (f : Fid) (vs : List PyVal)     -- x.f = [..] (whole collection)
  | delete (x : Oid) (recursive : Bool)
  | rappend (r : Rid) (o : Oid) | rremove (r : Rid) (o : Oid)

abbrev Res := Except Err (Option PyVal)

def objOf : PyVal → Option Oid | .obj o => some o | _ => none

def allObjs (vs : List PyVal) : List Oid := vs.filterMap objOf

/-- attribute slots: the same collection semantics without links -/
def stepAttr (mm : MM) (s : St) (x : Oid) (f : Fid) : Op → St × Res
  | .set _ _ v =>
    if (mm.feat f).many then (s, .error .badValue) else
    (s.setAs x f (if v = .none then [] else [v]), .ok none)
  | .del _ _ =>
    if (mm.feat f).many then (s.setAs x f [], .ok none)
    else (s.setAs x f (match (mm.feat f).dflt with | some d => [d] | none => []), .ok none)
  | .add _ _ v => (s.setAs x f (appendVal (mm.feat f).isList (s.as x f) v), .ok none)
  | .insert _ _ i v => (s.setAs x f (addVal (mm.feat f).isList (s.as x f) v i), .ok none)
  | .remove _ _ v =>
    if v ∈ s.as x f then (s.setAs x f (rmVal (mm.feat f).isList (s.as x f) v), .ok none)
    else (s, .error (if (mm.feat f).isList then .valueError else .keyError))
  | .pop _ _ i =>
    if (s.as x f).isEmpty then (s, .error (if (mm.feat f).isList then .indexError else .keyError)) else
    match Py.pyPop (s.as x f) i with
    | none => (s, .error .indexError)
    | some (l, v) => (s.setAs x f l, .ok (some v))
  | .clear _ _ => (s.setAs x f [], .ok none)
  | .setItem _ _ i v =>
    if (mm.feat f).isList then
      match Py.pySet (s.as x f) i v with
      | none => (s, .error .indexError)
      | some l => (s.setAs x f l, .ok none)
    else
      if (s.as x f).isEmpty then (s, .error (if i < 0 then .indexError else .keyError)) else
      match normIdx (s.as x f).length i with
      | none => (s, .error .indexError)
      | some k =>
        let l := (s.as x f).eraseIdx k
        (s.setAs x f (addVal false l v k), .ok none)
  | .delItem _ _ i =>
    if (s.as x f).isEmpty && !(mm.feat f).isList then (s, .error .keyError) else
    match Py.pyPop (s.as x f) i with
    | none => (s, .error .indexError)
    | some (l, _) => (s.setAs x f l, .ok none)
  | .extend _ _ vs => (s.setAs x f (vs.foldl (appendVal (mm.feat f).isList) (s.as x f)), .ok none)
  | .assign _ _ vs => (s.setAs x f (vs.foldl (appendVal (mm.feat f).isList) []), .ok none)
  | _ => (s, .error .typeError)

/-- reference slots -/
def stepRef (mm : MM) (s : St) (x : Oid) (f : Fid) : Op → St × Res
  | .set _ _ v =>
    if (mm.feat f).many then (s, .error .badValue) else
    match v with
    | .obj y => (link mm s x f y 0, .ok none)
    | _ => (match s.rs x f with | y0 :: _ => unlinkRaw mm s x f y0 | [] => s, .ok none)
  | .del _ _ =>
    if (mm.feat f).many then (clearRef mm s x f, .ok none)
    else (match s.rs x f with | y0 :: _ => unlinkRaw mm s x f y0 | [] => s, .ok none)
  | .add _ _ v =>
    match v with
    | .obj y => (link mm s x f y (s.rs x f).length, .ok none)
    | _ => (s, .error .attributeError)
  | .insert _ _ i v =>
    match v with
    | .obj y => (link mm s x f y i, .ok none)
    | _ => (s, .error .attributeError)
  | .remove _ _ v =>
    match v with
    | .obj y =>
      if y ∈ s.rs x f then (unlinkRaw mm s x f y, .ok none)
      else (s, .error (if (mm.feat f).isList then .valueError else .keyError))
    | _ => (s, .error (if (mm.feat f).isList then .valueError else .keyError))
  | .pop _ _ i =>
    if (s.rs x f).isEmpty then (s, .error (if (mm.feat f).isList then .indexError else .keyError)) else
    match normIdx (s.rs x f).length i with
    | none => (s, .error .indexError)
    | some k =>
      match (s.rs x f)[k]? with
      | none => (s, .error .indexError)
      | some y =>
        if (mm.feat f).isList then (s.setRs x f ((s.rs x f).eraseIdx k), .ok (some (.obj y)))
        else (unlinkRaw mm s x f y, .ok (some (.obj y)))
  | .clear _ _ => (clearRef mm s x f, .ok none)
  | .setItem _ _ i v =>
    match v with
    | .obj y =>
      if (mm.feat f).isList then
        match Py.pySet (s.rs x f) i y with
        | none => (s, .error .indexError)
        | some l => (s.setRs x f l, .ok none)
      else
        if (s.rs x f).isEmpty then (s, .error (if i < 0 then .indexError else .keyError)) else
        match normIdx (s.rs x f).length i with
        | none => (s, .error .indexError)
        | some k =>
          match (s.rs x f)[k]? with
          | none => (s, .error .indexError)
          | some y0 => (link mm (unlinkRaw mm s x f y0) x f y k, .ok none)
    | _ => (s, .error .attributeError)
  | .delItem _ _ i =>
    if (s.rs x f).isEmpty && !(mm.feat f).isList then (s, .error .keyError) else
    match normIdx (s.rs x f).length i with
    | none => (s, .error .indexError)
    | some k =>
      match (s.rs x f)[k]? with
      | none => (s, .error .indexError)
      | some y =>
        if (mm.feat f).isList then (s.setRs x f ((s.rs x f).eraseIdx k), .ok none)
        else (unlinkRaw mm s x f y, .ok none)
  | .extend _ _ vs => (extendRef mm s x f (allObjs vs), .ok none)
  | .assign _ _ vs => (extendRef mm (clearRef mm s x f) x f (allObjs vs), .ok none)
  | _ => (s, .error .typeError)

/-- the values an operation offers to the type check -/
def offered : Op → List PyVal
  | .set _ _ v | .add _ _ v | .insert _ _ _ v | .setItem _ _ _ v => [v]
  | .extend _ _ vs | .assign _ _ vs => vs
  | _ => []

def targetOf : Op → Option (Oid × Fid)
  | .set x f _ | .del x f | .add x f _ | .insert x f _ _ | .remove x f _ | .pop x f _ | .clear x f
  | .setItem x f _ _ | .delItem x f _ | .extend x f _ | .assign x f _ => some (x, f)
  | _ => none

/-- One public call: the state afterwards and what the caller sees.  A call that raises leaves the state as it was. -/
def step (mm : MM) (s : St) (op : Op) : St × Res :=
  match op with
  | .new c =>
    ({ s with nObj := s.nObj + 1, cls := fun o => if o = s.nObj then c else s.cls o,
              as := fun o f => if o = s.nObj then
                  (if (mm.feat f).isRef || (mm.feat f).many then [] else
                    match (mm.feat f).dflt with | some d => [d] | none => [])
                else s.as o f }, .ok none)
  | .res => ({ s with nRes := s.nRes + 1 }, .ok none)
  | .delete x r => if x < s.nObj then (delete mm s x r, .ok none) else (s, .error .indexError)
  | .rappend r o => if r < s.nRes ∧ o < s.nObj then (rappend mm s r o, .ok none) else (s, .error .indexError)
  | .rremove r o =>
    if o ∈ s.rcont r then ((s.setRcont r ((s.rcont r).erase o)).setEres o none, .ok none)
    else (s, .error .valueError)
  | op =>
    match targetOf op with
    | none => (s, .error .typeError)
    | some (x, f) =>
      if !hasFeat mm s x f then (s, .error .attributeError) else
      if !(offered op).all (conforms mm s f) then (s, .error .badValue) else
      if (mm.feat f).isRef then stepRef mm s x f op else stepAttr mm s x f op

def init : St := {}

def run (mm : MM) (ops : List Op) : St := ops.foldl (fun s op => (step mm s op).1) init

end Store
