import PyecoreModel.Model.PyList
/-!
# `ordered_set.OrderedSet` 4.1.0 with pyecore's monkey patch (`pyecore/ordered_set_patch.py`)

`items` is the Python list, `map` the element → position dict.  The dict is modelled by its
lookup function (its insertion order is not observable: the only iterations over it are the
`for k, v in self.map.items()` loops below, whose effect does not depend on order).

One definition per Python method, same guards, same order of effects.
-/
namespace Py

structure OSet (α : Type) where
  items : List α
  map   : α → Option Nat

variable {α : Type} [DecidableEq α]

def OSet.empty : OSet α := ⟨[], fun _ => none⟩

/-- `key in self` is `key in self.map` -/
def OSet.contains (s : OSet α) (k : α) : Bool := (s.map k).isSome

/-- `len(self)` -/
def OSet.len (s : OSet α) : Nat := s.items.length

/-- `self.index(key)` is `self.map[key]` (`none` = `KeyError`) -/
def OSet.index (s : OSet α) (k : α) : Option Nat := s.map k

/-- `OrderedSet.add` (unpatched): append when absent -/
def OSet.add (s : OSet α) (k : α) : OSet α :=
  if s.contains k then s
  else ⟨s.items ++ [k], fun k' => if k' = k then some s.items.length else s.map k'⟩

/-- patched `insert(self, index, key)` -/
def OSet.insert (s : OSet α) (index : Int) (key : α) : OSet α :=
  if s.contains key then s else
    let idx := clampIns s.items.length index
    ⟨insertAt s.items idx key,
     fun k => if k = key then some idx else (s.map k).map (fun v => if v ≥ idx then v + 1 else v)⟩

/-- patched `pop(self, index=-1)`:
```
if not self.items: raise KeyError
elem = self.items[index]            # IndexError
if index < 0: index += len(self.items)
del self.items[index]; del self.map[elem]
for k, v in self.map.items():
    if v > index: self.map[k] = v - 1
``` -/
def OSet.pop (s : OSet α) (index : Int) : Except Err (OSet α × α) :=
  if s.items.isEmpty then .error .keyError else
  match normIdx s.items.length index with
  | none => .error .indexError
  | some i =>
    match s.items[i]? with
    | none => .error .indexError
    | some elem =>
      .ok (⟨s.items.eraseIdx i,
            fun k => if k = elem then none else (s.map k).map (fun v => if v > i then v - 1 else v)⟩, elem)

/-- `OrderedSet.discard` (unpatched) -/
def OSet.discard (s : OSet α) (key : α) : OSet α :=
  match s.map key with
  | none => s
  | some i =>
    ⟨s.items.eraseIdx i,
     fun k => if k = key then none else (s.map k).map (fun v => if v ≥ i then v - 1 else v)⟩

/-- `MutableSet.remove`: `KeyError` when absent, else `discard` -/
def OSet.remove (s : OSet α) (key : α) : Except Err (OSet α) :=
  if s.contains key then .ok (s.discard key) else .error .keyError

/-- `OrderedSet.clear` -/
def OSet.clear (_ : OSet α) : OSet α := OSet.empty

/-- patched `__getitem__` with an integer index -/
def OSet.getItem (s : OSet α) (i : Int) : Option α := pyGet s.items i

/-- patched `__setitem__(self, index, item)` with an integer index:
normalise a negative index (`IndexError` if still negative), `pop(index)`, `insert(index, item)` -/
def OSet.setItem (s : OSet α) (index : Int) (item : α) : Except Err (OSet α) :=
  let index' := if index < 0 then (s.items.length : Int) + index else index
  if index' < 0 then .error .indexError else
  match s.pop index' with
  | .error e => .error e
  | .ok (s', _) => .ok (s'.insert index' item)

/-- patched `__delitem__` with an integer index -/
def OSet.delItem (s : OSet α) (index : Int) : Except Err (OSet α) :=
  match s.pop index with
  | .error e => .error e
  | .ok (s', _) => .ok s'

/-! ## Operations as data, and the list specification they must agree with -/

inductive COp (α : Type)
  | add (x : α) | insert (i : Int) (x : α) | pop (i : Int) | remove (x : α) | discard (x : α)
  | clear | setItem (i : Int) (x : α) | delItem (i : Int)
deriving Repr

/-- One call on the ordered set: new state and (returned value | exception).  State is unchanged when it raises. -/
def OSet.step (s : OSet α) : COp α → OSet α × Except Err (Option α)
  | .add x => (s.add x, .ok none)
  | .insert i x => (s.insert i x, .ok none)
  | .pop i => match s.pop i with
    | .error e => (s, .error e)
    | .ok (s', x) => (s', .ok (some x))
  | .remove x => match s.remove x with
    | .error e => (s, .error e)
    | .ok s' => (s', .ok none)
  | .discard x => (s.discard x, .ok none)
  | .clear => (s.clear, .ok none)
  | .setItem i x => match s.setItem i x with
    | .error e => (s, .error e)
    | .ok s' => (s', .ok none)
  | .delItem i => match s.delItem i with
    | .error e => (s, .error e)
    | .ok s' => (s', .ok none)

/-- The same call on a plain Python list; `unique` = "insertions of already-present elements are ignored".
Item assignment on a unique collection is "delete position i, then insert x at i unless present". -/
def listStep (unique : Bool) (l : List α) : COp α → List α × Except Err (Option α)
  | .add x => if unique && l.contains x then (l, .ok none) else (l ++ [x], .ok none)
  | .insert i x => if unique && l.contains x then (l, .ok none) else (pyInsert l i x, .ok none)
  | .pop i => match pyPop l i with
    | none => (l, .error .indexError)
    | some (l', x) => (l', .ok (some x))
  | .remove x => match pyRemove l x with
    | none => (l, .error .valueError)
    | some l' => (l', .ok none)
  | .discard x => (l.erase x, .ok none)
  | .clear => ([], .ok none)
  | .setItem i x =>
    if unique then
      match pyPop l i with
      | none => (l, .error .indexError)
      | some (l', _) =>
        if l'.contains x then (l', .ok none)
        else (pyInsert l' (match normIdx l.length i with | some k => (k : Int) | none => 0) x, .ok none)
    else match pySet l i x with
      | none => (l, .error .indexError)
      | some l' => (l', .ok none)
  | .delItem i => match pyPop l i with
    | none => (l, .error .indexError)
    | some (l', _) => (l', .ok none)

/-- Two outcomes agree: both raise, or both return the same value. -/
def sameOutcome : Except Err (Option α) → Except Err (Option α) → Prop
  | .ok a, .ok b => a = b
  | .error _, .error _ => True
  | _, _ => False

/-- The invariant tying `map` to `items`: no duplicate, and the map is exactly the position function. -/
def OSet.MapOK (s : OSet α) : Prop :=
  s.items.Nodup ∧ ∀ k i, s.map k = some i ↔ s.items[i]? = some k

def OSet.run (ops : List (COp α)) : OSet α := ops.foldl (fun s op => (s.step op).1) OSet.empty
def listRun (unique : Bool) (ops : List (COp α)) : List α := ops.foldl (fun l op => (listStep unique l op).1) []

end Py
