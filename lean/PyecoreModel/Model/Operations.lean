import PyecoreModel.Generated.Keywords
/-!
# Operations of a class and the methods that stand for them (C20)

* `EOperation.normalized_name`, `EOperation.to_code` / `EParameter.to_code`: the signature of the generated method;
* Python's rule for binding positional arguments to such a signature;
* `Core._promote`: which entries of a static class body are reflected as operations, and with which parameters.

CPython's `compile`/`exec` of the generated text and `inspect.getfullargspec` are parameters of the model: the
correspondence check compares the model's signature with `inspect.signature` of the generated method and the model's
reflected operation with the `eOperations` of real static classes.
-/
namespace Ops

structure Param where
  name : String
  required : Bool
deriving DecidableEq, Repr

structure Op where
  name : String
  params : List Param
deriving DecidableEq, Repr

/-- `EOperation.normalized_name` -/
def normalizedName (n : String) : String := if pyKeywords.contains n then n ++ "_" else n

/-- one parameter of a Python `def`: its name and whether it carries a default -/
structure SigP where
  name : String
  dflt : Bool
deriving DecidableEq, Repr

def paramCode (p : Param) : SigP := ⟨p.name, !p.required⟩

/-- the parameter list `EOperation.to_code` writes: the declared ones, `self` put in front unless it is there already -/
def sigOf (op : Op) : List SigP :=
  let ps := op.params.map paramCode
  match ps with
  | ⟨"self", false⟩ :: _ => ps
  | _ => ⟨"self", false⟩ :: ps

/-- Python accepts a `def`: no parameter without default after one with a default, names distinct -/
def noReqAfterDflt : List SigP → Bool
  | [] => true
  | p :: rest => (if p.dflt then rest.all (·.dflt) else true) && noReqAfterDflt rest

def validDef (s : List SigP) : Bool := noReqAfterDflt s && (s.map (·.name)).Nodup

/-- the signature seen on an instance (`self` bound) -/
def bound (s : List SigP) : List SigP := s.tail

def nRequired (s : List SigP) : Nat := (s.filter (!·.dflt)).length

/-- a call with `k` positional arguments binds -/
def accepts (s : List SigP) (k : Nat) : Bool := nRequired s ≤ k && k ≤ s.length

/-- what calling the generated method does -/
inductive Outcome | typeError | notImplemented
deriving DecidableEq, Repr

def callStub (op : Op) (k : Nat) : Outcome :=
  if accepts (bound (sigOf op)) k then .notImplemented else .typeError

/-! ## static reflection -/

inductive Kind | function | staticMethod | classMethod | other
deriving DecidableEq, Repr

/-- an entry of a class body as `_promote` sees it: the dict key, the function's own name, `getfullargspec(...).args`,
    the number of defaults -/
structure Entry where
  key : String
  fname : String
  kind : Kind
  args : List String
  ndefaults : Nat
deriving Repr

def reflParams (args : List String) (ndefaults : Nat) : List Param :=
  (List.range args.length).zipWith (fun i a => ⟨a, decide (i < args.length - ndefaults)⟩) args

/-- `Core._promote` on one entry -/
def promote (e : Entry) : Option Op :=
  if e.kind ≠ .function then none
  else if e.key.startsWith "__" then none
  else match e.args with
    | [] => none
    | a :: _ => if a ≠ "self" then none else some ⟨e.fname, reflParams e.args e.ndefaults⟩

/-- the Python signature of the entry's function -/
def entrySig (e : Entry) : List SigP :=
  (List.range e.args.length).zipWith (fun i a => ⟨a, decide (e.args.length - e.ndefaults ≤ i)⟩) e.args

end Ops
