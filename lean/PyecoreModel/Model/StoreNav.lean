import PyecoreModel.Model.Store
/-!
# Navigation over the Store: URI fragments (C11) and reflective containment views (C19)

Mirrors `EObject.eURIFragment`, `Resource.resolve/extract_rootnum_and_frag/_navigate_from` (positional form),
`EObject.eContents/eAllContents/eRoot`, `EcoreUtils.get_root`.
-/
namespace Store

/-- one step of a fragment: `/@name` (single-valued) or `/@name.index` (many-valued) -/
abbrev Seg := Fid × Option Nat

structure Path where
  root : Option Nat     -- `none` is "/", `some k` is "/k"
  segs : List Seg
deriving DecidableEq, Repr

/-- k-th container upwards -/
def anc (s : St) : Nat → Oid → Option Oid
  | 0, o => some o
  | n + 1, o => match s.cont o with
    | some (p, _) => anc s n p
    | none => none

/-- `EObject.eRoot` / `EcoreUtils.get_root`: the top of the container chain (at most `fuel` levels) -/
def eRoot (s : St) : Nat → Oid → Oid
  | 0, o => o
  | n + 1, o => match s.cont o with
    | some (p, _) => eRoot s n p
    | none => o

/-- the segments from the root down to `o` — `parent.eURIFragment() + '/@name[.index]'` -/
def fragSegs (mm : MM) (s : St) : Nat → Oid → List Seg
  | 0, _ => []
  | n + 1, o => match s.cont o with
    | none => []
    | some (p, f) =>
      fragSegs mm s n p ++ [(f, if (mm.feat f).many then some ((s.rs p f).idxOf o) else none)]

/-- `'/'` when the object has no resource or is its only root, else `'/<position among the roots>'` -/
def fragRoot (s : St) (r : Oid) : Option Nat :=
  match s.eres r with
  | none => none
  | some res => if (s.rcont res).length = 1 then none else some ((s.rcont res).idxOf r)

def frag (mm : MM) (s : St) (fuel : Nat) (o : Oid) : Path :=
  { root := fragRoot s (eRoot s fuel o), segs := fragSegs mm s fuel o }

/-- `Resource._navigate_from` for positional paths: `getattr(obj, name)` then `[index]` -/
def navigate (mm : MM) (s : St) : Oid → List Seg → Option Oid
  | o, [] => some o
  | o, (f, none) :: t =>
    if (mm.feat f).many then none else
    match s.rs o f with
    | [y] => navigate mm s y t
    | _ => none
  | o, (f, some i) :: t =>
    match (s.rs o f)[i]? with
    | some y => navigate mm s y t
    | none => none

/-- `Resource.resolve`: root number (default 0), then navigation -/
def resolve (mm : MM) (s : St) (r : Rid) (p : Path) : Option Oid :=
  match (s.rcont r)[p.root.getD 0]? with
  | some root => navigate mm s root p.segs
  | none => none

/-- `eAllContents` bounded by `fuel` levels is `descendants`; `eContents` is `children` (Model/Store.lean) -/
def eAllContents (mm : MM) (s : St) (o : Oid) : List Oid := descendants mm s s.nObj o

end Store
