import PyecoreModel.Model.Commands
/-!
# `Compound` commands on the command stack (C06)

`pyecore/commands.py`: `Compound(c₁ … cₖ)` is itself a command.  `CommandStack.execute` asks `can_execute` of the compound
— which asks **every** sub-command, in order, *before any of them runs* (`all(...)`) — then runs `execute` of each in turn,
and pushes the compound as **one** stack entry.  `undo` asks `can_undo` of every sub-command *after all of them ran* and
then calls the sub-commands' `undo` in reverse order (without asking them again); `redo` calls their `redo` in order.

What a sub-command fixes when it is *asked* (`can_execute`: the collection, for `Remove(index=…)` / `Move(from_index=…)`
that the index is in range, for `Move(value=…)` the position of the value, for `Add` on a unique feature that the value
is not there yet) and what it fixes when it *runs* (`do_execute`: the previous value, the effective insertion index, the
position of the value `Remove(value=…)` takes out, the element that really left) are therefore decided in two different
states.  `snap` is the first half, `Snap.fix` the second; for a command executed alone both halves meet the same state
and compose to `prepare` (`Lemmas/Compound.lean`, `prepare_snap_fix`).
-/
namespace Store

/-- a sub-command after `can_execute` (what it remembers from the state before the compound) -/
inductive Snap
  | set (x : Oid) (f : Fid) (v : PyVal)
  | add (x : Oid) (f : Fid) (v : PyVal) (idx : Option Int)
  | removeV (x : Oid) (f : Fid) (v : PyVal)
  | removeI (x : Oid) (f : Fid) (i : Int)
  | move (x : Oid) (f : Fid) (frm : Int) (to : Int)      -- `from_index` as given, or the position found for `value`
deriving DecidableEq

inductive Pre | cannot | raises | ok (p : Snap)
deriving DecidableEq

/-- `can_execute` -/
def snap (mm : MM) (s : St) : Spec → Pre
  | .set x f v => if !hasFeat mm s x f || (mm.feat f).many then .cannot else .ok (.set x f v)
  | .add x f v idx =>
    if !hasFeat mm s x f || v == .none || !(mm.feat f).many then .cannot else
    if (mm.feat f).unique && (slotVals mm s x f).contains v then .cannot else .ok (.add x f v idx)
  | .remove x f v idx =>
    if !hasFeat mm s x f || !(mm.feat f).many then .cannot else
    let l := slotVals mm s x f
    match v, idx with
    | some v, none => if v == .none then .cannot else .ok (.removeV x f v)
    | none, some i =>
      match Py.normIdx l.length i with
      | some k => (match l[k]? with | some _ => .ok (.removeI x f i) | none => .raises)
      | none => .raises
    | _, _ => .raises
  | .move x f frm to v =>
    if !hasFeat mm s x f || !(mm.feat f).many then .cannot else
    let l := slotVals mm s x f
    match frm, v with
    | some i, none =>
      match Py.normIdx l.length i with
      | some k => (match l[k]? with | some _ => .ok (.move x f i to) | none => .raises)
      | none => .raises
    | none, some v => (match l.idxOf? v with | some k => .ok (.move x f k to) | none => .raises)
    | _, _ => .raises

/-- outcome of the index-fixing part of `do_execute`.  `corner`: a negative index that is still negative after `+= len`
    (possible only when an earlier sub-command shortened the collection): Python's `pop` would count it from the end a
    second time; the model stops there and says so (the check does the same on its side). -/
inductive Fix | raises | corner | ok (c : Cmd)

/-- the part of `do_execute` that fixes what the command remembers, in the state the command runs in -/
def Snap.fix (mm : MM) (s : St) : Snap → Fix
  | .set x f v => .ok (.set x f v (match slotVals mm s x f with | p :: _ => p | [] => .none))
  | .add x f v idx =>
    let l := slotVals mm s x f
    .ok (.add x f v (match idx with | some i => Py.clampIns l.length i | none => l.length))
  | .removeV x f v =>
    match (slotVals mm s x f).idxOf? v with
    | some k => .ok (.remove x f v k)
    | none => .raises
  | .removeI x f i =>
    let l := slotVals mm s x f
    let i' : Int := if i < 0 then i + l.length else i
    if i' < 0 then .corner else
    match l[i'.toNat]? with
    | some v => .ok (.remove x f v i'.toNat)
    | none => .raises
  | .move x f frm to =>
    let l := slotVals mm s x f
    let i' : Int := if frm < 0 then frm + l.length else frm
    if i' < 0 then .corner else
    match l[i'.toNat]? with
    | some v => .ok (.move x f v i'.toNat (Py.clampIns (l.length - 1) to))
    | none => .raises

inductive PreAll | cannot | raises | ok (ps : List Snap)
deriving DecidableEq

/-- `Compound.can_execute`: `all(c.can_execute for c in self)` — in order, in the state before the compound, stopping at
    the first sub-command that refuses (or raises) -/
def snapAll (mm : MM) (s : St) : List Spec → PreAll
  | [] => .ok []
  | sp :: t =>
    match snap mm s sp with
    | .cannot => .cannot
    | .raises => .raises
    | .ok p =>
      match snapAll mm s t with
      | .ok ps => .ok (p :: ps)
      | e => e

inductive Ran
  | ok (s : St) (cs : List Cmd)       -- every sub-command ran; the commands as they are afterwards
  | raised (s : St)                   -- a sub-command raised: the earlier ones stay applied
  | corner

/-- `Compound.execute`: each sub-command in turn, in the state the previous ones left -/
def runAll (mm : MM) : St → List Snap → Ran
  | s, [] => .ok s []
  | s, p :: ps =>
    match p.fix mm s with
    | .raises => .raised s
    | .corner => .corner
    | .ok c =>
      let r := c.exec mm s
      match r.2 with
      | .error _ => .raised r.1
      | .ok _ =>
        match runAll mm r.1 ps with
        | .ok s' cs => .ok s' (c.after mm s :: cs)
        | e => e

/-- `can_undo` of one sub-command; `none`: asking raised (`Move`: `self._collection[self.to_index]`) -/
def Cmd.canUndo (mm : MM) (s : St) : Cmd → Option Bool
  | .set _ _ _ _ => some true
  | .add x f v _ => some ((slotVals mm s x f).contains v)
  | .remove _ _ _ _ => some true
  | .move x f v _ to =>
    match (slotVals mm s x f)[to]? with
    | none => none
    | some w => some (w == v)

/-- `Compound.can_undo`: `all(...)`, in order, in the state the stack is in when `undo` is asked -/
def canUndoAll (mm : MM) (s : St) : List Cmd → Option Bool
  | [] => some true
  | c :: t =>
    match c.canUndo mm s with
    | none => none
    | some false => some false
    | some true => canUndoAll mm s t

/-- `undo` of one sub-command, as `Compound.undo` calls it: without asking `can_undo` again -/
def Cmd.undoRaw (mm : MM) (s : St) : Cmd → St × Res
  | .set x f _ prev => step mm s (.set x f prev)
  | .add x f _ idx => step mm s (.pop x f idx)
  | .remove x f v idx => step mm s (.insert x f idx v)
  | .move x f v frm to =>
    let r := step mm s (.pop x f to)
    match r.2 with
    | .error e => (r.1, .error e)
    | .ok popped => step mm r.1 (.insert x f frm (popped.getD v))

/-- `Compound.undo`: the sub-commands' `undo` in reverse order (`cs` is given last-executed first); `false`: one raised -/
def undoAll (mm : MM) : St → List Cmd → St × Bool
  | s, [] => (s, true)
  | s, c :: t =>
    let r := c.undoRaw mm s
    match r.2 with
    | .error _ => (r.1, false)
    | .ok _ => undoAll mm r.1 t

/-- `Compound.redo`: the sub-commands' `redo` in order -/
def redoAll (mm : MM) : St → List Cmd → St × List Cmd × Bool
  | s, [] => (s, [], true)
  | s, c :: t =>
    let r := c.redo mm s
    match r.2 with
    | .error _ => (r.1, [], false)
    | .ok _ =>
      let q := redoAll mm r.1 t
      (q.1, c.after mm s :: q.2.1, q.2.2)

/-- the command stack with compounds as entries (a plain command is a compound of one) -/
structure KStack where
  stack : List (List Cmd) := []
  n : Nat := 0

inductive KLetter | exec (sps : List Spec) | undo | redo

def kstep (mm : MM) (ks : KStack) (s : St) : KLetter → KStack × St × String
  | .exec sps =>
    match snapAll mm s sps with
    | .cannot => (ks, s, "cannot")
    | .raises => (ks, s, "raises")
    | .ok ps =>
      match runAll mm s ps with
      | .corner => (ks, s, "corner")
      | .raised s' => (ks, s', "exec-raised")
      | .ok s' cs => ({ stack := ks.stack.take ks.n ++ [cs], n := ks.n + 1 }, s', "ok")
  | .undo =>
    if ks.n = 0 then (ks, s, "err") else
    match ks.stack[ks.n - 1]? with
    | none => (ks, s, "err")
    | some cs =>
      match canUndoAll mm s cs with
      | some true =>
        let r := undoAll mm s cs.reverse
        if r.2 then ({ ks with n := ks.n - 1 }, r.1, "ok") else (ks, r.1, "undo-raised")
      | _ => (ks, s, "err")
  | .redo =>
    match ks.stack[ks.n]? with
    | none => (ks, s, "err")
    | some cs =>
      let r := redoAll mm s cs
      if r.2.2 then ({ stack := ks.stack.set ks.n r.2.1, n := ks.n + 1 }, r.1, "ok") else (ks, r.1, "redo-raised")

end Store
