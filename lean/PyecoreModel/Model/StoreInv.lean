import PyecoreModel.Model.Store
/-! Invariants of the Store (DESIGN 3.5).  Definitions only. -/
namespace Store

/-- C01: y is a value of x.f exactly when x is a value of y.g, for every pair of opposites (f, g). -/
def Sym (mm : MM) (s : St) : Prop :=
  ∀ f g, (mm.feat f).opp = some g → ∀ x y, y ∈ s.rs x f ↔ x ∈ s.rs y g

/-- a single-valued reference holds at most one value; a collection that is not list-like holds no duplicate -/
def Card (mm : MM) (s : St) : Prop :=
  ∀ x f, ((mm.feat f).many = false → (s.rs x f).length ≤ 1) ∧ ((mm.feat f).isList = false → (s.rs x f).Nodup)

/-- C02 (container half): the back-pointer names a containment slot holding the object, and every containment
slot holding it is the one named — so there is at most one. -/
def Own (mm : MM) (s : St) : Prop :=
  ∀ o p f, s.cont o = some (p, f) ↔ ((mm.feat f).cont = true ∧ o ∈ s.rs p f)

/-- C02 (resource half): `_eresource` names a resource exactly when the object is one of its roots, once;
a contained object is a root of nothing. -/
def ResOK (s : St) : Prop :=
  (∀ o r, s.eres o = some r ↔ o ∈ s.rcont r) ∧ (∀ r, (s.rcont r).Nodup) ∧ (∀ o, s.cont o ≠ none → s.eres o = none)

def Inv (mm : MM) (s : St) : Prop := Sym mm s ∧ Card mm s ∧ Own mm s ∧ ResOK s

/-- C03: every stored value conforms to the declared type -/
def Typed (mm : MM) (s : St) : Prop :=
  (∀ x f y, y ∈ s.rs x f → (x < s.nObj ∧ f < mm.nFeat) ∧ y < s.nObj ∧ mm.sub (s.cls y) (mm.feat f).tcls = true) ∧
  (∀ x f v, v ∈ s.as x f → (mm.feat f).isRef = false → conformsDt (mm.feat f).tdt v = true ∨ v = .none)

/-- everything that changes is smaller: slots lose elements, back-pointers are cleared or kept -/
def Shrinks (s s' : St) : Prop :=
  (∀ a f b, b ∈ s'.rs a f → b ∈ s.rs a f) ∧
  (∀ o, s'.cont o = none ∨ s'.cont o = s.cont o) ∧
  (∀ o, s'.eres o = none ∨ s'.eres o = s.eres o)

end Store
