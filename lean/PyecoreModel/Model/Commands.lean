import PyecoreModel.Model.Store
/-!
# Commands and the command stack (C06)

Mirrors `pyecore/commands.py`: `Set`, `Add`, `Remove`, `Move` (their `can_execute`, `do_execute`, `undo`, `redo`, with
the effective indices they remember) over the Store's public operations, and `CommandStack`
(`execute` / `undo` / `redo`, the cursor, the truncation of the redo tail).  `Compound` is in `Model/Compound.lean`; `Delete`
is exercised by the check's oracle on the real code and is not part of this model.
-/
namespace Store

/-- what the caller passes to a command constructor -/
inductive Spec
  | set (x : Oid) (f : Fid) (v : PyVal)
  | add (x : Oid) (f : Fid) (v : PyVal) (idx : Option Int)
  | remove (x : Oid) (f : Fid) (v : Option PyVal) (idx : Option Int)
  | move (x : Oid) (f : Fid) (frm : Option Int) (to : Int) (v : Option PyVal)

/-- a command after `can_execute`/`do_execute` fixed what it remembers -/
inductive Cmd
  | set (x : Oid) (f : Fid) (v prev : PyVal)
  | add (x : Oid) (f : Fid) (v : PyVal) (idx : Nat)
  | remove (x : Oid) (f : Fid) (v : PyVal) (idx : Nat)
  | move (x : Oid) (f : Fid) (v : PyVal) (frm to : Nat)

/-- current value(s) of a feature as Python values -/
def slotVals (mm : MM) (s : St) (x : Oid) (f : Fid) : List PyVal :=
  if (mm.feat f).isRef then (s.rs x f).map .obj else s.as x f

inductive Prep | cannot | raises | ok (c : Cmd)

/-- `can_execute` + the part of `do_execute` that fixes indices -/
def prepare (mm : MM) (s : St) : Spec → Prep
  | .set x f v =>
    if !hasFeat mm s x f || (mm.feat f).many then .cannot else
    .ok (.set x f v (match slotVals mm s x f with | p :: _ => p | [] => .none))
  | .add x f v idx =>
    if !hasFeat mm s x f || v == .none || !(mm.feat f).many then .cannot else
    let l := slotVals mm s x f
    if (mm.feat f).unique && l.contains v then .cannot else
    .ok (.add x f v (match idx with | some i => Py.clampIns l.length i | none => l.length))
  | .remove x f v idx =>
    if !hasFeat mm s x f || !(mm.feat f).many then .cannot else
    let l := slotVals mm s x f
    match v, idx with
    | some v, none => if v == .none then .cannot else
        match l.idxOf? v with
        | some k => .ok (.remove x f v k)
        | none => .raises
    | none, some i =>
      match Py.normIdx l.length i with
      | some k => (match l[k]? with | some v => .ok (.remove x f v k) | none => .raises)
      | none => .raises
    | _, _ => .raises
  | .move x f frm to v =>
    if !hasFeat mm s x f || !(mm.feat f).many then .cannot else
    let l := slotVals mm s x f
    let fv : Option (Nat × PyVal) := match frm, v with
      | some i, none => (Py.normIdx l.length i).bind fun k => (l[k]?).map fun v => (k, v)
      | none, some v => (l.idxOf? v).map fun k => (k, v)
      | _, _ => none
    match fv with
    | none => .raises
    | some (k, v) => .ok (.move x f v k (Py.clampIns (l.length - 1) to))

def Cmd.exec (mm : MM) (s : St) : Cmd → St × Res
  | .set x f v _ => step mm s (.set x f v)
  | .add x f v idx => step mm s (.insert x f idx v)
  | .remove x f _ idx => step mm s (.pop x f idx)
  | .move x f v frm to =>
    -- `self.value = self._collection.pop(self.from_index)`: what is inserted is what was popped
    let r := step mm s (.pop x f frm)
    match r.2 with
    | .error e => (r.1, .error e)
    | .ok popped => step mm r.1 (.insert x f to (popped.getD v))

/-- the command object after `do_execute` ran in state `s`: Remove and Move remember the element they popped (on the
    first execution that is the value `prepare` found; on a redo it may be another one) -/
def Cmd.after (mm : MM) (s : St) : Cmd → Cmd
  | .move x f v frm to => .move x f (((slotVals mm s x f)[frm]?).getD v) frm to
  | .remove x f v idx => .remove x f (((slotVals mm s x f)[idx]?).getD v) idx
  | c => c

def Cmd.undo (mm : MM) (s : St) : Cmd → St × Res
  | .set x f _ prev => step mm s (.set x f prev)
  | .add x f v idx => if (slotVals mm s x f).contains v then step mm s (.pop x f idx) else (s, .error .runtimeError)
  | .remove x f v idx => step mm s (.insert x f idx v)
  | .move x f v frm to =>
    -- `can_undo`: the element at `to_index` is the moved value
    if (slotVals mm s x f)[to]? != some v then (s, .error .runtimeError) else
    let r := step mm s (.pop x f to)
    match r.2 with
    | .error e => (r.1, .error e)
    | .ok _ => step mm r.1 (.insert x f frm v)

def Cmd.redo (mm : MM) (s : St) (c : Cmd) : St × Res := c.exec mm s

/-- `CommandStack`: `n` is `stack_index + 1`, the number of commands currently applied -/
structure CStack where
  stack : List Cmd := []
  n : Nat := 0

inductive Letter | exec (sp : Spec) | undo | redo

/-- one letter of a word; the outcome is `ok`, or why nothing happened -/
def cstep (mm : MM) (cs : CStack) (s : St) : Letter → CStack × St × String
  | .exec sp =>
    match prepare mm s sp with
    | .cannot => (cs, s, "cannot")
    | .raises => (cs, s, "raises")
    | .ok c =>
      let r := c.exec mm s
      match r.2 with
      | .error _ => (cs, r.1, "exec-raised")
      | .ok _ => ({ stack := cs.stack.take cs.n ++ [c.after mm s], n := cs.n + 1 }, r.1, "ok")     -- the redo tail is dropped
  | .undo =>
    if cs.n = 0 then (cs, s, "err") else
    match cs.stack[cs.n - 1]? with
    | none => (cs, s, "err")
    | some c =>
      let r := c.undo mm s
      match r.2 with
      | .error _ => (cs, r.1, "err")
      | .ok _ => ({ cs with n := cs.n - 1 }, r.1, "ok")
  | .redo =>
    match cs.stack[cs.n]? with
    | none => (cs, s, "err")
    | some c =>
      let r := c.redo mm s
      match r.2 with
      | .error _ => (cs, r.1, "err")
      | .ok _ => ({ stack := cs.stack.set cs.n (c.after mm s), n := cs.n + 1 }, r.1, "ok")

end Store
