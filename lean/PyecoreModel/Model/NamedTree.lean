/-!
# Name-based fragments of metamodel elements (C11, C10)

`EModelElement.eURIFragment` of a named element below a root package is `#//` followed by the names on the way down,
joined by `/`; `Resource._navigate_from` reads such a fragment by looking, level by level, for the contained element of
that name (sub-packages, classifiers, then any contained element).  The model is a tree of named nodes; positions are
lists of child indices.
-/
namespace NamedTree

inductive NT where
  | node (name : String) (kids : List NT)
deriving Repr

def NT.name : NT → String | .node n _ => n
def NT.kids : NT → List NT | .node _ ks => ks

/-- the node at a position (child indices from the root) -/
def NT.get : NT → List Nat → Option NT
  | t, [] => some t
  | t, i :: p => match t.kids[i]? with
    | some c => c.get p
    | none => none

/-- `eURIFragment`: the names below the root on the way to the position -/
def NT.frag : NT → List Nat → Option (List String)
  | _, [] => some []
  | t, i :: p => match t.kids[i]? with
    | some c => (c.frag p).map (c.name :: ·)
    | none => none

/-- `_navigate_from`: at every level, the first contained element of that name -/
def NT.resolve : NT → List String → Option (List Nat)
  | _, [] => some []
  | t, n :: ns =>
    let i := (t.kids.map NT.name).idxOf n
    match t.kids[i]? with
    | some c => (c.resolve ns).map (i :: ·)
    | none => none

/-- no two contained elements of one node bear the same name, all the way down -/
inductive NT.Uniq : NT → Prop
  | mk (n : String) (ks : List NT) : (ks.map NT.name).Nodup → (∀ k ∈ ks, k.Uniq) → NT.Uniq (.node n ks)

end NamedTree
