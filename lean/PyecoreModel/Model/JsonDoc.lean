import PyecoreModel.Model.XmiDoc
/-!
# JSON documents: what `JsonResource.save` writes for a containment tree and what `load` reads back (C09)

The value level of a document (`json.dumps` / `json.loads` are parameters).  Objects, metamodel view and normal form are
those of `Model/XmiDoc.lean`; an attribute value is an *atom*: its text with a one-character tag saying which JSON
kind carries it (`n` number, `b` true/false, `s` string) — `to_dict` writes int / float / bool / str natively and every
other type through `to_string`.

`DefaultObjectMapper.to_dict_from_obj` writes one key per `_isset` entry (skipping derived / transient features, the
reference back to the container, and values equal to the default unless defaults are serialised): a native value or a
list for attributes, `{"eClass": …, "$ref": token}` (or a list of them) for references, a nested object (or a list) for
containment; `eClass` first when the class is not the declared one, `uuid` last in uuid mode.  `to_obj` reads every key
but `eClass`, `$ref`, `uuid` as a feature of the class.
-/
namespace JDoc
open XDoc

inductive JV
  | null
  | atom (a : Str)
  | arr (l : List JV)
  | obj (l : List (Str × JV))
deriving Repr

/-- a reference as written: the class of the target and the token -/
structure JRef where
  cname : Str
  tok : Str
deriving DecidableEq, Repr

def kEClass : Str := "eClass".toList
def kRef : Str := "$ref".toList
def kUuid : Str := "uuid".toList

def sAtom (s : Str) : JV := .atom ('s' :: s)

def optAtom : Option Str → JV
  | none => .null
  | some s => .atom s

def refObj (r : JRef) : JV := .obj [(kEClass, sAtom r.cname), (kRef, sAtom r.tok)]

/-- what one `_isset` entry contributes to the dictionary -/
def jSlot (mm : MMX) (o : Opts) (cls : Nat) (ks : List (Str × JV)) (e : Str × SlotV JRef) : List (Str × JV) :=
  match mm.find cls e.1 with
  | none => []
  | some fi =>
    if fi.kind = .skip then [] else
    match e.2 with
    | .none => if o.sd || fi.dflt.isSome then [(e.1, .null)] else []
    | .attr1 v => if !veq fi v || o.sd then [(e.1, .atom v)] else []
    | .attrN vs => [(e.1, .arr (vs.map optAtom))]
    | .ref1 t => [(e.1, refObj t)]
    | .refN ts => [(e.1, .arr (ts.map refObj))]
    | .kids =>
      let mine := (ks.filter fun p => p.1 == e.1).map (·.2)
      if fi.many then [(e.1, .arr mine)]
      else match mine with
        | [] => []
        | k :: _ => [(e.1, k)]

mutual
/-- `DefaultObjectMapper.to_dict_from_obj` -/
def jEnc (mm : MMX) (o : Opts) (top : Bool) (decl : Nat) : SNode JRef → JV
  | .mk _via cls uuid slots kids =>
    let ks := jEncKids mm o cls kids
    .obj ((if top || decl != cls then [(kEClass, sAtom (mm.cname cls))] else [])
          ++ slots.flatMap (jSlot mm o cls ks)
          ++ (if o.uuid then [(kUuid, sAtom uuid)] else []))
def jEncKids (mm : MMX) (o : Opts) (pcls : Nat) : List (SNode JRef) → List (Str × JV)
  | [] => []
  | k :: t => (k.via, jEnc mm o false (declOf mm pcls k.via) k) :: jEncKids mm o pcls t
end

/-! ## load -/

def isReserved (k : Str) : Bool := k == kEClass || k == kRef || k == kUuid

def atomStr : JV → Option Str
  | .atom ('s' :: s) => some s
  | _ => none

/-- a reference value: `{"$ref": token, …}` -/
def refTok : JV → Option Str
  | .obj l => (l.lookup kRef).bind atomStr
  | _ => none

def jAttrElem : JV → Option (Option Str)
  | .null => some none
  | .atom a => some (some a)
  | _ => none

/-- the slot a non-containment feature gets from the value under its key; `none`: load raises -/
def jSlotOf (fi : FInfo) (v : JV) : Option (SlotV Str) :=
  match fi.kind, v with
  | _, .null => some .none
  | .attr, .atom a => if fi.many then none else some (.attr1 a)
  | .attr, .arr l => (l.mapM jAttrElem).map .attrN
  | .ref, .obj l => ((l.lookup kRef).bind atomStr).map .ref1
  | .ref, .arr l => (l.mapM refTok).map .refN
  | _, _ => none

def jEffSlot (fi : FInfo) (entries : List (Str × JV)) : Option (Option (Str × SlotV Str)) :=
  match fi.kind with
  | .attr | .ref =>
    (match entries.lookup fi.name with
     | none => some (some (fi.name, unsetSlot fi))
     | some v => (jSlotOf fi v).map fun s => some (fi.name, s))
  | _ => some none

mutual
/-- `to_obj` + the normal form of the object it builds; `none`: load raises -/
def jDec (mm : MMX) (top : Bool) (via : Str) (decl : Nat) : JV → Option (SNode Str)
  | .obj entries =>
    let cls? : Option Nat := match entries.lookup kEClass with
      | some v => (atomStr v).bind mm.cidOf
      | none => if top then none else some decl
    match cls? with
    | none => none
    | some cls =>
      if entries.any (fun e => !isReserved e.1 && (mm.find cls e.1).isNone) then none
      else
        let feats := mm.feats cls
        match feats.mapM (fun fi => jEffSlot fi entries), jDecKids mm cls entries with
        | some slots, some kidsByKey =>
          some (.mk (if top then [] else via) cls (((entries.lookup kUuid).bind atomStr).getD [])
            (slots.filterMap id)
            ((feats.filter fun fi => fi.kind = .cont).flatMap fun fi =>
              (kidsByKey.filter fun p => p.1 == fi.name).map (·.2)))
        | _, _ => none
  | _ => none
/-- the children under every containment key, in order; `none`: some child cannot be decoded -/
def jDecKids (mm : MMX) (pcls : Nat) : List (Str × JV) → Option (List (Str × SNode Str))
  | [] => some []
  | (k, v) :: t =>
    match jDecKids mm pcls t with
    | none => none
    | some rest =>
      match mm.find pcls k with
      | some fi =>
        if fi.kind = .cont then
          match v with
          | .null => some rest
          | .obj l => (match jDec mm false k fi.tcls (.obj l) with
            | some n => if fi.many then none else some ((k, n) :: rest)
            | none => none)
          | .arr l => if fi.many then (match jDecList mm k fi.tcls l with
              | some ns => some (ns.map (fun n => (k, n)) ++ rest)
              | none => none) else none
          | _ => none
        else some rest
      | none => some rest
def jDecList (mm : MMX) (via : Str) (decl : Nat) : List JV → Option (List (SNode Str))
  | [] => some []
  | v :: t => match jDec mm false via decl v, jDecList mm via decl t with
    | some n, some ns => some (n :: ns)
    | _, _ => none
end

/-- `_to_ref_from_obj`: the class of the target and its token; a dangling reference cannot be written -/
def jrefOf (mm : MMX) (o : Opts) (render : Path → Str) (roots : List (SNode Path)) (p : Path) : Option JRef :=
  match nodeAt roots p with
  | some n => some ⟨mm.cname n.cls, tokenOf mm o render roots p⟩
  | none => none

def jEncodeDoc (mm : MMX) (o : Opts) (render : Path → Str) (roots : List (SNode Path)) : Option (List JV) :=
  (mapRefsL (jrefOf mm o render roots) roots).map fun rs => rs.map (jEnc mm o true 0)

/-- (`to_obj` registers a uuid in the resource and, since the repair recorded in `known_findings.json`, keeps it on the
object as the XMI loader does: the loaded forest carries the uuids it was written with) -/
def jDecodeDoc (mm : MMX) (o : Opts) (parse : Str → Option Path) (doc : List JV) : Option (List (SNode Path)) :=
  match doc.mapM (jDec mm true [] 0) with
  | none => none
  | some rs => mapRefsL (resolveTok mm o parse rs) rs

end JDoc
