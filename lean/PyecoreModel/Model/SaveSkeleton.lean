/-!
# The step skeleton of `save()` (C16) and of `ResourceSet.get_resource` (C18)

`Generated/Skeletons.lean` lists, in source order, the effect steps read off the AST of `XMIResource.save`,
`JsonResource.save` and `ResourceSet.get_resource` on every run.  Here the steps are interpreted over a file store.
-/
namespace Skel

/-- effect steps of a `save()` body -/
inductive SaveStep
  | openOut     -- `open_out_stream(...)`: creates/truncates the target
  | build       -- building the tree / dict / bytes from the model: the only step that can fail on an unserializable model
  | write       -- `tree.write(...)` / `stream.write(...)`
  | flush
  | close
deriving DecidableEq, Repr

abbrev Bytes := List Nat

structure FS where
  file : Option Bytes        -- content at the target path
  opened : Bool := false
deriving DecidableEq, Repr

/-- run a save skeleton; `fault = true` means the model cannot be serialized (`build` raises);
`content` is what a successful build produces.  Returns the file store and whether the save raised. -/
def runSave (content : Bytes) (fault : Bool) : List SaveStep → FS → Option Bytes → FS × Bool
  | [], fs, _ => (fs, false)
  | .openOut :: rest, fs, built => runSave content fault rest { file := some [], opened := true } built
  | .build :: rest, fs, _ => if fault then (fs, true) else runSave content fault rest fs (some content)
  | .write :: rest, fs, built =>
    match built with
    | some b => runSave content fault rest { fs with file := if fs.opened then some b else fs.file } built
    | none => runSave content fault rest fs built
  | .flush :: rest, fs, built => runSave content fault rest fs built
  | .close :: rest, fs, built => runSave content fault rest { fs with opened := false } built

/-- every `build` step comes before the first `openOut` -/
def buildBeforeOpen : List SaveStep → Bool
  | [] => true
  | .openOut :: rest => !rest.contains .build
  | _ :: rest => buildBeforeOpen rest

/-- effect steps of `get_resource` -/
inductive LoadStep
  | lookup | create | load | removeOnError | reraise
deriving DecidableEq, Repr

end Skel
