/-!
# The text of an href (C14, C08)

A reference written into a document is either `uri#fragment` or, when the type has to be announced, `prefix:Type
uri#fragment`.  `Resource.normalize` drops the announced type — and must leave every other blank alone: it belongs to
the path of the other file (`my dir/b.xmi#//@kids.0`).

```python
head, blank, tail = fragment.partition(' ')
if blank and ':' in head and '/' not in head and '#' not in head:
    return tail.strip() or fragment
return fragment
```
-/
namespace HrefText

def isBlank (c : Char) : Bool := c == ' ' || c == '\t' || c == '\n' || c == '\r'

/-- `str.strip()` over the blanks of the palette -/
def strip (s : List Char) : List Char := ((s.dropWhile isBlank).reverse.dropWhile isBlank).reverse

/-- what precedes the first `' '` -/
def head (s : List Char) : List Char := s.takeWhile (· ≠ ' ')

/-- the word in front announces a type: `prefix:Type`, with nothing of a path or a fragment in it -/
def typeWord (w : List Char) : Bool := w.contains ':' && !w.contains '/' && !w.contains '#'

def normalize (s : List Char) : List Char :=
  match s.dropWhile (· ≠ ' ') with
  | [] => s                                         -- no blank at all
  | _ :: tail =>
    if typeWord (head s) then (if strip tail = [] then s else strip tail) else s

end HrefText
