/-!
# Attribute holders, defaults and `_isset` (C15)

Mirrors `EStructuralFeature.__get__/__set__/__delete__` for single-valued attributes, `EValue.__init__`
(`_value = efeature.get_default_value()`), `EAttribute.get_default_value` and `EDataType.default_value`
(`type_as_factory` ⇒ a fresh value per call).  Mutable values (dict, list) are cells of a heap, so that sharing is
expressible; immutable ones are integers.
-/
namespace Dflt

inductive V | none | imm (i : Int) | cell (c : Nat)
deriving DecidableEq, Repr, Inhabited

/-- what `get_default_value()` evaluates to for a feature:
`none'`/`imm` — `None` or an immutable value (default literal, explicit default, type default);
`shared c` — one mutable object handed out every time (an explicit mutable `default_value`, or — before the repair —
the factory default captured once at declaration);
`factory init` — a new mutable value on every call (`eType()` for `type_as_factory`, or a default literal parsed into a
list), starting with contents `init`. -/
inductive Src | none' | imm (i : Int) | shared (c : Nat) | factory (init : List Int)
deriving DecidableEq, Repr, Inhabited

structure St where
  holder : Nat → Nat → Option V := fun _ _ => Option.none    -- instance.__dict__[name] (the EValue), if materialised
  isset  : Nat → Nat → Bool := fun _ _ => false               -- feature in instance._isset
  heap   : Nat → List Int := fun _ => []                       -- contents of mutable values
  next   : Nat := 0                                            -- next fresh cell

/-- `feature.get_default_value()` -/
def dflt (src : Nat → Src) (s : St) (f : Nat) : V × St :=
  match src f with
  | .none' => (.none, s)
  | .imm i => (.imm i, s)
  | .shared c => (.cell c, s)
  | .factory init =>
    (.cell s.next, { s with next := s.next + 1, heap := fun c => if c = s.next then init else s.heap c })

def St.setHolder (s : St) (o f : Nat) (v : V) : St :=
  { s with holder := fun o' f' => if o' = o ∧ f' = f then some v else s.holder o' f' }

/-- `__get__`: return the held value; materialise the holder with the default when there is none.
`_isset` is not touched. -/
def read (src : Nat → Src) (s : St) (o f : Nat) : V × St :=
  match s.holder o f with
  | some v => (v, s)
  | Option.none => let r := dflt src s f; (r.1, r.2.setHolder o f r.1)

/-- `__set__` → `EValue._set`: store and mark `_isset` -/
def write (s : St) (o f : Nat) (v : V) : St :=
  { (s.setHolder o f v) with isset := fun o' f' => if o' = o ∧ f' = f then true else s.isset o' f' }

/-- assignment of a brand-new mutable value (`obj.f = {}`) -/
def writeFresh (s : St) (o f : Nat) : St :=
  write { s with next := s.next + 1 } o f (.cell s.next)

/-- `__delete__`: `setattr(instance, name, self.get_default_value())` -/
def del (src : Nat → Src) (s : St) (o f : Nat) : St :=
  let r := dflt src s f
  write r.2 o f r.1

/-- in-place mutation of a mutable value (`d[k] = …`, `l.append(k)`) -/
def mutate (s : St) (c : Nat) (k : Int) : St :=
  { s with heap := fun c' => if c' = c then s.heap c ++ [k] else s.heap c' }

/-- what a reader sees of a value -/
def view (s : St) : V → V × List Int
  | .cell c => (.cell c, s.heap c)
  | v => (v, [])

/-- what `save()` looks at: the features in `_isset` with their values -/
def saved (s : St) (o f : Nat) : Option (V × List Int) :=
  if s.isset o f then (s.holder o f).map (view s) else Option.none

inductive Op
  | read (o f : Nat) | write (o f : Nat) (i : Int) | writeNone (o f : Nat) | writeFresh (o f : Nat)
  | del (o f : Nat) | mutateRead (o f : Nat) (k : Int)      -- mutate the value obtained by reading o.f
deriving Repr

def step (src : Nat → Src) (s : St) : Op → St
  | .read o f => (read src s o f).2
  | .write o f i => write s o f (.imm i)
  | .writeNone o f => write s o f .none
  | .writeFresh o f => writeFresh s o f
  | .del o f => del src s o f
  | .mutateRead o f k =>
    let r := read src s o f
    match r.1 with
    | .cell c => mutate r.2 c k
    | _ => r.2

/-- cells `0 … nShared-1` are reserved for the shared defaults of the declarations -/
def init (nShared : Nat) : St := { next := nShared }

def run (src : Nat → Src) (nShared : Nat) (ops : List Op) : St := ops.foldl (step src) (init nShared)

end Dflt
