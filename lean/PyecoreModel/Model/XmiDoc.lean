import PyecoreModel.Model.XmiValues
/-!
# XMI documents: what `XMIResource.save` writes for a containment tree and what `load` reads back (C08)

The model works on the *element level* of a document (tag, the namespaced marks `xsi:type`, `xmi:id`, `xsi:nil`, plain
attributes in order, text, children in order); bytes ↔ elements is lxml's business and a parameter of the model.

An object is `SNode`: the containment feature it sits in (`via`), its class, its uuid, its `_isset` entries in order
(`slots`) and its contained children (`kids`, each carrying its `via`).  References are tokens (`ρ`): paths on the model
side, strings in a document.  `encNode` is `_go_across`; `decNode` is `_decode_eobject`/`_decode_node` followed by what the
loaded object then *is* — every feature of its class with its effective value, in the metamodel's feature order
(`eff`, the normal form).  `tokenOf`/`resolveTok` are `_build_path_from` and `Resource.resolve`.
-/
namespace XDoc
open Xmi

abbrev Str := List Char

inductive FKind | attr | ref | cont | skip
deriving DecidableEq, Repr

/-- what save/load need to know about a structural feature.  `skip`: derived, transient, the container end of a
    containment, map-typed — never written. -/
structure FInfo where
  name : Str
  kind : FKind
  many : Bool
  dflt : Option Str      -- text of the default of a single-valued attribute; `none` is Python's None
  tcls : Nat             -- declared class of a reference
  isId : Bool
  float : Bool := false  -- a float-typed attribute: `-0.0 == 0.0` (save compares values, not texts)
deriving Repr

structure MMX where
  nCls : Nat
  cname : Nat → Str
  feats : Nat → List FInfo     -- eAllStructuralFeatures of a class, in order
  ws : Char → Bool             -- str.isspace
  idText : Str → Str := fun s => s   -- the token text of an id attribute's stored text (JSON atoms carry a kind tag)

def MMX.find (mm : MMX) (c : Nat) (n : Str) : Option FInfo := (mm.feats c).find? fun f => f.name == n
def MMX.cidOf (mm : MMX) (n : Str) : Option Nat := (List.range mm.nCls).find? fun c => mm.cname c == n

structure Opts where
  sd : Bool        -- SERIALIZE_DEFAULT_VALUES
  uuid : Bool      -- resource.use_uuid

inductive SlotV (ρ : Type)
  | none                               -- a single-valued feature holding None
  | attr1 (v : Str)
  | attrN (vs : List (Option Str))
  | ref1 (t : ρ)
  | refN (ts : List ρ)
  | kids                               -- a containment feature: its children are the node's kids with that `via`
deriving Repr, DecidableEq

inductive SNode (ρ : Type)
  | mk (via : Str) (cls : Nat) (uuid : Str) (slots : List (Str × SlotV ρ)) (kids : List (SNode ρ))
deriving Repr

mutual
def SNode.decEq {ρ : Type} [DecidableEq ρ] : (a b : SNode ρ) → Decidable (a = b)
  | .mk v1 c1 u1 s1 k1, .mk v2 c2 u2 s2 k2 =>
    if h1 : v1 = v2 ∧ c1 = c2 ∧ u1 = u2 ∧ s1 = s2 then
      match SNode.decEqL k1 k2 with
      | isTrue hk => isTrue (by obtain ⟨a, b, c, d⟩ := h1; subst a b c d hk; rfl)
      | isFalse hk => isFalse (by intro h; cases h; exact hk rfl)
    else isFalse (by intro h; cases h; exact h1 ⟨rfl, rfl, rfl, rfl⟩)
def SNode.decEqL {ρ : Type} [DecidableEq ρ] : (a b : List (SNode ρ)) → Decidable (a = b)
  | [], [] => isTrue rfl
  | [], _ :: _ => isFalse (by simp)
  | _ :: _, [] => isFalse (by simp)
  | a :: as, b :: bs =>
    match SNode.decEq a b, SNode.decEqL as bs with
    | isTrue h1, isTrue h2 => isTrue (by rw [h1, h2])
    | isFalse h1, _ => isFalse (by intro h; cases h; exact h1 rfl)
    | _, isFalse h2 => isFalse (by intro h; cases h; exact h2 rfl)
end

instance {ρ : Type} [DecidableEq ρ] : DecidableEq (SNode ρ) := SNode.decEq

def SNode.via {ρ} : SNode ρ → Str | .mk v _ _ _ _ => v
def SNode.cls {ρ} : SNode ρ → Nat | .mk _ c _ _ _ => c
def SNode.uuid {ρ} : SNode ρ → Str | .mk _ _ u _ _ => u
def SNode.slots {ρ} : SNode ρ → List (Str × SlotV ρ) | .mk _ _ _ s _ => s
def SNode.kids {ρ} : SNode ρ → List (SNode ρ) | .mk _ _ _ _ k => k

inductive Elem
  | mk (tag : Str) (type : Option Str) (uuid : Option Str) (nil : Bool) (attrs : List (Str × Str)) (text : Option Str)
       (kids : List Elem)
deriving Repr

def Elem.tag : Elem → Str | .mk t _ _ _ _ _ _ => t
def Elem.type : Elem → Option Str | .mk _ t _ _ _ _ _ => t
def Elem.uuid : Elem → Option Str | .mk _ _ u _ _ _ _ => u
def Elem.nil : Elem → Bool | .mk _ _ _ n _ _ _ => n
def Elem.attrs : Elem → List (Str × Str) | .mk _ _ _ _ a _ _ => a
def Elem.text : Elem → Option Str | .mk _ _ _ _ _ t _ => t
def Elem.kids : Elem → List Elem | .mk _ _ _ _ _ _ k => k

def nilElem (f : Str) : Elem := .mk f none none true [] none []
/-- an element with text; XML cannot tell an empty text from none -/
def textElem (f : Str) (s : Str) : Elem := .mk f none none false [] (if s.isEmpty then none else some s) []

/-! ## save -/

def zeroF (s : Str) : Bool :=
  s == "0.0".toList || s == "-0.0".toList || s == "n0.0".toList || s == "n-0.0".toList   -- (JSON atoms carry a kind tag)

/-- Python's `value != default_value` on the texts: equal texts, or the two zeros of a float type -/
def veq (fi : FInfo) (v : Str) : Bool :=
  match fi.dflt with
  | some d => v == d || (fi.float && zeroF v && zeroF d)
  | Option.none => false

/-- `has_special_char` over the strings of a many-valued attribute (`None` counts) -/
def specialO (ws : Char → Bool) (vs : List (Option Str)) : Bool :=
  vs.any fun | none => true | some s => s.isEmpty || s.any ws

def declOf (mm : MMX) (pcls : Nat) (via : Str) : Nat := ((mm.find pcls via).map (·.tcls)).getD 0

/-- what one `_isset` entry contributes: plain attributes and child elements -/
def encSlot (mm : MMX) (o : Opts) (cls : Nat) (ks : List (Str × Elem)) (e : Str × SlotV Str) :
    List (Str × Str) × List Elem :=
  match mm.find cls e.1 with
  | none => ([], [])
  | some fi =>
    if fi.kind = .skip then ([], []) else
    match e.2 with
    | .none => if o.sd || (fi.kind = .attr && fi.dflt.isSome) then ([], [nilElem e.1]) else ([], [])
    | .attr1 v => if !veq fi v || o.sd then ([(e.1, v)], []) else ([], [])
    | .attrN vs =>
      if vs.isEmpty then ([], [])
      else if specialO mm.ws vs then ([], vs.map fun | none => nilElem e.1 | some s => textElem e.1 s)
      else ([(e.1, joinSp (vs.filterMap id))], [])
    | .ref1 t => ([(e.1, t)], [])
    | .refN ts => if ts.isEmpty then ([], []) else ([(e.1, joinSp ts)], [])
    | .kids => ([], (ks.filter fun p => p.1 == e.1).map (·.2))

mutual
/-- `_go_across` -/
def encNode (mm : MMX) (o : Opts) (top : Bool) (decl : Nat) : SNode Str → Elem
  | .mk via cls uuid slots kids =>
    let ks := encKids mm o cls kids
    let parts := slots.map (encSlot mm o cls ks)
    .mk (if top then mm.cname cls else via)
        (if !top && decl != cls then some (mm.cname cls) else none)
        (if o.uuid then some uuid else none) false
        (parts.flatMap (·.1)) none (parts.flatMap (·.2))
def encKids (mm : MMX) (o : Opts) (pcls : Nat) : List (SNode Str) → List (Str × Elem)
  | [] => []
  | k :: t => (k.via, encNode mm o false (declOf mm pcls k.via) k) :: encKids mm o pcls t
end

/-! ## load -/

inductive Child
  | node (tag : Str) (n : SNode Str)
  | text (tag : Str) (s : Str)
  | nil (tag : Str)
  | bad
deriving Repr

def Child.tag : Child → Str
  | .node t _ => t | .text t _ => t | .nil t => t | .bad => []

def isBad : Child → Bool | .bad => true | _ => false

/-- the value a child element gives to attribute `f`: `xsi:nil` is None, otherwise the text -/
def kidVal (f : Str) : Child → Option (Option Str)
  | .nil t => if t == f then some Option.none else Option.none
  | .text t s => if t == f then some (some s) else Option.none
  | _ => Option.none

/-- effective value of a feature after load, from the plain attribute of its name (if any) and the values its child
    elements gave, in document order.  Single-valued attribute: the last child wins, then the plain attribute, then the
    default; many-valued: the words of the plain attribute, then the children. -/
def decS (mm : MMX) (fi : FInfo) (a : Option Str) (kv : List (Option Str)) : Option (Str × SlotV Str) :=
  match fi.kind with
  | .attr =>
    some (fi.name,
      if fi.many then .attrN ((match a with | some s => (pySplit mm.ws s).map some | Option.none => []) ++ kv)
      else match (match kv.getLast? with
          | some r => r
          | Option.none => match a with
            | some s => some s
            | Option.none => fi.dflt) with
        | Option.none => .none
        | some s => .attr1 s)
  | .ref =>
    some (fi.name,
      if fi.many then .refN (match a with | some s => pySplit mm.ws s | Option.none => [])
      else match a with
        | some s => if s.isEmpty then .none else .ref1 s
        | Option.none => .none)
  | _ => Option.none

def decSlot (mm : MMX) (attrs : List (Str × Str)) (cs : List Child) (fi : FInfo) : Option (Str × SlotV Str) :=
  decS mm fi (attrs.lookup fi.name) (cs.filterMap (kidVal fi.name))

/-- the children held by a containment feature after load: all of them for a many-valued one, the last one for a
    single-valued one (each assignment replaces the previous child), none after an `xsi:nil` -/
def decCont (fi : FInfo) (cs : List Child) : List (SNode Str) :=
  let mine := cs.filter fun c => c.tag == fi.name
  if fi.many then mine.filterMap fun | .node _ n => some n | _ => Option.none
  else match mine.getLast? with
    | some (.node _ n) => [n]
    | _ => []

/-- the class of the object an element stands for: the root's tag, an explicit `xsi:type`, else the declared type -/
def decClass (mm : MMX) (top : Bool) (decl : Nat) (tag : Str) (type : Option Str) : Option Nat :=
  if top then mm.cidOf tag else match type with
    | some t => mm.cidOf t
    | Option.none => some decl

/-- the object built from an element once its class is known and its children are decoded; `none`: load raises
    (a child that cannot be decoded, an attribute that is not a feature of the class) -/
def buildNode (mm : MMX) (top : Bool) (tag : Str) (uuid : Option Str) (cls : Nat) (attrs : List (Str × Str))
    (cs : List Child) : Option (SNode Str) :=
  if cs.any isBad then Option.none
  else if !top && attrs.any (fun a => (mm.find cls a.1).isNone) then Option.none
  else
    some (.mk (if top then [] else tag) cls (uuid.getD [])
      ((mm.feats cls).filterMap (decSlot mm attrs cs))
      (((mm.feats cls).filter fun fi => fi.kind = .cont).flatMap fun fi => decCont fi cs))

mutual
/-- `_decode_eobject` + the normal form of the object it builds; `none`: load raises -/
def decNode (mm : MMX) (top : Bool) (decl : Nat) : Elem → Option (SNode Str)
  | .mk tag type uuid _nil attrs _text kids =>
    match decClass mm top decl tag type with
    | Option.none => Option.none
    | some cls => buildNode mm top tag uuid cls attrs (decKids mm cls kids)
def decKids (mm : MMX) (pcls : Nat) : List Elem → List Child
  | [] => []
  | e :: t =>
    (match mm.find pcls e.tag with
     | Option.none => Child.bad
     | some fi =>
       if e.nil then .nil e.tag
       else match fi.kind with
         | .attr => .text e.tag (e.text.getD [])
         | .cont => (match decNode mm false fi.tcls e with
            | some n => .node e.tag n
            | Option.none => .bad)
         | _ => .bad) :: decKids mm pcls t
end

/-! ## the normal form: what the object *is*, feature by feature -/

/-- the slot of a feature nobody set: the default of a single-valued attribute, None, or the empty collection -/
def unsetSlot {ρ : Type} (fi : FInfo) : SlotV ρ :=
  match fi.kind with
  | .attr => if fi.many then .attrN [] else (match fi.dflt with
    | some d => .attr1 d
    | Option.none => .none)
  | _ => if fi.many then .refN [] else .none

def effSlot {ρ : Type} (sd : Bool) (fi : FInfo) (slots : List (Str × SlotV ρ)) : Option (Str × SlotV ρ) :=
  match fi.kind with
  | .attr =>
    some (fi.name, match slots.lookup fi.name with
      | some (.attr1 v) => if !sd && veq fi v then .attr1 (fi.dflt.getD v) else .attr1 v
      | some s => s
      | Option.none => unsetSlot fi)
  | .ref =>
    some (fi.name, match slots.lookup fi.name with
      | some s => s
      | Option.none => unsetSlot fi)
  | _ => Option.none

mutual
def eff {ρ : Type} (mm : MMX) (o : Opts) (top : Bool) : SNode ρ → SNode ρ
  | .mk via cls uuid slots kids =>
    let ks := effKids mm o kids
    .mk (if top then [] else via) cls (if o.uuid then uuid else [])
      ((mm.feats cls).filterMap fun fi => effSlot o.sd fi slots)
      (((mm.feats cls).filter fun fi => fi.kind = .cont).flatMap fun fi => ks.filter fun k => k.via == fi.name)
def effKids {ρ : Type} (mm : MMX) (o : Opts) : List (SNode ρ) → List (SNode ρ)
  | [] => []
  | k :: t => eff mm o false k :: effKids mm o t
end

end XDoc

/-! ## references: `_build_path_from` and `Resource.resolve` -/
namespace XDoc
open Xmi

structure Path where
  root : Nat
  segs : List (Str × Option Nat)       -- (containment feature, index when many-valued)
deriving DecidableEq, Repr

def kidsVia {ρ : Type} (n : SNode ρ) (f : Str) : List (SNode ρ) := n.kids.filter fun k => k.via == f

def follow {ρ : Type} : SNode ρ → List (Str × Option Nat) → Option (SNode ρ)
  | n, [] => some n
  | n, (f, i) :: t => match (kidsVia n f)[i.getD 0]? with
    | some k => follow k t
    | Option.none => Option.none

def nodeAt {ρ : Type} (roots : List (SNode ρ)) (p : Path) : Option (SNode ρ) :=
  match roots[p.root]? with
  | some r => follow r p.segs
  | Option.none => Option.none

/-- the text of the id attribute of a node (first attribute flagged iD), if it has one and it holds a value other than
    its default (a default is not written in the document, so it could not be looked up after load) -/
def idValue {ρ : Type} (mm : MMX) (n : SNode ρ) : Option Str :=
  match (mm.feats n.cls).find? fun fi => fi.isId && fi.kind = .attr with
  | Option.none => Option.none
  | some fi => match n.slots.lookup fi.name with
    | some (.attr1 v) => if veq fi v then Option.none else some (mm.idText v)
    | _ => Option.none

/-- `Resource._is_reference_token` -/
def isTok (ws : Char → Bool) (s : Str) : Bool :=
  match s with
  | [] => false
  | c :: _ => c != '/' && !s.contains '#' && !s.any ws

/-- `_build_path_from` for a target of the same resource -/
def tokenOf {ρ : Type} (mm : MMX) (o : Opts) (render : Path → Str) (roots : List (SNode ρ)) (p : Path) : Str :=
  match nodeAt roots p with
  | Option.none => render p
  | some n =>
    if o.uuid then n.uuid
    else match idValue mm n with
      | some s => if isTok mm.ws s then s else render p
      | Option.none => render p

mutual
/-- the nodes of a tree with their paths, in document order (an object is registered before its children) -/
def nodesFrom {ρ : Type} (mm : MMX) (p : Path) : SNode ρ → List (Path × SNode ρ)
  | .mk via cls uuid slots kids => (p, .mk via cls uuid slots kids) :: kidsFrom mm p cls [] kids
def kidsFrom {ρ : Type} (mm : MMX) (p : Path) (pcls : Nat) (seen : List Str) : List (SNode ρ) → List (Path × SNode ρ)
  | [] => []
  | k :: t =>
    nodesFrom mm { p with segs := p.segs ++
        [(k.via, if ((mm.find pcls k.via).map (·.many)).getD true then some (seen.count k.via) else Option.none)] } k
      ++ kidsFrom mm p pcls (k.via :: seen) t
end

def allNodes {ρ : Type} (mm : MMX) (roots : List (SNode ρ)) : List (Path × SNode ρ) :=
  roots.zipIdx.flatMap fun (r, i) => nodesFrom mm ⟨i, []⟩ r

/-- `uuid_dict` after load: xmi:id values and id attribute values; a later registration overwrites an earlier one -/
def idTable {ρ : Type} (mm : MMX) (o : Opts) (roots : List (SNode ρ)) : List (Str × Path) :=
  (allNodes mm roots).flatMap fun (p, n) =>
    (if o.uuid then [(n.uuid, p)] else []) ++
    (match idValue mm n with | some s => [(s, p)] | Option.none => [])

/-- `Resource.resolve` for a token of a reference attribute -/
def resolveTok {ρ : Type} (mm : MMX) (o : Opts) (parse : Str → Option Path) (roots : List (SNode ρ)) (tok : Str) : Option Path :=
  if tok.contains '#' then Option.none                         -- an external reference: not this model's business
  else match tok with
    | [] => Option.none
    | c :: _ =>
      if c != '/' then lookupId (idTable mm o roots) tok
      else match parse tok with
        | Option.none => Option.none
        | some p => (nodeAt roots p).map fun _ => p

def mapSlot {ρ σ : Type} (f : ρ → Option σ) : SlotV ρ → Option (SlotV σ)
  | .none => some .none
  | .attr1 v => some (.attr1 v)
  | .attrN vs => some (.attrN vs)
  | .ref1 t => (f t).map .ref1
  | .refN ts => (ts.mapM f).map .refN
  | .kids => some .kids

def mapSlots {ρ σ : Type} (f : ρ → Option σ) : List (Str × SlotV ρ) → Option (List (Str × SlotV σ))
  | [] => some []
  | (k, s) :: t => match mapSlot f s, mapSlots f t with
    | some s', some t' => some ((k, s') :: t')
    | _, _ => Option.none

mutual
def mapRefs {ρ σ : Type} (f : ρ → Option σ) : SNode ρ → Option (SNode σ)
  | .mk via cls uuid slots kids =>
    match mapSlots f slots, mapRefsL f kids with
    | some s', some k' => some (.mk via cls uuid s' k')
    | _, _ => Option.none
def mapRefsL {ρ σ : Type} (f : ρ → Option σ) : List (SNode ρ) → Option (List (SNode σ))
  | [] => some []
  | k :: t => match mapRefs f k, mapRefsL f t with
    | some k', some t' => some (k' :: t')
    | _, _ => Option.none
end

/-- `XMIResource.save`, element level: one element per root -/
def encodeDoc (mm : MMX) (o : Opts) (render : Path → Str) (roots : List (SNode Path)) : Option (List Elem) :=
  (mapRefsL (fun p => some (tokenOf mm o render roots p)) roots).map fun rs => rs.map (encNode mm o true 0)

/-- `XMIResource.load`, element level: build every object, then resolve every reference token (`_decode_ereferences`) -/
def decodeDoc (mm : MMX) (o : Opts) (parse : Str → Option Path) (doc : List Elem) : Option (List (SNode Path)) :=
  match doc.mapM (decNode mm true 0) with
  | Option.none => Option.none
  | some rs => mapRefsL (resolveTok mm o parse rs) rs

end XDoc

/-! ## the text of a fragment path (`EObject.eURIFragment`, `extract_rootnum_and_frag`, `_navigate_from`) -/
namespace XDoc

def splitOnC (c : Char) : Str → List Str
  | [] => [[]]
  | x :: xs =>
    if x == c then [] :: splitOnC c xs
    else match splitOnC c xs with
      | [] => [[x]]
      | h :: t => (x :: h) :: t

def digitVal (c : Char) : Option Nat := if c.isDigit then some (c.toNat - '0'.toNat) else none

def natOfDigits : Str → Option Nat
  | [] => none
  | s => s.foldl (fun acc c => match acc, digitVal c with
      | some a, some d => some (a * 10 + d)
      | _, _ => none) (some 0)

def digitsOf (n : Nat) : Str := Nat.toDigits 10 n

def renderSeg (s : Str × Option Nat) : Str :=
  '/' :: '@' :: s.1 ++ (match s.2 with | none => [] | some k => '.' :: digitsOf k)

/-- `eURIFragment`: the root is written `/` when the resource has a single root, `/k` otherwise -/
def renderPath (single : Bool) (p : Path) : Str :=
  (if single then ['/'] else '/' :: digitsOf p.root) ++ (p.segs.map renderSeg).flatten

def parseSeg (s : Str) : Option (Str × Option Nat) :=
  match s with
  | '@' :: rest => (match splitOnC '.' rest with
    | [name] => some (name, none)
    | [name, idx] => (natOfDigits idx).map fun k => (name, some k)
    | _ => none)
  | _ => none

def parsePath (s : Str) : Option Path :=
  match s with
  | '/' :: rest =>
    let parts := splitOnC '/' rest
    let (root, segParts) : Nat × List Str := match parts with
      | h :: t => (match h with
        | c :: _ => if c.isDigit then ((natOfDigits h).getD 0, t) else (0, parts)
        | [] => (0, parts))
      | [] => (0, [])
    -- a root number that is not all digits makes `int()` raise
    if (match parts with | (c :: cs) :: _ => c.isDigit && (natOfDigits (c :: cs)).isNone | _ => false) then none
    else ((segParts.filter fun x => !x.isEmpty).mapM parseSeg).map fun segs => ⟨root, segs⟩
  | _ => none

end XDoc
