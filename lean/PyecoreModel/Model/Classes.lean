/-!
# Dynamic metaclasses, their Python classes and their instances (C12, C20)

`EClass.notifyChanged` keeps a Python class in step with the `EClass`: a structural feature or operation added to / removed
from the EClass is `setattr` / `delattr` on the Python class, a change of `eSuperTypes` recomputes `__bases__`
(`_update_supertypes`), and — since the repair — removing a feature or a supertype drops the value holders of features
an instance's class no longer has.  Attribute lookup on an instance follows Python's rule for data descriptors: the
classes of the MRO first (a feature found there answers), the instance `__dict__` otherwise.

The MRO is not recomputed here: lookup uses *reachability through `__bases__`*, which is what any MRO (C3 or pyecore's
two fall-backs) contains; the linear order only matters for shadowing, and feature names are unique along inheritance
paths in a well-formed metamodel.
-/
namespace Cls

abbrev Cid := Nat
abbrev Name := Nat

structure W where
  feats  : Cid → List Name := fun _ => []      -- EClass.eStructuralFeatures (names)
  ops    : Cid → List Name := fun _ => []      -- EClass.eOperations (normalised names)
  supers : Cid → List Cid := fun _ => []       -- EClass.eSuperTypes
  pdict  : Cid → List Name := fun _ => []      -- feature / method entries of python_class.__dict__
  bases  : Cid → List Cid := fun _ => []       -- python_class.__bases__ (EObject left out)
  nCls   : Nat := 0
  icls   : Nat → Cid := fun _ => 0             -- class of each instance
  idict  : Nat → List Name := fun _ => []      -- value holders in instance.__dict__
  nInst  : Nat := 0

/-- everything reachable through `g` in at most `fuel` steps -/
def reach (g : Cid → List Cid) : Nat → Cid → List Cid
  | 0, _ => []
  | k + 1, c => g c ++ (g c).flatMap (reach g k)

/-- `eAllSuperTypes` -/
def allSupers (w : W) (c : Cid) : List Cid := reach w.supers w.nCls c

/-- `eAllStructuralFeatures` (names): own, then inherited -/
def allFeatures (w : W) (c : Cid) : List Name := w.feats c ++ (allSupers w c).flatMap w.feats

def allOps (w : W) (c : Cid) : List Name := w.ops c ++ (allSupers w c).flatMap w.ops

/-- a name found on the class of the instance or on a class reachable through `__bases__` -/
def classLookup (w : W) (c : Cid) (n : Name) : Bool :=
  (w.pdict c).contains n || (reach w.bases w.nCls c).any fun d => (w.pdict d).contains n

/-- what `getattr(instance, n)` finds -/
inductive Found | descriptor | rawHolder | nothing
deriving DecidableEq, Repr

def getattr (w : W) (i : Nat) (n : Name) : Found :=
  if classLookup w (w.icls i) n then .descriptor
  else if (w.idict i).contains n then .rawHolder else .nothing

/-- `isinstance(instance, C)`: C is the class or reachable through `__bases__` -/
def isInstance (w : W) (i : Nat) (c : Cid) : Bool :=
  w.icls i == c || (reach w.bases w.nCls (w.icls i)).contains c

/-- `_drop_stale_holders`: every instance forgets the holders of names its class no longer offers -/
def purge (w : W) : W :=
  { w with idict := fun i => (w.idict i).filter fun n => (allFeatures w (w.icls i)).contains n }

inductive Edit
  | newClass
  | addFeat (c : Cid) (n : Name) | removeFeat (c : Cid) (n : Name)
  | addOp (c : Cid) (n : Name) | removeOp (c : Cid) (n : Name)
  | addSuper (c s : Cid) (front : Bool) | removeSuper (c s : Cid)
  | newInst (c : Cid) | touch (i : Nat) (n : Name)
deriving Repr

def edit (w : W) : Edit → W
  | .newClass => { w with nCls := w.nCls + 1 }
  | .addFeat c n =>
    { w with feats := fun c' => if c' = c then w.feats c ++ [n] else w.feats c'
             pdict := fun c' => if c' = c then w.pdict c ++ [n] else w.pdict c' }
  | .removeFeat c n =>
    purge { w with feats := fun c' => if c' = c then (w.feats c).filter (· ≠ n) else w.feats c'
                   pdict := fun c' => if c' = c then (w.pdict c).filter (· ≠ n) else w.pdict c' }
  | .addOp c n =>
    { w with ops := fun c' => if c' = c then w.ops c ++ [n] else w.ops c'
             pdict := fun c' => if c' = c then w.pdict c ++ [n] else w.pdict c' }
  | .removeOp c n =>
    { w with ops := fun c' => if c' = c then (w.ops c).filter (· ≠ n) else w.ops c'
             pdict := fun c' => if c' = c then (w.pdict c).filter (· ≠ n) else w.pdict c' }
  | .addSuper c s front =>
    let l := if front then s :: w.supers c else w.supers c ++ [s]
    { w with supers := fun c' => if c' = c then l else w.supers c'
             bases := fun c' => if c' = c then l else w.bases c' }
  | .removeSuper c s =>
    purge { w with supers := fun c' => if c' = c then (w.supers c).filter (· ≠ s) else w.supers c'
                   bases := fun c' => if c' = c then (w.supers c).filter (· ≠ s) else w.bases c' }
  | .newInst c => { w with nInst := w.nInst + 1, icls := fun i => if i = w.nInst then c else w.icls i,
                           idict := fun i => if i = w.nInst then [] else w.idict i }
  | .touch i n =>
    -- reading a feature materialises its holder; reading anything else does not
    if (allFeatures w (w.icls i)).contains n && !(w.idict i).contains n then
      { w with idict := fun i' => if i' = i then w.idict i ++ [n] else w.idict i' }
    else w

def run (es : List Edit) : W := es.foldl edit {}

/-- feature/method entries of the Python class are exactly the declared ones (as sets), bases are the supertypes -/
def Sync (w : W) : Prop := (∀ c n, n ∈ w.pdict c ↔ n ∈ w.feats c ∨ n ∈ w.ops c) ∧ w.bases = w.supers

/-- a name is not both a feature and an operation of one class (names are unique in a class) -/
def Disj (w : W) : Prop := ∀ c n, ¬ (n ∈ w.feats c ∧ n ∈ w.ops c)

/-- no instance holds a holder for a name that is not a feature of its class -/
def NoStale (w : W) : Prop := ∀ i n, n ∈ w.idict i → n ∈ allFeatures w (w.icls i)

def Inv (w : W) : Prop := Sync w ∧ Disj w ∧ NoStale w

/-- edits a well-formed metamodel allows: a name added to a class is new to that class -/
def Admissible (w : W) : Edit → Prop
  | .addFeat c n | .addOp c n => n ∉ w.pdict c
  | .removeFeat c n => n ∈ w.feats c          -- removing what is not declared raises before anything happens
  | .removeOp c n => n ∈ w.ops c
  | _ => True

end Cls
