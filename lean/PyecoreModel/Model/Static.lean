import PyecoreModel.Model.Operations
/-!
# Static definition of a metaclass and its reflection (C13)

A static metaclass is a Python class body; `Core._promote` (run by `MetaEClass.__init__`) reflects it into an `EClass`:
the name, `eSuperTypes` from `__bases__` (EObject skipped), the structural features among the body's entries in
definition order (an unnamed feature takes its key as name), the functions among them as operations (`Ops.promote`).
A dynamic metaclass is described directly.  `render` writes a description the way pyecoregen does.
-/
namespace Static

/-- what the reflective API says about a structural feature -/
structure FDescr where
  name : String
  isRef : Bool
  many : Bool
  ordered : Bool
  unique : Bool
  cont : Bool
  typ : String
  opp : Option String
  dflt : Option String
deriving DecidableEq, Repr

structure CDescr where
  name : String
  abstr : Bool
  supers : List String
  feats : List FDescr
  ops : List Ops.Op
deriving DecidableEq, Repr

/-- an `EAttribute(...)` / `EReference(...)` expression of a class body; `name` is the explicit `name=` if any -/
structure FDecl where
  name : Option String
  isRef : Bool
  many : Bool
  ordered : Bool
  unique : Bool
  cont : Bool
  typ : String
  opp : Option String
  dflt : Option String
deriving DecidableEq, Repr

inductive Item
  | feat (d : FDecl)
  | func (kind : Ops.Kind) (fname : String) (args : List String) (ndefaults : Nat)
  | other
deriving Repr

/-- a class statement: name, bases (Python names, `EObject`/`object` possibly among them), `@abstract`, body -/
structure Body where
  name : String
  bases : List String
  abstr : Bool
  items : List (String × Item)
deriving Repr

def reflectFeat (key : String) (d : FDecl) : FDescr :=
  { name := d.name.getD key, isRef := d.isRef, many := d.many, ordered := d.ordered, unique := d.unique,
    cont := d.cont, typ := d.typ, opp := d.opp, dflt := d.dflt }

/-- `Core._promote` followed by the `@abstract` decorator -/
def promote (b : Body) : CDescr :=
  { name := b.name
    abstr := b.abstr
    supers := b.bases.filter fun s => s ≠ "EObject" && s ≠ "object"
    feats := b.items.filterMap fun (k, it) => match it with
      | .feat d => some (reflectFeat k d)
      | _ => none
    ops := b.items.filterMap fun (k, it) => match it with
      | .func kind fname args nd => Ops.promote ⟨k, fname, kind, args, nd⟩
      | _ => none }

def declOf (f : FDescr) : FDecl :=
  { name := none, isRef := f.isRef, many := f.many, ordered := f.ordered, unique := f.unique, cont := f.cont,
    typ := f.typ, opp := f.opp, dflt := f.dflt }

def funcOf (op : Ops.Op) : String × Item :=
  (op.name, .func .function op.name (op.params.map (·.name)) (op.params.filter (!·.required)).length)

/-- pyecoregen-style rendering: features first (key = feature name, no explicit name), then methods -/
def render (c : CDescr) : Body :=
  { name := c.name
    bases := if c.supers.isEmpty then ["EObject"] else c.supers
    abstr := c.abstr
    items := c.feats.map (fun f => (f.name, Item.feat (declOf f))) ++ c.ops.map funcOf }

/-- an operation as a static method can carry it: `self` first and required, required parameters before optional ones,
    a name that is not private -/
def OpOK (op : Ops.Op) : Prop :=
  op.name.startsWith "__" = false ∧
  ∃ req opt : List Ops.Param, op.params = ⟨"self", true⟩ :: (req ++ opt) ∧
    (∀ p ∈ req, p.required = true) ∧ (∀ p ∈ opt, p.required = false)

def CDescr.OK (c : CDescr) : Prop :=
  (∀ s ∈ c.supers, s ≠ "EObject" ∧ s ≠ "object") ∧ (∀ op ∈ c.ops, OpOK op)

end Static
