/-!
# Python `list` semantics used as the *specification* of multi-valued features (C04)

Plain Lean lists with Python's index conventions (`Int` indices, negative = from the end,
`insert` clamps, the others raise `IndexError` out of range).  These definitions are the
reference a collection has to agree with; they are themselves validated against CPython's
`list` by the correspondence pass of C04 (the non-unique declarations *are* Python lists).
No Mathlib import: the driver links natively.
-/
namespace Py

/-- The exception kinds that matter to the properties. -/
inductive Err
  | badValue | keyError | indexError | valueError | attributeError | typeError | recursion | runtimeError
deriving DecidableEq, Repr, Inhabited

def Err.name : Err → String
  | .badValue => "BadValueError" | .keyError => "KeyError" | .indexError => "IndexError"
  | .valueError => "ValueError" | .attributeError => "AttributeError" | .typeError => "TypeError"
  | .recursion => "RecursionError" | .runtimeError => "RuntimeError"

instance {ε α : Type} [DecidableEq ε] [DecidableEq α] : DecidableEq (Except ε α) := fun a b =>
  match a, b with
  | .ok x, .ok y => if h : x = y then isTrue (by rw [h]) else isFalse (by intro e; cases e; exact h rfl)
  | .error x, .error y => if h : x = y then isTrue (by rw [h]) else isFalse (by intro e; cases e; exact h rfl)
  | .ok _, .error _ => isFalse (by intro e; cases e)
  | .error _, .ok _ => isFalse (by intro e; cases e)

variable {α : Type}

/-- `list.insert` position: negative counts from the end and is clamped to 0, too large is clamped to `n`. -/
def clampIns (n : Nat) (i : Int) : Nat :=
  if i < 0 then (if (n : Int) + i > 0 then ((n : Int) + i).toNat else 0)
  else (if i < n then i.toNat else n)

/-- Index normalisation of `l[i]`, `l.pop(i)`, `del l[i]`, `l[i] = x`: `none` is `IndexError`. -/
def normIdx (n : Nat) (i : Int) : Option Nat :=
  if i < 0 then (if (n : Int) + i ≥ 0 then some ((n : Int) + i).toNat else none)
  else (if i < n then some i.toNat else none)

def insertAt (l : List α) (i : Nat) (x : α) : List α := l.take i ++ x :: l.drop i

/-- `l.insert(i, x)` -/
def pyInsert (l : List α) (i : Int) (x : α) : List α := insertAt l (clampIns l.length i) x

/-- `l[i]` -/
def pyGet (l : List α) (i : Int) : Option α := (normIdx l.length i).bind (fun k => l[k]?)

/-- `l.pop(i)` / `del l[i]`: the list afterwards and the removed element. -/
def pyPop (l : List α) (i : Int) : Option (List α × α) :=
  match normIdx l.length i with
  | none => none
  | some k => match l[k]? with
    | none => none
    | some x => some (l.eraseIdx k, x)

/-- `l[i] = x` -/
def pySet (l : List α) (i : Int) (x : α) : Option (List α) :=
  (normIdx l.length i).map (fun k => l.set k x)

/-- `l.index(x)`: first position, `none` is `ValueError`. -/
def pyIndex [DecidableEq α] (l : List α) (x : α) : Option Nat :=
  let k := l.findIdx (· = x)
  if k < l.length then some k else none

/-- `l.remove(x)`: first occurrence, `none` is `ValueError`. -/
def pyRemove [DecidableEq α] (l : List α) (x : α) : Option (List α) :=
  if x ∈ l then some (l.erase x) else none

/-! ### slices `l[a:b:k]` (specification: `slice.indices(len(l))` of CPython) -/

/-- `slice(a, b, k).indices(n)` for `k ≠ 0`: the first position and the bound, as CPython clamps them -/
def sliceBounds (n : Nat) (a b : Option Int) (k : Int) : Int × Int :=
  let n' : Int := n
  let clamp (v : Int) (lo hi : Int) : Int := if v < 0 then (if v + n' < lo then lo else v + n') else (if v > hi then hi else v)
  if k > 0 then
    ((match a with | none => 0 | some v => clamp v 0 n'), (match b with | none => n' | some v => clamp v 0 n'))
  else
    ((match a with | none => n' - 1 | some v => clamp v (-1) (n' - 1)), (match b with | none => -1 | some v => clamp v (-1) (n' - 1)))

/-- the positions of the slice, in the order Python visits them (`fuel` bounds the walk: `n` positions at most) -/
def slicePositions (n : Nat) (a b : Option Int) (k : Int) : List Nat :=
  let (start, stop) := sliceBounds n a b k
  let rec go (fuel : Nat) (i : Int) (acc : List Nat) : List Nat :=
    match fuel with
    | 0 => acc.reverse
    | fuel + 1 =>
      if (k > 0 ∧ i < stop) ∨ (k < 0 ∧ i > stop) then go fuel (i + k) (i.toNat :: acc) else acc.reverse
  go n start []

/-- `del l[a:b:k]` -/
def pyDelSlice (l : List α) (a b : Option Int) (k : Int) : List α :=
  let ps := slicePositions l.length a b k
  (l.zipIdx.filter (fun (_, i) => !ps.contains i)).map (·.1)

end Py
