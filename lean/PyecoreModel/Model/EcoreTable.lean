/-! Rows of the Ecore self-description table (C10): one per (concrete metaclass, structural feature). -/
namespace EcoreT

structure Row where
  metaclass : String       -- the concrete metaclass an instance of which was probed
  owner : String           -- the metaclass that declares the feature
  name : String
  derived : Bool
  transient : Bool
  many : Bool
  inSignature : Bool       -- one of the constructs the property lists
  marksIsSet : Bool        -- assigning through attribute syntax records the feature in `_isset`
deriving DecidableEq, Repr

/-- written by `save()`: in `_isset`, neither derived nor transient -/
def Row.persisted (r : Row) : Bool := r.marksIsSet && !r.derived && !r.transient

end EcoreT
