/-!
# The value layers of XMI save/load (C08)

What `XMIResource._go_across` writes for one attribute and what `load` reads back from it, on character lists:

* a many-valued attribute is one XML attribute `' '.join(strings)` when every string is non-empty and free of
  whitespace, else one child element per value (`has_special_char`); it is read back with `str.split()`, resp. one
  value per element; an empty collection writes nothing;
* a single-valued attribute is omitted when it equals its default (unless defaults are serialised), written as an
  `xsi:nil` element when it is `None` and omission would change it, else as an XML attribute; an absent attribute
  reads as the default;
* references are written as ids (uuid mode / id attributes) or fragments (C11) and looked up again;
* after all references are resolved, a many-valued reference with an opposite is put back in document order.
-/
namespace Xmi

/-- Python `s.split()`: maximal runs of non-whitespace characters -/
def splitAux (ws : Char → Bool) : List Char → List Char → List (List Char)
  | [], cur => if cur.isEmpty then [] else [cur.reverse]
  | c :: cs, cur =>
    if ws c then (if cur.isEmpty then splitAux ws cs [] else cur.reverse :: splitAux ws cs [])
    else splitAux ws cs (c :: cur)

def pySplit (ws : Char → Bool) (s : List Char) : List (List Char) := splitAux ws s []

/-- `' '.join(l)` -/
def joinSp : List (List Char) → List Char
  | [] => []
  | [x] => x
  | x :: y :: t => x ++ ' ' :: joinSp (y :: t)

/-- how a non-empty many-valued attribute is written -/
inductive ManyForm
  | attr (text : List Char)               -- name="v1 v2 v3"
  | elements (vals : List (List Char))    -- <name>v1</name><name>v2</name>…
deriving DecidableEq, Repr

/-- `has_special_char`: some string is empty or contains whitespace -/
def special (ws : Char → Bool) (vs : List (List Char)) : Bool := vs.any (fun s => s.isEmpty || s.any ws)

def encodeMany (ws : Char → Bool) (vs : List (List Char)) : Option ManyForm :=
  if vs.isEmpty then none
  else if special ws vs then some (.elements vs) else some (.attr (joinSp vs))

def decodeMany (ws : Char → Bool) : Option ManyForm → List (List Char)
  | none => []
  | some (.attr t) => pySplit ws t
  | some (.elements vs) => vs

/-- how a single-valued attribute is written -/
inductive OneForm (α : Type)
  | absent | nil | attr (v : α)
deriving DecidableEq, Repr

variable {α : Type} [DecidableEq α]

/-- `value` is `none` for Python's `None`; `dflt` likewise -/
def encodeOne (serializeDefaults : Bool) (dflt value : Option α) : OneForm α :=
  match value with
  | none => if serializeDefaults || dflt.isSome then .nil else .absent
  | some v => if some v ≠ dflt || serializeDefaults then .attr v else .absent

def decodeOne (dflt : Option α) : OneForm α → Option α
  | .absent => dflt
  | .nil => none
  | .attr v => some v

/-- uuid / id tables filled while decoding: later entries overwrite earlier ones, as a Python dict does -/
def lookupId {β : Type} (tbl : List (List Char × β)) (k : List Char) : Option β :=
  (tbl.reverse.find? (fun p => p.1 == k)).map (·.2)

/-- put a collection back in document order when it holds exactly the same elements -/
def reorder (coll doc : List Nat) : List Nat :=
  if coll.length = doc.length ∧ coll.all (doc.contains ·) ∧ doc.all (coll.contains ·) then doc else coll

end Xmi
