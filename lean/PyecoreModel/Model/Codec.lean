/-!
# Data type values ↔ text (C17)

The converter *kinds* found in `pyecore.ecore` / `pyecore.type` (`Generated/DataTypeTable.lean` classifies every
`EDataType` into them on every run) and executable models of the ones that are plain logic:
decimal integers, booleans, identity on strings, enumeration literals by name, and the fixed-width ISO form of dates
`%Y-%m-%dT%H:%M:%S.%f%z` with Python's `%z` (`±HHMM[SS[.ffffff]]`).
Floats and `Decimal` are not modelled (CPython's shortest-repr / decimal module): their kinds are checked by
enumeration and sampling only.
-/
namespace Codec

inductive PyT | str | bool | int | float | decimal | datetime | other
deriving DecidableEq, Repr

/-- `to_string` shapes -/
inductive ToKind | str | lowerStr | strftimeIso | unknown
deriving DecidableEq, Repr

/-- `from_string` shapes -/
inductive FromKind | ident | int | float | decimal | inTrueList | parseDate | unknown
deriving DecidableEq, Repr

structure Row where
  name : String
  py   : PyT
  to   : ToKind
  frm  : FromKind
deriving DecidableEq, Repr

/-- the (type, to, from) combinations for which the round trip is established — by a theorem below (`proved`) or,
for the CPython-defined float and Decimal text forms, by the enumeration/sampling of the check (`sampled`) -/
inductive Status | proved | sampled | notTextual | broken
deriving DecidableEq, Repr

def Row.status (r : Row) : Status :=
  match r.py, r.to, r.frm with
  | .str, .str, .ident => .proved
  | .int, .str, .int => .proved
  | .bool, .lowerStr, .inTrueList => .proved
  | .datetime, .strftimeIso, .parseDate => .proved
  | .float, .str, .float => .sampled
  | .decimal, .str, .decimal => .sampled
  | .other, _, _ => .notTextual
  | _, _, _ => .broken

/-! ## integers: `str(n)` / `int(s)` -/
def intTo (n : Int) : String := toString n
def intFrom (s : String) : Option Int := s.toInt?

/-! ## booleans: `str(b).lower()` / `x in ['True', 'true']` -/
def boolTo (b : Bool) : String := if b then "true" else "false"
def boolFrom (s : String) : Bool := s == "True" || s == "true"

/-! ## enumerations: the literal's name / lookup by name -/
def enumFrom (names : List String) (s : String) : Option Nat :=
  let k := names.idxOf s
  if k < names.length then some k else none

/-! ## dates -/
structure Tz where
  neg : Bool
  hh : Nat
  mm : Nat
  ss : Nat
  us : Nat
deriving DecidableEq, Repr

structure DT where
  Y : Nat
  M : Nat
  D : Nat
  h : Nat
  m : Nat
  s : Nat
  us : Nat
  tz : Option Tz
deriving DecidableEq, Repr

def digitChar (d : Nat) : Char := Char.ofNat (48 + d % 10)

/-- zero-padded decimal of width `w` (the low `w` digits), most significant first -/
def pad : Nat → Nat → List Char
  | 0, _ => []
  | w + 1, n => digitChar (n / 10 ^ w) :: pad w (n % 10 ^ w)

def digitVal (c : Char) : Option Nat :=
  if 48 ≤ c.toNat ∧ c.toNat ≤ 57 then some (c.toNat - 48) else none

/-- read exactly `w` digits -/
def digitsN : Nat → Nat → List Char → Option (Nat × List Char)
  | 0, acc, cs => some (acc, cs)
  | w + 1, acc, c :: cs => match digitVal c with
    | some d => digitsN w (acc * 10 + d) cs
    | none => none
  | _ + 1, _, [] => none

def expect (c : Char) : List Char → Option (List Char)
  | c' :: cs => if c' = c then some cs else none
  | [] => none

def fmtTz : Option Tz → List Char
  | none => []
  | some t =>
    [if t.neg then '-' else '+'] ++ pad 2 t.hh ++ pad 2 t.mm ++
      (if t.ss = 0 ∧ t.us = 0 then [] else pad 2 t.ss ++ (if t.us = 0 then [] else '.' :: pad 6 t.us))

/-- `d.strftime('%Y-%m-%dT%H:%M:%S.%f%z')` -/
def fmtDate (d : DT) : List Char :=
  pad 4 d.Y ++ ['-'] ++ pad 2 d.M ++ ['-'] ++ pad 2 d.D ++ ['T'] ++ pad 2 d.h ++ [':'] ++ pad 2 d.m ++ [':'] ++
    pad 2 d.s ++ ['.'] ++ pad 6 d.us ++ fmtTz d.tz

def parseTz : List Char → Option (Option Tz)
  | [] => some none
  | c :: cs =>
    if c = '+' ∨ c = '-' then
      match digitsN 2 0 cs with
      | none => none
      | some (hh, r1) => match digitsN 2 0 r1 with
        | none => none
        | some (mm, r2) =>
          match r2 with
          | [] => some (some ⟨c = '-', hh, mm, 0, 0⟩)
          | _ => match digitsN 2 0 r2 with
            | none => none
            | some (ss, r3) => match r3 with
              | [] => some (some ⟨c = '-', hh, mm, ss, 0⟩)
              | _ => match expect '.' r3 with
                | none => none
                | some r4 => match digitsN 6 0 r4 with
                  | some (us, []) => some (some ⟨c = '-', hh, mm, ss, us⟩)
                  | _ => none
    else none

/-- the reading of that form (`datetime.fromisoformat` / `strptime('%Y-%m-%dT%H:%M:%S.%f%z')`) -/
def parseDate (cs : List Char) : Option DT := do
  let (Y, r) ← digitsN 4 0 cs
  let r ← expect '-' r
  let (M, r) ← digitsN 2 0 r
  let r ← expect '-' r
  let (D, r) ← digitsN 2 0 r
  let r ← expect 'T' r
  let (h, r) ← digitsN 2 0 r
  let r ← expect ':' r
  let (m, r) ← digitsN 2 0 r
  let r ← expect ':' r
  let (s, r) ← digitsN 2 0 r
  let r ← expect '.' r
  let (us, r) ← digitsN 6 0 r
  let tz ← parseTz r
  pure ⟨Y, M, D, h, m, s, us, tz⟩

/-- field widths: what the fixed-width form can carry -/
def DT.Fits (d : DT) : Prop :=
  d.Y < 10000 ∧ d.M < 100 ∧ d.D < 100 ∧ d.h < 100 ∧ d.m < 100 ∧ d.s < 100 ∧ d.us < 1000000 ∧
  (∀ t, d.tz = some t → t.hh < 100 ∧ t.mm < 100 ∧ t.ss < 100 ∧ t.us < 1000000)

end Codec
