/-!
# Path algebra behind cross-resource hrefs (C14)

`URI.relative_from_me` is `os.path.relpath(other, dirname(me))`, `URI.apply_relative_from_me` is
`os.path.join(dirname(me), rel)` followed (in `normalize`) by `os.path.abspath`, on normalised absolute paths.  Paths are
lists of segments below the root.
-/
namespace Paths

abbrev Path := List String

/-- no empty, `.` or `..` segment: what `os.path.abspath` returns -/
def Clean (p : Path) : Prop := ∀ s ∈ p, s ≠ "." ∧ s ≠ ".." ∧ s ≠ ""

def dirname (p : Path) : Path := p.dropLast

def commonLen : Path → Path → Nat
  | a :: as, b :: bs => if a = b then commonLen as bs + 1 else 0
  | _, _ => 0

/-- `os.path.relpath(target, start)` for absolute normalised paths -/
def relpath (target start : Path) : Path :=
  let c := commonLen start target
  let r := List.replicate (start.length - c) ".." ++ target.drop c
  if r.isEmpty then ["."] else r

/-- `os.path.join(start, rel)` for a relative `rel` -/
def join (start rel : Path) : Path := start ++ rel

/-- one segment of `os.path.normpath`, on a reversed stack -/
def normStep (st : List String) (seg : String) : List String :=
  if seg = "." ∨ seg = "" then st else if seg = ".." then st.tail else seg :: st

/-- `os.path.abspath` of an absolute path -/
def normalize (p : Path) : Path := (p.foldl normStep []).reverse

/-- what an href built in resource `me` for a target in file `other` resolves to when read from `me` -/
def hrefRoundTrip (me other : Path) : Path := normalize (join (dirname me) (relpath other (dirname me)))

end Paths
