import PyecoreModel.Model.SaveSkeleton
/-!
# `ResourceSet.get_resource` over its step skeleton (C18)

`resources` is the dict of the resource set (key → resource id).  `create` registers a fresh resource under the
normalised URI *before* the load starts; a load may register further keys for the resources it pulls in (and alias keys
for itself); `removeOnError` deletes every entry whose value is the resource that failed (`remove_resource`).
-/
namespace Skel

abbrev Key := String
abbrev RSet := List (Key × Nat)

structure GState where
  resources : RSet
  next : Nat                   -- next fresh resource id
deriving DecidableEq, Repr

inductive Outcome | found (r : Nat) | loaded (r : Nat) | raised | stuck
deriving DecidableEq, Repr

/-- what a load does to the set: `aliases` are extra keys it registers for the resource being loaded, `ok` whether it
succeeds -/
structure LoadEffect where
  aliases : List Key
  ok : Bool

def lookupKey (rs : RSet) (k : Key) : Option Nat := (rs.find? (·.1 == k)).map (·.2)

/-- interpret the skeleton for one call `get_resource(uri)` -/
def runGet (eff : LoadEffect) (uri : Key) : List LoadStep → GState → Option Nat → GState × Outcome
  | [], g, some r => (g, .loaded r)
  | [], g, none => (g, .stuck)
  | .lookup :: rest, g, cur =>
    match lookupKey g.resources uri with
    | some r => (g, .found r)
    | none => runGet eff uri rest g cur
  | .create :: rest, g, _ =>
    runGet eff uri rest { resources := g.resources ++ [(uri, g.next)], next := g.next + 1 } (some g.next)
  | .load :: rest, g, some r =>
    let g' := { g with resources := g.resources ++ eff.aliases.map (fun k => (k, r)) }
    if eff.ok then runGet eff uri rest g' (some r)
    else
      -- the exception handler: what follows in the skeleton is the handler's body
      match rest with
      | .removeOnError :: .reraise :: _ => ({ g' with resources := g'.resources.filter (·.2 != r) }, .raised)
      | .reraise :: _ => (g', .raised)
      | _ => (g', .raised)
  | .load :: _, g, none => (g, .stuck)
  | .removeOnError :: rest, g, cur => runGet eff uri rest g cur      -- handler steps are skipped on success
  | .reraise :: rest, g, cur => runGet eff uri rest g cur

/-- every registered id is below `next` (so a freshly created id is new) -/
def GState.Fresh (g : GState) : Prop := ∀ p ∈ g.resources, p.2 < g.next

end Skel
