import PyecoreModel.Model.XmiValues
import PyecoreModel.Model.Codec
/-!
# The value layer of JSON save/load (C09)

`JsonResource.to_dict` writes an attribute value natively when the data type's Python type is int / float / bool / str,
an enumeration literal by name, anything else through `to_string`; `None` becomes `null`; a value equal to the default
is omitted unless defaults are serialised.  `process_inst` hands whatever JSON delivers to the data type's
`from_string` (the Python value itself for native kinds: `int(5)`, `x in ['True','true'] or x is True`, the identity on
strings), `null` back to `None`.  Floats are opaque tags (CPython's float ↔ JSON number round trip is not modelled).
-/
namespace Json

inductive JV
  | null | bool (b : Bool) | int (i : Int) | float (tag : Nat) | str (s : String) | arr (l : List JV)
deriving Repr, Inhabited

/-- attribute values of the kinds the model distinguishes -/
inductive AV
  | bool (b : Bool) | int (i : Int) | float (tag : Nat) | str (s : String) | lit (enum : List String) (k : Nat)
  | date (d : Codec.DT)
deriving DecidableEq, Repr

/-- `to_dict` on one non-None attribute value -/
def encodeVal : AV → JV
  | .bool b => .bool b
  | .int i => .int i
  | .float t => .float t
  | .str s => .str s
  | .lit names k => .str (names.getD k "")
  | .date d => .str (String.ofList (Codec.fmtDate d))

/-- what the declared type expects back -/
inductive Kind | bool | int | float | str | enum (names : List String) | date
deriving DecidableEq, Repr

def AV.kind : AV → Kind
  | .bool _ => .bool | .int _ => .int | .float _ => .float | .str _ => .str | .lit n _ => .enum n | .date _ => .date

/-- `from_string` applied to what JSON delivers -/
def decodeVal : Kind → JV → Option AV
  | .bool, .bool b => some (.bool b)                    -- `x in ['True','true'] or x is True`
  | .bool, .str s => some (.bool (Codec.boolFrom s))
  | .int, .int i => some (.int i)                        -- int(5)
  | .int, .str s => (Codec.intFrom s).map .int
  | .float, .float t => some (.float t)
  | .str, .str s => some (.str s)
  | .enum names, .str s => (Codec.enumFrom names s).map (.lit names)
  | .date, .str s => (Codec.parseDate s.toList).map .date
  | _, _ => none

/-- a single-valued attribute in the dict: absent, `null`, or a value -/
def encodeOne (serializeDefaults : Bool) (dflt value : Option AV) : Xmi.OneForm JV :=
  match value with
  | none => if serializeDefaults || dflt.isSome then .nil else .absent         -- None != default ⇒ written (as null)
  | some v => if some v ≠ dflt || serializeDefaults then .attr (encodeVal v) else .absent

def decodeOne (k : Kind) (dflt : Option AV) : Xmi.OneForm JV → Option (Option AV)
  | .absent => some dflt
  | .nil => some none
  | .attr j => (decodeVal k j).map some

def encodeMany (vs : List AV) : JV := .arr (vs.map encodeVal)

def decodeMany (k : Kind) : JV → Option (List AV)
  | .arr l => l.mapM (decodeVal k)
  | _ => none

end Json
