import PyecoreModel.Model.OSet
/-!
# Notifications of one feature slot (C05)

Every change of a feature value in pyecore is made by one of the slot mutators below — `EValue._set`,
`EList.append/extend/__setitem__/__delitem__`, `EAbstractSet.add/update/__setitem__`,
`ECollection.insert/remove/pop/clear` — also the implicit changes of an opposite end, which call the same mutators
with `update_opposite=False`.  `slotStep` is what such a mutator does to the slot *and* which notifications it hands
to `owner.notify`, in order.  `applyNotif` is the observer of the property statement.
-/
namespace Py

inductive Kind | add | addMany | move | remove | removeMany | set | unset
deriving DecidableEq, Repr

def Kind.name : Kind → String
  | .add => "ADD" | .addMany => "ADD_MANY" | .move => "MOVE" | .remove => "REMOVE"
  | .removeMany => "REMOVE_MANY" | .set => "SET" | .unset => "UNSET"

/-- `old`/`new` payloads as lists: a single value is `[v]`, `None` is `[]` -/
structure Notif (α : Type) where
  kind : Kind
  old  : List α
  new  : List α
deriving Repr

variable {α : Type} [DecidableEq α]

/-- the observer's insertion: a unique feature is mirrored as a set -/
def obsAdd (unique : Bool) (cur : List α) (x : α) : List α :=
  if unique && cur.contains x then cur else cur ++ [x]

/-- "SET/UNSET replace, ADD/ADD_MANY insert, REMOVE/REMOVE_MANY delete" -/
def applyNotif (unique : Bool) (cur : List α) (n : Notif α) : List α :=
  match n.kind with
  | .set | .unset => n.new
  | .add | .addMany => n.new.foldl (obsAdd unique) cur
  | .remove | .removeMany => n.old.foldl (fun c x => c.erase x) cur
  | .move => cur

def replay (unique : Bool) (cur : List α) (ns : List (Notif α)) : List α := ns.foldl (applyNotif unique) cur

/-- the kinds of slot: single-valued (`EValue`), list-like (`EList`/`EBag`), set-like (`EOrderedSet`/`ESet`) -/
inductive SlotKind | single | list | set
deriving DecidableEq, Repr

inductive SOp (α : Type)
  | assign (v : Option α)                 -- EValue._set(v)
  | append (x : α) | insert (i : Int) (x : α) | remove (x : α) | pop (i : Int) | clear
  | extend (xs : List α) | setItem (i : Int) (x : α) | delItem (i : Int)
deriving Repr

structure SOut (α : Type) where
  items  : List α
  notifs : List (Notif α)
  raised : Bool

def SOut.err (l : List α) : SOut α := ⟨l, [], true⟩

/-- a many-valued slot is its `OSet` (set-like) or a plain list (list-like); positions do not matter here, so the
set-like slot is modelled by the list specification of C04 (`listStep true`), justified by `C04_step` -/
def slotStep (k : SlotKind) (l : List α) : SOp α → SOut α
  | .assign v =>
    match k with
    | .single =>
      let new := match v with | some x => [x] | none => []
      ⟨new, [⟨if v.isSome then .set else .unset, l, new⟩], false⟩
    | _ => SOut.err l
  | .append x =>
    match k with
    | .single => SOut.err l
    | .list => ⟨l ++ [x], [⟨.add, [], [x]⟩], false⟩
    | .set => ⟨if l.contains x then l else l ++ [x], [⟨.add, [], [x]⟩], false⟩
  | .insert i x =>
    match k with
    | .single => SOut.err l
    | .list => ⟨pyInsert l i x, [⟨.add, [], [x]⟩], false⟩
    | .set => ⟨if l.contains x then l else pyInsert l i x, [⟨.add, [], [x]⟩], false⟩
  | .remove x =>
    match k with
    | .single => SOut.err l
    | _ => if x ∈ l then ⟨l.erase x, [⟨.remove, [x], []⟩], false⟩ else SOut.err l
  | .pop i =>
    match k with
    | .single => SOut.err l
    | _ => match pyPop l i with
      | none => SOut.err l
      | some (l', x) => ⟨l', [⟨.remove, [x], []⟩], false⟩
  | .clear =>
    match k with
    | .single => SOut.err l
    | _ => if l.isEmpty then ⟨l, [], false⟩ else ⟨[], [⟨.removeMany, l, []⟩], false⟩
  | .extend xs =>
    match k with
    | .single => SOut.err l
    | .list => ⟨l ++ xs, [⟨.addMany, [], xs⟩], false⟩
    | .set => ⟨xs.foldl (fun c x => if c.contains x then c else c ++ [x]) l, [⟨.addMany, [], xs⟩], false⟩
  | .setItem i x =>
    match k with
    | .single => SOut.err l
    | .list => match pyPop l i, pySet l i x with
      | some (_, y), some l' => ⟨l', [⟨.remove, [y], []⟩, ⟨.add, [], [x]⟩], false⟩
      | _, _ => SOut.err l
    | .set => match pyPop l i with
      | none => SOut.err l
      | some (l', y) =>
        ⟨if l'.contains x then l' else pyInsert l' (match normIdx l.length i with | some k => (k : Int) | none => 0) x,
         [⟨.remove, [y], []⟩, ⟨.add, [], [x]⟩], false⟩
  | .delItem i =>
    match k with
    | .single => SOut.err l
    | _ => match pyPop l i with
      | none => SOut.err l
      | some (l', x) => ⟨l', [⟨.remove, [x], []⟩], false⟩

/-- what leaves a list-like slot in one call: nothing said for nothing, REMOVE for one element, REMOVE_MANY otherwise -/
def removedNotifs (xs : List α) : List (Notif α) :=
  match xs with
  | [] => []
  | [x] => [⟨.remove, [x], []⟩]
  | _ => [⟨.removeMany, xs, []⟩]

/-- … and what comes in: nothing, ADD, ADD_MANY -/
def addedNotifs (xs : List α) : List (Notif α) :=
  match xs with
  | [] => []
  | [x] => [⟨.add, [], [x]⟩]
  | _ => [⟨.addMany, [], xs⟩]

/-- `l[a:b] = ys` on a list-like slot (`EList.__setitem__` with a slice; `del l[a:b]` is `ys = []`), for slice bounds
    `0 ≤ a`, `0 ≤ b` as Python clamps them -/
def sliceStep (l : List α) (a b : Nat) (ys : List α) : SOut α :=
  let a' := min a l.length
  let b' := max a' (min b l.length)
  ⟨l.take a' ++ ys ++ l.drop b', removedNotifs ((l.drop a').take (b' - a')) ++ addedNotifs ys, false⟩

/-! ### extended slices (`l[a:b:k]`, `k ≥ 2`) and `l *= n` -/

/-- the positions `a, a+k, a+2k, … < b` of an extended slice -/
def inExt (a b k : Nat) (i : Nat) : Bool := decide (a ≤ i) && decide (i < b) && ((i - a) % k == 0)

/-- the elements at the chosen positions, and the others (positions counted from `i`) -/
def pickAt (p : Nat → Bool) : Nat → List α → List α × List α
  | _, [] => ([], [])
  | i, x :: xs => if p i then (x :: (pickAt p (i + 1) xs).1, (pickAt p (i + 1) xs).2)
                  else ((pickAt p (i + 1) xs).1, x :: (pickAt p (i + 1) xs).2)

/-- the chosen positions take the successive elements of `ys` -/
def replaceAt (p : Nat → Bool) : Nat → List α → List α → List α
  | _, [], _ => []
  | i, x :: xs, ys =>
    if p i then
      match ys with
      | y :: ys' => y :: replaceAt p (i + 1) xs ys'
      | [] => x :: replaceAt p (i + 1) xs []
    else x :: replaceAt p (i + 1) xs ys

/-- `del l[a:b:k]`: `EList.__delitem__` pops the positions from the highest one down, one REMOVE each -/
def delExtStep (l : List α) (a b k : Nat) : SOut α :=
  ⟨(pickAt (inExt a b k) 0 l).2, (pickAt (inExt a b k) 0 l).1.reverse.map (fun x => ⟨.remove, [x], []⟩), false⟩

/-- `l[a:b:k] = ys`: refused (ValueError, nothing reported) unless as many come in as leave -/
def setExtStep (l : List α) (a b k : Nat) (ys : List α) : SOut α :=
  if ys.length ≠ (pickAt (inExt a b k) 0 l).1.length then SOut.err l else
  ⟨replaceAt (inExt a b k) 0 l ys, removedNotifs (pickAt (inExt a b k) 0 l).1 ++ addedNotifs ys, false⟩

def SlotKind.unique : SlotKind → Bool | .set => true | _ => false

/-- run a history on a slot, collecting every notification -/
def slotRun (k : SlotKind) (ops : List (SOp α)) (l : List α) : List α × List (Notif α) :=
  ops.foldl (fun (acc : List α × List (Notif α)) op =>
    let o := slotStep k acc.1 op
    (o.items, acc.2 ++ o.notifs)) (l, [])

/-- `l *= n` on a list-like slot: `clear()` for `n ≤ 0`, else `extend` with `n - 1` more copies -/
def imulOps (l : List α) (n : Int) : List (SOp α) :=
  if n ≤ 0 then [.clear] else [.extend ((List.replicate (n.toNat - 1) l).flatten)]

end Py
