import PyecoreModel.Model.StoreNav
import PyecoreModel.Lemmas.StoreTyped
/-! Lemmas for C11 / C19. -/
set_option linter.unusedSectionVars false
set_option linter.unusedSimpArgs false
set_option linter.unusedVariables false
namespace Store
variable (mm : MM)

theorem navigate_append (s : St) (o : Oid) (p q : List Seg) :
    navigate mm s o (p ++ q) = (navigate mm s o p).bind (fun m => navigate mm s m q) := by
  induction p generalizing o with
  | nil => simp [navigate]
  | cons h t ih =>
    obtain ⟨f, i⟩ := h
    cases i with
    | none =>
      simp only [List.cons_append, navigate]
      split
      · simp
      · split
        · exact ih _
        · simp
    | some i =>
      simp only [List.cons_append, navigate]
      split
      · exact ih _
      · simp

/-- navigating the fragment segments of `o` from the top of its chain arrives at `o` -/
theorem navigate_fragSegs (s : St) (h : Inv mm s) (n : Nat) (o : Oid) (hroot : s.cont (eRoot s n o) = none) :
    navigate mm s (eRoot s n o) (fragSegs mm s n o) = some o := by
  induction n generalizing o with
  | zero => simp [eRoot, fragSegs, navigate]
  | succ n ih =>
    simp only [eRoot, fragSegs] at hroot ⊢
    cases hc : s.cont o with
    | none => simp [navigate]
    | some pf =>
      obtain ⟨p, f⟩ := pf
      simp only [hc] at hroot ⊢
      rw [navigate_append, ih p hroot]
      simp only [Option.bind_some]
      have hown := (h.2.2.1 o p f).1 hc
      by_cases hm : (mm.feat f).many = true
      · simp only [hm, if_true, navigate]
        have hlt : (s.rs p f).idxOf o < (s.rs p f).length := List.idxOf_lt_length_of_mem hown.2
        rw [List.getElem?_eq_getElem hlt]
        simp [navigate]
      · have hm' : (mm.feat f).many = false := by simpa using hm
        simp only [hm', Bool.false_eq_true, if_false, navigate]
        have hlen := (h.2.1 p f).1 hm'
        have : s.rs p f = [o] := by
          cases hl : s.rs p f with
          | nil => rw [hl] at hown; cases hown.2
          | cons a t =>
            rw [hl] at hlen hown
            cases t with
            | nil => simp at hown; rw [hown.2]
            | cons _ _ => simp at hlen
        simp [this, navigate]

/-- the root number of the fragment selects the root object in its resource -/
theorem root_lookup (s : St) (hr : ResOK s) (t : Oid) (r : Rid) (he : s.eres t = some r) :
    (s.rcont r)[(fragRoot s t).getD 0]? = some t := by
  have hmem : t ∈ s.rcont r := (hr.1 t r).1 he
  unfold fragRoot
  simp only [he]
  split
  · rename_i hlen
    simp only [Option.getD_none]
    cases hl : s.rcont r with
    | nil => rw [hl] at hmem; cases hmem
    | cons a tl =>
      rw [hl] at hlen hmem
      cases tl with
      | nil => simp at hmem; simp [hmem]
      | cons _ _ => simp at hlen
  · simp only [Option.getD_some]
    have hlt : (s.rcont r).idxOf t < (s.rcont r).length := List.idxOf_lt_length_of_mem hmem
    rw [List.getElem?_eq_getElem hlt]; simp

/-! ### containment views -/

theorem mem_children (s : St) (o x : Oid) :
    x ∈ children mm s o ↔ ∃ f, f < mm.nFeat ∧ (mm.feat f).cont = true ∧ x ∈ s.rs o f := by
  unfold children
  simp only [List.mem_flatMap, List.mem_range]
  constructor
  · rintro ⟨f, hf, hx⟩
    split at hx
    · rename_i hc; exact ⟨f, hf, hc, hx⟩
    · cases hx
  · rintro ⟨f, hf, hc, hx⟩
    exact ⟨f, hf, by simp [hc, hx]⟩

/-- in a typed state satisfying `Own`, the children of `o` are exactly the objects whose container is `o` -/
theorem mem_children_iff_cont (s : St) (h : Inv mm s) (ht : Typed mm s) (o x : Oid) :
    x ∈ children mm s o ↔ ∃ f, s.cont x = some (o, f) := by
  rw [mem_children]
  constructor
  · rintro ⟨f, _, hc, hx⟩; exact ⟨f, (h.2.2.1 x o f).2 ⟨hc, hx⟩⟩
  · rintro ⟨f, hc⟩
    have := (h.2.2.1 x o f).1 hc
    exact ⟨f, (ht.1 o f x this.2).1.2, this.1, this.2⟩

theorem mem_descendants (s : St) (h : Inv mm s) (ht : Typed mm s) (n : Nat) (o x : Oid) :
    x ∈ descendants mm s n o ↔ ∃ k, k < n ∧ anc s (k + 1) x = some o := by
  induction n generalizing o x with
  | zero => simp [descendants]
  | succ n ih =>
    simp only [descendants, List.mem_flatMap, List.mem_cons]
    constructor
    · rintro ⟨c, hc, hx⟩
      obtain ⟨f, hcf⟩ := (mem_children_iff_cont mm s h ht o c).1 hc
      rcases hx with rfl | hx
      · exact ⟨0, Nat.succ_pos n, by simp [anc, hcf]⟩
      · obtain ⟨k, hk, ha⟩ := (ih c x).1 hx
        refine ⟨k + 1, Nat.succ_lt_succ hk, ?_⟩
        -- anc (k+2) x = anc 1 (anc (k+1) x)
        have : ∀ (j : Nat) (y z : Oid), anc s j y = some z → anc s (j + 1) y = anc s 1 z := by
          intro j
          induction j with
          | zero => intro y z hz; simp [anc] at hz; subst hz; rfl
          | succ j ihj =>
            intro y z hz
            simp only [anc] at hz ⊢
            cases hcy : s.cont y with
            | none => simp [hcy] at hz
            | some pf => obtain ⟨p, f'⟩ := pf; simp only [hcy] at hz ⊢; exact ihj p z hz
        rw [this (k + 1) x c ha]; simp [anc, hcf]
    · rintro ⟨k, hk, ha⟩
      -- peel the last step of the chain
      have peel : ∀ (j : Nat) (y : Oid), anc s (j + 1) y = some o →
          ∃ c, (∃ f, s.cont c = some (o, f)) ∧ anc s j y = some c := by
        intro j
        induction j with
        | zero =>
          intro y hy
          simp only [anc] at hy
          cases hcy : s.cont y with
          | none => simp [hcy] at hy
          | some pf =>
            obtain ⟨p, f'⟩ := pf
            simp only [hcy, Option.some.injEq] at hy; subst hy
            exact ⟨y, ⟨f', hcy⟩, rfl⟩
        | succ j ihj =>
          intro y hy
          simp only [anc] at hy
          cases hcy : s.cont y with
          | none => simp [hcy] at hy
          | some pf =>
            obtain ⟨p, f'⟩ := pf
            simp only [hcy] at hy
            obtain ⟨c, hc, hpc⟩ := ihj p hy
            exact ⟨c, hc, by simp [anc, hcy, hpc]⟩
      obtain ⟨c, hc, hxc⟩ := peel k x ha
      refine ⟨c, (mem_children_iff_cont mm s h ht o c).2 hc, ?_⟩
      cases k with
      | zero => simp [anc] at hxc; exact Or.inl hxc
      | succ k => exact Or.inr ((ih c x).2 ⟨k, Nat.lt_of_succ_lt_succ hk, hxc⟩)

end Store
