import PyecoreModel.Model.XmiValues
/-! Round-trip lemmas of the XMI value layers (C08). -/
set_option linter.unusedVariables false
namespace Xmi

variable (ws : Char → Bool)

def Word (w : List Char) : Prop := w ≠ [] ∧ ∀ c ∈ w, ws c = false

theorem splitAux_word (w rest cur : List Char) (hw : ∀ c ∈ w, ws c = false) :
    splitAux ws (w ++ rest) cur = splitAux ws rest (w.reverse ++ cur) := by
  induction w generalizing cur with
  | nil => simp
  | cons c cs ih =>
    have hc : ws c = false := hw c (by simp)
    have hcs : ∀ c ∈ cs, ws c = false := fun c h => hw c (List.mem_cons_of_mem _ h)
    simp only [List.cons_append, splitAux, hc]
    have := ih (c :: cur) hcs
    simpa using this

theorem split_join (hsp : ws ' ' = true) (l : List (List Char)) (h : ∀ w ∈ l, Word ws w) :
    pySplit ws (joinSp l) = l := by
  unfold pySplit
  induction l with
  | nil => simp [joinSp, splitAux]
  | cons x t ih =>
    have hx := h x (by simp)
    cases t with
    | nil =>
      simp only [joinSp]
      have := splitAux_word ws x [] [] hx.2
      simp only [List.append_nil] at this
      rw [this]
      simp [splitAux, hx.1]
    | cons y t =>
      simp only [joinSp]
      rw [splitAux_word ws x _ [] hx.2]
      simp only [List.append_nil, splitAux, hsp]
      have : x.reverse.isEmpty = false := by
        cases x with
        | nil => exact absurd rfl hx.1
        | cons a b => simp
      simp only [this, List.reverse_reverse]
      rw [ih (fun w hw => h w (by simp [hw]))]
      simp

theorem not_special_words (vs : List (List Char)) (h : special ws vs = false) : ∀ w ∈ vs, Word ws w := by
  intro w hw
  unfold special at h
  have := (List.any_eq_false.1 h) w hw
  simp only [Bool.or_eq_true, not_or, Bool.not_eq_true] at this
  refine ⟨?_, ?_⟩
  · intro e; subst e; simp at this
  · intro c hc
    have h2 := this.2
    rw [List.any_eq_false] at h2
    have := h2 c hc
    simpa using this

theorem many_roundtrip (hsp : ws ' ' = true) (vs : List (List Char)) :
    decodeMany ws (encodeMany ws vs) = vs := by
  unfold encodeMany
  by_cases he : vs.isEmpty = true
  · have : vs = [] := List.isEmpty_iff.1 he
    simp [this, decodeMany]
  · simp only [he]
    by_cases hs : special ws vs = true
    · simp [hs, decodeMany]
    · have hs' : special ws vs = false := by simpa using hs
      simp only [hs', decodeMany]
      exact split_join ws hsp vs (not_special_words ws vs hs')

theorem one_roundtrip {α : Type} [DecidableEq α] (sd : Bool) (dflt value : Option α) :
    decodeOne dflt (encodeOne sd dflt value) = value := by
  cases value with
  | none =>
    simp only [encodeOne]
    cases hd : dflt with
    | none => cases sd <;> simp [decodeOne]
    | some d => simp [decodeOne]
  | some v =>
    simp only [encodeOne]
    by_cases h : some v = dflt
    · cases sd <;> simp [h, decodeOne]
    · simp [h, decodeOne]

theorem lookupId_append {β : Type} (tbl : List (List Char × β)) (k : List Char) (b : β) :
    lookupId (tbl ++ [(k, b)]) k = some b := by
  simp [lookupId]

/-- an id registered once (no later entry with the same key) is found again -/
theorem lookupId_unique {β : Type} (pre post : List (List Char × β)) (k : List Char) (b : β)
    (h : ∀ p ∈ post, p.1 ≠ k) : lookupId (pre ++ (k, b) :: post) k = some b := by
  unfold lookupId
  simp only [List.reverse_append, List.reverse_cons, List.append_assoc, List.singleton_append]
  rw [List.find?_append]
  have : List.find? (fun p => p.1 == k) post.reverse = none := by
    rw [List.find?_eq_none]
    intro p hp
    have := h p (List.mem_reverse.1 hp)
    simpa using this
  simp [this]

theorem reorder_perm (coll doc : List Nat) (hl : coll.length = doc.length) (hm : ∀ x, x ∈ coll ↔ x ∈ doc) :
    reorder coll doc = doc := by
  unfold reorder
  have h1 : coll.all (doc.contains ·) = true := by
    rw [List.all_eq_true]; intro x hx; simpa using (hm x).1 hx
  have h2 : doc.all (coll.contains ·) = true := by
    rw [List.all_eq_true]; intro x hx; simpa using (hm x).2 hx
  rw [if_pos ⟨hl, h1, h2⟩]

/-- whatever happens, `reorder` returns one of its two arguments, and they hold the same elements when it changes
anything -/
theorem reorder_same_elements (coll doc : List Nat) : ∀ x, x ∈ reorder coll doc ↔ x ∈ coll := by
  intro x
  unfold reorder
  split
  · rename_i h
    obtain ⟨_, h1, h2⟩ := h
    rw [List.all_eq_true] at h1 h2
    constructor
    · intro hx; simpa using h2 x hx
    · intro hx; simpa using h1 x hx
  · exact Iff.rfl

end Xmi
