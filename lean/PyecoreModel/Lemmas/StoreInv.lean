import PyecoreModel.Model.StoreInv
import PyecoreModel.Lemmas.StoreBasic
/-! The link-level primitives preserve the invariants. -/
set_option linter.unusedSectionVars false
set_option linter.unusedSimpArgs false
namespace Store
variable (mm : MM)

theorem isList_false_of_opp (hwf : mm.WF) {f g} (h : (mm.feat f).opp = some g) : (mm.feat f).isList = false := by
  have := hwf.opp_unique f g h; simp [Feature.isList, this]

theorem isList_false_of_cont (hwf : mm.WF) {f} (h : (mm.feat f).cont = true) : (mm.feat f).isList = false := by
  have := (hwf.cont_unique f h).1; simp [Feature.isList, this]

/-! ### unlinkRaw -/

theorem unlinkRaw_sym (hwf : mm.WF) (s : St) (hs : Sym mm s) (x f y) : Sym mm (unlinkRaw mm s x f y) := by
  intro f' g' hfg a b
  have l1 := isList_false_of_opp mm hwf hfg
  have l2 := isList_false_of_opp mm hwf (hwf.opp_mutual f' g' hfg).1
  rw [mem_unlinkRaw mm hwf s x f y a f' b l1, mem_unlinkRaw mm hwf s x f y b g' a l2]
  have := hs f' g' hfg a b
  have h1 := hwf.opp_mutual f' g' hfg
  have h2 : ∀ g, (mm.feat f).opp = some g → (mm.feat g).opp = some f := fun g h => (hwf.opp_mutual f g h).1
  grind

theorem unlinkRaw_card (s : St) (hc : Card mm s) (x f y) : Card mm (unlinkRaw mm s x f y) := by
  intro a f'
  have h0 := hc a f'
  have hx := hc x f
  rw [unlinkRaw_rs]
  split
  · cases hopp : (mm.feat f).opp with
    | none =>
      simp only []
      split
      · rename_i hh; obtain ⟨rfl, rfl⟩ := hh
        exact ⟨fun h => Nat.le_trans (rmVal_length_le _ _ _) (h0.1 h), fun h => rmVal_nodup _ _ _ (h0.2 h)⟩
      · exact h0
    | some g =>
      simp only []
      have hy := hc y g
      split
      · rename_i hh; obtain ⟨rfl, rfl⟩ := hh
        split
        · rename_i h2; obtain ⟨rfl, rfl⟩ := h2
          exact ⟨fun h => Nat.le_trans (rmVal_length_le _ _ _) (Nat.le_trans (rmVal_length_le _ _ _) (h0.1 h)),
                 fun h => rmVal_nodup _ _ _ (rmVal_nodup _ _ _ (h0.2 h))⟩
        · exact ⟨fun h => Nat.le_trans (rmVal_length_le _ _ _) (h0.1 h), fun h => rmVal_nodup _ _ _ (h0.2 h)⟩
      · split
        · rename_i hh; obtain ⟨rfl, rfl⟩ := hh
          exact ⟨fun h => Nat.le_trans (rmVal_length_le _ _ _) (h0.1 h), fun h => rmVal_nodup _ _ _ (h0.2 h)⟩
        · exact h0
  · exact h0

theorem unlinkRaw_own (hwf : mm.WF) (s : St) (hs : Sym mm s) (ho : Own mm s) (x f y) :
    Own mm (unlinkRaw mm s x f y) := by
  intro o p f'
  by_cases hxy : y ∈ s.rs x f
  case neg => rw [unlinkRaw_absent mm s x f y hxy]; exact ho o p f'
  rw [unlinkRaw_cont]
  have h0 := ho o p f'
  have hfun : ∀ o p1 f1 p2 f2, s.cont o = some (p1, f1) → s.cont o = some (p2, f2) → p1 = p2 ∧ f1 = f2 := by
    intro o p1 f1 p2 f2 h1 h2; rw [h1] at h2; cases h2; exact ⟨rfl, rfl⟩
  by_cases hcf : (mm.feat f').cont = true
  case neg =>
    -- f' is not a containment: neither side can hold
    constructor
    · intro h
      split at h
      · cases h
      · exact absurd (h0.1 h).1 hcf
    · intro h; exact absurd h.1 hcf
  have lf' := isList_false_of_cont mm hwf hcf
  rw [mem_unlinkRaw mm hwf s x f y p f' o lf']
  have hwf2 := hwf.cont_opp f
  have hwf1 := hwf.opp_mutual f
  split
  · rename_i hc
    constructor
    · intro h; cases h
    · rintro ⟨_, hmem, hn⟩
      rcases hc.2 with ⟨rfl, hfc⟩ | ⟨rfl, g, hg, hgc⟩
      · have c1 := (ho o x f).2 ⟨hfc, hxy⟩
        have c2 := (ho o p f').2 ⟨hcf, hmem⟩
        have := hfun _ _ _ _ _ c1 c2
        grind
      · have hyx : o ∈ s.rs y g := (hs f g hg o y).1 hxy
        have c1 := (ho o y g).2 ⟨hgc, hyx⟩
        have c2 := (ho o p f').2 ⟨hcf, hmem⟩
        have := hfun _ _ _ _ _ c1 c2
        grind
  · rename_i hc
    rw [h0]
    have hy := ho y x f
    grind

theorem unlinkRaw_resOK (s : St) (hr : ResOK s) (x f y) : ResOK (unlinkRaw mm s x f y) := by
  refine ⟨?_, ?_, ?_⟩
  · intro o r; simp only [unlinkRaw_eres, unlinkRaw_rcont]; exact hr.1 o r
  · intro r; simp only [unlinkRaw_rcont]; exact hr.2.1 r
  · intro o h
    simp only [unlinkRaw_eres]
    rw [unlinkRaw_cont] at h
    split at h
    · exact absurd rfl h
    · exact hr.2.2 o h

theorem unlinkRaw_inv (hwf : mm.WF) (s : St) (h : Inv mm s) (x f y) : Inv mm (unlinkRaw mm s x f y) :=
  ⟨unlinkRaw_sym mm hwf s h.1 x f y, unlinkRaw_card mm s h.2.1 x f y,
   unlinkRaw_own mm hwf s h.1 h.2.2.1 x f y, unlinkRaw_resOK mm s h.2.2.2 x f y⟩

theorem unlinkRaw_shrinks (s : St) (x f y) : Shrinks s (unlinkRaw mm s x f y) := by
  refine ⟨fun a f' b => unlinkRaw_sub mm s x f y a f' b, ?_, ?_⟩
  · intro o; rw [unlinkRaw_cont]; split
    · exact Or.inl rfl
    · exact Or.inr rfl
  · intro o; simp

theorem Shrinks.refl (s : St) : Shrinks s s := ⟨fun _ _ _ h => h, fun _ => Or.inr rfl, fun _ => Or.inr rfl⟩

theorem Shrinks.trans {s1 s2 s3 : St} (h12 : Shrinks s1 s2) (h23 : Shrinks s2 s3) : Shrinks s1 s3 := by
  refine ⟨fun a f b h => h12.1 a f b (h23.1 a f b h), ?_, ?_⟩
  · intro o
    rcases h23.2.1 o with h | h
    · exact Or.inl h
    · rw [h]; exact h12.2.1 o
  · intro o
    rcases h23.2.2 o with h | h
    · exact Or.inl h
    · rw [h]; exact h12.2.2 o

end Store

namespace Store
variable (mm : MM)

/-! ### leaving a resource's root list -/

/-- `resource.remove(value)` when `value` is a root -/
def unroot (s : St) (y : Oid) : St :=
  match s.eres y with
  | some r => (s.setRcont r ((s.rcont r).erase y)).setEres y none
  | none => s

theorem detach_eq (s : St) (y) :
    detach mm s y = match (unroot s y).cont y with
      | some (p, pf) => unlinkRaw mm (unroot s y) p pf y
      | none => unroot s y := rfl

@[simp] theorem unroot_rs (s : St) (y) : (unroot s y).rs = s.rs := by unfold unroot; split <;> rfl
@[simp] theorem unroot_cont (s : St) (y) : (unroot s y).cont = s.cont := by unfold unroot; split <;> rfl
@[simp] theorem unroot_nObj (s : St) (y) : (unroot s y).nObj = s.nObj := by unfold unroot; split <;> rfl
@[simp] theorem unroot_cls (s : St) (y) : (unroot s y).cls = s.cls := by unfold unroot; split <;> rfl
@[simp] theorem unroot_as (s : St) (y) : (unroot s y).as = s.as := by unfold unroot; split <;> rfl

theorem unroot_eres (s : St) (y o) : (unroot s y).eres o = if o = y then none else s.eres o := by
  unfold unroot; split
  · simp
  · rename_i h; split
    · rename_i e; subst e; exact h
    · rfl

theorem unroot_rcont_mem (s : St) (hr : ResOK s) (y o r) :
    o ∈ (unroot s y).rcont r ↔ o ∈ s.rcont r ∧ o ≠ y := by
  unfold unroot
  cases he : s.eres y with
  | none =>
    simp only []
    constructor
    · intro h; refine ⟨h, ?_⟩; rintro rfl
      have := (hr.1 o r).2 h; rw [he] at this; cases this
    · exact fun h => h.1
  | some r0 =>
    simp only [setEres_rcont, setRcont_rcont]
    split
    · rename_i e; subst e
      rw [List.Nodup.mem_erase_iff (hr.2.1 r)]
      constructor <;> (intro ⟨a, b⟩; exact ⟨b, a⟩)
    · rename_i hne
      constructor
      · intro h; refine ⟨h, ?_⟩; rintro rfl
        have := (hr.1 o r).2 h; rw [he] at this; cases this; exact hne rfl
      · exact fun h => h.1

theorem unroot_rcont_nodup (s : St) (hr : ResOK s) (y r) : ((unroot s y).rcont r).Nodup := by
  unfold unroot
  cases he : s.eres y with
  | none => exact hr.2.1 r
  | some r0 =>
    simp only [setEres_rcont, setRcont_rcont]
    split
    · rename_i e; subst e; exact (hr.2.1 r).erase y
    · exact hr.2.1 r

theorem unroot_resOK (s : St) (hr : ResOK s) (y) : ResOK (unroot s y) := by
  refine ⟨?_, unroot_rcont_nodup s hr y, ?_⟩
  · intro o r
    rw [unroot_eres, unroot_rcont_mem s hr]
    have := hr.1 o r
    grind
  · intro o h
    rw [unroot_eres]
    simp only [unroot_cont] at h
    split
    · rfl
    · exact hr.2.2 o h

theorem unroot_inv (s : St) (h : Inv mm s) (y) : Inv mm (unroot s y) := by
  refine ⟨?_, ?_, ?_, unroot_resOK s h.2.2.2 y⟩
  · intro f g hfg a b; simp only [unroot_rs]; exact h.1 f g hfg a b
  · intro a f; simp only [unroot_rs]; exact h.2.1 a f
  · intro o p f; simp only [unroot_rs, unroot_cont]; exact h.2.2.1 o p f

theorem unroot_shrinks (s : St) (y) : Shrinks s (unroot s y) := by
  refine ⟨fun a f b h => by simpa using h, fun o => Or.inr (by simp), ?_⟩
  intro o; rw [unroot_eres]; split
  · exact Or.inl rfl
  · exact Or.inr rfl

/-! ### detach -/

theorem detach_inv (hwf : mm.WF) (s : St) (h : Inv mm s) (y) : Inv mm (detach mm s y) := by
  rw [detach_eq]
  have h1 := unroot_inv mm s h y
  split
  · exact unlinkRaw_inv mm hwf _ h1 _ _ _
  · exact h1

theorem detach_shrinks (s : St) (y) : Shrinks s (detach mm s y) := by
  rw [detach_eq]
  split
  · exact (unroot_shrinks s y).trans (unlinkRaw_shrinks mm _ _ _ _)
  · exact unroot_shrinks s y

/-- after `detach`, the object has no owner at all -/
theorem detach_free (s : St) (h : Inv mm s) (y) :
    (detach mm s y).cont y = none ∧ (detach mm s y).eres y = none := by
  rw [detach_eq]
  have he : (unroot s y).eres y = none := by rw [unroot_eres]; simp
  cases hc : (unroot s y).cont y with
  | none => simp only []; exact ⟨hc, he⟩
  | some pf =>
    obtain ⟨p, pf⟩ := pf
    simp only []
    refine ⟨?_, by simpa using he⟩
    rw [unlinkRaw_cont]
    have hown := (unroot_inv mm s h y).2.2.1 y p pf
    have := hown.1 hc
    have h2 : y ∈ (unroot s y).rs p pf := this.2
    simp only [h2, this.1, true_and, and_self, true_or, if_true]

end Store
