import PyecoreModel.Model.HrefText
namespace HrefText

theorem takeWhile_append_of_all {p : Char → Bool} (t : List Char) (c : Char) (u : List Char)
    (ht : ∀ x ∈ t, p x = true) (hc : p c = false) : (t ++ c :: u).takeWhile p = t := by
  induction t with
  | nil => simp [List.takeWhile, hc]
  | cons a t ih =>
    have ha : p a = true := ht a (by simp)
    simp only [List.cons_append, List.takeWhile_cons, ha, if_true]
    rw [ih (fun x hx => ht x (by simp [hx]))]

theorem dropWhile_append_of_all {p : Char → Bool} (t : List Char) (c : Char) (u : List Char)
    (ht : ∀ x ∈ t, p x = true) (hc : p c = false) : (t ++ c :: u).dropWhile p = c :: u := by
  induction t with
  | nil => simp [List.dropWhile, hc]
  | cons a t ih =>
    have ha : p a = true := ht a (by simp)
    simp only [List.cons_append, List.dropWhile_cons, ha, if_true]
    exact ih (fun x hx => ht x (by simp [hx]))

/-- a text without outer blanks is its own `strip` -/
theorem strip_id (u : List Char) (h1 : ∀ c, u.head? = some c → isBlank c = false)
    (h2 : ∀ c, u.getLast? = some c → isBlank c = false) : strip u = u := by
  unfold strip
  have e1 : u.dropWhile isBlank = u := by
    cases u with
    | nil => rfl
    | cons a t => simp [List.dropWhile, h1 a rfl]
  rw [e1]
  have e2 : u.reverse.dropWhile isBlank = u.reverse := by
    cases hr : u.reverse with
    | nil => rfl
    | cons a t =>
      have : u.getLast? = some a := by
        rw [List.getLast?_eq_head?_reverse, hr]; rfl
      simp [List.dropWhile, h2 a this]
  rw [e2, List.reverse_reverse]

/-- **the announced type is dropped**: `prefix:Type uri` reads as `uri` -/
theorem normalize_typed (t u : List Char) (ht : ∀ x ∈ t, x ≠ ' ') (htw : typeWord t = true) (hu : u ≠ [])
    (h1 : ∀ c, u.head? = some c → isBlank c = false) (h2 : ∀ c, u.getLast? = some c → isBlank c = false) :
    normalize (t ++ ' ' :: u) = u := by
  have hp : ∀ x ∈ t, (decide (x ≠ ' ')) = true := fun x hx => by simpa using ht x hx
  have hc : (decide ((' ' : Char) ≠ ' ')) = false := by decide
  unfold normalize head
  rw [dropWhile_append_of_all (p := fun x => decide (x ≠ ' ')) t ' ' u hp hc,
      takeWhile_append_of_all (p := fun x => decide (x ≠ ' ')) t ' ' u hp hc]
  simp only [htw, if_true, strip_id u h1 h2]
  simp [hu]

/-- **every other blank belongs to the uri**: when the word in front of the first blank is not a type announcement (it
has a `/` or a `#` in it, or no `:`), the text is left as it is -/
theorem normalize_plain (s : List Char) (h : typeWord (head s) = false) : normalize s = s := by
  unfold normalize
  split
  · rfl
  · simp [h]

end HrefText
