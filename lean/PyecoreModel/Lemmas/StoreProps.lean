import PyecoreModel.Lemmas.StoreStep
/-! Facts about what `link` / `step` produce, used by the property files C01–C03. -/
set_option linter.unusedSectionVars false
set_option linter.unusedSimpArgs false
set_option linter.unusedVariables false
namespace Store
variable (mm : MM)

/-- the value is there afterwards -/
theorem link_mem (hwf : mm.WF) (s : St) (x f y pos) : y ∈ (link mm s x f y pos).rs x f := by
  rw [link_eq]
  split
  · rename_i h; exact h.1
  · rw [linkRaw_rs mm hwf]
    split
    · rename_i h
      exact absurd h.1 (by
        intro hh; exact (hwf.opp_mutual f f hh).2 rfl)
    · simp only [and_self, if_true]
      split
      · rw [mem_addVal]; exact Or.inr rfl
      · simp

/-- a containment link names its owner afterwards -/
theorem link_cont (hwf : mm.WF) (s : St) (h : Inv mm s) (x f y pos) (hc : (mm.feat f).cont = true) :
    (link mm s x f y pos).cont y = some (x, f) := by
  have hi := link_inv mm hwf s h x f y pos
  exact (hi.2.2.1 y x f).2 ⟨hc, link_mem mm hwf s x f y pos⟩

/-- `link` adds nothing but the pair itself -/
theorem link_mem_sub (hwf : mm.WF) (s : St) (x f y pos a f' b)
    (hb : b ∈ (link mm s x f y pos).rs a f') :
    b ∈ s.rs a f' ∨ (a = x ∧ f' = f ∧ b = y) ∨ ((mm.feat f).opp = some f' ∧ a = y ∧ b = x) := by
  rw [link_eq] at hb
  split at hb
  · exact Or.inl hb
  · have sh := (relOcc_shrinks mm s x f).trans
      ((detachIf_shrinks mm (mm.feat f).cont (relOcc mm s x f) y).trans
        (stealStep_shrinks mm (detachIf mm (mm.feat f).cont (relOcc mm s x f) y) x f y))
    rw [linkRaw_rs mm hwf] at hb
    split at hb
    · rename_i hc
      split at hb
      · rw [mem_appendVal] at hb
        rcases hb with hb | rfl
        · rw [hc.2]; exact Or.inl (sh.1 _ _ _ hb)
        · exact Or.inr (Or.inr ⟨hc.1, hc.2, rfl⟩)
      · simp only [List.mem_singleton] at hb
        exact Or.inr (Or.inr ⟨hc.1, hc.2, hb⟩)
    · split at hb
      · rename_i hc; obtain ⟨rfl, rfl⟩ := hc
        split at hb
        · rw [mem_addVal] at hb
          rcases hb with hb | rfl
          · exact Or.inl (sh.1 _ _ _ hb)
          · exact Or.inr (Or.inl ⟨rfl, rfl, rfl⟩)
        · simp only [List.mem_singleton] at hb
          exact Or.inr (Or.inl ⟨rfl, rfl, hb⟩)
      · exact Or.inl (sh.1 _ _ _ hb)

theorem foldl_shrinks {β : Type} (g : St → β → St) (hg : ∀ s b, Shrinks s (g s b))
    (l : List β) (s : St) : Shrinks s (l.foldl g s) := by
  induction l generalizing s with
  | nil => exact Shrinks.refl s
  | cons b t ih => exact (hg s b).trans (ih _)

theorem clearRef_shrinks (s : St) (x f) : Shrinks s (clearRef mm s x f) :=
  foldl_shrinks _ (fun s y => unlinkRaw_shrinks mm s x f y) _ s

theorem deleteOne_shrinks (s : St) (x) : Shrinks s (deleteOne mm s x) :=
  foldl_shrinks _ (fun s l => unlinkRaw_shrinks mm s _ _ _) _ s

theorem delete_shrinks (s : St) (x r) : Shrinks s (delete mm s x r) := by
  unfold delete
  exact (foldl_shrinks _ (fun s d => deleteOne_shrinks mm s d) _ s).trans (deleteOne_shrinks mm _ x)

theorem stepRef_error_unchanged (s : St) (x f) (op : Op) (e : Py.Err) :
    (stepRef mm s x f op).2 = .error e → (stepRef mm s x f op).1 = s := by
  cases op <;> simp only [stepRef] <;> (repeat' split) <;> intro h <;> first | rfl | trivial | cases h

theorem stepAttr_error_unchanged (s : St) (x f) (op : Op) (e : Py.Err) :
    (stepAttr mm s x f op).2 = .error e → (stepAttr mm s x f op).1 = s := by
  cases op <;> simp only [stepAttr] <;> (repeat' split) <;> intro h <;> first | rfl | trivial | cases h

/-- A call that raises leaves the whole state as it was. -/
theorem step_error_unchanged (s : St) (op : Op) (e : Py.Err) :
    (step mm s op).2 = .error e → (step mm s op).1 = s := by
  have tgt : ∀ (op : Op) (x f),
      (if (!hasFeat mm s x f) = true then (s, (Except.error Py.Err.attributeError : Res)) else
        if (!(offered op).all (conforms mm s f)) = true then (s, Except.error Py.Err.badValue) else
        if (mm.feat f).isRef = true then stepRef mm s x f op else stepAttr mm s x f op).2 = .error e →
      (if (!hasFeat mm s x f) = true then (s, (Except.error Py.Err.attributeError : Res)) else
        if (!(offered op).all (conforms mm s f)) = true then (s, Except.error Py.Err.badValue) else
        if (mm.feat f).isRef = true then stepRef mm s x f op else stepAttr mm s x f op).1 = s := by
    intro op x f
    split
    · intro _; rfl
    · split
      · intro _; rfl
      · split
        · exact stepRef_error_unchanged mm s x f op e
        · exact stepAttr_error_unchanged mm s x f op e
  cases op with
  | new c => intro h; cases h
  | res => intro h; cases h
  | delete x r => simp only [step]; split <;> intro h <;> first | rfl | trivial | cases h
  | rappend r o => simp only [step]; split <;> intro h <;> first | rfl | trivial | cases h
  | rremove r o => simp only [step]; split <;> intro h <;> first | rfl | trivial | cases h
  | set x f v => simp only [step, targetOf]; exact tgt (.set x f v) x f
  | del x f => simp only [step, targetOf]; exact tgt (.del x f) x f
  | add x f v => simp only [step, targetOf]; exact tgt (.add x f v) x f
  | insert x f i v => simp only [step, targetOf]; exact tgt (.insert x f i v) x f
  | remove x f v => simp only [step, targetOf]; exact tgt (.remove x f v) x f
  | pop x f i => simp only [step, targetOf]; exact tgt (.pop x f i) x f
  | clear x f => simp only [step, targetOf]; exact tgt (.clear x f) x f
  | setItem x f i v => simp only [step, targetOf]; exact tgt (.setItem x f i v) x f
  | delItem x f i => simp only [step, targetOf]; exact tgt (.delItem x f i) x f
  | extend x f vs => simp only [step, targetOf]; exact tgt (.extend x f vs) x f
  | assign x f vs => simp only [step, targetOf]; exact tgt (.assign x f vs) x f

end Store
