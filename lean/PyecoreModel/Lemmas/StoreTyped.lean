import PyecoreModel.Lemmas.StoreProps
/-! C03: stored values always conform.  `Adds`: an operation on (x, f) adds nothing to any reference slot but the
offered values (and `x` on their opposite end). -/
set_option linter.unusedSectionVars false
set_option linter.unusedSimpArgs false
set_option linter.unusedVariables false
namespace Store
variable (mm : MM)

/-- typing part of well-formedness: an object that has `f` conforms to the type of `f`'s opposite; subtyping is
reflexive and transitive; declared defaults conform. -/
structure MM.WFT (mm : MM) : Prop where
  opp_type : ∀ f g c, (mm.feat f).opp = some g → mm.sub c (mm.feat f).owner = true → mm.sub c (mm.feat g).tcls = true
  opp_range : ∀ f g, (mm.feat f).opp = some g → g < mm.nFeat
  dflt_ok  : ∀ f d, (mm.feat f).dflt = some d → conformsDt (mm.feat f).tdt d = true

def Adds (s s' : St) (x : Oid) (f : Fid) (ys : List Oid) : Prop :=
  ∀ a f' b, b ∈ s'.rs a f' →
    b ∈ s.rs a f' ∨ (a = x ∧ f' = f ∧ b ∈ ys) ∨ ((mm.feat f).opp = some f' ∧ b = x ∧ a ∈ ys)

theorem Shrinks.adds {s s' : St} (h : Shrinks s s') (x f ys) : Adds mm s s' x f ys :=
  fun a f' b hb => Or.inl (h.1 a f' b hb)

theorem Adds.refl (s : St) (x f ys) : Adds mm s s x f ys := fun _ _ _ hb => Or.inl hb

theorem Adds.trans {s1 s2 s3 : St} {x f ys} (h12 : Adds mm s1 s2 x f ys) (h23 : Adds mm s2 s3 x f ys) :
    Adds mm s1 s3 x f ys := by
  intro a f' b hb
  rcases h23 a f' b hb with h | h | h
  · exact h12 a f' b h
  · exact Or.inr (Or.inl h)
  · exact Or.inr (Or.inr h)

theorem Adds.mono {s s' : St} {x f ys ys'} (h : Adds mm s s' x f ys) (hsub : ∀ y, y ∈ ys → y ∈ ys') :
    Adds mm s s' x f ys' := by
  intro a f' b hb
  rcases h a f' b hb with h | h | h
  · exact Or.inl h
  · exact Or.inr (Or.inl ⟨h.1, h.2.1, hsub _ h.2.2⟩)
  · exact Or.inr (Or.inr ⟨h.1, h.2.1, hsub _ h.2.2⟩)

theorem link_adds (hwf : mm.WF) (s : St) (x f y pos) : Adds mm s (link mm s x f y pos) x f [y] := by
  intro a f' b hb
  rcases link_mem_sub mm hwf s x f y pos a f' b hb with h | h | h
  · exact Or.inl h
  · exact Or.inr (Or.inl ⟨h.1, h.2.1, by simp [h.2.2]⟩)
  · exact Or.inr (Or.inr ⟨h.1, h.2.2, by simp [h.2.1]⟩)

theorem extendRef_adds (hwf : mm.WF) (s : St) (x f ys) : Adds mm s (extendRef mm s x f ys) x f ys := by
  unfold extendRef
  suffices H : ∀ (l : List Oid) (s0 : St), (∀ y, y ∈ l → y ∈ ys) →
      Adds mm s0 (l.foldl (fun s y => link mm s x f y ((s.rs x f).length)) s0) x f ys from H ys s (fun _ h => h)
  intro l
  induction l with
  | nil => intro s0 _; exact Adds.refl mm s0 x f ys
  | cons y t ih =>
    intro s0 hsub
    simp only [List.foldl_cons]
    have h1 : Adds mm s0 (link mm s0 x f y ((s0.rs x f).length)) x f ys :=
      (link_adds mm hwf s0 x f y _).mono mm (by intro z hz; simp at hz; subst hz; exact hsub _ (by simp))
    exact h1.trans mm (ih _ (fun z hz => hsub z (by simp [hz])))

theorem unlinkHead_shrinks (s : St) (x f) :
    Shrinks s (match s.rs x f with | y0 :: _ => unlinkRaw mm s x f y0 | [] => s) := by
  split
  · exact unlinkRaw_shrinks mm s _ _ _
  · exact Shrinks.refl s

theorem setRs_adds (s : St) (x f l ys) (hl : ∀ b, b ∈ l → b ∈ s.rs x f ∨ b ∈ ys) :
    Adds mm s (s.setRs x f l) x f ys := by
  intro a f' b hb
  simp only [setRs_rs] at hb
  split at hb
  · rename_i hc; obtain ⟨rfl, rfl⟩ := hc
    rcases hl b hb with h | h
    · exact Or.inl h
    · exact Or.inr (Or.inl ⟨rfl, rfl, h⟩)
  · exact Or.inl hb

theorem objOf_mem_allObjs {v : PyVal} {y : Oid} {vs : List PyVal} (hv : v ∈ vs) (h : v = .obj y) : y ∈ allObjs vs := by
  subst h; unfold allObjs; rw [List.mem_filterMap]; exact ⟨_, hv, rfl⟩

theorem stepRef_adds (hwf : mm.WF) (s : St) (x f op) :
    Adds mm s (stepRef mm s x f op).1 x f (allObjs (offered op)) := by
  cases op with
  | set x' f' v =>
    simp only [stepRef]; split
    · exact Adds.refl mm s _ _ _
    · split
      · exact (link_adds mm hwf s _ _ _ _).mono mm (by intro z hz; simp at hz; subst hz; simp [offered, allObjs, objOf])
      · exact (unlinkHead_shrinks mm s x f).adds mm _ _ _
  | del x' f' =>
    simp only [stepRef]; split
    · exact (clearRef_shrinks mm s x f).adds mm _ _ _
    · exact (unlinkHead_shrinks mm s x f).adds mm _ _ _
  | add x' f' v =>
    simp only [stepRef]; split
    · exact (link_adds mm hwf s _ _ _ _).mono mm (by intro z hz; simp at hz; subst hz; simp [offered, allObjs, objOf])
    · exact Adds.refl mm s _ _ _
  | insert x' f' i v =>
    simp only [stepRef]; split
    · exact (link_adds mm hwf s _ _ _ _).mono mm (by intro z hz; simp at hz; subst hz; simp [offered, allObjs, objOf])
    · exact Adds.refl mm s _ _ _
  | remove x' f' v =>
    simp only [stepRef]; split
    · split
      · exact (unlinkRaw_shrinks mm s _ _ _).adds mm _ _ _
      · exact Adds.refl mm s _ _ _
    · exact Adds.refl mm s _ _ _
  | pop x' f' i =>
    simp only [stepRef]
    split
    · exact Adds.refl mm s _ _ _
    · split
      · exact Adds.refl mm s _ _ _
      · split
        · exact Adds.refl mm s _ _ _
        · split
          · exact setRs_adds mm s x f _ _ (fun b hb => Or.inl ((List.eraseIdx_sublist _ _).subset hb))
          · exact (unlinkRaw_shrinks mm s _ _ _).adds mm _ _ _
  | clear x' f' => simp only [stepRef]; exact (clearRef_shrinks mm s x f).adds mm _ _ _
  | setItem x' f' i v =>
    simp only [stepRef]
    split
    · rename_i y
      split
      · unfold Py.pySet
        cases hn : Py.normIdx (s.rs x f).length i with
        | none => simp only [Option.map_none]; exact Adds.refl mm s _ _ _
        | some k =>
          simp only [Option.map_some]
          refine setRs_adds mm s x f _ _ (fun b hb => ?_)
          rcases List.mem_or_eq_of_mem_set hb with h | h
          · exact Or.inl h
          · subst h; exact Or.inr (by simp [offered, allObjs, objOf])
      · split
        · exact Adds.refl mm s _ _ _
        · split
          · exact Adds.refl mm s _ _ _
          · split
            · exact Adds.refl mm s _ _ _
            · exact ((unlinkRaw_shrinks mm s _ _ _).adds mm _ _ _).trans mm
                ((link_adds mm hwf _ _ _ _ _).mono mm
                  (by intro z hz; simp at hz; subst hz; simp [offered, allObjs, objOf]))
    · exact Adds.refl mm s _ _ _
  | delItem x' f' i =>
    simp only [stepRef]
    split
    · exact Adds.refl mm s _ _ _
    · split
      · exact Adds.refl mm s _ _ _
      · split
        · exact Adds.refl mm s _ _ _
        · split
          · exact setRs_adds mm s x f _ _ (fun b hb => Or.inl ((List.eraseIdx_sublist _ _).subset hb))
          · exact (unlinkRaw_shrinks mm s _ _ _).adds mm _ _ _
  | extend x' f' vs => simp only [stepRef, offered]; exact extendRef_adds mm hwf s _ _ _
  | assign x' f' vs =>
    simp only [stepRef, offered]
    exact ((clearRef_shrinks mm s x f).adds mm _ _ _).trans mm (extendRef_adds mm hwf _ _ _ _)
  | new c => exact Adds.refl mm s _ _ _
  | res => exact Adds.refl mm s _ _ _
  | delete x' r => exact Adds.refl mm s _ _ _
  | rappend r o => exact Adds.refl mm s _ _ _
  | rremove r o => exact Adds.refl mm s _ _ _

end Store

namespace Store
variable (mm : MM)

/-- reference operations leave objects, classes and attribute slots alone -/
def Frame (s s' : St) : Prop := s'.nObj = s.nObj ∧ s'.cls = s.cls ∧ s'.as = s.as ∧ s'.nRes = s.nRes

theorem Frame.refl (s : St) : Frame s s := ⟨rfl, rfl, rfl, rfl⟩
theorem Frame.trans {a b c : St} (h1 : Frame a b) (h2 : Frame b c) : Frame a c :=
  ⟨h2.1.trans h1.1, h2.2.1.trans h1.2.1, h2.2.2.1.trans h1.2.2.1, h2.2.2.2.trans h1.2.2.2⟩

theorem unlinkRaw_frame (s : St) (x f y) : Frame s (unlinkRaw mm s x f y) := ⟨by simp, by simp, by simp, by simp⟩
theorem unroot_frame (s : St) (y) : Frame s (unroot s y) := by
  refine ⟨by simp, by simp, by simp, ?_⟩
  unfold unroot; split <;> rfl
theorem detach_frame (s : St) (y) : Frame s (detach mm s y) := by
  rw [detach_eq]; split
  · exact (unroot_frame s y).trans (unlinkRaw_frame mm _ _ _ _)
  · exact unroot_frame s y
theorem linkRaw_frame (s : St) (x f y pos) : Frame s (linkRaw mm s x f y pos) := by
  refine ⟨by simp, by simp, by simp, ?_⟩
  rw [linkRaw_eq]; (repeat' split) <;> rfl
theorem link_frame (s : St) (x f y pos) : Frame s (link mm s x f y pos) := by
  rw [link_eq]; split
  · exact Frame.refl s
  · refine Frame.trans ?_ (linkRaw_frame mm _ _ _ _ _)
    have h1 : Frame s (relOcc mm s x f) := by
      unfold relOcc; split
      · exact Frame.refl s
      · split
        · exact unlinkRaw_frame mm s _ _ _
        · exact Frame.refl s
    have hd : ∀ c s y, Frame s (detachIf mm c s y) := by
      intro c s y; unfold detachIf; split
      · exact detach_frame mm s y
      · exact Frame.refl s
    refine h1.trans ((hd (mm.feat f).cont (relOcc mm s x f) y).trans ?_)
    unfold stealStep; split
    · exact Frame.refl _
    · split
      · exact hd _ _ _
      · split
        · exact (hd _ _ _).trans (unlinkRaw_frame mm _ _ _ _)
        · exact hd _ _ _
theorem foldl_frame {β : Type} (g : St → β → St) (hg : ∀ s b, Frame s (g s b)) (l : List β) (s : St) :
    Frame s (l.foldl g s) := by
  induction l generalizing s with
  | nil => exact Frame.refl s
  | cons b t ih => exact (hg s b).trans (ih _)
theorem clearRef_frame (s : St) (x f) : Frame s (clearRef mm s x f) :=
  foldl_frame _ (fun s y => unlinkRaw_frame mm s x f y) _ s
theorem extendRef_frame (s : St) (x f ys) : Frame s (extendRef mm s x f ys) :=
  foldl_frame _ (fun s y => link_frame mm s x f y _) _ s
theorem deleteOne_frame (s : St) (x) : Frame s (deleteOne mm s x) :=
  foldl_frame _ (fun s l => unlinkRaw_frame mm s _ _ _) _ s
theorem delete_frame (s : St) (x r) : Frame s (delete mm s x r) := by
  unfold delete
  exact (foldl_frame _ (fun s d => deleteOne_frame mm s d) _ s).trans (deleteOne_frame mm _ x)
theorem setRs_frame (s : St) (x f l) : Frame s (s.setRs x f l) := ⟨rfl, rfl, rfl, rfl⟩

theorem stepRef_frame (s : St) (x f op) : Frame s (stepRef mm s x f op).1 := by
  have uh : Frame s (match s.rs x f with | y0 :: _ => unlinkRaw mm s x f y0 | [] => s) := by
    split
    · exact unlinkRaw_frame mm s _ _ _
    · exact Frame.refl s
  cases op <;> simp only [stepRef] <;> (repeat' split) <;>
    first
    | exact Frame.refl s
    | exact link_frame mm s _ _ _ _
    | exact uh
    | exact clearRef_frame mm s _ _
    | exact unlinkRaw_frame mm s _ _ _
    | exact setRs_frame s _ _ _
    | exact extendRef_frame mm s _ _ _
    | exact (clearRef_frame mm s _ _).trans (extendRef_frame mm _ _ _ _)
    | exact (unlinkRaw_frame mm s _ _ _).trans (link_frame mm _ _ _ _ _)

theorem typedR_of_adds (hwft : mm.WFT) (s s' : St) (x f ys)
    (ht : ∀ a f' b, b ∈ s.rs a f' → (a < s.nObj ∧ f' < mm.nFeat) ∧ b < s.nObj ∧ mm.sub (s.cls b) (mm.feat f').tcls = true)
    (ha : Adds mm s s' x f ys) (hf : Frame s s')
    (hx : hasFeat mm s x f = true)
    (hys : ∀ y, y ∈ ys → y < s.nObj ∧ mm.sub (s.cls y) (mm.feat f).tcls = true) :
    ∀ a f' b, b ∈ s'.rs a f' → (a < s'.nObj ∧ f' < mm.nFeat) ∧ b < s'.nObj ∧ mm.sub (s'.cls b) (mm.feat f').tcls = true := by
  intro a f' b hb
  rw [hf.1, hf.2.1]
  simp only [hasFeat, Bool.and_eq_true, decide_eq_true_eq] at hx
  rcases ha a f' b hb with h | h | h
  · exact ht a f' b h
  · obtain ⟨rfl, rfl, hm⟩ := h; exact ⟨⟨hx.1.1, hx.1.2⟩, hys b hm⟩
  · obtain ⟨hopp, rfl, hm⟩ := h
    exact ⟨⟨(hys a hm).1, hwft.opp_range f f' hopp⟩, hx.1.1, hwft.opp_type f f' _ hopp hx.2⟩

end Store

namespace Store
variable (mm : MM)

theorem pyPop_sub {α : Type} {l l' : List α} {i : Int} {v : α} (h : Py.pyPop l i = some (l', v)) :
    ∀ b, b ∈ l' → b ∈ l := by
  unfold Py.pyPop at h
  split at h
  · cases h
  · split at h
    · cases h
    · cases h; intro b hb; exact (List.eraseIdx_sublist _ _).subset hb

theorem foldl_appendVal_mem (isList : Bool) (vs l : List PyVal) (v : PyVal) :
    v ∈ vs.foldl (appendVal isList) l → v ∈ l ∨ v ∈ vs := by
  induction vs generalizing l with
  | nil => intro h; exact Or.inl h
  | cons a t ih =>
    intro h
    simp only [List.foldl_cons] at h
    rcases ih _ h with h1 | h1
    · rw [mem_appendVal] at h1
      rcases h1 with h2 | rfl
      · exact Or.inl h2
      · exact Or.inr (by simp)
    · exact Or.inr (by simp [h1])

theorem stepAttr_rs (s : St) (x f op) : (stepAttr mm s x f op).1.rs = s.rs := by
  cases op <;> simp only [stepAttr] <;> (repeat' split) <;> rfl

theorem stepAttr_frame (s : St) (x f op) :
    (stepAttr mm s x f op).1.nObj = s.nObj ∧ (stepAttr mm s x f op).1.cls = s.cls := by
  cases op <;> simp only [stepAttr] <;> (repeat' split) <;> first | exact ⟨rfl, rfl⟩ | simp

@[simp] theorem setAs_as (s : St) (x f l x' f') :
    (s.setAs x f l).as x' f' = if x' = x ∧ f' = f then l else s.as x' f' := rfl

theorem setAs_mem (s : St) (x f l) (P : PyVal → Prop) (hl : ∀ v, v ∈ l → v ∈ s.as x f ∨ P v) :
    ∀ a f' v, v ∈ (s.setAs x f l).as a f' → v ∈ s.as a f' ∨ (a = x ∧ f' = f ∧ P v) := by
  intro a f' v hv
  simp only [setAs_as] at hv
  split at hv
  · rename_i hc; obtain ⟨rfl, rfl⟩ := hc
    rcases hl v hv with h | h
    · exact Or.inl h
    · exact Or.inr ⟨rfl, rfl, h⟩
  · exact Or.inl hv

/-- attribute operations store nothing but offered values and the declared default -/
theorem stepAttr_as_mem (s : St) (x f op) :
    ∀ a f' v, v ∈ (stepAttr mm s x f op).1.as a f' →
      v ∈ s.as a f' ∨ (a = x ∧ f' = f ∧ (v ∈ offered op ∨ (mm.feat f).dflt = some v)) := by
  cases op with
  | set x' f' v =>
    simp only [stepAttr]; split
    · intro a f' v h; exact Or.inl h
    · refine setAs_mem s x f _ _ (fun w hw => ?_)
      split at hw
      · cases hw
      · simp only [List.mem_singleton] at hw; subst hw; exact Or.inr (Or.inl (by simp [offered]))
  | del x' f' =>
    simp only [stepAttr]; split
    · exact setAs_mem s x f _ _ (fun w hw => by cases hw)
    · refine setAs_mem s x f _ _ (fun w hw => ?_)
      split at hw
      · rename_i d hd; simp only [List.mem_singleton] at hw; subst hw; exact Or.inr (Or.inr hd)
      · cases hw
  | add x' f' v =>
    simp only [stepAttr]
    refine setAs_mem s x f _ _ (fun w hw => ?_)
    rw [mem_appendVal] at hw
    rcases hw with h | rfl
    · exact Or.inl h
    · exact Or.inr (Or.inl (by simp [offered]))
  | insert x' f' i v =>
    simp only [stepAttr]
    refine setAs_mem s x f _ _ (fun w hw => ?_)
    rw [mem_addVal] at hw
    rcases hw with h | rfl
    · exact Or.inl h
    · exact Or.inr (Or.inl (by simp [offered]))
  | remove x' f' v =>
    simp only [stepAttr]; split
    · exact setAs_mem s x f _ _ (fun w hw => Or.inl (mem_rmVal_sub _ _ _ _ hw))
    · intro a f' v h; exact Or.inl h
  | pop x' f' i =>
    simp only [stepAttr]; split
    · intro a f' v h; exact Or.inl h
    · split
      · intro a f' v h; exact Or.inl h
      · rename_i hp
        exact setAs_mem s x f _ _ (fun w hw => Or.inl (pyPop_sub hp w hw))
  | clear x' f' => simp only [stepAttr]; exact setAs_mem s x f _ _ (fun w hw => by cases hw)
  | setItem x' f' i v =>
    simp only [stepAttr]; split
    · unfold Py.pySet
      cases hn : Py.normIdx (s.as x f).length i with
      | none => simp only [Option.map_none]; intro a f' v h; exact Or.inl h
      | some k =>
        simp only [Option.map_some]
        refine setAs_mem s x f _ _ (fun w hw => ?_)
        rcases List.mem_or_eq_of_mem_set hw with h | h
        · exact Or.inl h
        · subst h; exact Or.inr (Or.inl (by simp [offered]))
    · split
      · intro a f' v h; exact Or.inl h
      · split
        · intro a f' v h; exact Or.inl h
        · refine setAs_mem s x f _ _ (fun w hw => ?_)
          rw [mem_addVal] at hw
          rcases hw with h | rfl
          · exact Or.inl ((List.eraseIdx_sublist _ _).subset h)
          · exact Or.inr (Or.inl (by simp [offered]))
  | delItem x' f' i =>
    simp only [stepAttr]; split
    · intro a f' v h; exact Or.inl h
    · split
      · intro a f' v h; exact Or.inl h
      · rename_i hp
        exact setAs_mem s x f _ _ (fun w hw => Or.inl (pyPop_sub hp w hw))
  | extend x' f' vs =>
    simp only [stepAttr]
    refine setAs_mem s x f _ _ (fun w hw => ?_)
    rcases foldl_appendVal_mem _ _ _ _ hw with h | h
    · exact Or.inl h
    · exact Or.inr (Or.inl (by simpa [offered] using h))
  | assign x' f' vs =>
    simp only [stepAttr]
    refine setAs_mem s x f _ _ (fun w hw => ?_)
    rcases foldl_appendVal_mem _ _ _ _ hw with h | h
    · cases h
    · exact Or.inr (Or.inl (by simpa [offered] using h))
  | new c => intro a f' v h; exact Or.inl h
  | res => intro a f' v h; exact Or.inl h
  | delete x' r => intro a f' v h; exact Or.inl h
  | rappend r o => intro a f' v h; exact Or.inl h
  | rremove r o => intro a f' v h; exact Or.inl h

theorem rappend_shrinks_rs (s : St) (r o) : ∀ a f b, b ∈ (rappend mm s r o).rs a f → b ∈ s.rs a f := by
  rw [rappend_eq]; split
  · intro a f b h; exact h
  · split
    · intro a f b h
      have := unlinkRaw_sub mm _ _ _ _ a f b h
      simpa using this
    · intro a f b h; simpa using h

theorem rappend_frame (s : St) (r o) :
    (rappend mm s r o).nObj = s.nObj ∧ (rappend mm s r o).cls = s.cls ∧ (rappend mm s r o).as = s.as := by
  rw [rappend_eq]; split
  · exact ⟨rfl, rfl, rfl⟩
  · split <;> simp

/-- **C03 backbone**: every stored value conforms, after every operation. -/
theorem typed_step (hwf : mm.WF) (hwft : mm.WFT) (s : St) (ht : Typed mm s) (op : Op) :
    Typed mm (step mm s op).1 := by
  have conf_obj : ∀ f y, conforms mm s f (.obj y) = true →
      y < s.nObj ∧ mm.sub (s.cls y) (mm.feat f).tcls = true := by
    intro f y h
    simp only [conforms, Bool.and_eq_true, decide_eq_true_eq] at h
    exact ⟨h.1.2, h.2⟩
  have tgt : ∀ (op : Op) (x f),
      Typed mm (if (!hasFeat mm s x f) = true then (s, (Except.error Py.Err.attributeError : Res)) else
        if (!(offered op).all (conforms mm s f)) = true then (s, Except.error Py.Err.badValue) else
        if (mm.feat f).isRef = true then stepRef mm s x f op else stepAttr mm s x f op).1 := by
    intro op x f
    split
    · exact ht
    · rename_i hx
      have hx : hasFeat mm s x f = true := by simpa using hx
      split
      · exact ht
      · rename_i hall
        have hall : ∀ v, v ∈ offered op → conforms mm s f v = true := by
          simpa using hall
        split
        · rename_i hr
          have hfr := stepRef_frame mm s x f op
          refine ⟨?_, ?_⟩
          · apply typedR_of_adds mm hwft s _ x f (allObjs (offered op)) ht.1 (stepRef_adds mm hwf s x f op) hfr hx
            intro y hy
            unfold allObjs at hy
            rw [List.mem_filterMap] at hy
            obtain ⟨v, hv, hvo⟩ := hy
            cases v <;> simp [objOf] at hvo
            subst hvo
            exact conf_obj f _ (hall _ hv)
          · intro a f' v hv; rw [hfr.2.2.1] at hv; exact ht.2 a f' v hv
        · rename_i hr
          refine ⟨?_, ?_⟩
          · intro a f' b hb
            rw [stepAttr_rs] at hb
            rw [(stepAttr_frame mm s x f op).1, (stepAttr_frame mm s x f op).2]
            exact ht.1 a f' b hb
          · intro a f' v hv hnr
            rcases stepAttr_as_mem mm s x f op a f' v hv with h | ⟨rfl, rfl, h | h⟩
            · exact ht.2 a f' v h hnr
            · have hc := hall v h
              cases v with
              | none => exact Or.inr rfl
              | obj y => simp [conforms, hnr] at hc
              | bool b => simp [conforms, hnr] at hc; exact Or.inl hc
              | int i => simp [conforms, hnr] at hc; exact Or.inl hc
              | str t => simp [conforms, hnr] at hc; exact Or.inl hc
              | other k => simp [conforms, hnr] at hc; exact Or.inl hc
            · exact Or.inl (hwft.dflt_ok f' v h)
  cases op with
  | new c =>
    simp only [step]
    refine ⟨?_, ?_⟩
    · intro a f b hb
      have := ht.1 a f b hb
      refine ⟨⟨Nat.lt_succ_of_lt this.1.1, this.1.2⟩, Nat.lt_succ_of_lt this.2.1, ?_⟩
      have hne : b ≠ s.nObj := Nat.ne_of_lt this.2.1
      simp only [hne, if_false]; exact this.2.2
    · intro a f v hv hnr
      simp only at hv
      split at hv
      · split at hv
        · cases hv
        · split at hv
          · rename_i d hd; simp only [List.mem_singleton] at hv; subst hv; exact Or.inl (hwft.dflt_ok f v hd)
          · cases hv
      · exact ht.2 a f v hv hnr
  | res => exact ht
  | delete x r =>
    simp only [step]; split
    · have hf := delete_frame mm s x r
      have hs := delete_shrinks mm s x r
      refine ⟨?_, ?_⟩
      · intro a f b hb; rw [hf.1, hf.2.1]; exact ht.1 a f b (hs.1 a f b hb)
      · intro a f v hv; rw [hf.2.2.1] at hv; exact ht.2 a f v hv
    · exact ht
  | rappend r o =>
    simp only [step]; split
    · have hf := rappend_frame mm s r o
      refine ⟨?_, ?_⟩
      · intro a f b hb; rw [hf.1, hf.2.1]; exact ht.1 a f b (rappend_shrinks_rs mm s r o a f b hb)
      · intro a f v hv; rw [hf.2.2] at hv; exact ht.2 a f v hv
    · exact ht
  | rremove r o =>
    simp only [step]; split
    · exact ⟨fun a f b hb => ht.1 a f b hb, fun a f v hv => ht.2 a f v hv⟩
    · exact ht
  | set x f v => simp only [step, targetOf]; exact tgt (.set x f v) x f
  | del x f => simp only [step, targetOf]; exact tgt (.del x f) x f
  | add x f v => simp only [step, targetOf]; exact tgt (.add x f v) x f
  | insert x f i v => simp only [step, targetOf]; exact tgt (.insert x f i v) x f
  | remove x f v => simp only [step, targetOf]; exact tgt (.remove x f v) x f
  | pop x f i => simp only [step, targetOf]; exact tgt (.pop x f i) x f
  | clear x f => simp only [step, targetOf]; exact tgt (.clear x f) x f
  | setItem x f i v => simp only [step, targetOf]; exact tgt (.setItem x f i v) x f
  | delItem x f i => simp only [step, targetOf]; exact tgt (.delItem x f i) x f
  | extend x f vs => simp only [step, targetOf]; exact tgt (.extend x f vs) x f
  | assign x f vs => simp only [step, targetOf]; exact tgt (.assign x f vs) x f

theorem typed_init : Typed mm init := by
  refine ⟨?_, ?_⟩ <;> simp [init]

theorem typed_run (hwf : mm.WF) (hwft : mm.WFT) (ops : List Op) : Typed mm (run mm ops) := by
  unfold run
  suffices H : ∀ (l : List Op) (s : St), Typed mm s → Typed mm (l.foldl (fun s op => (step mm s op).1) s) from
    H ops init (typed_init mm)
  intro l
  induction l with
  | nil => intro s h; exact h
  | cons op t ih => intro s h; exact ih _ (typed_step mm hwf hwft s h op)

end Store
