import PyecoreModel.Model.Compound
import PyecoreModel.Lemmas.CommandsInverse
/-!
# Compound commands: how they relate to the commands they are made of
-/
namespace Store

/-- the two halves of a command (`can_execute`, then the index fixing of `do_execute`), met by the same state, are
    `prepare`: a command executed alone is a compound of one -/
def joinPrep (mm : MM) (s : St) (sp : Spec) : Prep :=
  match snap mm s sp with
  | .cannot => .cannot
  | .raises => .raises
  | .ok p =>
    match p.fix mm s with
    | .ok c => .ok c
    | _ => .raises

theorem normIdx_some {n : Nat} {i : Int} {k : Nat} (h : Py.normIdx n i = some k) :
    (if i < 0 then i + (n : Int) else i) = (k : Int) ∧ k < n := by
  unfold Py.normIdx at h
  split at h
  · split at h
    · simp only [Option.some.injEq] at h
      subst h
      rw [if_pos (by assumption)]
      omega
    · simp at h
  · split at h
    · simp only [Option.some.injEq] at h
      subst h
      rw [if_neg (by assumption)]
      omega
    · simp at h

theorem prepare_snap_fix (mm : MM) (s : St) (sp : Spec) : prepare mm s sp = joinPrep mm s sp := by
  cases sp with
  | set x f v =>
    simp only [prepare, joinPrep, snap]
    split
    · rfl
    · simp only [Snap.fix]
      cases slotVals mm s x f <;> rfl
  | add x f v idx =>
    simp only [prepare, joinPrep, snap]
    split
    · rfl
    · split
      · rfl
      · simp only [Snap.fix]
        cases idx <;> rfl
  | remove x f v idx =>
    simp only [prepare, joinPrep, snap]
    split
    · rfl
    · cases v with
      | none =>
        cases idx with
        | none => simp
        | some i =>
          simp only
          cases hn : Py.normIdx (slotVals mm s x f).length i with
          | none => simp
          | some k =>
            obtain ⟨hk, hlt⟩ := normIdx_some hn
            simp only
            have hget : (slotVals mm s x f)[k]? = some ((slotVals mm s x f)[k]) := List.getElem?_eq_getElem hlt
            rw [hget]
            simp only [Snap.fix, hk]
            have : ¬ ((k : Int) < 0) := by omega
            simp [this, hget]
      | some v =>
        cases idx with
        | none =>
          simp only
          split
          · rfl
          · simp only [Snap.fix]
            cases (slotVals mm s x f).idxOf? v <;> simp
        | some i => simp
  | move x f frm to v =>
    simp only [prepare, joinPrep, snap]
    split
    · rfl
    · cases frm with
      | none =>
        cases v with
        | none => simp
        | some v =>
          simp only [Option.map]
          cases hi : (slotVals mm s x f).idxOf? v with
          | none => simp
          | some k =>
            have hget := idxOf?_getElem _ _ _ hi
            simp only [Snap.fix]
            have : ¬ ((k : Int) < 0) := by omega
            simp [this, hget]
      | some i =>
        cases v with
        | some v => simp
        | none =>
          simp only [Option.bind]
          cases hn : Py.normIdx (slotVals mm s x f).length i with
          | none => simp
          | some k =>
            obtain ⟨hk, hlt⟩ := normIdx_some hn
            have hget : (slotVals mm s x f)[k]? = some ((slotVals mm s x f)[k]) := List.getElem?_eq_getElem hlt
            simp only [hget, Option.map, Snap.fix, hk]
            have : ¬ ((k : Int) < 0) := by omega
            simp [this, hget]

end Store

namespace Store

open Py in
theorem normIdx_nat {n k : Nat} (h : k < n) : Py.normIdx n (k : Int) = some k := by
  unfold Py.normIdx
  have h1 : ¬ ((k : Int) < 0) := by omega
  have h2 : (k : Int) < n := by omega
  simp [h1, h2]

open Py in
theorem pop_result (mm : MM) (s s' : St) (x : Oid) (f : Fid) (k : Nat) (v : PyVal) (w : Option PyVal)
    (hv : (slotVals mm s x f)[k]? = some v) (h : step mm s (.pop x f (k : Int)) = (s', .ok w)) : w = some v := by
  simp only [step, targetOf] at h
  split at h
  · cases h
  · split at h
    · cases h
    · split at h
      · rename_i hr
        simp only [slotVals, hr, if_true] at hv
        simp only [stepRef] at h
        split at h
        · cases h
        · have hlt : k < (s.rs x f).length := by
            have := List.getElem?_eq_some_iff.mp hv
            obtain ⟨hh, _⟩ := this
            simpa using hh
          rw [normIdx_nat hlt] at h
          simp only at h
          rw [List.getElem?_map] at hv
          cases hy : (s.rs x f)[k]? with
          | none => rw [hy] at hv; simp at hv
          | some y =>
            rw [hy] at hv h
            simp only [Option.map_some, Option.some.injEq] at hv
            simp only at h
            split at h <;> (simp only [Prod.mk.injEq, Except.ok.injEq] at h; rw [← h.2, hv])
      · rename_i hr
        simp only [slotVals, hr] at hv
        simp only [stepAttr] at h
        split at h
        · cases h
        · have hlt : k < (s.as x f).length := by
            obtain ⟨hh, _⟩ := List.getElem?_eq_some_iff.mp hv
            exact hh
          simp only [Py.pyPop, normIdx_nat hlt] at h
          simp only [Bool.false_eq_true, if_false] at hv
          rw [hv] at h
          simp only [Prod.mk.injEq, Except.ok.injEq] at h
          exact h.2.symm

/-- an `undo` that succeeded found its `can_undo` true: it is the bare `undo` that `Compound.undo` calls -/
theorem undo_ok_undoRaw (mm : MM) (s s' : St) (c : Cmd) (r : Option PyVal) (h : c.undo mm s = (s', .ok r)) :
    c.undoRaw mm s = (s', .ok r) := by
  cases c with
  | set x f v p => exact h
  | add x f v i =>
    simp only [Cmd.undo] at h
    split at h
    · exact h
    · cases h
  | remove x f v i => exact h
  | move x f v a b =>
    simp only [Cmd.undo] at h
    split at h
    · cases h
    · rename_i hguard
      have hv : (slotVals mm s x f)[b]? = some v := by
        simpa using hguard
      simp only [Cmd.undoRaw]
      cases hp : (step mm s (.pop x f (b : Int))).2 with
      | error e => simp only [hp] at h ⊢; exact h
      | ok w =>
        simp only [hp] at h ⊢
        have hw := pop_result mm s _ x f b v w hv (Prod.ext rfl hp)
        rw [hw]
        exact h

theorem undoAll_cons_ok (mm : MM) (s : St) (c : Cmd) (t : List Cmd) (r : Option PyVal) (h : (c.undoRaw mm s).2 = .ok r) :
    undoAll mm s (c :: t) = undoAll mm (c.undoRaw mm s).1 t := by
  simp only [undoAll, h]

theorem undoAll_cons_err (mm : MM) (s : St) (c : Cmd) (t : List Cmd) (e : Py.Err) (h : (c.undoRaw mm s).2 = .error e) :
    undoAll mm s (c :: t) = ((c.undoRaw mm s).1, false) := by
  simp only [undoAll, h]

theorem undoAll_append (mm : MM) : ∀ (a b : List Cmd) (s : St),
    undoAll mm s (a ++ b) = if (undoAll mm s a).2 then undoAll mm (undoAll mm s a).1 b else ((undoAll mm s a).1, false)
  | [], b, s => by simp [undoAll]
  | c :: a, b, s => by
    cases h : (c.undoRaw mm s).2 with
    | error e =>
      rw [List.cons_append, undoAll_cons_err mm s c _ e h, undoAll_cons_err mm s c _ e h]
      simp
    | ok r =>
      rw [List.cons_append, undoAll_cons_ok mm s c _ r h, undoAll_cons_ok mm s c _ r h]
      exact undoAll_append mm a b _

/-- the hypotheses of the compound theorem, along the run: when its turn comes, each sub-command would take the snapshot
    it took before the compound (`Stable`: what `can_execute` read has not been changed by the earlier sub-commands), and
    it is a command the single-command theorem covers (no opposite; a contained value is free or already there) -/
def StableCov (mm : MM) : St → List Spec → List Snap → Prop
  | _, [], [] => True
  | s, sp :: t, p :: ps =>
    snap mm s sp = .ok p ∧ Covered mm s sp ∧ (∀ c, p.fix mm s = .ok c → StableCov mm (c.exec mm s).1 t ps)
  | _, _, _ => False

theorem prepare_of_snap_fix (mm : MM) (s : St) (sp : Spec) (p : Snap) (c : Cmd) (h1 : snap mm s sp = .ok p)
    (h2 : p.fix mm s = .ok c) : prepare mm s sp = .ok c := by
  rw [prepare_snap_fix, joinPrep, h1]
  simp only [h2]

/-- **Undo of a compound**: if the sub-commands' snapshots are stable along the run and each is a covered command, then
    after the compound has run, its sub-commands' `undo`, called in reverse order, all succeed and bring back the whole
    state the compound started from. -/
theorem compound_undo (mm : MM) (hwf : mm.WF) (hwft : mm.WFT) : ∀ (sps : List Spec) (ps : List Snap) (s s' : St)
    (cs : List Cmd), Good mm s → StableCov mm s sps ps → runAll mm s ps = .ok s' cs →
    undoAll mm s' cs.reverse = (s, true) ∧ Good mm s' ∧ cs.length = ps.length
  | [], [], s, s', cs, hg, _, hrun => by
    simp only [runAll, Ran.ok.injEq] at hrun
    obtain ⟨rfl, rfl⟩ := hrun
    exact ⟨rfl, hg, rfl⟩
  | [], _ :: _, _, _, _, _, h, _ => by simp [StableCov] at h
  | _ :: _, [], _, _, _, _, h, _ => by simp [StableCov] at h
  | sp :: t, p :: ps, s, s', cs, hg, hst, hrun => by
    obtain ⟨hsnap, hcov, hnext⟩ := hst
    simp only [runAll] at hrun
    cases hfix : p.fix mm s with
    | raises => simp [hfix] at hrun
    | corner => simp [hfix] at hrun
    | ok c =>
      simp only [hfix] at hrun
      have hprep := prepare_of_snap_fix mm s sp p c hsnap hfix
      cases hex : (c.exec mm s).2 with
      | error e => simp [hex] at hrun
      | ok r =>
        simp only [hex] at hrun
        cases htail : runAll mm (c.exec mm s).1 ps with
        | raised _ => simp [htail] at hrun
        | corner => simp [htail] at hrun
        | ok s'' cs' =>
          simp only [htail, Ran.ok.injEq] at hrun
          obtain ⟨rfl, rfl⟩ := hrun
          have hg1 : Good mm (c.exec mm s).1 := good_exec mm hwf hwft s hg c (prepare_arity mm s sp c hprep)
          obtain ⟨ih, hg', hlen⟩ := compound_undo mm hwf hwft t ps (c.exec mm s).1 s'' cs' hg1 (hnext c hfix) htail
          obtain ⟨⟨r', hundo⟩, _⟩ := covered_inverse mm hwf s hg sp hcov c hprep r hex
          have hraw := undo_ok_undoRaw mm _ _ _ _ hundo
          refine ⟨?_, hg', by simp [hlen]⟩
          rw [List.reverse_cons, undoAll_append, ih]
          simp only [if_true, undoAll, hraw]

end Store

namespace Store

/-- decidable form of `StableCov` -/
def stableCovB (mm : MM) : St → List Spec → List Snap → Bool
  | _, [], [] => true
  | s, sp :: t, p :: ps =>
    decide (snap mm s sp = .ok p) && coveredB mm s sp &&
      (match p.fix mm s with
       | .ok c => stableCovB mm (c.exec mm s).1 t ps
       | _ => true)
  | _, _, _ => false

theorem stableCov_of_B (mm : MM) : ∀ (s : St) (sps : List Spec) (ps : List Snap), stableCovB mm s sps ps = true →
    StableCov mm s sps ps
  | _, [], [], _ => trivial
  | _, [], _ :: _, h => by simp [stableCovB] at h
  | _, _ :: _, [], h => by simp [stableCovB] at h
  | s, sp :: t, p :: ps, h => by
    simp only [stableCovB, Bool.and_eq_true, decide_eq_true_eq] at h
    refine ⟨h.1.1, covered_of_B mm s sp h.1.2, ?_⟩
    intro c hc
    have h2 := h.2
    simp only [hc] at h2
    exact stableCov_of_B mm _ t ps h2

theorem take_append_getElem? {α : Type} (l : List α) (n : Nat) (x : α) (h : n ≤ l.length) :
    (l.take n ++ [x])[n]? = some x := by
  have hl : (l.take n).length = n := by simp [List.length_take]; omega
  rw [List.getElem?_append_right (by omega)]
  simp [hl]

/-- **A compound through the stack**: executed from a state satisfying the invariants, with stable snapshots and
    covered sub-commands, a compound that then reports `can_undo` is undone to exactly the state it started from, and
    the stack cursor goes back by one. -/
theorem compound_stack_undo (mm : MM) (hwf : mm.WF) (hwft : mm.WFT) (ks : KStack) (s : St) (sps : List Spec)
    (ps : List Snap) (hok : ks.n ≤ ks.stack.length) (hg : Good mm s) (hsnap : snapAll mm s sps = .ok ps)
    (hst : StableCov mm s sps ps) (s' : St) (cs : List Cmd) (hrun : runAll mm s ps = .ok s' cs)
    (hcan : canUndoAll mm s' cs = some true) :
    kstep mm ks s (.exec sps) = ({ stack := ks.stack.take ks.n ++ [cs], n := ks.n + 1 }, s', "ok") ∧
    kstep mm { stack := ks.stack.take ks.n ++ [cs], n := ks.n + 1 } s' .undo
      = ({ stack := ks.stack.take ks.n ++ [cs], n := ks.n }, s, "ok") := by
  have hu := (compound_undo mm hwf hwft sps ps s s' cs hg hst hrun).1
  constructor
  · simp only [kstep, hsnap, hrun]
  · simp only [kstep]
    have hn : ¬ (ks.n + 1 = 0) := by omega
    simp only [hn, if_false, Nat.add_sub_cancel, take_append_getElem? ks.stack ks.n cs hok, hcan, hu, if_true]

end Store

namespace Store

theorem redoAll_cons_ok (mm : MM) (s : St) (c : Cmd) (t : List Cmd) (r : Option PyVal) (h : (c.redo mm s).2 = .ok r) :
    redoAll mm s (c :: t) = ((redoAll mm (c.redo mm s).1 t).1, c.after mm s :: (redoAll mm (c.redo mm s).1 t).2.1,
      (redoAll mm (c.redo mm s).1 t).2.2) := by
  simp only [redoAll, h]

/-- **Redo of a compound** (same hypotheses): the sub-commands' `redo`, in order, all succeed, end in the state the
    compound had produced, and leave the sub-commands remembering what they remembered -/
theorem compound_redo (mm : MM) (hwf : mm.WF) (hwft : mm.WFT) : ∀ (sps : List Spec) (ps : List Snap) (s s' : St)
    (cs : List Cmd), Good mm s → StableCov mm s sps ps → runAll mm s ps = .ok s' cs →
    redoAll mm s cs = (s', cs, true)
  | [], [], s, s', cs, _, _, hrun => by
    simp only [runAll, Ran.ok.injEq] at hrun
    obtain ⟨rfl, rfl⟩ := hrun
    rfl
  | [], _ :: _, _, _, _, _, h, _ => by simp [StableCov] at h
  | _ :: _, [], _, _, _, _, h, _ => by simp [StableCov] at h
  | sp :: t, p :: ps, s, s', cs, hg, hst, hrun => by
    obtain ⟨hsnap, hcov, hnext⟩ := hst
    simp only [runAll] at hrun
    cases hfix : p.fix mm s with
    | raises => simp [hfix] at hrun
    | corner => simp [hfix] at hrun
    | ok c =>
      simp only [hfix] at hrun
      have hprep := prepare_of_snap_fix mm s sp p c hsnap hfix
      cases hex : (c.exec mm s).2 with
      | error e => simp [hex] at hrun
      | ok r =>
        simp only [hex] at hrun
        cases htail : runAll mm (c.exec mm s).1 ps with
        | raised _ => simp [htail] at hrun
        | corner => simp [htail] at hrun
        | ok s'' cs' =>
          simp only [htail, Ran.ok.injEq] at hrun
          obtain ⟨rfl, rfl⟩ := hrun
          have hg1 : Good mm (c.exec mm s).1 := good_exec mm hwf hwft s hg c (prepare_arity mm s sp c hprep)
          have ih := compound_redo mm hwf hwft t ps (c.exec mm s).1 s'' cs' hg1 (hnext c hfix) htail
          obtain ⟨_, hredo⟩ := covered_inverse mm hwf s hg sp hcov c hprep r hex
          have h2 : ((c.after mm s).redo mm s).2 = .ok r := by rw [hredo]; exact hex
          rw [redoAll_cons_ok mm s _ _ r h2, hredo, ih, after_after]

theorem set_take_append {α : Type} (l : List α) (n : Nat) (x : α) (h : n ≤ l.length) :
    (l.take n ++ [x]).set n x = l.take n ++ [x] := by
  have hl : (l.take n).length = n := by simp [List.length_take]; omega
  apply List.ext_getElem?
  intro i
  rw [List.getElem?_set]
  split
  · rename_i hi
    subst hi
    rw [take_append_getElem? l n x h]
    simp [hl]
  · rfl

/-- … and redone to exactly the state (and the stack) after it -/
theorem compound_stack_redo (mm : MM) (hwf : mm.WF) (hwft : mm.WFT) (ks : KStack) (s : St) (sps : List Spec)
    (ps : List Snap) (hok : ks.n ≤ ks.stack.length) (hg : Good mm s)
    (hst : StableCov mm s sps ps) (s' : St) (cs : List Cmd) (hrun : runAll mm s ps = .ok s' cs) :
    kstep mm { stack := ks.stack.take ks.n ++ [cs], n := ks.n } s .redo
      = ({ stack := ks.stack.take ks.n ++ [cs], n := ks.n + 1 }, s', "ok") := by
  have hr := compound_redo mm hwf hwft sps ps s s' cs hg hst hrun
  simp only [kstep, take_append_getElem? ks.stack ks.n cs hok, hr, if_true, set_take_append ks.stack ks.n cs hok]

end Store

/-! ### a compound of one is the command alone -/

namespace Store

/-- a compound of one sub-command, executed through the stack, leaves the state the sub-command alone leaves, succeeds
    exactly when it succeeds, and remembers exactly what it remembers -/
theorem kstep_exec_single (mm : MM) (ks : KStack) (cs : CStack) (s : St) (sp : Spec)
    (hrel : ks.stack = cs.stack.map (fun c => [c]) ∧ ks.n = cs.n) :
    let q := kstep mm ks s (.exec [sp])
    let r := cstep mm cs s (.exec sp)
    q.2.1 = r.2.1 ∧ (q.2.2 = "ok" ↔ r.2.2 = "ok") ∧ q.1.stack = r.1.stack.map (fun c => [c]) ∧ q.1.n = r.1.n := by
  obtain ⟨hst, hn⟩ := hrel
  simp only [kstep, cstep, snapAll, prepare_snap_fix, joinPrep]
  cases hs : snap mm s sp with
  | cannot => simp [hst, hn]
  | raises => simp [hst, hn]
  | ok p =>
    simp only
    cases hf : p.fix mm s with
    | raises => simp [runAll, hf, hst, hn]
    | corner => simp [runAll, hf, hst, hn]
    | ok c =>
      simp only [runAll, hf]
      cases hex : (c.exec mm s).2 with
      | error e => simp [hex, hst, hn]
      | ok r => simp [hex, hst, hn, List.map_take]

end Store

namespace Store

theorem undo_eq_raw (mm : MM) (s : St) (c : Cmd) :
    c.undo mm s = match c.canUndo mm s with
      | some true => c.undoRaw mm s
      | _ => (s, .error .runtimeError) := by
  cases c with
  | set x f v p => rfl
  | add x f v i =>
    simp only [Cmd.undo, Cmd.canUndo, Cmd.undoRaw]
    cases (slotVals mm s x f).contains v <;> simp
  | remove x f v i => rfl
  | move x f v a b =>
    simp only [Cmd.undo, Cmd.canUndo, Cmd.undoRaw]
    cases hg : (slotVals mm s x f)[b]? with
    | none => simp
    | some w =>
      by_cases hw : w = v
      · subst hw
        simp only [bne_self_eq_false, Bool.false_eq_true, if_false, beq_self_eq_true]
        cases hp : (step mm s (.pop x f (b : Int))).2 with
        | error e => rfl
        | ok r =>
          simp only
          have := pop_result mm s _ x f b w r hg (Prod.ext rfl hp)
          rw [this]; rfl
      · have h1 : (some w != some v) = true := by simp [hw]
        have h2 : (w == v) = false := by simp [hw]
        simp [h1, h2]

theorem kstep_undo_single (mm : MM) (ks : KStack) (cs : CStack) (s : St)
    (hrel : ks.stack = cs.stack.map (fun c => [c]) ∧ ks.n = cs.n) :
    let q := kstep mm ks s .undo
    let r := cstep mm cs s .undo
    q.2.1 = r.2.1 ∧ (q.2.2 = "ok" ↔ r.2.2 = "ok") ∧ q.1.stack = r.1.stack.map (fun c => [c]) ∧ q.1.n = r.1.n := by
  obtain ⟨hst, hn⟩ := hrel
  simp only [kstep, cstep, hn, hst, List.getElem?_map]
  by_cases h0 : cs.n = 0
  · simp [h0, hst, hn]
  · simp only [h0, if_false]
    cases hc : cs.stack[cs.n - 1]? with
    | none => simp [hst, hn]
    | some c =>
      simp only [Option.map_some, canUndoAll, List.reverse_cons, List.reverse_nil, List.nil_append, undoAll, undo_eq_raw]
      cases hcu : c.canUndo mm s with
      | none => simp [hst, hn]
      | some b =>
        cases b with
        | false => simp [hst, hn]
        | true =>
          simp only
          cases hr : (c.undoRaw mm s).2 with
          | error e => simp [hst, hn]
          | ok r => simp [hst, hn]

theorem kstep_redo_single (mm : MM) (ks : KStack) (cs : CStack) (s : St)
    (hrel : ks.stack = cs.stack.map (fun c => [c]) ∧ ks.n = cs.n) :
    let q := kstep mm ks s .redo
    let r := cstep mm cs s .redo
    q.2.1 = r.2.1 ∧ (q.2.2 = "ok" ↔ r.2.2 = "ok") ∧ q.1.stack = r.1.stack.map (fun c => [c]) ∧ q.1.n = r.1.n := by
  obtain ⟨hst, hn⟩ := hrel
  simp only [kstep, cstep, hn, hst, List.getElem?_map]
  cases hc : cs.stack[cs.n]? with
  | none => simp [hst, hn]
  | some c =>
    have hd : (∃ e, (c.redo mm s).2 = .error e) ∨ (∃ r, (c.redo mm s).2 = .ok r) := by
      cases (c.redo mm s).2 with
      | error e => exact Or.inl ⟨e, rfl⟩
      | ok r => exact Or.inr ⟨r, rfl⟩
    rcases hd with ⟨e, he⟩ | ⟨r, hr⟩
    · simp [redoAll, he, hst, hn]
    · simp [redoAll, hr, hst, hn, List.map_set]

end Store
