import PyecoreModel.Model.XmiDoc
import PyecoreModel.Lemmas.XmiValues
/-! Lemmas for the document-level XMI round trip (C08). -/
namespace XDoc
open Xmi

/-! ### a keyed concatenation, looked at through one key -/

theorem filter_flatMap_own {α β : Type} (g : α → List β) (p : α → β → Bool)
    (l : List α) (a : α) (ha : a ∈ l)
    (hown : ∀ x ∈ l, ∀ b ∈ g x, p a b = true ↔ x = a)
    (hnd : l.Nodup) :
    (l.flatMap g).filter (p a) = (g a).filter (p a) := by
  induction l with
  | nil => cases ha
  | cons x t ih =>
    simp only [List.flatMap_cons, List.filter_append]
    have hnd' := List.nodup_cons.mp hnd
    rcases List.mem_cons.mp ha with rfl | hat
    · -- the head is `a`; nothing in the tail matches
      have htail : (t.flatMap g).filter (p a) = [] := by
        apply List.filter_eq_nil_iff.mpr
        intro b hb
        obtain ⟨y, hy, hby⟩ := List.mem_flatMap.mp hb
        intro hp
        have := (hown y (List.mem_cons_of_mem _ hy) b hby).mp hp
        exact hnd'.1 (this ▸ hy)
      rw [htail, List.append_nil]
    · have hhead : (g x).filter (p a) = [] := by
        apply List.filter_eq_nil_iff.mpr
        intro b hb hp
        have := (hown x (List.mem_cons_self) b hb).mp hp
        exact hnd'.1 (this ▸ hat)
      rw [hhead, List.nil_append]
      exact ih hat (fun y hy => hown y (List.mem_cons_of_mem _ hy)) hnd'.2

theorem filter_flatMap_none {α β : Type} (g : α → List β) (q : β → Bool) (l : List α)
    (h : ∀ x ∈ l, ∀ b ∈ g x, q b = false) : (l.flatMap g).filter q = [] := by
  apply List.filter_eq_nil_iff.mpr
  intro b hb
  obtain ⟨y, hy, hby⟩ := List.mem_flatMap.mp hb
  simp [h y hy b hby]

end XDoc

namespace XDoc
open Xmi

/-- per-element view of `decKids` -/
def decChild (mm : MMX) (pcls : Nat) (e : Elem) : Child :=
  match mm.find pcls e.tag with
  | Option.none => Child.bad
  | some fi =>
    if e.nil then .nil e.tag
    else match fi.kind with
      | .attr => .text e.tag (e.text.getD [])
      | .cont => (match decNode mm false fi.tcls e with
        | some n => .node e.tag n
        | Option.none => .bad)
      | _ => .bad

theorem decKids_eq_map (mm : MMX) (pcls : Nat) (l : List Elem) : decKids mm pcls l = l.map (decChild mm pcls) := by
  induction l with
  | nil => simp [decKids]
  | cons e t ih =>
    rw [decKids, ih, List.map_cons]
    congr 1

theorem encKids_eq_map (mm : MMX) (o : Opts) (pcls : Nat) (l : List (SNode Str)) :
    encKids mm o pcls l = l.map fun k => (k.via, encNode mm o false (declOf mm pcls k.via) k) := by
  induction l with
  | nil => simp [encKids]
  | cons k t ih => simp only [encKids, List.map_cons, ih]

theorem effKids_eq_map {ρ : Type} (mm : MMX) (o : Opts) (l : List (SNode ρ)) : effKids mm o l = l.map (eff mm o false) := by
  induction l with
  | nil => simp [effKids]
  | cons k t ih => simp only [effKids, List.map_cons, ih]

@[simp] theorem encNode_tag (mm : MMX) (o : Opts) (decl : Nat) (n : SNode Str) :
    (encNode mm o false decl n).tag = n.via := by
  cases n; simp [encNode, Elem.tag, SNode.via]

@[simp] theorem encNode_nil (mm : MMX) (o : Opts) (top : Bool) (decl : Nat) (n : SNode Str) :
    (encNode mm o top decl n).nil = false := by
  cases n; simp [encNode, Elem.nil]

@[simp] theorem eff_via {ρ : Type} (mm : MMX) (o : Opts) (n : SNode ρ) : (eff mm o false n).via = n.via := by
  cases n; simp [eff, SNode.via]

end XDoc

namespace XDoc
open Xmi

/-! ### well-formedness: what a saved object looks like -/

structure MMOK (mm : MMX) : Prop where
  sp : mm.ws ' ' = true
  findSelf : ∀ c, ∀ fi ∈ mm.feats c, mm.find c fi.name = some fi
  nd : ∀ c, ((mm.feats c).map (·.name)).Nodup
  cid : ∀ c, c < mm.nCls → mm.cidOf (mm.cname c) = some c

/-- an `_isset` entry fits its feature; `tokOK` says what a reference token must be -/
def SlotOKg {ρ : Type} (mm : MMX) (tokOK : ρ → Prop) (cls : Nat) (e : Str × SlotV ρ) : Prop :=
  ∃ fi, mm.find cls e.1 = some fi ∧ (fi.kind = .skip ∨ match e.2 with
    | .none => fi.many = false
    | .attr1 _ => fi.kind = .attr ∧ fi.many = false
    | .attrN _ => fi.kind = .attr ∧ fi.many = true
    | .ref1 t => fi.kind = .ref ∧ fi.many = false ∧ tokOK t
    | .refN ts => fi.kind = .ref ∧ fi.many = true ∧ ∀ t ∈ ts, tokOK t
    | .kids => fi.kind = .cont)

inductive WFG {ρ : Type} (mm : MMX) (tokOK : ρ → Prop) : SNode ρ → Prop
  | mk (via : Str) (cls : Nat) (uuid : Str) (slots : List (Str × SlotV ρ)) (kids : List (SNode ρ))
      (hc : cls < mm.nCls)
      (hnd : (slots.map (·.1)).Nodup)
      (hs : ∀ e ∈ slots, SlotOKg mm tokOK cls e)
      (hk : ∀ k ∈ kids, WFG mm tokOK k)
      (hk2 : ∀ k ∈ kids, ∃ fi, mm.find cls k.via = some fi ∧ fi.kind = .cont ∧ (k.via, SlotV.kids) ∈ slots)
      (h1 : ∀ fi ∈ mm.feats cls, fi.kind = .cont → fi.many = false →
              (kids.filter fun k => k.via == fi.name).length ≤ 1) :
      WFG mm tokOK (.mk via cls uuid slots kids)

/-- in a document a reference token is one blank-free, non-empty word -/
abbrev SlotOK (mm : MMX) (cls : Nat) (e : Str × SlotV Str) : Prop := SlotOKg mm (Word mm.ws) cls e
abbrev WFN (mm : MMX) : SNode Str → Prop := WFG mm (Word mm.ws)

theorem find_name (mm : MMX) (c : Nat) (n : Str) (fi : FInfo) (h : mm.find c n = some fi) : fi.name = n ∧ fi ∈ mm.feats c := by
  unfold MMX.find at h
  have h1 := List.find?_some h
  have h2 := List.mem_of_find?_eq_some h
  exact ⟨by simpa using h1, h2⟩

/-- what the children written for one `_isset` entry decode to -/
def dk (mm : MMX) (o : Opts) (cls : Nat) (kids : List (SNode Str)) (e : Str × SlotV Str) : List Child :=
  match mm.find cls e.1 with
  | Option.none => []
  | some fi =>
    if fi.kind = .skip then [] else
    match e.2 with
    | .none => if o.sd || (fi.kind = .attr && fi.dflt.isSome) then [.nil e.1] else []
    | .attrN vs =>
      if vs.isEmpty then [] else if specialO mm.ws vs then vs.map fun | Option.none => Child.nil e.1 | some s => .text e.1 s
      else []
    | .kids => (kids.filter fun k => k.via == e.1).map fun k => .node e.1 (eff mm o false k)
    | _ => []

theorem decChild_nil (mm : MMX) (cls : Nat) (f : Str) (fi : FInfo) (h : mm.find cls f = some fi) :
    decChild mm cls (nilElem f) = .nil f := by
  simp [decChild, nilElem, Elem.tag, Elem.nil, h]

theorem decChild_text (mm : MMX) (cls : Nat) (f s : Str) (fi : FInfo) (h : mm.find cls f = some fi) (hk : fi.kind = .attr) :
    decChild mm cls (textElem f s) = .text f s := by
  by_cases hs : s = []
  · simp [decChild, textElem, Elem.tag, Elem.nil, Elem.text, h, hk, hs]
  · have : s.isEmpty = false := by cases s <;> simp_all
    simp [decChild, textElem, Elem.tag, Elem.nil, Elem.text, h, hk, this]

theorem decChild_slot (mm : MMX) (o : Opts) (cls : Nat) (kids : List (SNode Str)) (e : Str × SlotV Str)
    (hs : SlotOK mm cls e)
    (hkid : ∀ k ∈ kids, k.via = e.1 → ∀ fi, mm.find cls e.1 = some fi → fi.kind = .cont →
        decNode mm false fi.tcls (encNode mm o false (declOf mm cls k.via) k) = some (eff mm o false k)) :
    ((encSlot mm o cls (encKids mm o cls kids) e).2).map (decChild mm cls) = dk mm o cls kids e := by
  obtain ⟨fi, hf, hk⟩ := hs
  unfold encSlot dk
  rw [hf]
  simp only
  by_cases hskip : fi.kind = .skip
  · simp [hskip]
  · simp only [hskip, if_false]
    rcases hk with hk | hk
    · exact absurd hk hskip
    · cases hv : e.2 with
      | none =>
        simp only
        split
        · simp [decChild_nil mm cls e.1 fi hf]
        · simp
      | attr1 v => simp only; split <;> simp
      | attrN vs =>
        simp only [hv] at hk
        simp only
        split
        · simp
        · split
          · simp only [List.map_map]
            apply List.map_congr_left
            intro v _
            cases v with
            | none => simp [decChild_nil mm cls e.1 fi hf]
            | some s => simp [decChild_text mm cls e.1 s fi hf hk.1]
          · simp
      | ref1 t => simp
      | refN ts => simp only; split <;> simp
      | kids =>
        simp only [hv] at hk
        simp only [encKids_eq_map, List.filter_map, List.map_map]
        apply List.map_congr_left
        intro k hkm
        have hkm' := List.mem_filter.mp hkm
        have hvia : k.via = e.1 := by simpa using hkm'.2
        simp only [Function.comp]
        have hdec := hkid k hkm'.1 hvia fi hf hk
        simp only [decChild, encNode_tag, encNode_nil, hvia, hf, hk, Bool.false_eq_true, if_false]
        rw [hvia] at hdec
        rw [hdec]

end XDoc

namespace XDoc
open Xmi

/-- the part of a keyed concatenation that carries key `f` is what the entry for `f` contributed -/
theorem keyed_view {V β : Type} (g : Str × V → List β) (key : β → Str)
    (hown : ∀ e, ∀ b ∈ g e, key b = e.1)
    (l : List (Str × V)) (hnd : (l.map (·.1)).Nodup) (f : Str) :
    (l.flatMap g).filter (fun b => key b == f) = ((l.lookup f).map fun v => g (f, v)).getD [] := by
  induction l with
  | nil => simp
  | cons e t ih =>
    obtain ⟨k, v⟩ := e
    simp only [List.map_cons, List.nodup_cons] at hnd
    simp only [List.flatMap_cons, List.filter_append, List.lookup_cons]
    by_cases hk : f = k
    · subst hk
      have h1 : (g (f, v)).filter (fun b => key b == f) = g (f, v) := by
        apply List.filter_eq_self.mpr
        intro b hb
        simp [hown (f, v) b hb]
      have h2 : (t.flatMap g).filter (fun b => key b == f) = [] := by
        apply filter_flatMap_none
        intro x hx b hb
        have : key b = x.1 := hown x b hb
        have hne : x.1 ≠ f := by
          intro he
          exact hnd.1 (List.mem_map.mpr ⟨x, hx, he⟩)
        simp [this, hne]
      simp [h1, h2]
    · have h1 : (g (k, v)).filter (fun b => key b == f) = [] := by
        apply List.filter_eq_nil_iff.mpr
        intro b hb
        have : key b = k := hown (k, v) b hb
        simp [this, Ne.symm hk]
      have hbeq : (f == k) = false := by simpa using hk
      simp only [h1, List.nil_append, hbeq]
      exact ih hnd.2

theorem lookup_filter_head {V : Type} (l : List (Str × V)) (f : Str) :
    l.lookup f = ((l.filter fun b => b.1 == f).head?).map (·.2) := by
  induction l with
  | nil => simp
  | cons e t ih =>
    obtain ⟨k, v⟩ := e
    simp only [List.lookup_cons, List.filter_cons]
    by_cases hk : f = k
    · subst hk; simp
    · have h1 : (f == k) = false := by simpa using hk
      have h2 : (k == f) = false := by simpa using Ne.symm hk
      simp [h1, h2, ih]

theorem lookup_mem {V : Type} (l : List (Str × V)) (f : Str) (v : V) (h : l.lookup f = some v) : (f, v) ∈ l := by
  induction l with
  | nil => simp at h
  | cons e t ih =>
    obtain ⟨k, w⟩ := e
    simp only [List.lookup_cons] at h
    by_cases hk : f = k
    · subst hk; simp at h; simp [h]
    · have h1 : (f == k) = false := by simpa using hk
      simp only [h1] at h
      exact List.mem_cons_of_mem _ (ih h)

theorem lookup_none_not_mem {V : Type} (l : List (Str × V)) (f : Str) (h : l.lookup f = Option.none) (v : V) : (f, v) ∉ l := by
  induction l with
  | nil => simp
  | cons e t ih =>
    obtain ⟨k, w⟩ := e
    simp only [List.lookup_cons] at h
    by_cases hk : f = k
    · subst hk; simp at h
    · have h1 : (f == k) = false := by simpa using hk
      simp only [h1] at h
      intro hm
      rcases List.mem_cons.mp hm with he | hm
      · exact hk (by cases he; rfl)
      · exact ih h hm

theorem encSlot_attrs_own (mm : MMX) (o : Opts) (cls : Nat) (ks : List (Str × Elem)) (e : Str × SlotV Str) :
    ∀ b ∈ (encSlot mm o cls ks e).1, b.1 = e.1 := by
  intro b hb
  unfold encSlot at hb
  split at hb
  · simp at hb
  · split at hb
    · simp at hb
    · split at hb
      · split at hb <;> simp at hb
      · split at hb <;> simp at hb
        simp [hb]
      · split at hb
        · simp at hb
        · split at hb <;> simp at hb
          simp [hb]
      · simp at hb; simp [hb]
      · split at hb <;> simp at hb
        simp [hb]
      · simp at hb

theorem dk_own (mm : MMX) (o : Opts) (cls : Nat) (kids : List (SNode Str)) (e : Str × SlotV Str) :
    ∀ c ∈ dk mm o cls kids e, c.tag = e.1 ∧ isBad c = false := by
  intro c hc
  unfold dk at hc
  split at hc
  · simp at hc
  · split at hc
    · simp at hc
    · split at hc
      · split at hc <;> simp at hc
        subst hc; simp [Child.tag, isBad]
      · split at hc
        · simp at hc
        · split at hc
          · simp only [List.mem_map] at hc
            obtain ⟨v, _, rfl⟩ := hc
            cases v <;> simp [Child.tag, isBad]
          · simp at hc
      · simp only [List.mem_map] at hc
        obtain ⟨k, _, rfl⟩ := hc
        simp [Child.tag, isBad]
      · simp at hc

end XDoc

namespace XDoc
open Xmi

def valOf : Child → Option (Option Str)
  | .nil _ => some Option.none
  | .text _ s => some (some s)
  | _ => Option.none

theorem filterMap_via_filter {α β : Type} (F G : α → Option β) (p : α → Bool)
    (h : ∀ c, F c = if p c then G c else Option.none) (cs : List α) :
    cs.filterMap F = (cs.filter p).filterMap G := by
  induction cs with
  | nil => rfl
  | cons c t ih =>
    rw [List.filterMap_cons, List.filter_cons, h c]
    by_cases hp : p c = true
    · rw [if_pos hp, if_pos hp, List.filterMap_cons, ih]
    · rw [if_neg hp, if_neg hp, ih]

theorem fromKids_view (cs : List Child) (f : Str) :
    cs.filterMap (kidVal f) = (cs.filter fun c => c.tag == f).filterMap valOf := by
  apply filterMap_via_filter
  intro c
  cases c <;> simp [Child.tag, valOf, kidVal]

theorem valOf_map_vs (f : Str) (vs : List (Option Str)) :
    (vs.map fun | Option.none => Child.nil f | some s => Child.text f s).filterMap valOf = vs := by
  induction vs with
  | nil => rfl
  | cons v t ih => cases v <;> simp [valOf, ih]

theorem not_specialO (ws : Char → Bool) (vs : List (Option Str)) (h : specialO ws vs = false) :
    vs = (vs.filterMap id).map some ∧ ∀ w ∈ vs.filterMap id, Word ws w := by
  induction vs with
  | nil => simp
  | cons v t ih =>
    simp only [specialO, List.any_cons, Bool.or_eq_false_iff] at h
    have ih' := ih (by simpa [specialO] using h.2)
    cases v with
    | none => simp at h
    | some s =>
      have hs := h.1
      simp only [Bool.or_eq_false_iff] at hs
      refine ⟨by simp; exact ih'.1, ?_⟩
      intro w hw
      simp only [List.filterMap_cons, id, List.mem_cons] at hw
      rcases hw with rfl | hw
      · refine ⟨by intro he; simp [he] at hs, ?_⟩
        intro c hc
        have := hs.2
        simp only [List.any_eq_false] at this
        simpa using this c hc
      · exact ih'.2 w hw

end XDoc

namespace XDoc
open Xmi

/-- the plain attributes written for an object -/
def attrsOf (mm : MMX) (o : Opts) (cls : Nat) (ks : List (Str × Elem)) (slots : List (Str × SlotV Str)) : List (Str × Str) :=
  slots.flatMap fun e => (encSlot mm o cls ks e).1

/-- … and what its child elements decode to -/
def kidsOf (mm : MMX) (o : Opts) (cls : Nat) (kids : List (SNode Str)) (slots : List (Str × SlotV Str)) : List Child :=
  slots.flatMap (dk mm o cls kids)

theorem attrs_view (mm : MMX) (o : Opts) (cls : Nat) (ks : List (Str × Elem)) (slots : List (Str × SlotV Str))
    (hnd : (slots.map (·.1)).Nodup) (f : Str) :
    (attrsOf mm o cls ks slots).filter (fun b => b.1 == f)
      = ((slots.lookup f).map fun s => (encSlot mm o cls ks (f, s)).1).getD [] := by
  unfold attrsOf
  exact keyed_view (fun e => (encSlot mm o cls ks e).1) (·.1) (fun e b hb => encSlot_attrs_own mm o cls ks e b hb) slots hnd f

theorem kids_view (mm : MMX) (o : Opts) (cls : Nat) (kids : List (SNode Str)) (slots : List (Str × SlotV Str))
    (hnd : (slots.map (·.1)).Nodup) (f : Str) :
    (kidsOf mm o cls kids slots).filter (fun c => c.tag == f)
      = ((slots.lookup f).map fun s => dk mm o cls kids (f, s)).getD [] := by
  unfold kidsOf
  exact keyed_view (dk mm o cls kids) Child.tag (fun e c hc => (dk_own mm o cls kids e c hc).1) slots hnd f

/-- the text written as plain attribute for a slot of feature `fi` -/
def wAttr (mm : MMX) (fi : FInfo) (o : Opts) : SlotV Str → Option Str
  | .attr1 v => if !veq fi v || o.sd then some v else Option.none
  | .attrN vs => if vs.isEmpty then Option.none else if specialO mm.ws vs then Option.none else some (joinSp (vs.filterMap id))
  | .ref1 t => some t
  | .refN ts => if ts.isEmpty then Option.none else some (joinSp ts)
  | _ => Option.none

/-- the values its child elements give -/
def wKids (mm : MMX) (fi : FInfo) (o : Opts) : SlotV Str → List (Option Str)
  | .none => if o.sd || (fi.kind = .attr && fi.dflt.isSome) then [Option.none] else []
  | .attrN vs => if vs.isEmpty then [] else if specialO mm.ws vs then vs else []
  | _ => []

theorem encSlot_lookup (mm : MMX) (o : Opts) (cls : Nat) (ks : List (Str × Elem)) (f : Str) (s : SlotV Str) (fi : FInfo)
    (hf : mm.find cls f = some fi) (hk : fi.kind ≠ .skip) :
    (encSlot mm o cls ks (f, s)).1.lookup f = wAttr mm fi o s := by
  unfold encSlot wAttr
  simp only [hf, hk, if_false]
  cases s with
  | none => simp only; split <;> rfl
  | attr1 v => simp only; split <;> simp
  | attrN vs => simp only; split; rfl; split <;> simp
  | ref1 t => simp
  | refN ts => simp only; split <;> simp
  | kids => rfl

theorem dk_vals (mm : MMX) (o : Opts) (cls : Nat) (kids : List (SNode Str)) (f : Str) (s : SlotV Str) (fi : FInfo)
    (hf : mm.find cls f = some fi) (hk : fi.kind ≠ .skip) :
    (dk mm o cls kids (f, s)).filterMap valOf = wKids mm fi o s := by
  unfold dk wKids
  simp only [hf, hk, if_false]
  cases s with
  | none => simp only; split <;> simp [valOf]
  | attr1 v => rfl
  | attrN vs => simp only; split; rfl; split; exact valOf_map_vs f vs; rfl
  | ref1 t => rfl
  | refN ts => rfl
  | kids => simp [valOf]

theorem attr_lookup (mm : MMX) (o : Opts) (cls : Nat) (ks : List (Str × Elem)) (slots : List (Str × SlotV Str))
    (hnd : (slots.map (·.1)).Nodup) (f : Str) :
    (attrsOf mm o cls ks slots).lookup f = (slots.lookup f).bind fun s => (encSlot mm o cls ks (f, s)).1.lookup f := by
  rw [lookup_filter_head, attrs_view mm o cls ks slots hnd f]
  cases slots.lookup f with
  | none => rfl
  | some s =>
    simp only [Option.map_some, Option.getD_some, Option.bind_some]
    rw [lookup_filter_head ((encSlot mm o cls ks (f, s)).1)]
    congr 2
    symm
    apply List.filter_eq_self.mpr
    intro b hb
    simp [encSlot_attrs_own mm o cls ks (f, s) b hb]

theorem kid_vals (mm : MMX) (o : Opts) (cls : Nat) (kids : List (SNode Str)) (slots : List (Str × SlotV Str))
    (hnd : (slots.map (·.1)).Nodup) (f : Str) :
    (kidsOf mm o cls kids slots).filterMap (kidVal f)
      = ((slots.lookup f).map fun s => (dk mm o cls kids (f, s)).filterMap valOf).getD [] := by
  rw [fromKids_view, kids_view mm o cls kids slots hnd f]
  cases slots.lookup f <;> rfl

end XDoc

namespace XDoc
open Xmi

/-- the admissible slot shapes for a feature (from `SlotOK`, for the feature itself) -/
def ShapeOK (mm : MMX) (fi : FInfo) : SlotV Str → Prop
  | .none => fi.many = false
  | .attr1 _ => fi.kind = .attr ∧ fi.many = false
  | .attrN _ => fi.kind = .attr ∧ fi.many = true
  | .ref1 t => fi.kind = .ref ∧ fi.many = false ∧ Word mm.ws t
  | .refN ts => fi.kind = .ref ∧ fi.many = true ∧ ∀ t ∈ ts, Word mm.ws t
  | .kids => fi.kind = .cont

theorem decS_unset (mm : MMX) (o : Opts) (fi : FInfo) (slots : List (Str × SlotV Str)) (hl : slots.lookup fi.name = Option.none) :
    decS mm fi Option.none [] = effSlot o.sd fi slots := by
  unfold decS effSlot
  cases hk : fi.kind with
  | attr =>
    simp only [hl, List.append_nil, List.getLast?_nil, unsetSlot, hk]
    cases hm : fi.many with
    | true => simp
    | false => cases fi.dflt <;> simp
  | ref =>
    simp only [hl, unsetSlot, hk]
  | cont => rfl
  | skip => rfl

theorem decS_set_attr1 (mm : MMX) (o : Opts) (fi : FInfo) (slots : List (Str × SlotV Str)) (v : Str)
    (hl : slots.lookup fi.name = some (.attr1 v)) (hk : fi.kind = .attr) (hm : fi.many = false) :
    decS mm fi (wAttr mm fi o (.attr1 v)) (wKids mm fi o (.attr1 v)) = effSlot o.sd fi slots := by
  unfold decS effSlot wAttr wKids
  simp only [hk, hl, hm, Bool.false_eq_true, if_false, List.getLast?_nil]
  cases hsd : o.sd with
  | true => simp
  | false =>
    cases hv : veq fi v with
    | false => simp
    | true =>
      simp only [Bool.not_true, Bool.or_false, Bool.false_eq_true, if_false, Bool.not_false, Bool.and_self, if_true]
      have hd : ∃ d, fi.dflt = some d := by
        cases hdd : fi.dflt with
        | none => simp [veq, hdd] at hv
        | some d => exact ⟨d, rfl⟩
      obtain ⟨d, hd⟩ := hd
      simp [hd]

theorem decS_set_none (mm : MMX) (o : Opts) (fi : FInfo) (slots : List (Str × SlotV Str))
    (hl : slots.lookup fi.name = some .none) (hm : fi.many = false) :
    decS mm fi (wAttr mm fi o .none) (wKids mm fi o .none) = effSlot o.sd fi slots := by
  unfold decS effSlot wAttr wKids
  cases hk : fi.kind with
  | attr =>
    simp only [hl, hm, Bool.false_eq_true, if_false]
    cases hsd : o.sd with
    | true => simp
    | false =>
      cases hd : fi.dflt with
      | none => simp
      | some d => simp
  | ref => simp [hl, hm]
  | cont => rfl
  | skip => rfl

theorem decS_set_attrN (mm : MMX) (o : Opts) (hsp : mm.ws ' ' = true) (fi : FInfo) (slots : List (Str × SlotV Str))
    (vs : List (Option Str)) (hl : slots.lookup fi.name = some (.attrN vs)) (hk : fi.kind = .attr) (hm : fi.many = true) :
    decS mm fi (wAttr mm fi o (.attrN vs)) (wKids mm fi o (.attrN vs)) = effSlot o.sd fi slots := by
  unfold decS effSlot wAttr wKids
  simp only [hk, hl, hm, if_true]
  congr 2
  by_cases he : vs.isEmpty = true
  · have : vs = [] := by simpa using he
    simp [this]
  · have he' : vs.isEmpty = false := by simpa using he
    simp only [he', Bool.false_eq_true, if_false]
    by_cases hs : specialO mm.ws vs = true
    · simp [hs]
    · have hs' : specialO mm.ws vs = false := by simpa using hs
      obtain ⟨hvs, hwords⟩ := not_specialO mm.ws vs hs'
      have hsj := split_join (ws := mm.ws) hsp (vs.filterMap id) hwords
      simp only [hs', Bool.false_eq_true, if_false, List.append_nil]
      rw [hsj, ← hvs]

theorem decS_set_ref1 (mm : MMX) (o : Opts) (fi : FInfo) (slots : List (Str × SlotV Str)) (t : Str)
    (hl : slots.lookup fi.name = some (.ref1 t)) (hk : fi.kind = .ref) (hm : fi.many = false) (ht : t ≠ []) :
    decS mm fi (wAttr mm fi o (.ref1 t)) (wKids mm fi o (.ref1 t)) = effSlot o.sd fi slots := by
  unfold decS effSlot wAttr wKids
  have : t.isEmpty = false := by cases t <;> simp_all
  simp [hk, hl, hm, this]

theorem decS_set_refN (mm : MMX) (o : Opts) (hsp : mm.ws ' ' = true) (fi : FInfo) (slots : List (Str × SlotV Str))
    (ts : List Str) (hl : slots.lookup fi.name = some (.refN ts)) (hk : fi.kind = .ref) (hm : fi.many = true)
    (hw : ∀ t ∈ ts, Word mm.ws t) :
    decS mm fi (wAttr mm fi o (.refN ts)) (wKids mm fi o (.refN ts)) = effSlot o.sd fi slots := by
  unfold decS effSlot wAttr wKids
  simp only [hk, hl, hm, if_true]
  congr 2
  by_cases he : ts.isEmpty = true
  · have : ts = [] := by simpa using he
    simp [this]
  · have he' : ts.isEmpty = false := by simpa using he
    have hsj := split_join (ws := mm.ws) hsp ts hw
    simp only [he', Bool.false_eq_true, if_false]
    rw [hsj]

end XDoc

namespace XDoc
open Xmi

theorem slot_roundtrip (mm : MMX) (o : Opts) (hmm : MMOK mm) (cls : Nat) (ks : List (Str × Elem)) (kids : List (SNode Str))
    (slots : List (Str × SlotV Str)) (hnd : (slots.map (·.1)).Nodup) (hs : ∀ e ∈ slots, SlotOK mm cls e)
    (fi : FInfo) (hfi : fi ∈ mm.feats cls) :
    decSlot mm (attrsOf mm o cls ks slots) (kidsOf mm o cls kids slots) fi = effSlot o.sd fi slots := by
  have hfind := hmm.findSelf cls fi hfi
  unfold decSlot
  rw [attr_lookup mm o cls ks slots hnd, kid_vals mm o cls kids slots hnd]
  by_cases hskip : fi.kind = .skip
  · unfold decS effSlot; simp [hskip]
  · cases hl : slots.lookup fi.name with
    | none =>
      simp only [Option.bind_none, Option.map_none, Option.getD_none]
      exact decS_unset mm o fi slots hl
    | some s =>
      simp only [Option.bind_some, Option.map_some, Option.getD_some]
      rw [encSlot_lookup mm o cls ks fi.name s fi hfind hskip, dk_vals mm o cls kids fi.name s fi hfind hskip]
      have hmem := lookup_mem slots fi.name s hl
      obtain ⟨fi', hf', hok⟩ := hs _ hmem
      simp only at hf' hok
      rw [hfind] at hf'
      cases hf'
      rcases hok with hok | hok
      · exact absurd hok hskip
      · cases s with
        | none => exact decS_set_none mm o fi slots hl hok
        | attr1 v => exact decS_set_attr1 mm o fi slots v hl hok.1 hok.2
        | attrN vs => exact decS_set_attrN mm o hmm.sp fi slots vs hl hok.1 hok.2
        | ref1 t => exact decS_set_ref1 mm o fi slots t hl hok.1 hok.2.1 hok.2.2.1
        | refN ts => exact decS_set_refN mm o hmm.sp fi slots ts hl hok.1 hok.2.1 hok.2.2
        | kids =>
          have hk : fi.kind = .cont := hok
          unfold decS effSlot; simp [hk]

end XDoc

namespace XDoc
open Xmi

theorem lookup_of_mem_nodup {V : Type} (l : List (Str × V)) (hnd : (l.map (·.1)).Nodup) (f : Str) (v : V) (h : (f, v) ∈ l) :
    l.lookup f = some v := by
  induction l with
  | nil => cases h
  | cons e t ih =>
    obtain ⟨k, w⟩ := e
    simp only [List.map_cons, List.nodup_cons] at hnd
    simp only [List.lookup_cons]
    rcases List.mem_cons.mp h with he | ht
    · cases he; simp
    · have hne : f ≠ k := by
        intro he; subst he
        exact hnd.1 (List.mem_map.mpr ⟨(f, v), ht, rfl⟩)
      have : (f == k) = false := by simpa using hne
      simp only [this]
      exact ih hnd.2 ht

theorem eff_filter_via {ρ : Type} (mm : MMX) (o : Opts) (kids : List (SNode ρ)) (f : Str) :
    (kids.map (eff mm o false)).filter (fun k => k.via == f) = (kids.filter fun k => k.via == f).map (eff mm o false) := by
  induction kids with
  | nil => rfl
  | cons k t ih =>
    simp only [List.map_cons, List.filter_cons, eff_via]
    split <;> simp [ih]

theorem cont_roundtrip (mm : MMX) (o : Opts) (hmm : MMOK mm) (cls : Nat) (kids : List (SNode Str))
    (slots : List (Str × SlotV Str)) (hnd : (slots.map (·.1)).Nodup) (hs : ∀ e ∈ slots, SlotOK mm cls e)
    (hk2 : ∀ k ∈ kids, ∃ fi, mm.find cls k.via = some fi ∧ fi.kind = .cont ∧ (k.via, SlotV.kids) ∈ slots)
    (h1 : ∀ fi ∈ mm.feats cls, fi.kind = .cont → fi.many = false → (kids.filter fun k => k.via == fi.name).length ≤ 1)
    (fi : FInfo) (hfi : fi ∈ mm.feats cls) (hk : fi.kind = .cont) :
    decCont fi (kidsOf mm o cls kids slots) = (kids.map (eff mm o false)).filter (fun k => k.via == fi.name) := by
  have hfind := hmm.findSelf cls fi hfi
  have hskip : fi.kind ≠ .skip := by rw [hk]; simp
  unfold decCont
  rw [kids_view mm o cls kids slots hnd fi.name, eff_filter_via]
  cases hl : slots.lookup fi.name with
  | none =>
    have hnone : (kids.filter fun k => k.via == fi.name) = [] := by
      apply List.filter_eq_nil_iff.mpr
      intro k hkm hv
      obtain ⟨fi', _, _, hmem⟩ := hk2 k hkm
      have hv' : k.via = fi.name := by simpa using hv
      rw [hv'] at hmem
      exact lookup_none_not_mem slots fi.name hl _ hmem
    simp only [Option.map_none, Option.getD_none, hnone, List.map_nil, List.filterMap_nil, List.getLast?_nil]
    split <;> rfl
  | some s =>
    have hmem := lookup_mem slots fi.name s hl
    obtain ⟨fi', hf', hok⟩ := hs _ hmem
    simp only at hf' hok
    rw [hfind] at hf'
    cases hf'
    rcases hok with hok | hok
    · exact absurd hok hskip
    · simp only [Option.map_some, Option.getD_some]
      cases s with
      | attr1 v => rw [hk] at hok; exact absurd hok.1 (by simp)
      | attrN vs => rw [hk] at hok; exact absurd hok.1 (by simp)
      | ref1 t => rw [hk] at hok; exact absurd hok.1 (by simp)
      | refN ts => rw [hk] at hok; exact absurd hok.1 (by simp)
      | none =>
        have hm : fi.many = false := hok
        have hnone : (kids.filter fun k => k.via == fi.name) = [] := by
          apply List.filter_eq_nil_iff.mpr
          intro k hkm hv
          obtain ⟨fi', _, _, hmem'⟩ := hk2 k hkm
          have hv' : k.via = fi.name := by simpa using hv
          rw [hv'] at hmem'
          have := lookup_of_mem_nodup slots hnd fi.name _ hmem'
          rw [hl] at this
          cases this
        simp only [dk, hfind, hskip, if_false, hm, Bool.false_eq_true, hnone, List.map_nil]
        split
        · rename_i heq
          split at heq <;> simp at heq
        · rfl
      | kids =>
        simp only [dk, hfind, hskip, if_false]
        cases hm : fi.many with
        | true =>
          simp only [if_true, List.filterMap_map]
          induction (kids.filter fun k => k.via == fi.name) with
          | nil => rfl
          | cons k t ih => simp [ih]
        | false =>
          simp only [Bool.false_eq_true, if_false]
          have hlen := h1 fi hfi hk hm
          cases hf : (kids.filter fun k => k.via == fi.name) with
          | nil => simp
          | cons k t =>
            rw [hf] at hlen
            have : t = [] := by
              cases t with
              | nil => rfl
              | cons _ _ => simp at hlen
            subst this
            simp

end XDoc

namespace XDoc
open Xmi

theorem filterMap_congr_mem {α β : Type} (l : List α) (f g : α → Option β) (h : ∀ a ∈ l, f a = g a) :
    l.filterMap f = l.filterMap g := by
  induction l with
  | nil => rfl
  | cons a t ih =>
    simp only [List.filterMap_cons, h a (by simp)]
    rw [ih (fun x hx => h x (by simp [hx]))]

theorem flatMap_congr_mem {α β : Type} (l : List α) (f g : α → List β) (h : ∀ a ∈ l, f a = g a) :
    l.flatMap f = l.flatMap g := by
  induction l with
  | nil => rfl
  | cons a t ih =>
    simp only [List.flatMap_cons, h a (by simp)]
    rw [ih (fun x hx => h x (by simp [hx]))]

theorem dec_enc_step (mm : MMX) (o : Opts) (hmm : MMOK mm) (via : Str) (cls : Nat) (uuid : Str)
    (slots : List (Str × SlotV Str)) (kids : List (SNode Str))
    (hwf : WFN mm (.mk via cls uuid slots kids))
    (ih : ∀ k ∈ kids, ∀ decl, decNode mm false decl (encNode mm o false decl k) = some (eff mm o false k))
    (top : Bool) (decl : Nat) :
    decNode mm top decl (encNode mm o top decl (.mk via cls uuid slots kids)) = some (eff mm o top (.mk via cls uuid slots kids)) := by
  cases hwf with
  | mk _ _ _ _ _ hc hnd hs hk hk2 h1 =>
  -- the written attributes and the decoded children, per slot
  have hattrs : ((slots.map (encSlot mm o cls (encKids mm o cls kids))).flatMap (·.1))
      = attrsOf mm o cls (encKids mm o cls kids) slots := by
    unfold attrsOf; rw [List.flatMap_map]
  have hkids : decKids mm cls ((slots.map (encSlot mm o cls (encKids mm o cls kids))).flatMap (·.2))
      = kidsOf mm o cls kids slots := by
    rw [decKids_eq_map, List.flatMap_map, List.map_flatMap]
    unfold kidsOf
    apply flatMap_congr_mem
    intro e he
    apply decChild_slot mm o cls kids e (hs e he)
    intro k hkm hvia fi hf hkc
    have : declOf mm cls k.via = fi.tcls := by
      unfold declOf; rw [hvia, hf]; rfl
    rw [this]
    exact ih k hkm fi.tcls
  have hnobad : (kidsOf mm o cls kids slots).any isBad = false := by
    apply List.any_eq_false.mpr
    intro c hc
    unfold kidsOf at hc
    obtain ⟨e, _, hce⟩ := List.mem_flatMap.mp hc
    simp [(dk_own mm o cls kids e c hce).2]
  have hknown : (attrsOf mm o cls (encKids mm o cls kids) slots).any (fun a => (mm.find cls a.1).isNone) = false := by
    apply List.any_eq_false.mpr
    intro a ha
    unfold attrsOf at ha
    obtain ⟨e, he, hae⟩ := List.mem_flatMap.mp ha
    have hown := encSlot_attrs_own mm o cls _ e a hae
    obtain ⟨fi, hf, _⟩ := hs e he
    rw [hown, hf]; simp
  have hcid := hmm.cid cls hc
  unfold encNode eff
  simp only [decNode]
  have hcls : decClass mm top decl (if top = true then mm.cname cls else via)
      (if (!top && decl != cls) = true then some (mm.cname cls) else Option.none) = some cls := by
    unfold decClass
    cases top with
    | true => simp [hcid]
    | false =>
      by_cases hd : decl = cls
      · subst hd; simp
      · have : (decl != cls) = true := by simpa using hd
        simp [this, hcid]
  rw [hcls]
  simp only [buildNode, hattrs, hkids, hnobad, hknown, Bool.false_eq_true, if_false, Bool.and_false]
  congr 1
  congr 1
  · cases top <;> rfl
  · cases o.uuid <;> rfl
  · apply filterMap_congr_mem
    intro fi hfi
    exact slot_roundtrip mm o hmm cls _ kids slots hnd hs fi hfi
  · apply flatMap_congr_mem
    intro fi hfi
    have hfi' := List.mem_filter.mp hfi
    have hkc : fi.kind = .cont := by simpa using hfi'.2
    rw [effKids_eq_map]
    exact cont_roundtrip mm o hmm cls kids slots hnd hs hk2 h1 fi hfi'.1 hkc

end XDoc

namespace XDoc
open Xmi

theorem WFN.kids_wf {mm : MMX} {via : Str} {cls : Nat} {uuid : Str} {slots : List (Str × SlotV Str)} {kids : List (SNode Str)}
    (h : WFN mm (.mk via cls uuid slots kids)) : ∀ k ∈ kids, WFN mm k := by
  cases h with
  | mk _ _ _ _ _ _ _ _ hk _ _ => exact hk

mutual
/-- element level: loading what was saved for a well-formed object gives the object's normal form -/
theorem dec_enc (mm : MMX) (o : Opts) (hmm : MMOK mm) :
    (n : SNode Str) → WFN mm n → ∀ (top : Bool) (decl : Nat),
      decNode mm top decl (encNode mm o top decl n) = some (eff mm o top n)
  | .mk via cls uuid slots kids, h, top, decl =>
    dec_enc_step mm o hmm via cls uuid slots kids h (dec_enc_list mm o hmm kids h.kids_wf) top decl
theorem dec_enc_list (mm : MMX) (o : Opts) (hmm : MMOK mm) :
    (l : List (SNode Str)) → (∀ k ∈ l, WFN mm k) → ∀ k ∈ l, ∀ (decl : Nat),
      decNode mm false decl (encNode mm o false decl k) = some (eff mm o false k)
  | [], _, k, hk, _ => absurd hk (by simp)
  | a :: t, h, k, hk, decl => by
    rcases List.mem_cons.mp hk with he | h1
    · rw [he]
      exact dec_enc mm o hmm a (h a (by simp)) false decl
    · exact dec_enc_list mm o hmm t (fun x hx => h x (by simp [hx])) k h1 decl
end

end XDoc

/-! ### references: tokens in, tokens out -/
namespace XDoc
open Xmi

def mapSlotT {ρ σ : Type} (g : ρ → σ) : SlotV ρ → SlotV σ
  | .none => .none
  | .attr1 v => .attr1 v
  | .attrN vs => .attrN vs
  | .ref1 t => .ref1 (g t)
  | .refN ts => .refN (ts.map g)
  | .kids => .kids

mutual
def mapT {ρ σ : Type} (g : ρ → σ) : SNode ρ → SNode σ
  | .mk via cls uuid slots kids => .mk via cls uuid (slots.map fun e => (e.1, mapSlotT g e.2)) (mapTL g kids)
def mapTL {ρ σ : Type} (g : ρ → σ) : List (SNode ρ) → List (SNode σ)
  | [] => []
  | k :: t => mapT g k :: mapTL g t
end

theorem mapTL_eq_map {ρ σ : Type} (g : ρ → σ) (l : List (SNode ρ)) : mapTL g l = l.map (mapT g) := by
  induction l with
  | nil => simp [mapTL]
  | cons k t ih => simp only [mapTL, List.map_cons, ih]

@[simp] theorem mapT_via {ρ σ : Type} (g : ρ → σ) (n : SNode ρ) : (mapT g n).via = n.via := by
  cases n; simp [mapT, SNode.via]

theorem mapSlot_total {ρ σ : Type} (g : ρ → σ) (s : SlotV ρ) : mapSlot (fun r => some (g r)) s = some (mapSlotT g s) := by
  cases s with
  | refN ts =>
    simp only [mapSlot, mapSlotT]
    have : ts.mapM (fun r => some (g r)) = some (ts.map g) := by
      induction ts with
      | nil => rfl
      | cons a t ih => simp [List.mapM_cons, ih]
    rw [this]; rfl
  | _ => simp [mapSlot, mapSlotT]

theorem mapSlots_total {ρ σ : Type} (g : ρ → σ) (l : List (Str × SlotV ρ)) :
    mapSlots (fun r => some (g r)) l = some (l.map fun e => (e.1, mapSlotT g e.2)) := by
  induction l with
  | nil => rfl
  | cons e t ih =>
    obtain ⟨k, s⟩ := e
    simp only [mapSlots, mapSlot_total, ih, List.map_cons]

mutual
theorem mapRefs_total {ρ σ : Type} (g : ρ → σ) : (n : SNode ρ) → mapRefs (fun r => some (g r)) n = some (mapT g n)
  | .mk via cls uuid slots kids => by
    simp only [mapRefs, mapSlots_total, mapRefsL_total g kids, mapT]
theorem mapRefsL_total {ρ σ : Type} (g : ρ → σ) : (l : List (SNode ρ)) → mapRefsL (fun r => some (g r)) l = some (mapTL g l)
  | [] => by simp [mapRefsL, mapTL]
  | k :: t => by simp only [mapRefsL, mapRefs_total g k, mapRefsL_total g t, mapTL]
end

/-- a property of every reference held in a tree -/
def SlotRefs {ρ : Type} (P : ρ → Prop) : SlotV ρ → Prop
  | .ref1 t => P t
  | .refN ts => ∀ t ∈ ts, P t
  | _ => True

theorem SlotRefs_unset {ρ : Type} (P : ρ → Prop) (fi : FInfo) : SlotRefs P (unsetSlot fi : SlotV ρ) := by
  unfold unsetSlot
  cases fi.kind <;> cases fi.many <;> simp [SlotRefs] <;> cases fi.dflt <;> simp [SlotRefs]

inductive AllRefs {ρ : Type} (P : ρ → Prop) : SNode ρ → Prop
  | mk (via : Str) (cls : Nat) (uuid : Str) (slots : List (Str × SlotV ρ)) (kids : List (SNode ρ))
      (hs : ∀ e ∈ slots, SlotRefs P e.2) (hk : ∀ k ∈ kids, AllRefs P k) : AllRefs P (.mk via cls uuid slots kids)

theorem mapSlot_back {ρ σ : Type} (f : σ → Option ρ) (g : ρ → σ) (s : SlotV ρ)
    (h : SlotRefs (fun r => f (g r) = some r) s) : mapSlot f (mapSlotT g s) = some s := by
  cases s with
  | ref1 t => simp only [mapSlotT, mapSlot]; rw [h]; rfl
  | refN ts =>
    simp only [mapSlotT, mapSlot]
    have : (ts.map g).mapM f = some ts := by
      induction ts with
      | nil => rfl
      | cons a t ih =>
        have ha : f (g a) = some a := h a (by simp)
        have ht := ih (fun x hx => h x (by simp [hx]))
        simp [List.mapM_cons, ha, ht]
    rw [this]; rfl
  | _ => simp [mapSlotT, mapSlot]

theorem mapSlots_back {ρ σ : Type} (f : σ → Option ρ) (g : ρ → σ) (l : List (Str × SlotV ρ))
    (h : ∀ e ∈ l, SlotRefs (fun r => f (g r) = some r) e.2) :
    mapSlots f (l.map fun e => (e.1, mapSlotT g e.2)) = some l := by
  induction l with
  | nil => rfl
  | cons e t ih =>
    obtain ⟨k, s⟩ := e
    have h1 := mapSlot_back f g s (h (k, s) (by simp))
    have h2 := ih (fun x hx => h x (by simp [hx]))
    simp only [List.map_cons, mapSlots, h1, h2]

mutual
theorem mapRefs_back {ρ σ : Type} (f : σ → Option ρ) (g : ρ → σ) :
    (n : SNode ρ) → AllRefs (fun r => f (g r) = some r) n → mapRefs f (mapT g n) = some n
  | .mk via cls uuid slots kids, h => by
    cases h with
    | mk _ _ _ _ _ hs hk =>
      simp only [mapT, mapRefs, mapSlots_back f g slots hs, mapRefsL_back f g kids hk]
theorem mapRefsL_back {ρ σ : Type} (f : σ → Option ρ) (g : ρ → σ) :
    (l : List (SNode ρ)) → (∀ k ∈ l, AllRefs (fun r => f (g r) = some r) k) → mapRefsL f (mapTL g l) = some l
  | [], _ => by simp [mapTL, mapRefsL]
  | k :: t, h => by
    simp only [mapTL, mapRefsL, mapRefs_back f g k (h k (by simp)), mapRefsL_back f g t (fun x hx => h x (by simp [hx]))]
end

end XDoc

namespace XDoc
open Xmi

theorem lookup_map_slots {ρ σ : Type} (g : ρ → σ) (l : List (Str × SlotV ρ)) (f : Str) :
    (l.map fun e => (e.1, mapSlotT g e.2)).lookup f = (l.lookup f).map (mapSlotT g) := by
  induction l with
  | nil => rfl
  | cons e t ih =>
    obtain ⟨k, s⟩ := e
    simp only [List.map_cons, List.lookup_cons]
    cases (f == k) <;> simp [ih]

theorem mapSlotT_unset {ρ σ : Type} (g : ρ → σ) (fi : FInfo) : mapSlotT g (unsetSlot fi : SlotV ρ) = unsetSlot fi := by
  unfold unsetSlot
  cases fi.kind <;> cases fi.many <;> simp [mapSlotT] <;> cases fi.dflt <;> simp [mapSlotT]

theorem effSlot_mapT {ρ σ : Type} (g : ρ → σ) (sd : Bool) (fi : FInfo) (slots : List (Str × SlotV ρ)) :
    effSlot sd fi (slots.map fun e => (e.1, mapSlotT g e.2)) = (effSlot sd fi slots).map fun e => (e.1, mapSlotT g e.2) := by
  unfold effSlot
  rw [lookup_map_slots]
  cases fi.kind with
  | attr =>
    cases slots.lookup fi.name with
    | none => simp only [Option.map_none, Option.map_some, mapSlotT_unset]
    | some s => cases s <;> simp [mapSlotT] <;> split <;> simp [mapSlotT]
  | ref =>
    cases slots.lookup fi.name with
    | none => simp only [Option.map_none, Option.map_some, mapSlotT_unset]
    | some s => simp
  | cont => rfl
  | skip => rfl

theorem filterMap_map_comm {α β γ : Type} (l : List α) (f : α → Option β) (g : β → γ) :
    l.filterMap (fun a => (f a).map g) = (l.filterMap f).map g := by
  induction l with
  | nil => rfl
  | cons a t ih => simp only [List.filterMap_cons]; cases f a <;> simp [ih]

mutual
theorem eff_mapT {ρ σ : Type} (mm : MMX) (o : Opts) (g : ρ → σ) (top : Bool) :
    (n : SNode ρ) → eff mm o top (mapT g n) = mapT g (eff mm o top n)
  | .mk via cls uuid slots kids => by
    simp only [mapT, eff]
    congr 1
    · have : (fun fi => effSlot o.sd fi (slots.map fun e => (e.1, mapSlotT g e.2)))
          = fun fi => (effSlot o.sd fi slots).map fun e => (e.1, mapSlotT g e.2) := by
        funext fi; exact effSlot_mapT g o.sd fi slots
      rw [this, filterMap_map_comm]
    · rw [effKids_mapTL mm o g kids, mapTL_eq_map, mapTL_eq_map, List.map_flatMap]
      apply flatMap_congr_mem
      intro fi _
      rw [List.filter_map]
      congr 1
      apply List.filter_congr
      intro k _
      simp
theorem effKids_mapTL {ρ σ : Type} (mm : MMX) (o : Opts) (g : ρ → σ) :
    (l : List (SNode ρ)) → effKids mm o (mapTL g l) = mapTL g (effKids mm o l)
  | [] => by simp [mapTL, effKids]
  | k :: t => by simp only [mapTL, effKids, eff_mapT mm o g false k, effKids_mapTL mm o g t]
end

theorem SlotOKg_mapT {ρ σ : Type} (mm : MMX) (P : ρ → Prop) (Q : σ → Prop) (g : ρ → σ) (hPQ : ∀ r, P r → Q (g r))
    (cls : Nat) (e : Str × SlotV ρ) (h : SlotOKg mm P cls e) : SlotOKg mm Q cls (e.1, mapSlotT g e.2) := by
  obtain ⟨fi, hf, hk⟩ := h
  refine ⟨fi, hf, ?_⟩
  rcases hk with hk | hk
  · exact Or.inl hk
  · right
    obtain ⟨k, s⟩ := e
    cases s with
    | ref1 t => exact ⟨hk.1, hk.2.1, hPQ t hk.2.2⟩
    | refN ts =>
      refine ⟨hk.1, hk.2.1, ?_⟩
      intro t ht
      obtain ⟨r, hr, rfl⟩ := List.mem_map.mp ht
      exact hPQ r (hk.2.2 r hr)
    | _ => exact hk

mutual
theorem WFG_mapT {ρ σ : Type} (mm : MMX) (P : ρ → Prop) (Q : σ → Prop) (g : ρ → σ) (hPQ : ∀ r, P r → Q (g r)) :
    (n : SNode ρ) → WFG mm P n → WFG mm Q (mapT g n)
  | .mk via cls uuid slots kids, h => by
    cases h with
    | mk _ _ _ _ _ hc hnd hs hk hk2 h1 =>
      simp only [mapT]
      refine WFG.mk _ _ _ _ _ hc ?_ ?_ ?_ ?_ ?_
      · rw [List.map_map]; exact hnd
      · intro e he
        obtain ⟨e0, he0, rfl⟩ := List.mem_map.mp he
        exact SlotOKg_mapT mm P Q g hPQ cls e0 (hs e0 he0)
      · exact WFG_mapTL mm P Q g hPQ kids hk
      · intro k hkm
        rw [mapTL_eq_map] at hkm
        obtain ⟨k0, hk0, rfl⟩ := List.mem_map.mp hkm
        obtain ⟨fi, hf, hkc, hmem⟩ := hk2 k0 hk0
        refine ⟨fi, by simpa using hf, hkc, ?_⟩
        simp only [mapT_via]
        exact List.mem_map.mpr ⟨(k0.via, SlotV.kids), hmem, rfl⟩
      · intro fi hfi hkc hm
        have := h1 fi hfi hkc hm
        rw [mapTL_eq_map, List.filter_map, List.length_map]
        have hfe : (kids.filter ((fun k => k.via == fi.name) ∘ mapT g)) = kids.filter fun k => k.via == fi.name := by
          apply List.filter_congr
          intro k _
          simp
        rw [hfe]; exact this
theorem WFG_mapTL {ρ σ : Type} (mm : MMX) (P : ρ → Prop) (Q : σ → Prop) (g : ρ → σ) (hPQ : ∀ r, P r → Q (g r)) :
    (l : List (SNode ρ)) → (∀ k ∈ l, WFG mm P k) → ∀ k ∈ mapTL g l, WFG mm Q k
  | [], _ => by simp [mapTL]
  | a :: t, h => by
    intro k hk
    simp only [mapTL, List.mem_cons] at hk
    rcases hk with rfl | hk
    · exact WFG_mapT mm P Q g hPQ a (h a (by simp))
    · exact WFG_mapTL mm P Q g hPQ t (fun x hx => h x (by simp [hx])) k hk
end

end XDoc

namespace XDoc
open Xmi

theorem effSlot_refs {ρ : Type} (P : ρ → Prop) (sd : Bool) (fi : FInfo) (slots : List (Str × SlotV ρ))
    (hs : ∀ e ∈ slots, SlotRefs P e.2) (e : Str × SlotV ρ) (h : effSlot sd fi slots = some e) : SlotRefs P e.2 := by
  unfold effSlot at h
  cases hk : fi.kind with
  | attr =>
    simp only [hk] at h
    cases hl : slots.lookup fi.name with
    | none =>
      simp only [hl, Option.some.injEq] at h
      subst h
      exact SlotRefs_unset P fi
    | some s =>
      have hm := lookup_mem slots fi.name s hl
      have := hs _ hm
      simp only [hl, Option.some.injEq] at h
      subst h
      cases s with
      | attr1 v => simp only; split <;> simp [SlotRefs]
      | _ => simpa using this
  | ref =>
    simp only [hk] at h
    cases hl : slots.lookup fi.name with
    | none =>
      simp only [hl, Option.some.injEq] at h
      subst h
      exact SlotRefs_unset P fi
    | some s =>
      have hm := lookup_mem slots fi.name s hl
      have := hs _ hm
      simp only [hl, Option.some.injEq] at h
      subst h
      simpa using this
  | cont => simp [hk] at h
  | skip => simp [hk] at h

mutual
theorem AllRefs_eff {ρ : Type} (P : ρ → Prop) (mm : MMX) (o : Opts) (top : Bool) :
    (n : SNode ρ) → AllRefs P n → AllRefs P (eff mm o top n)
  | .mk via cls uuid slots kids, h => by
    cases h with
    | mk _ _ _ _ _ hs hk =>
      simp only [eff]
      refine AllRefs.mk _ _ _ _ _ ?_ ?_
      · intro e he
        obtain ⟨fi, _, hfe⟩ := List.mem_filterMap.mp he
        exact effSlot_refs P o.sd fi slots hs e hfe
      · intro k hkm
        obtain ⟨fi, _, hkf⟩ := List.mem_flatMap.mp hkm
        exact AllRefs_effKids P mm o kids hk k (List.mem_filter.mp hkf).1
theorem AllRefs_effKids {ρ : Type} (P : ρ → Prop) (mm : MMX) (o : Opts) :
    (l : List (SNode ρ)) → (∀ k ∈ l, AllRefs P k) → ∀ k ∈ effKids mm o l, AllRefs P k
  | [], _ => by simp [effKids]
  | a :: t, h => by
    intro k hk
    simp only [effKids, List.mem_cons] at hk
    rcases hk with rfl | hk
    · exact AllRefs_eff P mm o false a (h a (by simp))
    · exact AllRefs_effKids P mm o t (fun x hx => h x (by simp [hx])) k hk
end

theorem mapM_some_of_forall {α β : Type} (f : α → Option β) (g : α → β) (l : List α) (h : ∀ a ∈ l, f a = some (g a)) :
    l.mapM f = some (l.map g) := by
  induction l with
  | nil => rfl
  | cons a t ih =>
    simp [List.mapM_cons, h a (by simp), ih (fun x hx => h x (by simp [hx]))]

/-- **Document level.**  Saving a forest of well-formed objects and loading the elements again gives every object's
    normal form with every reference pointing where it pointed — provided each reference token resolves in the loaded
    forest to the path it was written for (`hres`; discharged below for the addressing modes). -/
theorem doc_roundtrip (mm : MMX) (o : Opts) (hmm : MMOK mm) (render : Path → Str) (parse : Str → Option Path)
    (roots : List (SNode Path))
    (hwf : ∀ r ∈ roots, WFG mm (fun p => Word mm.ws (tokenOf mm o render roots p)) r)
    (hres : ∀ r ∈ roots, AllRefs (fun p =>
        resolveTok mm o parse (roots.map fun r => eff mm o true (mapT (tokenOf mm o render roots) r))
          (tokenOf mm o render roots p) = some p) r) :
    (encodeDoc mm o render roots).bind (decodeDoc mm o parse) = some (roots.map (eff mm o true)) := by
  unfold encodeDoc
  rw [mapRefsL_total, mapTL_eq_map]
  simp only [Option.map_some, Option.bind_some, List.map_map]
  unfold decodeDoc
  have hdec : (roots.map (encNode mm o true 0 ∘ mapT (tokenOf mm o render roots))).mapM (decNode mm true 0)
      = some (roots.map fun r => eff mm o true (mapT (tokenOf mm o render roots) r)) := by
    rw [List.mapM_map] 
    apply mapM_some_of_forall
    intro r hr
    simp only [Function.comp]
    exact dec_enc mm o hmm _ (WFG_mapT mm (fun p => Word mm.ws (tokenOf mm o render roots p)) (Word mm.ws)
      (tokenOf mm o render roots) (fun _ h => h) r (hwf r hr)) true 0
  rw [hdec]
  simp only
  have hE : (roots.map fun r => eff mm o true (mapT (tokenOf mm o render roots) r))
      = mapTL (tokenOf mm o render roots) (roots.map (eff mm o true)) := by
    rw [mapTL_eq_map, List.map_map]
    apply List.map_congr_left
    intro r _
    exact eff_mapT mm o _ true r
  rw [hE]
  apply mapRefsL_back
  intro k hk
  obtain ⟨r, hr, rfl⟩ := List.mem_map.mp hk
  have := AllRefs_eff _ mm o true r (hres r hr)
  rw [hE] at this
  exact this

end XDoc

/-! ### navigation in the loaded forest -/
namespace XDoc
open Xmi

theorem regroup_filter {ρ : Type} (feats : List FInfo) (hnd : (feats.map (·.name)).Nodup) (L : List (SNode ρ)) (f : Str) :
    ((feats.filter fun fi => fi.kind = .cont).flatMap fun fi => L.filter fun k => k.via == fi.name).filter (fun k => k.via == f)
      = if feats.any (fun fi => fi.kind = .cont && fi.name == f) then L.filter (fun k => k.via == f) else [] := by
  induction feats with
  | nil => simp
  | cons g t ih =>
    simp only [List.map_cons, List.nodup_cons] at hnd
    have ih' := ih hnd.2
    simp only [List.filter_cons, List.any_cons]
    by_cases hc : g.kind = .cont
    · simp only [hc, decide_true, if_true, List.flatMap_cons, List.filter_append, Bool.true_and, ih']
      by_cases hn : g.name = f
      · subst hn
        have hnone : t.any (fun fi => decide (fi.kind = .cont) && fi.name == g.name) = false := by
          apply List.any_eq_false.mpr
          intro fi hfi
          have : fi.name ≠ g.name := fun he => hnd.1 (List.mem_map.mpr ⟨fi, hfi, he⟩)
          simp [this]
        simp only [hnone, Bool.or_false, beq_self_eq_true, if_true, Bool.false_eq_true, if_false, List.append_nil]
        rw [List.filter_filter]
        apply List.filter_congr
        intro k _
        simp
      · have hb : (g.name == f) = false := by simpa using hn
        simp only [hb, Bool.false_or]
        have : (L.filter fun k => k.via == g.name).filter (fun k => k.via == f) = [] := by
          apply List.filter_eq_nil_iff.mpr
          intro k hk hv
          have h1 : k.via = g.name := by simpa using (List.mem_filter.mp hk).2
          have h2 : k.via = f := by simpa using hv
          exact hn (h1 ▸ h2)
        rw [this, List.nil_append]
    · have hd : decide (g.kind = .cont) = false := by simpa using hc
      simp only [hd, Bool.false_eq_true, if_false, Bool.false_and, Bool.false_or, ih']

theorem kidsVia_eff {ρ : Type} {P : ρ → Prop} (mm : MMX) (o : Opts) (hmm : MMOK mm) (top : Bool) (n : SNode ρ) (h : WFG mm P n) (f : Str) :
    kidsVia (eff mm o top n) f = (kidsVia n f).map (eff mm o false) := by
  cases h with
  | mk via cls uuid slots kids hc hnd hs hk hk2 h1 =>
    unfold kidsVia
    simp only [eff, SNode.kids, effKids_eq_map]
    rw [regroup_filter (mm.feats cls) (hmm.nd cls)]
    split
    · exact eff_filter_via mm o kids f
    · rename_i hany
      have hnone : (kids.filter fun k => k.via == f) = [] := by
        apply List.filter_eq_nil_iff.mpr
        intro k hkm hv
        have hv' : k.via = f := by simpa using hv
        obtain ⟨fi, hf, hkc, _⟩ := hk2 k hkm
        obtain ⟨hname, hmem⟩ := find_name mm cls k.via fi hf
        apply hany
        apply List.any_eq_true.mpr
        exact ⟨fi, hmem, by simp [hkc, hname, hv']⟩
      simp [hnone]

theorem follow_eff {ρ : Type} {P : ρ → Prop} (mm : MMX) (o : Opts) (hmm : MMOK mm) (segs : List (Str × Option Nat)) :
    ∀ (top : Bool) (n : SNode ρ), WFG mm P n → (follow (eff mm o top n) segs).isSome = (follow n segs).isSome := by
  induction segs with
  | nil => intro top n _; rfl
  | cons s t ih =>
    intro top n h
    obtain ⟨f, i⟩ := s
    simp only [follow, kidsVia_eff mm o hmm top n h f, List.getElem?_map]
    cases hk : (kidsVia n f)[i.getD 0]? with
    | none => rfl
    | some k =>
      simp only [Option.map_some]
      have hkm : k ∈ kidsVia n f := List.mem_of_getElem? hk
      have hkm' : k ∈ n.kids := (List.mem_filter.mp hkm).1
      have hwf : WFG mm P k := by
        cases h with
        | mk _ _ _ _ kids _ _ _ hkids _ _ => exact hkids k hkm'
      exact ih false k hwf

theorem nodeAt_eff {ρ : Type} {P : ρ → Prop} (mm : MMX) (o : Opts) (hmm : MMOK mm) (roots : List (SNode ρ)) (h : ∀ r ∈ roots, WFG mm P r) (p : Path) :
    (nodeAt (roots.map (eff mm o true)) p).isSome = (nodeAt roots p).isSome := by
  unfold nodeAt
  rw [List.getElem?_map]
  cases hr : roots[p.root]? with
  | none => rfl
  | some r =>
    simp only [Option.map_some]
    exact follow_eff mm o hmm p.segs true r (h r (List.mem_of_getElem? hr))

end XDoc

namespace XDoc
open Xmi

theorem kidsVia_mapT {ρ σ : Type} (g : ρ → σ) (n : SNode ρ) (f : Str) :
    kidsVia (mapT g n) f = (kidsVia n f).map (mapT g) := by
  cases n with
  | mk via cls uuid slots kids =>
    unfold kidsVia
    simp only [mapT, SNode.kids, mapTL_eq_map, List.filter_map]
    congr 1
    apply List.filter_congr
    intro k _
    simp

theorem follow_mapT {ρ σ : Type} (g : ρ → σ) (segs : List (Str × Option Nat)) :
    ∀ (n : SNode ρ), (follow (mapT g n) segs).isSome = (follow n segs).isSome := by
  induction segs with
  | nil => intro n; rfl
  | cons s t ih =>
    intro n
    obtain ⟨f, i⟩ := s
    simp only [follow, kidsVia_mapT, List.getElem?_map]
    cases (kidsVia n f)[i.getD 0]? with
    | none => rfl
    | some k => simp only [Option.map_some]; exact ih k

theorem nodeAt_mapT {ρ σ : Type} (g : ρ → σ) (roots : List (SNode ρ)) (p : Path) :
    (nodeAt (roots.map (mapT g)) p).isSome = (nodeAt roots p).isSome := by
  unfold nodeAt
  rw [List.getElem?_map]
  cases roots[p.root]? with
  | none => rfl
  | some r => simp only [Option.map_some]; exact follow_mapT g p.segs r

end XDoc
