import PyecoreModel.Model.SetOps
/-!
Every history that uses the set mutators reaches a state that a history over the public calls alone reaches:
whatever is proved of `Store.run` for all histories holds of `Store.runAny`.
-/
namespace Store

def stepFn (mm : MM) (s : St) (op : Op) : St := (step mm s op).1

theorem runOps_flat (mm : MM) (s : St) (ops : List Op) : ∃ pre : List Op, (runOps mm s ops).1 = pre.foldl (stepFn mm) s := by
  induction ops generalizing s with
  | nil => exact ⟨[], rfl⟩
  | cons op ops ih =>
    unfold runOps
    rcases h : step mm s op with ⟨s', r⟩
    cases r with
    | ok v =>
      obtain ⟨pre, hp⟩ := ih s'
      refine ⟨op :: pre, ?_⟩
      simp only [List.foldl_cons, stepFn, h]; exact hp
    | error e =>
      refine ⟨[op], ?_⟩
      simp [stepFn, h]

theorem discardStep_flat (mm : MM) (s : St) (x f v) : ∃ pre : List Op, (discardStep mm s x f v).1 = pre.foldl (stepFn mm) s := by
  unfold discardStep
  split
  · exact runOps_flat mm s _
  · exact ⟨[], rfl⟩

theorem diffLoop_flat (mm : MM) (x f) (s : St) (vs : List PyVal) :
    ∃ pre : List Op, (diffLoop mm x f s vs).1 = pre.foldl (stepFn mm) s := by
  induction vs generalizing s with
  | nil => exact ⟨[], rfl⟩
  | cons v vs ih =>
    unfold diffLoop
    obtain ⟨p1, h1⟩ := discardStep_flat mm s x f v
    rcases h : discardStep mm s x f v with ⟨s', r⟩
    rw [h] at h1
    cases r with
    | ok _ =>
      obtain ⟨p2, h2⟩ := ih s'
      refine ⟨p1 ++ p2, ?_⟩
      simp only [List.foldl_append]; rw [← h1]; exact h2
    | error e => exact ⟨p1, h1⟩

theorem setStep_flat (mm : MM) (s : St) (o : SetOp) : ∃ pre : List Op, (setStep mm s o).1 = pre.foldl (stepFn mm) s := by
  unfold setStep
  split
  · exact ⟨[], rfl⟩
  · cases o with
    | discard x f v => exact discardStep_flat mm s x f v
    | diffUpd x f vs => exact diffLoop_flat mm x f s vs
    | interUpd x f vs => exact runOps_flat mm s _
    | symUpd x f vs =>
      simp only
      split
      · exact ⟨[], rfl⟩
      · exact runOps_flat mm s _
    | setSlice x f a b vs =>
      simp only
      split
      · exact ⟨[], rfl⟩
      · split
        · exact ⟨[], rfl⟩
        · exact runOps_flat mm s _
    | imul x f n =>
      simp only
      split
      · exact ⟨[], rfl⟩
      · exact runOps_flat mm s _

theorem stepAny_flat (mm : MM) (s : St) (a : Op ⊕ SetOp) : ∃ pre : List Op, (stepAny mm s a).1 = pre.foldl (stepFn mm) s := by
  cases a with
  | inl op => exact ⟨[op], rfl⟩
  | inr o => exact setStep_flat mm s o

/-- **flattening**: a history with set mutators ends where some history of public calls ends -/
theorem runAny_flat (mm : MM) (w : List (Op ⊕ SetOp)) : ∃ ops : List Op, runAny mm w = run mm ops := by
  suffices h : ∀ (w : List (Op ⊕ SetOp)) (s : St) (pre : List Op), s = pre.foldl (stepFn mm) init →
      ∃ ops : List Op, w.foldl (fun s a => (stepAny mm s a).1) s = ops.foldl (stepFn mm) init from h w init [] rfl
  intro w
  induction w with
  | nil => intro s pre hs; exact ⟨pre, hs⟩
  | cons a w ih =>
    intro s pre hs
    obtain ⟨p, hp⟩ := stepAny_flat mm s a
    simp only [List.foldl_cons]
    apply ih _ (pre ++ p)
    rw [hp, hs, List.foldl_append]

end Store
