import PyecoreModel.Model.Notif
/-! One slot, one mutator: the notifications it emits replay to the new contents (C05). -/
set_option linter.unusedSectionVars false
set_option linter.unusedSimpArgs false
set_option linter.unusedVariables false
namespace Py
variable {α : Type} [DecidableEq α]

/-- contents vs observer's mirror: equal (single-valued), same multiset (list-like), same set (set-like) -/
def Same (k : SlotKind) (c m : List α) : Prop :=
  match k with
  | .single => c = m
  | .list => c.Perm m
  | .set => c.Nodup ∧ m.Nodup ∧ ∀ x, x ∈ c ↔ x ∈ m

theorem eraseIdx_perm {l : List α} {k : Nat} {y : α} (h : l[k]? = some y) : (y :: l.eraseIdx k).Perm l := by
  induction l generalizing k with
  | nil => simp at h
  | cons a t ih =>
    cases k with
    | zero => simp at h; subst h; simp
    | succ j =>
      simp only [List.getElem?_cons_succ] at h
      simp only [List.eraseIdx_cons_succ]
      exact (List.Perm.swap a y _).trans ((ih h).cons a)

theorem insertAt_perm (l : List α) (k : Nat) (x : α) : (insertAt l k x).Perm (x :: l) := by
  unfold insertAt
  have := @List.perm_middle α x (l.take k) (l.drop k)
  rwa [List.take_append_drop] at this

theorem set_perm {l : List α} {k : Nat} {y : α} (x : α) (h : l[k]? = some y) :
    (l.set k x).Perm (x :: l.eraseIdx k) := by
  induction l generalizing k with
  | nil => simp at h
  | cons a t ih =>
    cases k with
    | zero => simp
    | succ j =>
      simp only [List.getElem?_cons_succ] at h
      simp only [List.set_cons_succ, List.eraseIdx_cons_succ]
      exact ((ih h).cons a).trans (List.Perm.swap x a _)

theorem foldl_erase_perm_nil (l m : List α) (h : m.Perm l) : l.foldl (fun c x => c.erase x) m = [] := by
  induction l generalizing m with
  | nil => simpa using h.eq_nil
  | cons a t ih =>
    simp only [List.foldl_cons]
    apply ih
    have := h.erase a
    simpa using this

theorem foldl_obsAdd_list (m xs : List α) : xs.foldl (obsAdd false) m = m ++ xs := by
  induction xs generalizing m with
  | nil => simp
  | cons a t ih => simp [List.foldl_cons, obsAdd, ih]

theorem pyPop_spec {l l' : List α} {i : Int} {y : α} (h : pyPop l i = some (l', y)) :
    ∃ k, normIdx l.length i = some k ∧ l[k]? = some y ∧ l' = l.eraseIdx k := by
  unfold pyPop at h
  cases hn : normIdx l.length i with
  | none => simp [hn] at h
  | some k =>
    simp only [hn] at h
    cases hg : l[k]? with
    | none => simp [hg] at h
    | some x => simp only [hg, Option.some.injEq, Prod.mk.injEq] at h; exact ⟨k, rfl, by rw [← h.2]; exact hg, h.1.symm⟩

/-! ### set-like helpers -/

theorem nodup_insertAt' {l : List α} {x : α} (hnd : l.Nodup) (hx : x ∉ l) (i : Nat) : (insertAt l i x).Nodup :=
  ((insertAt_perm l i x).nodup_iff).2 (List.nodup_cons.2 ⟨hx, hnd⟩)

theorem mem_insertAt (l : List α) (i : Nat) (x b : α) : b ∈ insertAt l i x ↔ b = x ∨ b ∈ l := by
  rw [(insertAt_perm l i x).mem_iff]; simp

/-- adding to the mirror of a set what the set already holds, or not, keeps them the same set -/
theorem same_set_add {c m : List α} (h : Same .set c m) (x : α) (c' : List α)
    (hc' : c'.Nodup) (hmem : ∀ b, b ∈ c' ↔ b ∈ c ∨ b = x) :
    Same .set c' (obsAdd true m x) := by
  obtain ⟨hc, hm, hiff⟩ := h
  unfold obsAdd
  simp only [Bool.true_and]
  split
  · rename_i hx
    have hx : x ∈ m := by simpa using hx
    refine ⟨hc', hm, fun b => ?_⟩
    rw [hmem, hiff]
    constructor
    · rintro (h | rfl) <;> assumption
    · exact Or.inl
  · rename_i hx
    have hx : x ∉ m := by simpa using hx
    refine ⟨hc', ?_, fun b => ?_⟩
    · rw [List.nodup_append]; refine ⟨hm, by simp, ?_⟩
      intro a ha b hb; simp at hb; subst hb; intro e; subst e; exact hx ha
    · rw [hmem, hiff]; simp

theorem same_set_erase {c m : List α} (h : Same .set c m) (y : α) (c' : List α)
    (hc' : c'.Nodup) (hmem : ∀ b, b ∈ c' ↔ b ∈ c ∧ b ≠ y) :
    Same .set c' (m.erase y) := by
  obtain ⟨hc, hm, hiff⟩ := h
  refine ⟨hc', hm.erase y, fun b => ?_⟩
  rw [hmem, hm.mem_erase_iff, hiff]
  constructor <;> (intro ⟨a, b⟩; exact ⟨b, a⟩)

theorem replay_append (u : Bool) (m : List α) (xs ys : List (Notif α)) : replay u m (xs ++ ys) = replay u (replay u m xs) ys := by
  simp [replay, List.foldl_append]

theorem replay_removed (u : Bool) (m xs : List α) : replay u m (removedNotifs xs) = xs.foldl (fun c x => c.erase x) m := by
  unfold removedNotifs
  split <;> simp [replay, applyNotif]

theorem replay_added (m xs : List α) : replay false m (addedNotifs xs) = m ++ xs := by
  unfold addedNotifs
  split
  · simp [replay]
  · simp [replay, applyNotif, obsAdd]
  · simp only [replay, List.foldl_cons, List.foldl_nil, applyNotif]; exact foldl_obsAdd_list m xs

theorem perm_foldl_erase : ∀ (R A m : List α), (R ++ A).Perm m → (R.foldl (fun c x => c.erase x) m).Perm A
  | [], A, m, h => by simpa using h.symm
  | r :: R, A, m, h => by
    simp only [List.foldl_cons]
    apply perm_foldl_erase R A (m.erase r)
    have := h.erase r
    simpa using this

/-- **Slice assignment and slice deletion**: the notifications of the call replay to the slot's new contents (same
    multiset), whatever the bounds and whatever comes in. -/
theorem slice_mirror (l m : List α) (a b : Nat) (ys : List α) (h : Same .list l m) :
    Same .list (sliceStep l a b ys).items (replay false m (sliceStep l a b ys).notifs) := by
  have hp : l.Perm m := h
  simp only [sliceStep]
  rw [replay_append, replay_removed, replay_added]
  generalize ha : min a l.length = a'
  generalize hb : max a' (min b l.length) = b'
  have hab : a' ≤ b' := by rw [← hb]; exact Nat.le_max_left _ _
  -- l = take a' ++ removed ++ drop b'
  have hsplit : l = l.take a' ++ ((l.drop a').take (b' - a') ++ l.drop b') := by
    have h1 : (l.drop a').drop (b' - a') = l.drop b' := by
      rw [List.drop_drop]; congr 1; omega
    rw [← h1, List.take_append_drop, List.take_append_drop]
  have hperm : (((l.drop a').take (b' - a')) ++ (l.take a' ++ l.drop b')).Perm m := by
    refine List.Perm.trans ?_ hp
    rw [← List.append_assoc]
    conv => rhs; rw [hsplit]
    rw [← List.append_assoc]
    exact List.perm_append_comm.append_right _
  have hrem := perm_foldl_erase _ _ m hperm
  show (l.take a' ++ ys ++ l.drop b').Perm _
  refine List.Perm.trans ?_ (hrem.symm.append_right ys)
  rw [List.append_assoc, List.append_assoc]
  exact (List.perm_append_comm (l₁ := ys) (l₂ := l.drop b')).append_left _

end Py
