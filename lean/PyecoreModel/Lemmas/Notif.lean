import PyecoreModel.Model.Notif
/-! One slot, one mutator: the notifications it emits replay to the new contents (C05). -/
set_option linter.unusedSectionVars false
set_option linter.unusedSimpArgs false
set_option linter.unusedVariables false
namespace Py
variable {α : Type} [DecidableEq α]

/-- contents vs observer's mirror: equal (single-valued), same multiset (list-like), same set (set-like) -/
def Same (k : SlotKind) (c m : List α) : Prop :=
  match k with
  | .single => c = m
  | .list => c.Perm m
  | .set => c.Nodup ∧ m.Nodup ∧ ∀ x, x ∈ c ↔ x ∈ m

theorem eraseIdx_perm {l : List α} {k : Nat} {y : α} (h : l[k]? = some y) : (y :: l.eraseIdx k).Perm l := by
  induction l generalizing k with
  | nil => simp at h
  | cons a t ih =>
    cases k with
    | zero => simp at h; subst h; simp
    | succ j =>
      simp only [List.getElem?_cons_succ] at h
      simp only [List.eraseIdx_cons_succ]
      exact (List.Perm.swap a y _).trans ((ih h).cons a)

theorem insertAt_perm (l : List α) (k : Nat) (x : α) : (insertAt l k x).Perm (x :: l) := by
  unfold insertAt
  have := @List.perm_middle α x (l.take k) (l.drop k)
  rwa [List.take_append_drop] at this

theorem set_perm {l : List α} {k : Nat} {y : α} (x : α) (h : l[k]? = some y) :
    (l.set k x).Perm (x :: l.eraseIdx k) := by
  induction l generalizing k with
  | nil => simp at h
  | cons a t ih =>
    cases k with
    | zero => simp
    | succ j =>
      simp only [List.getElem?_cons_succ] at h
      simp only [List.set_cons_succ, List.eraseIdx_cons_succ]
      exact ((ih h).cons a).trans (List.Perm.swap x a _)

theorem foldl_erase_perm_nil (l m : List α) (h : m.Perm l) : l.foldl (fun c x => c.erase x) m = [] := by
  induction l generalizing m with
  | nil => simpa using h.eq_nil
  | cons a t ih =>
    simp only [List.foldl_cons]
    apply ih
    have := h.erase a
    simpa using this

theorem foldl_obsAdd_list (m xs : List α) : xs.foldl (obsAdd false) m = m ++ xs := by
  induction xs generalizing m with
  | nil => simp
  | cons a t ih => simp [List.foldl_cons, obsAdd, ih]

theorem pyPop_spec {l l' : List α} {i : Int} {y : α} (h : pyPop l i = some (l', y)) :
    ∃ k, normIdx l.length i = some k ∧ l[k]? = some y ∧ l' = l.eraseIdx k := by
  unfold pyPop at h
  cases hn : normIdx l.length i with
  | none => simp [hn] at h
  | some k =>
    simp only [hn] at h
    cases hg : l[k]? with
    | none => simp [hg] at h
    | some x => simp only [hg, Option.some.injEq, Prod.mk.injEq] at h; exact ⟨k, rfl, by rw [← h.2]; exact hg, h.1.symm⟩

/-! ### set-like helpers -/

theorem nodup_insertAt' {l : List α} {x : α} (hnd : l.Nodup) (hx : x ∉ l) (i : Nat) : (insertAt l i x).Nodup :=
  ((insertAt_perm l i x).nodup_iff).2 (List.nodup_cons.2 ⟨hx, hnd⟩)

theorem mem_insertAt (l : List α) (i : Nat) (x b : α) : b ∈ insertAt l i x ↔ b = x ∨ b ∈ l := by
  rw [(insertAt_perm l i x).mem_iff]; simp

/-- adding to the mirror of a set what the set already holds, or not, keeps them the same set -/
theorem same_set_add {c m : List α} (h : Same .set c m) (x : α) (c' : List α)
    (hc' : c'.Nodup) (hmem : ∀ b, b ∈ c' ↔ b ∈ c ∨ b = x) :
    Same .set c' (obsAdd true m x) := by
  obtain ⟨hc, hm, hiff⟩ := h
  unfold obsAdd
  simp only [Bool.true_and]
  split
  · rename_i hx
    have hx : x ∈ m := by simpa using hx
    refine ⟨hc', hm, fun b => ?_⟩
    rw [hmem, hiff]
    constructor
    · rintro (h | rfl) <;> assumption
    · exact Or.inl
  · rename_i hx
    have hx : x ∉ m := by simpa using hx
    refine ⟨hc', ?_, fun b => ?_⟩
    · rw [List.nodup_append]; refine ⟨hm, by simp, ?_⟩
      intro a ha b hb; simp at hb; subst hb; intro e; subst e; exact hx ha
    · rw [hmem, hiff]; simp

theorem same_set_erase {c m : List α} (h : Same .set c m) (y : α) (c' : List α)
    (hc' : c'.Nodup) (hmem : ∀ b, b ∈ c' ↔ b ∈ c ∧ b ≠ y) :
    Same .set c' (m.erase y) := by
  obtain ⟨hc, hm, hiff⟩ := h
  refine ⟨hc', hm.erase y, fun b => ?_⟩
  rw [hmem, hm.mem_erase_iff, hiff]
  constructor <;> (intro ⟨a, b⟩; exact ⟨b, a⟩)

theorem replay_append (u : Bool) (m : List α) (xs ys : List (Notif α)) : replay u m (xs ++ ys) = replay u (replay u m xs) ys := by
  simp [replay, List.foldl_append]

theorem replay_removed (u : Bool) (m xs : List α) : replay u m (removedNotifs xs) = xs.foldl (fun c x => c.erase x) m := by
  unfold removedNotifs
  split <;> simp [replay, applyNotif]

theorem replay_added (m xs : List α) : replay false m (addedNotifs xs) = m ++ xs := by
  unfold addedNotifs
  split
  · simp [replay]
  · simp [replay, applyNotif, obsAdd]
  · simp only [replay, List.foldl_cons, List.foldl_nil, applyNotif]; exact foldl_obsAdd_list m xs

theorem perm_foldl_erase : ∀ (R A m : List α), (R ++ A).Perm m → (R.foldl (fun c x => c.erase x) m).Perm A
  | [], A, m, h => by simpa using h.symm
  | r :: R, A, m, h => by
    simp only [List.foldl_cons]
    apply perm_foldl_erase R A (m.erase r)
    have := h.erase r
    simpa using this

/-- **Slice assignment and slice deletion**: the notifications of the call replay to the slot's new contents (same
    multiset), whatever the bounds and whatever comes in. -/
theorem slice_mirror (l m : List α) (a b : Nat) (ys : List α) (h : Same .list l m) :
    Same .list (sliceStep l a b ys).items (replay false m (sliceStep l a b ys).notifs) := by
  have hp : l.Perm m := h
  simp only [sliceStep]
  rw [replay_append, replay_removed, replay_added]
  generalize ha : min a l.length = a'
  generalize hb : max a' (min b l.length) = b'
  have hab : a' ≤ b' := by rw [← hb]; exact Nat.le_max_left _ _
  -- l = take a' ++ removed ++ drop b'
  have hsplit : l = l.take a' ++ ((l.drop a').take (b' - a') ++ l.drop b') := by
    have h1 : (l.drop a').drop (b' - a') = l.drop b' := by
      rw [List.drop_drop]; congr 1; omega
    rw [← h1, List.take_append_drop, List.take_append_drop]
  have hperm : (((l.drop a').take (b' - a')) ++ (l.take a' ++ l.drop b')).Perm m := by
    refine List.Perm.trans ?_ hp
    rw [← List.append_assoc]
    conv => rhs; rw [hsplit]
    rw [← List.append_assoc]
    exact List.perm_append_comm.append_right _
  have hrem := perm_foldl_erase _ _ m hperm
  show (l.take a' ++ ys ++ l.drop b').Perm _
  refine List.Perm.trans ?_ (hrem.symm.append_right ys)
  rw [List.append_assoc, List.append_assoc]
  exact (List.perm_append_comm (l₁ := ys) (l₂ := l.drop b')).append_left _

/-! ### extended slices -/

theorem pickAt_perm (p : Nat → Bool) : ∀ (i : Nat) (l : List α), ((pickAt p i l).1 ++ (pickAt p i l).2).Perm l
  | _, [] => by simp [pickAt]
  | i, x :: xs => by
    unfold pickAt
    split
    · simpa using pickAt_perm p (i + 1) xs
    · simp only
      exact (List.perm_middle).trans (List.Perm.cons x (pickAt_perm p (i + 1) xs))

theorem replaceAt_perm (p : Nat → Bool) : ∀ (i : Nat) (l ys : List α), ys.length = (pickAt p i l).1.length →
    (replaceAt p i l ys).Perm ((pickAt p i l).2 ++ ys)
  | _, [], ys, h => by
    simp [pickAt] at h
    simp [replaceAt, pickAt, h]
  | i, x :: xs, ys, h => by
    unfold replaceAt
    unfold pickAt at h ⊢
    by_cases hp : p i = true
    · simp only [hp, if_true] at h ⊢
      cases ys with
      | nil => simp at h
      | cons y ys' =>
        simp only [List.length_cons, Nat.add_right_cancel_iff] at h
        have ih := replaceAt_perm p (i + 1) xs ys' h
        exact (List.Perm.cons y ih).trans (List.perm_middle).symm
    · simp only [hp] at h ⊢
      have ih := replaceAt_perm p (i + 1) xs ys h
      simpa using List.Perm.cons x ih

theorem replay_removes (u : Bool) (m xs : List α) :
    replay u m (xs.map (fun x => (⟨.remove, [x], []⟩ : Notif α))) = xs.foldl (fun c x => c.erase x) m := by
  induction xs generalizing m with
  | nil => rfl
  | cons x xs ih => simp only [List.map_cons, replay, List.foldl_cons] at ih ⊢; simpa [applyNotif] using ih (m.erase x)

theorem delExt_mirror (l m : List α) (a b k : Nat) (h : Same .list l m) :
    Same .list (delExtStep l a b k).items (replay false m (delExtStep l a b k).notifs) := by
  have hp : l.Perm m := h
  simp only [delExtStep]
  rw [replay_removes]
  have h1 : ((pickAt (inExt a b k) 0 l).1.reverse ++ (pickAt (inExt a b k) 0 l).2).Perm m :=
    ((List.reverse_perm _).append_right _).trans ((pickAt_perm _ 0 l).trans hp)
  exact (perm_foldl_erase _ _ m h1).symm

theorem setExt_mirror (l m : List α) (a b k : Nat) (ys : List α) (h : Same .list l m) :
    Same .list (setExtStep l a b k ys).items (replay false m (setExtStep l a b k ys).notifs) := by
  have hp : l.Perm m := h
  unfold setExtStep
  split
  · simp only [SOut.err, replay, List.foldl_nil]; exact h
  · rename_i hlen
    have hlen' : ys.length = (pickAt (inExt a b k) 0 l).1.length := by
      by_cases hq : ys.length = (pickAt (inExt a b k) 0 l).1.length
      · exact hq
      · exact absurd hq hlen
    simp only
    rw [replay_append, replay_removed, replay_added]
    have h1 := perm_foldl_erase _ _ m ((pickAt_perm (inExt a b k) 0 l).trans hp)
    exact (replaceAt_perm _ 0 l ys hlen').trans (h1.symm.append_right ys)

end Py
