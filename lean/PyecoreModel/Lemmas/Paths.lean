import PyecoreModel.Model.Paths
/-! relpath followed by join and normalisation gives the target back. -/
set_option linter.unusedVariables false
namespace Paths

theorem foldl_clean (st : List String) (p : Path) (h : Clean p) : p.foldl normStep st = p.reverse ++ st := by
  induction p generalizing st with
  | nil => rfl
  | cons s t ih =>
    have hs := h s (by simp)
    have ht : Clean t := fun x hx => h x (by simp [hx])
    simp only [List.foldl_cons]
    have : normStep st s = s :: st := by
      unfold normStep
      simp [hs.1, hs.2.1, hs.2.2]
    rw [this, ih _ ht]; simp

theorem foldl_dotdot (xs st : List String) :
    (List.replicate xs.length "..").foldl normStep (xs ++ st) = st := by
  induction xs with
  | nil => simp
  | cons x t ih =>
    simp only [List.length_cons, List.replicate_succ, List.foldl_cons, List.cons_append]
    have : normStep (x :: (t ++ st)) ".." = t ++ st := by simp [normStep]
    rw [this]; exact ih

theorem commonLen_le (a b : Path) : commonLen a b ≤ a.length ∧ commonLen a b ≤ b.length := by
  induction a generalizing b with
  | nil => simp [commonLen]
  | cons x xs ih =>
    cases b with
    | nil => simp [commonLen]
    | cons y ys =>
      simp only [commonLen]
      split
      · have := ih ys; simp only [List.length_cons]; omega
      · simp

theorem take_commonLen (a b : Path) : a.take (commonLen a b) = b.take (commonLen a b) := by
  induction a generalizing b with
  | nil => simp [commonLen]
  | cons x xs ih =>
    cases b with
    | nil => simp [commonLen]
    | cons y ys =>
      simp only [commonLen]
      split
      · rename_i h; subst h; simp [ih ys]
      · simp

theorem clean_of_sublist {p q : Path} (h : Clean p) (hs : ∀ s ∈ q, s ∈ p) : Clean q := fun s hs' => h s (hs s hs')

/-- **the href written from `me` to `other` resolves, from `me`, to `other`** — any directory depths, any common
prefix, the same file name in different directories, the same directory. -/
theorem href_roundtrip (me other : Path) (hme : Clean me) (ho : Clean other) (hne : other ≠ []) :
    hrefRoundTrip me other = other := by
  unfold hrefRoundTrip normalize join relpath
  generalize hd : dirname me = d
  have hdc : Clean d := by
    subst hd; exact clean_of_sublist hme (fun s hs => (List.dropLast_sublist me).subset hs)
  have hle := commonLen_le d other
  have htk := take_commonLen d other
  generalize hc : commonLen d other = c at hle htk
  -- d = d.take c ++ d.drop c ; other = d.take c ++ other.drop c
  have hsplit_d : d = d.take c ++ d.drop c := (List.take_append_drop c d).symm
  have hsplit_o : other = d.take c ++ other.drop c := by rw [htk]; exact (List.take_append_drop c other).symm
  have hlen : d.length - c = (d.drop c).length := by simp
  have hclean_pre : Clean (d.take c) := clean_of_sublist hdc (fun s hs => List.mem_of_mem_take hs)
  have hclean_dd : Clean (d.drop c) := clean_of_sublist hdc (fun s hs => List.mem_of_mem_drop hs)
  have hclean_od : Clean (other.drop c) := clean_of_sublist ho (fun s hs => List.mem_of_mem_drop hs)
  by_cases hemp : (List.replicate (d.length - c) ".." ++ other.drop c).isEmpty = true
  · -- relpath is "." : d = other as directories
    have hr : (if (List.replicate (d.length - c) ".." ++ other.drop c).isEmpty = true then ["."]
        else List.replicate (d.length - c) ".." ++ other.drop c) = ["."] := by simp only [hemp, if_true]
    simp only [hr]
    have h1 : d.length - c = 0 := by
      have := List.isEmpty_iff.1 hemp
      have hh := congrArg List.length this
      simp only [List.length_append, List.length_replicate, List.length_nil] at hh
      omega
    have h2 : other.drop c = [] := by
      have := List.isEmpty_iff.1 hemp
      rw [h1] at this; simpa using this
    rw [List.foldl_append, foldl_clean [] d hdc]
    simp only [List.foldl_cons, List.foldl_nil, normStep, true_or, if_true, List.append_nil, List.reverse_reverse]
    -- d.drop c = [] and other.drop c = [] so d = take = other
    have hd0 : d.drop c = [] := by
      apply List.eq_nil_of_length_eq_zero; rw [← hlen]; exact h1
    rw [hsplit_o, h2, List.append_nil]
    conv => lhs; rw [hsplit_d, hd0, List.append_nil]
  · have hr : (if (List.replicate (d.length - c) ".." ++ other.drop c).isEmpty = true then ["."]
        else List.replicate (d.length - c) ".." ++ other.drop c) = List.replicate (d.length - c) ".." ++ other.drop c := by
      simp only [hemp, if_false]; rfl
    simp only [hr]
    rw [List.foldl_append, foldl_clean [] d hdc, List.foldl_append, List.append_nil]
    -- stack is d.reverse = (d.drop c).reverse ++ (d.take c).reverse
    have hrev : d.reverse = (d.drop c).reverse ++ (d.take c).reverse := by
      conv => lhs; rw [hsplit_d]
      rw [List.reverse_append]
    rw [hrev, hlen]
    have := foldl_dotdot (d.drop c).reverse (d.take c).reverse
    simp only [List.length_reverse] at this
    rw [this, foldl_clean _ _ hclean_od]
    simp only [List.reverse_append, List.reverse_reverse]
    exact hsplit_o.symm

end Paths
