import PyecoreModel.Lemmas.StoreTyped
/-! `delete()`: list-level characterisation of `unlinkRaw`, of folds of it, of `deleteOne` and `delete` (C07). -/
set_option linter.unusedSectionVars false
set_option linter.unusedSimpArgs false
set_option linter.unusedVariables false
namespace Store
variable (mm : MM)

/-- no reference slot holds an element twice (list-like references included: the admissible histories never offer
a list-like reference a value it already holds) -/
def Nd (s : St) : Prop := ∀ o f, (s.rs o f).Nodup

theorem rmVal_eq_filter {α : Type} [DecidableEq α] (isList : Bool) (l : List α) (y : α) (hn : l.Nodup) :
    rmVal isList l y = l.filter (fun b => decide (b ≠ y)) := by
  unfold rmVal; split
  · rw [hn.erase_eq_filter]; apply List.filter_congr; intro b _; by_cases h : b = y <;> simp [h, bne]
  · rfl

theorem unlinkRaw_nd (s : St) (hn : Nd s) (x f y) : Nd (unlinkRaw mm s x f y) := by
  intro a f'
  rw [unlinkRaw_rs]
  split
  · cases (mm.feat f).opp with
    | none =>
      simp only []; split
      · exact rmVal_nodup _ _ _ (hn x f)
      · exact hn a f'
    | some g =>
      simp only []; split
      · split
        · exact rmVal_nodup _ _ _ (rmVal_nodup _ _ _ (hn x f))
        · exact rmVal_nodup _ _ _ (hn y g)
      · split
        · exact rmVal_nodup _ _ _ (hn x f)
        · exact hn a f'
  · exact hn a f'

/-- the triple `(a, f', b)` is the link `x -f-> y` or its mirror -/
def gone (x : Oid) (f : Fid) (y : Oid) (a : Oid) (f' : Fid) (b : Oid) : Bool :=
  decide (a = x ∧ f' = f ∧ b = y) || decide ((mm.feat f).opp = some f' ∧ a = y ∧ b = x)

/-- **list level**: `unlinkRaw` filters the link and its mirror out of every slot, keeping order. -/
theorem unlinkRaw_rs_filter (hwf : mm.WF) (s : St) (hs : Sym mm s) (hn : Nd s) (x f y a f') :
    (unlinkRaw mm s x f y).rs a f' = (s.rs a f').filter (fun b => !gone mm x f y a f' b) := by
  rw [unlinkRaw_rs]
  by_cases hxy : y ∈ s.rs x f
  · simp only [hxy, if_true]
    cases hopp : (mm.feat f).opp with
    | none =>
      simp only []
      split
      · rename_i hc; obtain ⟨rfl, rfl⟩ := hc
        rw [rmVal_eq_filter _ _ _ (hn a f')]
        apply List.filter_congr; intro b _; simp [gone, hopp]
      · rename_i hc
        symm; rw [List.filter_eq_self]; intro b _; simp [gone, hopp]; grind
    | some g =>
      have hne : f ≠ g := (hwf.opp_mutual f g hopp).2
      simp only []
      split
      · rename_i hc; obtain ⟨rfl, rfl⟩ := hc
        have : ¬ (a = x ∧ f' = f) := fun h => hne h.2.symm
        simp only [this, if_false]
        rw [rmVal_eq_filter _ _ _ (hn a f')]
        apply List.filter_congr; intro b _; simp [gone, hopp]; grind
      · rename_i hc1
        split
        · rename_i hc; obtain ⟨rfl, rfl⟩ := hc
          rw [rmVal_eq_filter _ _ _ (hn a f')]
          apply List.filter_congr; intro b _; simp [gone, hopp]; grind
        · rename_i hc2
          symm; rw [List.filter_eq_self]; intro b _; simp [gone, hopp]; grind
  · simp only [hxy, if_false]
    symm; rw [List.filter_eq_self]; intro b hb
    simp only [gone, Bool.not_or, Bool.and_eq_true, Bool.not_eq_true', decide_eq_false_iff_not]
    refine ⟨?_, ?_⟩
    · rintro ⟨rfl, rfl, rfl⟩; exact hxy hb
    · rintro ⟨hopp, rfl, rfl⟩
      exact hxy ((hs f f' hopp b a).2 hb)

abbrev Link := Oid × Fid × Oid

def unlinkAll (s : St) (L : List Link) : St :=
  L.foldl (fun s (l : Link) => unlinkRaw mm s l.1 l.2.1 l.2.2) s

theorem unlinkAll_inv (hwf : mm.WF) (s : St) (h : Inv mm s) (L) : Inv mm (unlinkAll mm s L) :=
  foldl_inv mm _ (fun s l hs => unlinkRaw_inv mm hwf s hs _ _ _) _ s h

theorem unlinkAll_nd (s : St) (h : Nd s) (L) : Nd (unlinkAll mm s L) := by
  unfold unlinkAll
  induction L generalizing s with
  | nil => exact h
  | cons l t ih => exact ih _ (unlinkRaw_nd mm s h _ _ _)

/-- a fold of `unlinkRaw` filters out every listed link and its mirror -/
theorem unlinkAll_rs (hwf : mm.WF) (s : St) (h : Inv mm s) (hn : Nd s) (L : List Link) (a f') :
    (unlinkAll mm s L).rs a f' =
      (s.rs a f').filter (fun b => !L.any (fun l => gone mm l.1 l.2.1 l.2.2 a f' b)) := by
  unfold unlinkAll
  induction L generalizing s with
  | nil => exact (List.filter_eq_self.2 (fun _ _ => rfl)).symm
  | cons l t ih =>
    simp only [List.foldl_cons]
    rw [ih _ (unlinkRaw_inv mm hwf s h _ _ _) (unlinkRaw_nd mm s hn _ _ _),
        unlinkRaw_rs_filter mm hwf s h.1 hn, List.filter_filter]
    apply List.filter_congr; intro b _
    simp only [List.any_cons, Bool.not_or, Bool.and_comm]

theorem deleteOne_eq (s : St) (x) : deleteOne mm s x = unlinkAll mm s (linksOf mm s x) := rfl

/-- in a typed state, the links listed for `x` are exactly the links one end of which is `x` -/
theorem any_linksOf (hwf : mm.WF) (hwft : mm.WFT) (s : St) (hs : Sym mm s) (ht : Typed mm s) (x a f' b)
    (hb : b ∈ s.rs a f') :
    (linksOf mm s x).any (fun l => gone mm l.1 l.2.1 l.2.2 a f' b) = (decide (a = x) || decide (b = x)) := by
  have hr := ht.1 a f' b hb
  rw [Bool.eq_iff_iff]
  simp only [List.any_eq_true, Bool.or_eq_true, decide_eq_true_eq]
  constructor
  · rintro ⟨l, hl, hg⟩
    obtain ⟨lx, lf, ly⟩ := l
    simp only [linksOf, List.mem_append, List.mem_flatMap, List.mem_range, List.mem_map] at hl
    simp only [gone, Bool.or_eq_true, decide_eq_true_eq] at hg
    rcases hl with ⟨f, _, y, hy, he⟩ | ⟨o, _, f, _, hm⟩
    · cases he
      rcases hg with ⟨rfl, rfl, rfl⟩ | ⟨_, rfl, rfl⟩
      · exact Or.inl rfl
      · exact Or.inr rfl
    · split at hm
      · simp only [List.mem_singleton] at hm; cases hm
        rcases hg with ⟨rfl, rfl, rfl⟩ | ⟨_, rfl, rfl⟩
        · exact Or.inr rfl
        · exact Or.inl rfl
      · cases hm
  · rintro (rfl | rfl)
    · refine ⟨(a, f', b), ?_, by simp [gone]⟩
      simp only [linksOf, List.mem_append, List.mem_flatMap, List.mem_range, List.mem_map]
      exact Or.inl ⟨f', hr.1.2, b, hb, rfl⟩
    · refine ⟨(a, f', b), ?_, by simp [gone]⟩
      simp only [linksOf, List.mem_append, List.mem_flatMap, List.mem_range, List.mem_map]
      exact Or.inr ⟨a, hr.1.1, f', hr.1.2, by simp [hb]⟩

/-- **`deleteOne`**: every slot loses `x`, `x`'s own slots lose everything, order is kept, nothing else changes -/
theorem deleteOne_rs (hwf : mm.WF) (hwft : mm.WFT) (s : St) (h : Inv mm s) (ht : Typed mm s) (hn : Nd s) (x a f') :
    (deleteOne mm s x).rs a f' = (s.rs a f').filter (fun b => !(decide (a = x) || decide (b = x))) := by
  rw [deleteOne_eq, unlinkAll_rs mm hwf s h hn]
  apply List.filter_congr; intro b hb
  rw [any_linksOf mm hwf hwft s h.1 ht x a f' b hb]

end Store

namespace Store
variable (mm : MM)

theorem Typed.of_shrinks {s s' : St} (ht : Typed mm s) (hs : Shrinks s s') (hf : Frame s s') : Typed mm s' := by
  refine ⟨?_, ?_⟩
  · intro a f b hb; rw [hf.1, hf.2.1]; exact ht.1 a f b (hs.1 a f b hb)
  · intro a f v hv; rw [hf.2.2.1] at hv; exact ht.2 a f v hv

def deleteAll (s : St) (D : List Oid) : St := D.foldl (deleteOne mm) s

theorem delete_eq (s : St) (x r) :
    delete mm s x r = deleteAll mm s ((if r then descendants mm s s.nObj x else []) ++ [x]) := by
  unfold delete deleteAll; rw [List.foldl_append]; rfl

theorem deleteAll_rs (hwf : mm.WF) (hwft : mm.WFT) (s : St) (h : Inv mm s) (ht : Typed mm s) (hn : Nd s)
    (D : List Oid) (a f') :
    (deleteAll mm s D).rs a f' = (s.rs a f').filter (fun b => !(decide (a ∈ D) || decide (b ∈ D))) := by
  unfold deleteAll
  induction D generalizing s with
  | nil => exact (List.filter_eq_self.2 (fun _ _ => by simp)).symm
  | cons d t ih =>
    simp only [List.foldl_cons]
    rw [ih _ (deleteOne_inv mm hwf s h d) (ht.of_shrinks mm (deleteOne_shrinks mm s d) (deleteOne_frame mm s d))
          (by rw [deleteOne_eq]; exact unlinkAll_nd mm s hn _),
        deleteOne_rs mm hwf hwft s h ht hn, List.filter_filter]
    apply List.filter_congr; intro b _
    simp only [List.mem_cons]
    by_cases h1 : a = d <;> by_cases h2 : b = d <;> by_cases h3 : a ∈ t <;> by_cases h4 : b ∈ t <;> simp [h1, h2, h3, h4]

theorem deleteAll_inv (hwf : mm.WF) (s : St) (h : Inv mm s) (D) : Inv mm (deleteAll mm s D) :=
  foldl_inv mm _ (fun s d hs => deleteOne_inv mm hwf s hs d) _ s h

theorem deleteAll_frame (s : St) (D) : Frame s (deleteAll mm s D) :=
  foldl_frame _ (fun s d => deleteOne_frame mm s d) _ s

theorem deleteAll_shrinks (s : St) (D) : Shrinks s (deleteAll mm s D) :=
  foldl_shrinks _ (fun s d => deleteOne_shrinks mm s d) _ s

theorem unlinkRaw_res (s : St) (x f y) :
    (unlinkRaw mm s x f y).eres = s.eres ∧ (unlinkRaw mm s x f y).rcont = s.rcont := ⟨by simp, by simp⟩

theorem deleteAll_res (s : St) (D) : (deleteAll mm s D).eres = s.eres ∧ (deleteAll mm s D).rcont = s.rcont := by
  unfold deleteAll
  induction D generalizing s with
  | nil => exact ⟨rfl, rfl⟩
  | cons d t ih =>
    simp only [List.foldl_cons]
    have h1 : (deleteOne mm s d).eres = s.eres ∧ (deleteOne mm s d).rcont = s.rcont := by
      rw [deleteOne_eq]; unfold unlinkAll
      generalize linksOf mm s d = L
      induction L generalizing s with
      | nil => exact ⟨rfl, rfl⟩
      | cons l t2 ih2 =>
        simp only [List.foldl_cons]
        have := ih2 (unlinkRaw mm s l.1 l.2.1 l.2.2)
        rw [this.1, this.2]; exact unlinkRaw_res mm s _ _ _
    have := ih (deleteOne mm s d)
    rw [this.1, this.2]; exact h1

/-- the back-pointers after deleting the objects of `D` -/
theorem deleteAll_cont (hwf : mm.WF) (hwft : mm.WFT) (s : St) (h : Inv mm s) (ht : Typed mm s) (hn : Nd s)
    (D : List Oid) (o p f) :
    (deleteAll mm s D).cont o = some (p, f) ↔ s.cont o = some (p, f) ∧ p ∉ D ∧ o ∉ D := by
  have hi := deleteAll_inv mm hwf s h D
  rw [hi.2.2.1 o p f, deleteAll_rs mm hwf hwft s h ht hn, h.2.2.1 o p f, List.mem_filter]
  simp only [Bool.not_or, Bool.and_eq_true, Bool.not_eq_true', decide_eq_false_iff_not]
  constructor
  · rintro ⟨a, b, c, d⟩; exact ⟨⟨a, b⟩, c, d⟩
  · rintro ⟨⟨a, b⟩, c, d⟩; exact ⟨a, b, c, d⟩

end Store
