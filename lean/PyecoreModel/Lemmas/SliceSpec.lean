import PyecoreModel.Model.PyList
import PyecoreModel.Model.Notif
/-!
# The position predicate of extended slices against CPython's slice specification

`Model/PyList.lean` states `slice(a, b, k).indices(n)` as CPython does (`sliceBounds`, `slicePositions`, `pyDelSlice`; tied
to the implementation by the `delslice` correspondence of C04); `Model/Notif.lean` describes what `EList.__delitem__` /
`__setitem__` do on an extended slice through the predicate `inExt` (tied by the `delslice3` / `setslice3`
correspondence of C05).  Here the two descriptions are shown to be the same positions, for every length, start, stop
and positive step: the theorems about notifications speak of the slice Python means.
-/
namespace Py

theorem mod_step (kk i0 j : Nat) (hk : 0 < kk) :
    (i0 ≤ j ∧ (j - i0) % kk = 0) ↔ (j = i0 ∨ (i0 + kk ≤ j ∧ (j - (i0 + kk)) % kk = 0)) := by
  constructor
  · rintro ⟨h1, h2⟩
    by_cases hj : j = i0
    · exact Or.inl hj
    · right
      have hd : kk ∣ (j - i0) := Nat.dvd_of_mod_eq_zero h2
      obtain ⟨c, hc⟩ := hd
      have hc0 : c ≠ 0 := by
        rintro rfl
        simp at hc; omega
      have hge : kk ≤ j - i0 := by
        rw [hc]; exact Nat.le_mul_of_pos_right kk (Nat.pos_of_ne_zero hc0)
      refine ⟨by omega, ?_⟩
      have : j - i0 = (j - (i0 + kk)) + kk := by omega
      rw [this, Nat.add_mod_right] at h2
      exact h2
  · rintro (rfl | ⟨h1, h2⟩)
    · simp
    · refine ⟨by omega, ?_⟩
      have : j - i0 = (j - (i0 + kk)) + kk := by omega
      rw [this, Nat.add_mod_right]; exact h2

theorem go_pos_mem (kk s : Nat) (hk : 0 < kk) (j : Nat) :
    ∀ (fuel i0 : Nat) (acc : List Nat),
      j ∈ slicePositions.go (kk : Int) (s : Int) fuel (i0 : Int) acc ↔
        (j ∈ acc ∨ (i0 ≤ j ∧ j < s ∧ (j - i0) % kk = 0 ∧ j < i0 + fuel * kk)) := by
  intro fuel
  induction fuel with
  | zero =>
    intro i0 acc
    simp [slicePositions.go]
    omega
  | succ f ih =>
    intro i0 acc
    unfold slicePositions.go
    have hk' : (kk : Int) > 0 := by omega
    by_cases hlt : i0 < s
    · have hc : ((kk : Int) > 0 ∧ (i0 : Int) < (s : Int)) ∨ ((kk : Int) < 0 ∧ (i0 : Int) > (s : Int)) := Or.inl ⟨hk', by omega⟩
      rw [if_pos hc]
      have hcast : (i0 : Int) + (kk : Int) = ((i0 + kk : Nat) : Int) := by simp
      rw [hcast, ih (i0 + kk) ((i0 : Int).toNat :: acc)]
      simp only [Int.toNat_natCast, List.mem_cons]
      have hm := mod_step kk i0 j hk
      have e : i0 + kk + f * kk = i0 + (f + 1) * kk := by rw [Nat.add_mul]; omega
      rw [e]
      constructor
      · rintro ((rfl | h) | ⟨h1, h2, h3, h4⟩)
        · right
          refine ⟨Nat.le_refl _, hlt, by simp, ?_⟩
          have : 0 < (f + 1) * kk := Nat.mul_pos (Nat.succ_pos f) hk
          omega
        · exact Or.inl h
        · right
          have := hm.mpr (Or.inr ⟨h1, h3⟩)
          exact ⟨this.1, h2, this.2, h4⟩
      · rintro (h | ⟨h1, h2, h3, h4⟩)
        · exact Or.inl (Or.inr h)
        · rcases hm.mp ⟨h1, h3⟩ with rfl | ⟨h5, h6⟩
          · exact Or.inl (Or.inl rfl)
          · exact Or.inr ⟨h5, h2, h6, h4⟩
    · have hc : ¬ (((kk : Int) > 0 ∧ (i0 : Int) < (s : Int)) ∨ ((kk : Int) < 0 ∧ (i0 : Int) > (s : Int))) := by omega
      rw [if_neg hc]
      simp only [List.mem_reverse]
      constructor
      · exact Or.inl
      · rintro (h | ⟨h1, h2, _, _⟩)
        · exact h
        · omega

theorem sliceBounds_pos (n a b kk : Nat) (hk : 0 < kk) :
    sliceBounds n (some (a : Int)) (some (b : Int)) (kk : Int) = (((min a n : Nat) : Int), ((min b n : Nat) : Int)) := by
  have hk' : (kk : Int) > 0 := by omega
  simp only [sliceBounds, if_pos hk']
  have h1 : ¬ ((a : Int) < 0) := by omega
  have h2 : ¬ ((b : Int) < 0) := by omega
  simp only [if_neg h1, if_neg h2]
  congr 1 <;> split <;> omega

/-- the positions CPython visits for `l[a:b:k]` (`0 ≤ a`, `0 ≤ b`, `k > 0`) are exactly those the notification model's
    position predicate `inExt` selects -/
theorem mem_slicePositions_pos (n a b kk : Nat) (hk : 0 < kk) (j : Nat) :
    j ∈ slicePositions n (some (a : Int)) (some (b : Int)) (kk : Int) ↔ (j < n ∧ inExt a b kk j = true) := by
  unfold slicePositions
  rw [sliceBounds_pos n a b kk hk]
  simp only
  rw [go_pos_mem kk (min b n) hk j n (min a n) []]
  simp only [List.not_mem_nil, false_or, inExt, Bool.and_eq_true, decide_eq_true_eq, beq_iff_eq]
  have hnk : n ≤ n * kk := Nat.le_mul_of_pos_right n hk
  constructor
  · rintro ⟨h1, h2, h3, h4⟩
    have hjn : j < n := by omega
    have ha : min a n = a := by omega
    rw [ha] at h1 h3
    exact ⟨hjn, ⟨h1, by omega⟩, h3⟩
  · rintro ⟨hjn, ⟨h1, h2⟩, h3⟩
    have ha : min a n = a := by omega
    rw [ha]
    exact ⟨h1, by omega, h3, by omega⟩

end Py
namespace Py
variable {α : Type}
theorem pickAt_rest_filter (p : Nat → Bool) : ∀ (l : List α) (i : Nat),
    (pickAt p i l).2 = ((l.zipIdx i).filter (fun x => !p x.2)).map (·.1) := by
  intro l
  induction l with
  | nil => intro i; simp [pickAt]
  | cons x xs ih =>
    intro i
    simp only [pickAt, List.zipIdx_cons, List.filter_cons]
    by_cases h : p i
    · simp [h, ih (i + 1)]
    · simp [h, ih (i + 1)]

/-- `del l[a:b:k]` as CPython specifies it leaves exactly what the notification model's extended-slice deletion leaves -/
theorem pyDelSlice_eq_pickAt (l : List α) (a b kk : Nat) (hk : 0 < kk) :
    pyDelSlice l (some (a : Int)) (some (b : Int)) (kk : Int) = (pickAt (inExt a b kk) 0 l).2 := by
  rw [pickAt_rest_filter]
  unfold pyDelSlice
  simp only
  congr 1
  apply List.filter_congr
  rintro ⟨x, j⟩ hx
  have hj := (List.mem_zipIdx hx).2.1
  simp only [Nat.zero_add] at hj
  have hm := mem_slicePositions_pos l.length a b kk hk j
  by_cases hin : inExt a b kk j = true
  · have : j ∈ slicePositions l.length (some (a : Int)) (some (b : Int)) (kk : Int) := hm.mpr ⟨hj, hin⟩
    simp [hin, this]
  · have : ¬ j ∈ slicePositions l.length (some (a : Int)) (some (b : Int)) (kk : Int) := fun h => hin (hm.mp h).2
    simp [hin, this]
end Py
