import PyecoreModel.Model.OSet
/-! Helper lemmas for C04: every patched `OrderedSet` operation preserves `MapOK` and acts on
`items` exactly as the Python-list specification. -/
set_option linter.unusedSectionVars false
namespace Py
variable {α : Type} [DecidableEq α]

theorem getElem?_insertAt (l : List α) (idx : Nat) (x : α) (h : idx ≤ l.length) (i : Nat) :
    (insertAt l idx x)[i]? = if i < idx then l[i]? else if i = idx then some x else l[i-1]? := by
  unfold insertAt
  rw [List.getElem?_append]
  simp only [List.length_take, Nat.min_eq_left h]
  split
  · rw [List.getElem?_take]; simp [*]
  · rename_i hlt
    split
    · rename_i heq; subst heq; simp
    · rename_i hne
      have : i - idx = (i - idx - 1) + 1 := by omega
      rw [this, List.getElem?_cons_succ, List.getElem?_drop]
      congr 1; omega

theorem clampIns_le (n : Nat) (i : Int) : clampIns n i ≤ n := by
  unfold clampIns; split <;> split <;> omega

theorem normIdx_lt {n : Nat} {i : Int} {k : Nat} (h : normIdx n i = some k) : k < n := by
  unfold normIdx at h; split at h <;> split at h <;> simp at h <;> omega

theorem nodup_insertAt {l : List α} {x : α} (hnd : l.Nodup) (hx : x ∉ l) (i : Nat) :
    (insertAt l i x).Nodup := by
  unfold insertAt
  rw [← List.take_append_drop i l] at hnd hx
  rw [List.nodup_append] at hnd ⊢
  simp only [List.mem_append, not_or] at hx
  refine ⟨hnd.1, ?_, ?_⟩
  · exact List.nodup_cons.2 ⟨hx.2, hnd.2.1⟩
  · intro a ha b hb
    rcases List.mem_cons.1 hb with rfl | hb
    · intro hab; subst hab; exact hx.1 ha
    · exact hnd.2.2 a ha b hb

theorem normIdx_zero (i : Int) : normIdx 0 i = none := by
  unfold normIdx; split <;> split <;> simp at * <;> omega

theorem erase_eq_eraseIdx_of_getElem? {l : List α} {k : α} {i : Nat}
    (hnd : l.Nodup) (hg : l[i]? = some k) : l.erase k = l.eraseIdx i := by
  induction l generalizing i with
  | nil => simp at hg
  | cons a t ih =>
    cases i with
    | zero => simp at hg; subst hg; simp
    | succ j =>
      simp only [List.getElem?_cons_succ] at hg
      have hk : k ∈ t := List.mem_of_getElem? hg
      have hne : a ≠ k := by
        intro e; subst e; exact (List.nodup_cons.1 hnd).1 hk
      rw [List.erase_cons_tail (by simpa using hne), List.eraseIdx_cons_succ, ih (List.nodup_cons.1 hnd).2 hg]

theorem nodup_eraseIdx {l : List α} (hnd : l.Nodup) (i : Nat) : (l.eraseIdx i).Nodup :=
  hnd.sublist (List.eraseIdx_sublist l i)

namespace OSet

theorem MapOK.mem_iff {s : OSet α} (h : s.MapOK) (k : α) : s.contains k = true ↔ k ∈ s.items := by
  unfold OSet.contains
  constructor
  · intro hc
    obtain ⟨i, hi⟩ := Option.isSome_iff_exists.1 hc
    exact List.mem_of_getElem? ((h.2 k i).1 hi)
  · intro hm
    obtain ⟨i, hi, hget⟩ := List.getElem_of_mem hm
    have := (h.2 k i).2 (by simp [hget, hi])
    simp [this]

theorem MapOK.lt {s : OSet α} (h : s.MapOK) {k : α} {i : Nat} (hk : s.map k = some i) :
    i < s.items.length := by
  have := (h.2 k i).1 hk
  rcases Nat.lt_or_ge i s.items.length with h' | h'
  · exact h'
  · rw [List.getElem?_eq_none h'] at this; cases this

theorem MapOK.uniq {s : OSet α} (h : s.MapOK) {k : α} {i j : Nat}
    (hi : s.items[i]? = some k) (hj : s.items[j]? = some k) : i = j := by
  have a := (h.2 k i).2 hi
  have b := (h.2 k j).2 hj
  rw [a] at b; cases b; rfl

theorem empty_mapOK : (OSet.empty : OSet α).MapOK := by
  constructor
  · simp [OSet.empty]
  · intro k i; simp [OSet.empty]

theorem insertIdx_mapOK (s : OSet α) (idx : Nat) (key : α) (h : s.MapOK)
    (hidx : idx ≤ s.items.length) (hc : s.contains key = false) :
    OSet.MapOK (⟨insertAt s.items idx key,
      fun k => if k = key then some idx else (s.map k).map (fun v => if v ≥ idx then v + 1 else v)⟩ : OSet α) := by
  have hnot : s.map key = none := by simpa [OSet.contains] using hc
  have hkey : key ∉ s.items := by
    intro hm; have := (h.mem_iff key).2 hm; rw [hc] at this; cases this
  refine ⟨nodup_insertAt h.1 hkey idx, ?_⟩
  intro k i
  simp only
  rw [getElem?_insertAt _ _ _ hidx]
  have hk := h.2 k
  by_cases hkk : k = key
  · subst hkk
    simp only [if_true]
    have hnone : ∀ a : Nat, s.items[a]? ≠ some k := by
      intro a ha; have := (hk a).2 ha; rw [hnot] at this; cases this
    constructor
    · intro he; cases he; simp
    · intro hget
      split at hget
      · exact absurd hget (hnone _)
      · split at hget
        · rename_i h2; subst h2; rfl
        · exact absurd hget (hnone _)
  · simp only [hkk, if_false]
    cases hl : s.map k with
    | none =>
      have hnone : ∀ a : Nat, s.items[a]? ≠ some k := by
        intro a ha; have := (hk a).2 ha; rw [hl] at this; cases this
      simp only [Option.map_none]
      constructor
      · intro he; cases he
      · intro hget
        split at hget
        · exact absurd hget (hnone _)
        · split at hget
          · cases hget; exact absurd rfl hkk
          · exact absurd hget (hnone _)
    | some j =>
      have hj := (hk j).1 hl
      have huniq : ∀ a : Nat, s.items[a]? = some k → a = j := fun a ha => h.uniq ha hj
      simp only [Option.map_some]
      constructor
      · intro he
        simp only [Option.some.injEq] at he
        subst he
        split
        · rename_i hge
          have h1 : ¬ (j + 1 < idx) := by omega
          have h2 : ¬ (j + 1 = idx) := by omega
          simp [h1, h2, hj]
        · rename_i hlt
          have h1 : j < idx := by omega
          simp [h1, hj]
      · intro hget
        split at hget
        · rename_i hlt
          have := huniq i hget; subst this
          have : ¬ (i ≥ idx) := by omega
          simp [this]
        · split at hget
          · cases hget; exact absurd rfl hkk
          · rename_i hnlt hne
            have := huniq (i-1) hget
            have : j ≥ idx := by omega
            simp [this]; omega

/-- Removing position `i` (holding `elem`) with the map shifted by `shift`, where `shift` decrements
exactly the positions above `i` (what it does at `i` itself is irrelevant: that key is deleted). -/
theorem eraseIdx_mapOK (s : OSet α) (i : Nat) (elem : α) (h : s.MapOK)
    (hget : s.items[i]? = some elem) (shift : Nat → Nat)
    (hshift : ∀ v, v ≠ i → shift v = if v > i then v - 1 else v) :
    OSet.MapOK (⟨s.items.eraseIdx i,
      fun k => if k = elem then none else (s.map k).map shift⟩ : OSet α) := by
  refine ⟨nodup_eraseIdx h.1 i, ?_⟩
  intro k j
  simp only
  rw [List.getElem?_eraseIdx]
  have hk := h.2 k
  by_cases hkk : k = elem
  · subst hkk
    simp only [if_true]
    constructor
    · intro he; cases he
    · intro hg
      split at hg
      · have := h.uniq hg hget; omega
      · have := h.uniq hg hget; omega
  · simp only [hkk, if_false]
    cases hl : s.map k with
    | none =>
      have hnone : ∀ a : Nat, s.items[a]? ≠ some k := by
        intro a ha; have := (hk a).2 ha; rw [hl] at this; cases this
      simp only [Option.map_none]
      constructor
      · intro he; cases he
      · intro hg; split at hg <;> exact absurd hg (hnone _)
    | some p =>
      have hp := (hk p).1 hl
      have hpi : p ≠ i := by
        intro e; subst e; rw [hget] at hp; cases hp; exact hkk rfl
      simp only [Option.map_some, Option.some.injEq, hshift p hpi]
      constructor
      · intro he
        subst he
        split
        · rename_i hgt
          have : ¬ (p - 1 < i) := by omega
          simp only [this, if_false]
          have : p - 1 + 1 = p := by omega
          rw [this]; exact hp
        · rename_i hle
          have : p < i := by omega
          simp [this, hp]
      · intro hg
        split at hg
        · rename_i hlt
          have := h.uniq hg hp; subst this
          have : ¬ (j > i) := by omega
          simp [this]
        · rename_i hge
          have := h.uniq hg hp
          have : p > i := by omega
          simp [this]; omega

theorem add_mapOK (s : OSet α) (k : α) (h : s.MapOK) : (s.add k).MapOK := by
  unfold OSet.add
  split
  · exact h
  · rename_i hc
    have hc' : s.contains k = false := by simpa using hc
    have := insertIdx_mapOK s s.items.length k h (Nat.le_refl _) hc'
    have e : insertAt s.items s.items.length k = s.items ++ [k] := by simp [insertAt]
    rw [e] at this
    refine ⟨this.1, ?_⟩
    intro k' i
    have t := this.2 k' i
    simp only at t ⊢
    rw [← t]
    by_cases hk : k' = k
    · simp [hk]
    · simp only [hk, if_false]
      cases hm : s.map k' with
      | none => simp
      | some v =>
        have := h.lt hm
        have : ¬ (v ≥ s.items.length) := by omega
        simp [this]

theorem add_items (s : OSet α) (k : α) (h : s.MapOK) :
    (s.add k).items = if s.items.contains k then s.items else s.items ++ [k] := by
  unfold OSet.add
  have := h.mem_iff k
  by_cases hc : s.contains k = true
  · have hm := this.1 hc; simp [hc, hm]
  · have hm : k ∉ s.items := fun hm => hc (this.2 hm)
    simp [hc, hm]

theorem insert_mapOK (s : OSet α) (i : Int) (k : α) (h : s.MapOK) : (s.insert i k).MapOK := by
  unfold OSet.insert
  split
  · exact h
  · rename_i hc
    exact insertIdx_mapOK s _ k h (clampIns_le _ _) (by simpa using hc)

theorem insert_items (s : OSet α) (i : Int) (k : α) (h : s.MapOK) :
    (s.insert i k).items = if s.items.contains k then s.items else pyInsert s.items i k := by
  unfold OSet.insert
  have := h.mem_iff k
  by_cases hc : s.contains k = true
  · have hm := this.1 hc; simp [hc, hm]
  · have hm : k ∉ s.items := fun hm => hc (this.2 hm)
    simp [hc, hm, pyInsert]

theorem pop_spec (s : OSet α) (i : Int) (h : s.MapOK) :
    match s.pop i, pyPop s.items i with
    | .ok (s', x), some (l', y) => s'.items = l' ∧ x = y ∧ s'.MapOK
    | .error _, none => True
    | _, _ => False := by
  unfold OSet.pop pyPop
  by_cases he : s.items.isEmpty = true
  · have : s.items = [] := List.isEmpty_iff.1 he
    simp [this, normIdx_zero]
  · simp only [he]
    cases hn : normIdx s.items.length i with
    | none => simp
    | some k =>
      have hlt := normIdx_lt hn
      have hg : s.items[k]? = some s.items[k] := by simp [hlt]
      simp only [hg]
      refine ⟨rfl, rfl, ?_⟩
      exact eraseIdx_mapOK s k _ h hg _ (fun v _ => rfl)

theorem discard_mapOK (s : OSet α) (k : α) (h : s.MapOK) : (s.discard k).MapOK := by
  unfold OSet.discard
  cases hm : s.map k with
  | none => exact h
  | some i =>
    have hg := (h.2 k i).1 hm
    refine eraseIdx_mapOK s i k h hg _ ?_
    intro v hv
    by_cases h1 : v > i
    · have : v ≥ i := by omega
      simp [h1, this]
    · have : ¬ v ≥ i := by omega
      simp [h1, this]

theorem discard_items (s : OSet α) (k : α) (h : s.MapOK) : (s.discard k).items = s.items.erase k := by
  unfold OSet.discard
  cases hm : s.map k with
  | none =>
    have : k ∉ s.items := by
      intro hmem
      have := (h.mem_iff k).2 hmem
      simp [OSet.contains, hm] at this
    simp [List.erase_of_not_mem this]
  | some i =>
    have hg := (h.2 k i).1 hm
    have hlt := h.lt hm
    simp only
    exact (erase_eq_eraseIdx_of_getElem? h.1 hg).symm

end OSet
end Py
