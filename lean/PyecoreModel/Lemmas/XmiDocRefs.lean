import PyecoreModel.Lemmas.XmiDoc
import PyecoreModel.Lemmas.FragmentText
/-! Reference tokens resolve back: the hypothesis of `doc_roundtrip`, discharged for fragment addressing. -/
namespace XDoc
open Xmi

/-- a token that is the fragment text of a valid path resolves, in the loaded forest, to that path -/
theorem resolve_fragment {P : Path → Prop} (mm : MMX) (o : Opts) (hmm : MMOK mm) (single : Bool) (roots : List (SNode Path))
    (g : Path → Str) (hwf : ∀ r ∈ roots, WFG mm P r)
    (p : Path) (hvalid : (nodeAt roots p).isSome = true)
    (hnames : ∀ s ∈ p.segs, NameOK s.1 ∧ '#' ∉ s.1) (hroot : single = true → p.root = 0) :
    resolveTok mm o parsePath (roots.map fun r => eff mm o true (mapT g r)) (renderPath single p) = some p := by
  unfold resolveTok
  rw [render_no_hash single p (fun s hs => (hnames s hs).2)]
  obtain ⟨rest, hrest⟩ := render_head single p
  have hpr := parse_render single p (fun s hs => (hnames s hs).1) hroot
  rw [hrest] at hpr ⊢
  simp only [Bool.false_eq_true, if_false, bne_self_eq_false, hpr]
  have hE : (roots.map fun r => eff mm o true (mapT g r)) = (roots.map (mapT g)).map (eff mm o true) := by
    rw [List.map_map]; rfl
  have hsome : (nodeAt ((roots.map (mapT g)).map (eff mm o true)) p).isSome = true := by
    rw [nodeAt_eff mm o hmm, nodeAt_mapT]
    · exact hvalid
    · intro r hr
      obtain ⟨r0, hr0, rfl⟩ := List.mem_map.mp hr
      exact WFG_mapT mm P (fun _ => True) g (fun _ _ => trivial) r0 (hwf r0 hr0)
  rw [hE]
  cases hn : nodeAt ((roots.map (mapT g)).map (eff mm o true)) p with
  | none => rw [hn] at hsome; cases hsome
  | some _ => rfl

/-- without uuids and without id attributes every target is addressed by its fragment -/
theorem tokenOf_fragment {ρ : Type} (mm : MMX) (o : Opts) (render : Path → Str) (roots : List (SNode ρ)) (p : Path)
    (hu : o.uuid = false) (hid : ∀ c, ∀ fi ∈ mm.feats c, fi.isId = false) :
    tokenOf mm o render roots p = render p := by
  unfold tokenOf
  cases hn : nodeAt roots p with
  | none => rfl
  | some n =>
    simp only [hu, Bool.false_eq_true, if_false]
    have : idValue mm n = Option.none := by
      unfold idValue
      have hf : (mm.feats n.cls).find? (fun fi => fi.isId && decide (fi.kind = .attr)) = Option.none := by
        apply List.find?_eq_none.mpr
        intro fi hfi
        simp [hid n.cls fi hfi]
      rw [hf]
    rw [this]

/-- **Document round trip, fragment addressing.**  In a resource without uuids over a metamodel without id attributes,
    for every forest of well-formed objects whose references point at objects of the forest: loading what was saved gives
    every root's normal form with every reference on its original target.  No hypothesis about resolution is left. -/
theorem doc_roundtrip_fragment (mm : MMX) (o : Opts) (hmm : MMOK mm) (single : Bool) (roots : List (SNode Path))
    (hu : o.uuid = false) (hid : ∀ c, ∀ fi ∈ mm.feats c, fi.isId = false)
    (hsingle : single = true → roots.length = 1)
    (hwf : ∀ r ∈ roots, WFG mm (fun p => Word mm.ws (renderPath single p)) r)
    (hrefs : ∀ r ∈ roots, AllRefs (fun p => (nodeAt roots p).isSome = true ∧ (∀ s ∈ p.segs, NameOK s.1 ∧ '#' ∉ s.1)) r) :
    (encodeDoc mm o (renderPath single) roots).bind (decodeDoc mm o parsePath) = some (roots.map (eff mm o true)) := by
  have htok : tokenOf mm o (renderPath single) roots = renderPath single := by
    funext p; exact tokenOf_fragment mm o (renderPath single) roots p hu hid
  apply doc_roundtrip mm o hmm (renderPath single) parsePath roots
  · rw [htok]; exact hwf
  · intro r hr
    rw [htok]
    have := hrefs r hr
    -- lift the per-reference facts
    have lift : ∀ (n : SNode Path),
        AllRefs (fun p => (nodeAt roots p).isSome = true ∧ (∀ s ∈ p.segs, NameOK s.1 ∧ '#' ∉ s.1)) n →
        AllRefs (fun p => resolveTok mm o parsePath (roots.map fun r => eff mm o true (mapT (renderPath single) r))
          (renderPath single p) = some p) n := by
      intro n hn
      induction hn with
      | mk via cls uuid slots kids hs _ ih =>
        refine AllRefs.mk _ _ _ _ _ ?_ ih
        intro e he
        have hse := hs e he
        have one : ∀ q, ((nodeAt roots q).isSome = true ∧ (∀ s ∈ q.segs, NameOK s.1 ∧ '#' ∉ s.1)) →
            resolveTok mm o parsePath (roots.map fun r => eff mm o true (mapT (renderPath single) r))
              (renderPath single q) = some q := by
          intro q hq
          apply resolve_fragment mm o hmm single roots (renderPath single) hwf q hq.1 hq.2
          intro hs1
          -- a single root: the only valid root index is 0
          have hlen := hsingle hs1
          have hv := hq.1
          unfold nodeAt at hv
          cases hr0 : roots[q.root]? with
          | none => rw [hr0] at hv; cases hv
          | some _ =>
            have := (List.getElem?_eq_some_iff.mp hr0).1
            omega
        cases hv : e.2 with
        | ref1 t => rw [hv] at hse; exact one t hse
        | refN ts => rw [hv] at hse; intro t ht; exact one t (hse t ht)
        | none => trivial
        | attr1 _ => trivial
        | attrN _ => trivial
        | kids => trivial
    exact lift r this

end XDoc
