import PyecoreModel.Model.JsonDoc
import PyecoreModel.Lemmas.XmiDoc
/-! Lemmas for the document-level JSON round trip (C09). -/
namespace JDoc
open XDoc Xmi

theorem jEncKids_eq_map (mm : MMX) (o : Opts) (pcls : Nat) (l : List (SNode JRef)) :
    jEncKids mm o pcls l = l.map fun k => (k.via, jEnc mm o false (declOf mm pcls k.via) k) := by
  induction l with
  | nil => simp [jEncKids]
  | cons k t ih => simp only [jEncKids, List.map_cons, ih]

theorem jDecList_map {α : Type} (mm : MMX) (via : Str) (decl : Nat) (l : List α) (g : α → JV) (h : α → SNode Str)
    (hd : ∀ x ∈ l, jDec mm false via decl (g x) = some (h x)) : jDecList mm via decl (l.map g) = some (l.map h) := by
  induction l with
  | nil => simp [jDecList]
  | cons x t ih =>
    simp only [List.map_cons, jDecList, hd x (by simp), ih (fun y hy => hd y (by simp [hy]))]

/-- a JSON reference token is any string; the class written next to it is not read back -/
abbrev tokOf (r : JRef) : Str := r.tok

/-- the reserved keys are not features -/
structure MMJ (mm : MMX) : Prop extends MMOK mm where
  res : ∀ c k, isReserved k = true → mm.find c k = Option.none

theorem jSlot_own (mm : MMX) (o : Opts) (cls : Nat) (ks : List (Str × JV)) (e : Str × SlotV JRef) :
    ∀ b ∈ jSlot mm o cls ks e, b.1 = e.1 := by
  intro b hb
  unfold jSlot at hb
  split at hb
  · simp at hb
  · split at hb
    · simp at hb
    · split at hb
      · split at hb <;> simp at hb
        simp [hb]
      · split at hb <;> simp at hb
        simp [hb]
      · simp at hb; simp [hb]
      · simp at hb; simp [hb]
      · simp at hb; simp [hb]
      · simp only at hb
        split at hb
        · simp at hb; simp [hb]
        · split at hb <;> simp at hb
          simp [hb]

/-- the value written under the key of a slot of feature `fi` -/
def wVal (mm : MMX) (fi : FInfo) (o : Opts) (kidsJ : List JV) : SlotV JRef → Option JV
  | .none => if o.sd || fi.dflt.isSome then some .null else Option.none
  | .attr1 v => if !veq fi v || o.sd then some (.atom v) else Option.none
  | .attrN vs => some (.arr (vs.map optAtom))
  | .ref1 t => some (refObj t)
  | .refN ts => some (.arr (ts.map refObj))
  | .kids => if fi.many then some (.arr kidsJ) else kidsJ.head?

theorem jSlot_lookup (mm : MMX) (o : Opts) (cls : Nat) (ks : List (Str × JV)) (f : Str) (s : SlotV JRef) (fi : FInfo)
    (hf : mm.find cls f = some fi) (hk : fi.kind ≠ .skip) :
    (jSlot mm o cls ks (f, s)).lookup f = wVal mm fi o ((ks.filter fun p => p.1 == f).map (·.2)) s := by
  unfold jSlot wVal
  simp only [hf, hk, if_false]
  cases s with
  | none => simp only; split <;> simp
  | attr1 v => simp only; split <;> simp
  | attrN vs => simp
  | ref1 t => simp
  | refN ts => simp
  | kids =>
    simp only
    split
    · simp
    · cases (List.map (fun x => x.2) (List.filter (fun p => p.1 == f) ks)) <;> simp

def entriesOf (mm : MMX) (o : Opts) (cls : Nat) (ks : List (Str × JV)) (slots : List (Str × SlotV JRef)) : List (Str × JV) :=
  slots.flatMap (jSlot mm o cls ks)

theorem entries_lookup (mm : MMX) (o : Opts) (cls : Nat) (ks : List (Str × JV)) (slots : List (Str × SlotV JRef))
    (hnd : (slots.map (·.1)).Nodup) (f : Str) :
    (entriesOf mm o cls ks slots).lookup f = (slots.lookup f).bind fun s => (jSlot mm o cls ks (f, s)).lookup f := by
  unfold entriesOf
  rw [lookup_filter_head, keyed_view (jSlot mm o cls ks) (·.1) (fun e b hb => jSlot_own mm o cls ks e b hb) slots hnd f]
  cases slots.lookup f with
  | none => rfl
  | some s =>
    simp only [Option.map_some, Option.getD_some, Option.bind_some]
    rw [lookup_filter_head (jSlot mm o cls ks (f, s))]
    congr 2
    symm
    apply List.filter_eq_self.mpr
    intro b hb
    simp [jSlot_own mm o cls ks (f, s) b hb]

theorem lookup_append_left {V : Type} (a b : List (Str × V)) (f : Str) (h : ∀ e ∈ a, e.1 ≠ f) : (a ++ b).lookup f = b.lookup f := by
  induction a with
  | nil => rfl
  | cons e t ih =>
    obtain ⟨k, v⟩ := e
    have hk : (f == k) = false := by
      have : k ≠ f := h (k, v) (by simp)
      simpa using Ne.symm this
    simp only [List.cons_append, List.lookup_cons, hk]
    exact ih (fun e he => h e (by simp [he]))

theorem lookup_append_none {V : Type} (a b : List (Str × V)) (f : Str) (h : ∀ e ∈ b, e.1 ≠ f) : (a ++ b).lookup f = a.lookup f := by
  induction a with
  | nil =>
    simp only [List.nil_append, List.lookup_nil]
    induction b with
    | nil => rfl
    | cons e t ih =>
      obtain ⟨k, v⟩ := e
      have hk : (f == k) = false := by
        have : k ≠ f := h (k, v) (by simp)
        simpa using Ne.symm this
      simp only [List.lookup_cons, hk]
      exact ih (fun e he => h e (by simp [he]))
  | cons e t ih =>
    obtain ⟨k, v⟩ := e
    simp only [List.cons_append, List.lookup_cons]
    cases (f == k) <;> simp [ih]

end JDoc

namespace JDoc
open XDoc Xmi

theorem mapM_optAtom (vs : List (Option Str)) : (vs.map optAtom).mapM jAttrElem = some vs := by
  induction vs with
  | nil => rfl
  | cons v t ih => cases v <;> simp [List.mapM_cons, optAtom, jAttrElem, ih]

theorem refTok_refObj (r : JRef) : refTok (refObj r) = some r.tok := by
  have : (kRef == kEClass) = false := by decide
  simp [refTok, refObj, List.lookup_cons, this, sAtom, atomStr]

theorem mapM_refObj (ts : List JRef) : (ts.map refObj).mapM refTok = some (ts.map (·.tok)) := by
  induction ts with
  | nil => rfl
  | cons r t ih => simp [List.mapM_cons, refTok_refObj, ih]

abbrev tokSlots (slots : List (Str × SlotV JRef)) : List (Str × SlotV Str) :=
  slots.map fun e => (e.1, mapSlotT JRef.tok e.2)

/-- one feature: the value found under its key gives back the feature's effective slot -/
theorem jslot_roundtrip (mm : MMX) (o : Opts) (fi : FInfo) (slots : List (Str × SlotV JRef)) (kidsJ : List JV)
    (entries : List (Str × JV))
    (hl : fi.kind ≠ .skip → entries.lookup fi.name = (slots.lookup fi.name).bind (wVal mm fi o kidsJ))
    (hok : ∀ s, slots.lookup fi.name = some s → fi.kind = .skip ∨ (match s with
        | .none => fi.many = false
        | .attr1 _ => fi.kind = .attr ∧ fi.many = false
        | .attrN _ => fi.kind = .attr ∧ fi.many = true
        | .ref1 _ => fi.kind = .ref ∧ fi.many = false
        | .refN _ => fi.kind = .ref ∧ fi.many = true
        | .kids => fi.kind = .cont)) :
    jEffSlot fi entries = some (effSlot o.sd fi (tokSlots slots)) := by
  unfold jEffSlot effSlot
  rw [lookup_map_slots]
  cases hk : fi.kind with
  | skip => rfl
  | cont => rfl
  | attr =>
    have hl := hl (by rw [hk]; simp)
    simp only [hl]
    cases hs : slots.lookup fi.name with
    | none => simp
    | some s =>
      rcases hok s hs with h | h
      · rw [hk] at h; cases h
      · simp only [Option.bind_some, Option.map_some]
        cases s with
        | none =>
          have hm : fi.many = false := h
          simp only [wVal, mapSlotT]
          by_cases hw : (o.sd || fi.dflt.isSome) = true
          · simp [hw, jSlotOf, hk]
          · have hw' : (o.sd || fi.dflt.isSome) = false := by simpa using hw
            simp only [Bool.or_eq_false_iff] at hw'
            have hd : fi.dflt = Option.none := by
              cases hdd : fi.dflt with
              | none => rfl
              | some d => simp [hdd] at hw'
            simp [hw'.1, hd, unsetSlot, hk, hm]
        | attr1 v =>
          have hm : fi.many = false := h.2
          simp only [wVal, mapSlotT]
          by_cases hw : (!veq fi v || o.sd) = true
          · simp only [hw, if_true]
            have : (!o.sd && veq fi v) = false := by
              cases hsd : o.sd <;> cases hv : veq fi v <;> simp_all
            simp [jSlotOf, hk, hm, this]
          · have hw' : (!veq fi v || o.sd) = false := by simpa using hw
            simp only [hw', Bool.false_eq_true, if_false, hm]
            simp only [Bool.or_eq_false_iff, Bool.not_eq_false'] at hw'
            obtain ⟨d, hd⟩ : ∃ d, fi.dflt = some d := by
              cases hdd : fi.dflt with
              | none => simp [veq, hdd] at hw'
              | some d => exact ⟨d, rfl⟩
            simp [hw'.1, hw'.2, hd, unsetSlot, hk, hm]
        | attrN vs =>
          simp only [wVal, mapSlotT, jSlotOf, hk, mapM_optAtom, Option.map_some]
        | ref1 t => rw [hk] at h; exact absurd h.1 (by simp)
        | refN ts => rw [hk] at h; exact absurd h.1 (by simp)
        | kids => rw [hk] at h; exact absurd h (by simp)
  | ref =>
    have hl := hl (by rw [hk]; simp)
    simp only [hl]
    cases hs : slots.lookup fi.name with
    | none => simp
    | some s =>
      rcases hok s hs with h | h
      · rw [hk] at h; cases h
      · simp only [Option.bind_some, Option.map_some]
        cases s with
        | none =>
          have hm : fi.many = false := h
          simp only [wVal, mapSlotT]
          by_cases hw : (o.sd || fi.dflt.isSome) = true
          · simp [hw, jSlotOf, hk]
          · have hw' : (o.sd || fi.dflt.isSome) = false := by simpa using hw
            simp [hw', unsetSlot, hk, hm]
        | ref1 t =>
          have : (kRef == kEClass) = false := by decide
          simp [wVal, mapSlotT, jSlotOf, hk, refObj, List.lookup_cons, this, sAtom, atomStr]
        | refN ts =>
          simp only [wVal, mapSlotT, jSlotOf, hk, mapM_refObj, Option.map_some]
        | attr1 v => rw [hk] at h; exact absurd h.1 (by simp)
        | attrN vs => rw [hk] at h; exact absurd h.1 (by simp)
        | kids => rw [hk] at h; exact absurd h (by simp)

end JDoc

namespace JDoc
open XDoc Xmi

/-- what one dictionary entry contributes to the children of the object -/
def jKidOf (mm : MMX) (pcls : Nat) (e : Str × JV) : Option (List (Str × SNode Str)) :=
  match mm.find pcls e.1 with
  | some fi =>
    if fi.kind = .cont then
      match e.2 with
      | .null => some []
      | .obj l => (match jDec mm false e.1 fi.tcls (.obj l) with
        | some n => if fi.many then Option.none else some [(e.1, n)]
        | Option.none => Option.none)
      | .arr l => if fi.many then (match jDecList mm e.1 fi.tcls l with
          | some ns => some (ns.map fun n => (e.1, n))
          | Option.none => Option.none) else Option.none
      | _ => Option.none
    else some []
  | Option.none => some []

theorem jDecKids_nil (mm : MMX) (pcls : Nat) : jDecKids mm pcls [] = some [] := rfl

theorem jDecKids_cons_raw (mm : MMX) (pcls : Nat) (k : Str) (v : JV) (t : List (Str × JV)) :
    jDecKids mm pcls ((k, v) :: t) =
    match jDecKids mm pcls t with
    | Option.none => Option.none
    | some rest =>
      match mm.find pcls k with
      | some fi =>
        if fi.kind = .cont then
          match v with
          | .null => some rest
          | .obj l => (match jDec mm false k fi.tcls (.obj l) with
            | some n => if fi.many then Option.none else some ((k, n) :: rest)
            | Option.none => Option.none)
          | .arr l => if fi.many then (match jDecList mm k fi.tcls l with
              | some ns => some (ns.map (fun n => (k, n)) ++ rest)
              | Option.none => Option.none) else Option.none
          | _ => Option.none
        else some rest
      | Option.none => some rest := by
  cases v <;> rfl

theorem jDecKids_cons (mm : MMX) (pcls : Nat) (e : Str × JV) (t : List (Str × JV)) :
    jDecKids mm pcls (e :: t) = match jDecKids mm pcls t, jKidOf mm pcls e with
      | some rest, some here => some (here ++ rest)
      | _, _ => Option.none := by
  obtain ⟨k, v⟩ := e
  rw [jDecKids_cons_raw]
  unfold jKidOf
  cases jDecKids mm pcls t with
  | none => simp
  | some rest =>
    simp only
    cases mm.find pcls k with
    | none => simp
    | some fi =>
      simp only
      by_cases hc : fi.kind = .cont
      · simp only [hc, if_true]
        cases v with
        | null => simp
        | atom a => simp
        | obj l =>
          simp only
          cases jDec mm false k fi.tcls (.obj l) with
          | none => simp
          | some n => cases fi.many <;> simp
        | arr l =>
          simp only
          cases fi.many with
          | false => simp
          | true =>
            simp only [if_true]
            cases jDecList mm k fi.tcls l <;> simp
      · simp [hc]

theorem jDecKids_append (mm : MMX) (pcls : Nat) (a b : List (Str × JV)) (ka kb : List (Str × SNode Str))
    (ha : jDecKids mm pcls a = some ka) (hb : jDecKids mm pcls b = some kb) :
    jDecKids mm pcls (a ++ b) = some (ka ++ kb) := by
  induction a generalizing ka with
  | nil =>
    rw [jDecKids_nil] at ha
    simp only [Option.some.injEq] at ha
    subst ha
    simpa using hb
  | cons e t ih =>
    rw [jDecKids_cons] at ha
    cases ht : jDecKids mm pcls t with
    | none => rw [ht] at ha; simp at ha
    | some rest =>
      rw [ht] at ha
      cases he : jKidOf mm pcls e with
      | none => rw [he] at ha; simp at ha
      | some here =>
        rw [he] at ha
        simp only [Option.some.injEq] at ha
        subst ha
        rw [List.cons_append, jDecKids_cons, ih rest ht, he]
        simp

theorem jDecKids_flatMap {α : Type} (mm : MMX) (pcls : Nat) (l : List α) (g : α → List (Str × JV))
    (r : α → List (Str × SNode Str)) (h : ∀ x ∈ l, jDecKids mm pcls (g x) = some (r x)) :
    jDecKids mm pcls (l.flatMap g) = some (l.flatMap r) := by
  induction l with
  | nil => exact jDecKids_nil mm pcls
  | cons x t ih =>
    simp only [List.flatMap_cons]
    exact jDecKids_append mm pcls _ _ _ _ (h x (by simp)) (ih (fun y hy => h y (by simp [hy])))

end JDoc

namespace JDoc
open XDoc Xmi

abbrev WFJ (mm : MMX) : SNode JRef → Prop := WFG mm (fun _ => True)

theorem jDec_obj (mm : MMX) (top : Bool) (via : Str) (decl : Nat) (entries : List (Str × JV)) :
    jDec mm top via decl (.obj entries) =
    match (match entries.lookup kEClass with
      | some v => (atomStr v).bind mm.cidOf
      | Option.none => if top then Option.none else some decl) with
    | Option.none => Option.none
    | some cls =>
      if entries.any (fun e => !isReserved e.1 && (mm.find cls e.1).isNone) then Option.none
      else
        match (mm.feats cls).mapM (fun fi => jEffSlot fi entries), jDecKids mm cls entries with
        | some slots, some kidsByKey =>
          some (.mk (if top then [] else via) cls (((entries.lookup kUuid).bind atomStr).getD [])
            (slots.filterMap id)
            (((mm.feats cls).filter fun fi => fi.kind = .cont).flatMap fun fi =>
              (kidsByKey.filter fun p => p.1 == fi.name).map (·.2)))
        | _, _ => Option.none := rfl

/-- the children one `_isset` entry gives back -/
def kidPairs (mm : MMX) (o : Opts) (cls : Nat) (kids : List (SNode JRef)) (e : Str × SlotV JRef) : List (Str × SNode Str) :=
  match mm.find cls e.1, e.2 with
  | some fi, .kids => if fi.kind = .cont then (kids.filter fun k => k.via == e.1).map fun k => (e.1, eff mm o false (mapT JRef.tok k)) else []
  | _, _ => []

theorem not_reserved_of_find (mm : MMX) (hmm : MMJ mm) (c : Nat) (k : Str) (fi : FInfo) (h : mm.find c k = some fi) :
    isReserved k = false := by
  cases hr : isReserved k with
  | false => rfl
  | true => rw [hmm.res c k hr] at h; cases h

theorem jKidOf_reserved (mm : MMX) (hmm : MMJ mm) (c : Nat) (k : Str) (v : JV) (h : isReserved k = true) :
    jKidOf mm c (k, v) = some [] := by
  unfold jKidOf; simp [hmm.res c k h]

theorem jDecKids_single (mm : MMX) (pcls : Nat) (e : Str × JV) : jDecKids mm pcls [e] = jKidOf mm pcls e := by
  rw [jDecKids_cons, jDecKids_nil]
  cases jKidOf mm pcls e <;> simp

theorem jslot_kids (mm : MMX) (o : Opts) (hmm : MMJ mm) (cls : Nat) (kids : List (SNode JRef)) (e : Str × SlotV JRef)
    (hs : SlotOKg mm (fun _ => True) cls e)
    (h1 : ∀ fi ∈ mm.feats cls, fi.kind = .cont → fi.many = false → (kids.filter fun k => k.via == fi.name).length ≤ 1)
    (ih : ∀ k ∈ kids, ∀ decl, jDec mm false k.via decl (jEnc mm o false decl k) = some (eff mm o false (mapT JRef.tok k))) :
    jDecKids mm cls (jSlot mm o cls (jEncKids mm o cls kids) e) = some (kidPairs mm o cls kids e) := by
  obtain ⟨fi, hf, hk⟩ := hs
  obtain ⟨hname, hmem⟩ := find_name mm cls e.1 fi hf
  unfold jSlot kidPairs
  rw [hf]
  simp only
  by_cases hskip : fi.kind = .skip
  · simp only [hskip, if_true, jDecKids_nil]
    cases e.2 <;> simp [hskip]
  · simp only [hskip, if_false]
    rcases hk with hk | hk
    · exact absurd hk hskip
    · cases hv : e.2 with
      | none =>
        simp only
        split
        · rw [jDecKids_single]; unfold jKidOf; simp only [hf]; split <;> rfl
        · exact jDecKids_nil mm cls
      | attr1 v =>
        simp only [hv] at hk
        simp only
        split
        · rw [jDecKids_single]; unfold jKidOf; simp [hf, hk.1]
        · exact jDecKids_nil mm cls
      | attrN vs =>
        simp only [hv] at hk
        simp only
        rw [jDecKids_single]; unfold jKidOf; simp [hf, hk.1]
      | ref1 t =>
        simp only [hv] at hk
        simp only
        rw [jDecKids_single]; unfold jKidOf; simp [hf, hk.1]
      | refN ts =>
        simp only [hv] at hk
        simp only
        rw [jDecKids_single]; unfold jKidOf; simp [hf, hk.1]
      | kids =>
        simp only [hv] at hk
        have hkc : fi.kind = .cont := hk
        simp only [hkc, if_true, jEncKids_eq_map, List.filter_map, List.map_map]
        have hdec : ∀ k ∈ kids.filter ((fun p => p.1 == e.1) ∘ fun k => (k.via, jEnc mm o false (declOf mm cls k.via) k)),
            jDec mm false e.1 fi.tcls (((fun x : Str × JV => x.2) ∘ fun k => (k.via, jEnc mm o false (declOf mm cls k.via) k)) k)
              = some (eff mm o false (mapT JRef.tok k)) := by
          intro k hkm
          have hkm' := List.mem_filter.mp hkm
          have hvia : k.via = e.1 := by simpa using hkm'.2
          have hdecl : declOf mm cls k.via = fi.tcls := by unfold declOf; rw [hvia, hf]; rfl
          simp only [Function.comp, hdecl]
          have := ih k hkm'.1 fi.tcls
          rw [hvia] at this
          exact this
        have hfilt : (kids.filter ((fun p => p.1 == e.1) ∘ fun k => (k.via, jEnc mm o false (declOf mm cls k.via) k)))
            = kids.filter fun k => k.via == e.1 := by
          apply List.filter_congr; intro k _; rfl
        cases hm : fi.many with
        | true =>
          simp only [if_true]
          rw [jDecKids_single]
          unfold jKidOf
          simp only [hf, hkc, if_true, hm]
          rw [jDecList_map mm e.1 fi.tcls _ _ (fun k => eff mm o false (mapT JRef.tok k)) hdec, hfilt]
          simp [List.map_map, Function.comp]
        | false =>
          simp only [Bool.false_eq_true, if_false]
          have hlen := h1 fi hmem hkc hm
          rw [hname] at hlen
          rw [hfilt] at hdec ⊢
          cases hkf : (kids.filter fun k => k.via == e.1) with
          | nil => simp [jDecKids_nil]
          | cons k t =>
            rw [hkf] at hlen hdec
            have ht : t = [] := by
              cases t with
              | nil => rfl
              | cons _ _ => simp at hlen
            subst ht
            simp only [List.map_cons, List.map_nil]
            rw [jDecKids_single]
            have hd := hdec k (by simp)
            simp only [Function.comp] at hd
            -- the written value is an object
            cases hj : jEnc mm o false (declOf mm cls k.via) k with
            | obj l =>
              rw [hj] at hd
              unfold jKidOf
              simp only [hf, hkc, if_true, hm, Bool.false_eq_true, if_false, Function.comp, hj, hd]
            | null => cases k; simp [jEnc] at hj
            | atom a => cases k; simp [jEnc] at hj
            | arr l => cases k; simp [jEnc] at hj

end JDoc

namespace JDoc
open XDoc Xmi

theorem kidPairs_own (mm : MMX) (o : Opts) (cls : Nat) (kids : List (SNode JRef)) (e : Str × SlotV JRef) :
    ∀ p ∈ kidPairs mm o cls kids e, p.1 = e.1 := by
  intro p hp
  unfold kidPairs at hp
  split at hp
  · split at hp
    · obtain ⟨k, _, rfl⟩ := List.mem_map.mp hp; rfl
    · cases hp
  · cases hp

theorem mapM_some_map {α β : Type} (l : List α) (f : α → Option β) (g : α → β) (h : ∀ a ∈ l, f a = some (g a)) :
    l.mapM f = some (l.map g) := mapM_some_of_forall f g l h

theorem jdec_enc_step (mm : MMX) (o : Opts) (hmm : MMJ mm) (via : Str) (cls : Nat) (uuid : Str)
    (slots : List (Str × SlotV JRef)) (kids : List (SNode JRef))
    (hwf : WFJ mm (.mk via cls uuid slots kids))
    (ih : ∀ k ∈ kids, ∀ decl, jDec mm false k.via decl (jEnc mm o false decl k) = some (eff mm o false (mapT JRef.tok k)))
    (top : Bool) (decl : Nat) (via' : Str) (hv : top = false → via' = via) :
    jDec mm top via' decl (jEnc mm o top decl (.mk via cls uuid slots kids))
      = some (eff mm o top (mapT JRef.tok (.mk via cls uuid slots kids))) := by
  cases hwf with
  | mk _ _ _ _ _ hc hnd hs hk hk2 h1 =>
  have hcid := hmm.toMMOK.cid cls hc
  -- names of the three parts of the dictionary
  let ks := jEncKids mm o cls kids
  let pre : List (Str × JV) := if top || decl != cls then [(kEClass, sAtom (mm.cname cls))] else []
  let E := entriesOf mm o cls ks slots
  let post : List (Str × JV) := if o.uuid then [(kUuid, sAtom uuid)] else []
  have henc : jEnc mm o top decl (.mk via cls uuid slots kids) = .obj (pre ++ E ++ post) := by
    simp only [jEnc, pre, E, post, ks, entriesOf]
  rw [henc, jDec_obj]
  have hEkey : ∀ e ∈ E, ∃ fi, mm.find cls e.1 = some fi := by
    intro e he
    obtain ⟨sl, hsl, hes⟩ := List.mem_flatMap.mp he
    obtain ⟨fi, hf, _⟩ := hs sl hsl
    exact ⟨fi, by rw [jSlot_own mm o cls ks sl e hes]; exact hf⟩
  have hEne : ∀ k, isReserved k = true → ∀ e ∈ E, e.1 ≠ k := by
    intro k hk e he heq
    obtain ⟨fi, hf⟩ := hEkey e he
    rw [heq, hmm.res cls k hk] at hf; cases hf
  have hpre_key : ∀ e ∈ pre, e.1 = kEClass := by
    intro e he; simp only [pre] at he; split at he <;> simp at he; simp [he]
  have hpost_key : ∀ e ∈ post, e.1 = kUuid := by
    intro e he; simp only [post] at he; split at he <;> simp at he; simp [he]
  -- the class
  have hclass : (match (pre ++ E ++ post).lookup kEClass with
      | some v => (atomStr v).bind mm.cidOf
      | Option.none => if top then Option.none else some decl) = some cls := by
    by_cases hp : (top || decl != cls) = true
    · have : pre = [(kEClass, sAtom (mm.cname cls))] := by simp only [pre, hp, if_true]
      rw [this]
      simp [List.lookup_cons, sAtom, atomStr, hcid]
    · have hp' : (top || decl != cls) = false := by simpa using hp
      have hpe : pre = [] := by simp only [pre, hp', Bool.false_eq_true, if_false]
      have hnone : (pre ++ E ++ post).lookup kEClass = Option.none := by
        rw [hpe, List.nil_append, lookup_append_none E post kEClass (by
          intro e he; rw [hpost_key e he]; decide)]
        cases hl : E.lookup kEClass with
        | none => rfl
        | some v => exact absurd rfl (hEne kEClass (by decide) _ (lookup_mem E kEClass v hl))
      rw [hnone]
      simp only [Bool.or_eq_false_iff] at hp'
      have hd : decl = cls := by simpa using hp'.2
      simp [hp'.1, hd]
  rw [hclass]
  simp only
  -- every key is reserved or a feature
  have hany : (pre ++ E ++ post).any (fun e => !isReserved e.1 && (mm.find cls e.1).isNone) = false := by
    apply List.any_eq_false.mpr
    intro e he
    rcases List.mem_append.mp he with he | he
    · rcases List.mem_append.mp he with he | he
      · rw [hpre_key e he]; have : isReserved kEClass = true := by decide
        simp [this]
      · obtain ⟨fi, hf⟩ := hEkey e he; simp [hf]
    · rw [hpost_key e he]; have : isReserved kUuid = true := by decide
      simp [this]
  rw [hany]
  simp only [Bool.false_eq_true, if_false]
  -- the value under a feature's key
  have hlook : ∀ fi ∈ mm.feats cls, fi.kind ≠ .skip →
      (pre ++ E ++ post).lookup fi.name
        = (slots.lookup fi.name).bind (wVal mm fi o ((ks.filter fun p => p.1 == fi.name).map (·.2))) := by
    intro fi hfi hskip
    have hfind := hmm.toMMOK.findSelf cls fi hfi
    have hnr := not_reserved_of_find mm hmm cls fi.name fi hfind
    have h1' : ∀ e ∈ pre, e.1 ≠ fi.name := by
      intro e he heq; rw [hpre_key e he] at heq; rw [← heq] at hnr; revert hnr; decide
    have h2' : ∀ e ∈ post, e.1 ≠ fi.name := by
      intro e he heq; rw [hpost_key e he] at heq; rw [← heq] at hnr; revert hnr; decide
    rw [List.append_assoc, lookup_append_left pre _ fi.name h1', lookup_append_none E post fi.name h2',
      entries_lookup mm o cls ks slots hnd fi.name]
    cases hsl : slots.lookup fi.name with
    | none => rfl
    | some sl => simp only [Option.bind_some]; exact jSlot_lookup mm o cls ks fi.name sl fi hfind hskip
  -- slots
  have hslots : (mm.feats cls).mapM (fun fi => jEffSlot fi (pre ++ E ++ post))
      = some ((mm.feats cls).map fun fi => effSlot o.sd fi (tokSlots slots)) := by
    apply mapM_some_map
    intro fi hfi
    apply jslot_roundtrip mm o fi slots ((ks.filter fun p => p.1 == fi.name).map (·.2)) _ (hlook fi hfi)
    intro sl hsl
    have hmem := lookup_mem slots fi.name sl hsl
    obtain ⟨fi', hf', hok⟩ := hs _ hmem
    simp only at hf' hok
    rw [hmm.toMMOK.findSelf cls fi hfi] at hf'
    cases hf'
    rcases hok with hok | hok
    · exact Or.inl hok
    · right
      cases sl with
      | ref1 t => exact ⟨hok.1, hok.2.1⟩
      | refN ts => exact ⟨hok.1, hok.2.1⟩
      | _ => exact hok
  rw [hslots]
  -- children
  have hkidsdec : jDecKids mm cls (pre ++ E ++ post) = some (slots.flatMap (kidPairs mm o cls kids)) := by
    have hp : jDecKids mm cls pre = some [] := by
      simp only [pre]; split
      · rw [jDecKids_single]; exact jKidOf_reserved mm hmm cls kEClass _ (by decide)
      · exact jDecKids_nil mm cls
    have hq : jDecKids mm cls post = some [] := by
      simp only [post]; split
      · rw [jDecKids_single]; exact jKidOf_reserved mm hmm cls kUuid _ (by decide)
      · exact jDecKids_nil mm cls
    have hE : jDecKids mm cls E = some (slots.flatMap (kidPairs mm o cls kids)) := by
      apply jDecKids_flatMap
      intro e he
      exact jslot_kids mm o hmm cls kids e (hs e he) h1 ih
    have := jDecKids_append mm cls (pre ++ E) post _ _ (jDecKids_append mm cls pre E _ _ hp hE) hq
    simpa using this
  rw [hkidsdec]
  simp only [mapT, eff]
  congr 1
  congr 1
  · cases top with
    | true => rfl
    | false => simp [hv rfl]
  · -- uuid
    have : ((pre ++ E ++ post).lookup kUuid) = post.lookup kUuid := by
      rw [List.append_assoc, lookup_append_left pre _ kUuid (by intro e he; rw [hpre_key e he]; decide),
        lookup_append_left E post kUuid (hEne kUuid (by decide))]
    rw [this]
    simp only [post]
    cases o.uuid <;> simp [List.lookup_cons, sAtom, atomStr]
  · rw [List.filterMap_map]; rfl
  · rw [effKids_eq_map, mapTL_eq_map]
    apply flatMap_congr_mem
    intro fi hfi
    have hfi' := List.mem_filter.mp hfi
    have hkc : fi.kind = .cont := by simpa using hfi'.2
    have hfind := hmm.toMMOK.findSelf cls fi hfi'.1
    rw [keyed_view (kidPairs mm o cls kids) (·.1) (fun e p hp => kidPairs_own mm o cls kids e p hp) slots hnd fi.name]
    have hfm : (kids.map (mapT JRef.tok)).filter (fun k => k.via == fi.name)
        = (kids.filter fun k => k.via == fi.name).map (mapT JRef.tok) := by
      rw [List.filter_map]
      congr 1
      apply List.filter_congr
      intro k _
      simp
    rw [eff_filter_via, hfm]
    cases hsl : slots.lookup fi.name with
    | none =>
      have hnone : (kids.filter fun k => k.via == fi.name) = [] := by
        apply List.filter_eq_nil_iff.mpr
        intro k hkm hv
        obtain ⟨fi', _, _, hmem⟩ := hk2 k hkm
        have hv' : k.via = fi.name := by simpa using hv
        rw [hv'] at hmem
        exact lookup_none_not_mem slots fi.name hsl _ hmem
      simp [hnone]
    | some sl =>
      simp only [Option.map_some, Option.getD_some, kidPairs, hfind, hkc, if_true]
      cases sl with
      | kids => simp [hkc, List.map_map, Function.comp]
      | _ =>
        have hnone : (kids.filter fun k => k.via == fi.name) = [] := by
          apply List.filter_eq_nil_iff.mpr
          intro k hkm hv
          obtain ⟨fi', _, _, hmem⟩ := hk2 k hkm
          have hv' : k.via = fi.name := by simpa using hv
          rw [hv'] at hmem
          have := lookup_of_mem_nodup slots hnd fi.name _ hmem
          rw [hsl] at this
          cases this
        simp [hnone]

end JDoc

namespace JDoc
open XDoc Xmi

theorem WFG.kids_wf' {ρ : Type} {mm : MMX} {P : ρ → Prop} {via : Str} {cls : Nat} {uuid : Str} {slots : List (Str × SlotV ρ)}
    {kids : List (SNode ρ)} (h : WFG mm P (.mk via cls uuid slots kids)) : ∀ k ∈ kids, WFG mm P k := by
  cases h with
  | mk _ _ _ _ _ _ _ _ hk _ _ => exact hk

mutual
/-- value level: loading the dictionary written for a well-formed object gives the object's normal form -/
theorem jdec_enc (mm : MMX) (o : Opts) (hmm : MMJ mm) :
    (n : SNode JRef) → WFJ mm n → ∀ (top : Bool) (decl : Nat) (via' : Str), (top = false → via' = n.via) →
      jDec mm top via' decl (jEnc mm o top decl n) = some (eff mm o top (mapT JRef.tok n))
  | .mk via cls uuid slots kids, h, top, decl, via', hv =>
    jdec_enc_step mm o hmm via cls uuid slots kids h
      (fun k hk d => jdec_enc_list mm o hmm kids (WFG.kids_wf' h) k hk d) top decl via' hv
theorem jdec_enc_list (mm : MMX) (o : Opts) (hmm : MMJ mm) :
    (l : List (SNode JRef)) → (∀ k ∈ l, WFJ mm k) → ∀ k ∈ l, ∀ (decl : Nat),
      jDec mm false k.via decl (jEnc mm o false decl k) = some (eff mm o false (mapT JRef.tok k))
  | [], _, k, hk, _ => absurd hk (by simp)
  | a :: t, h, k, hk, decl => by
    rcases List.mem_cons.mp hk with he | h1
    · rw [he]
      exact jdec_enc mm o hmm a (h a (by simp)) false decl a.via (fun _ => rfl)
    · exact jdec_enc_list mm o hmm t (fun x hx => h x (by simp [hx])) k h1 decl
end

end JDoc
