import PyecoreModel.Lemmas.StoreInv
/-! `linkRaw` and `link` preserve the invariants. -/
set_option linter.unusedSectionVars false
set_option linter.unusedSimpArgs false
set_option linter.unusedVariables false
namespace Store
variable (mm : MM)

theorem linkRaw_eq (s : St) (x f y pos) :
    linkRaw mm s x f y pos =
      match (mm.feat f).opp with
      | none =>
        if (mm.feat f).cont then
          (s.setRs x f (if (mm.feat f).many then addVal (mm.feat f).isList (s.rs x f) y pos else [y])).setCont y (some (x, f))
        else s.setRs x f (if (mm.feat f).many then addVal (mm.feat f).isList (s.rs x f) y pos else [y])
      | some g =>
        if (mm.feat g).cont then
          ((if (mm.feat f).cont then
            (s.setRs x f (if (mm.feat f).many then addVal (mm.feat f).isList (s.rs x f) y pos else [y])).setCont y (some (x, f))
           else s.setRs x f (if (mm.feat f).many then addVal (mm.feat f).isList (s.rs x f) y pos else [y])).setRs y g
            (if (mm.feat g).many then appendVal (mm.feat g).isList
              ((if (mm.feat f).cont then
                (s.setRs x f (if (mm.feat f).many then addVal (mm.feat f).isList (s.rs x f) y pos else [y])).setCont y (some (x, f))
               else s.setRs x f (if (mm.feat f).many then addVal (mm.feat f).isList (s.rs x f) y pos else [y])).rs y g) x
             else [x])).setCont x (some (y, g))
        else
          (if (mm.feat f).cont then
            (s.setRs x f (if (mm.feat f).many then addVal (mm.feat f).isList (s.rs x f) y pos else [y])).setCont y (some (x, f))
           else s.setRs x f (if (mm.feat f).many then addVal (mm.feat f).isList (s.rs x f) y pos else [y])).setRs y g
            (if (mm.feat g).many then appendVal (mm.feat g).isList
              ((if (mm.feat f).cont then
                (s.setRs x f (if (mm.feat f).many then addVal (mm.feat f).isList (s.rs x f) y pos else [y])).setCont y (some (x, f))
               else s.setRs x f (if (mm.feat f).many then addVal (mm.feat f).isList (s.rs x f) y pos else [y])).rs y g) x
             else [x]) := by
  rfl

@[simp] theorem linkRaw_eres (s : St) (x f y pos) : (linkRaw mm s x f y pos).eres = s.eres := by
  rw [linkRaw_eq]; (repeat' split) <;> rfl
@[simp] theorem linkRaw_rcont (s : St) (x f y pos) : (linkRaw mm s x f y pos).rcont = s.rcont := by
  rw [linkRaw_eq]; (repeat' split) <;> rfl
@[simp] theorem linkRaw_as (s : St) (x f y pos) : (linkRaw mm s x f y pos).as = s.as := by
  rw [linkRaw_eq]; (repeat' split) <;> rfl
@[simp] theorem linkRaw_nObj (s : St) (x f y pos) : (linkRaw mm s x f y pos).nObj = s.nObj := by
  rw [linkRaw_eq]; (repeat' split) <;> rfl
@[simp] theorem linkRaw_cls (s : St) (x f y pos) : (linkRaw mm s x f y pos).cls = s.cls := by
  rw [linkRaw_eq]; (repeat' split) <;> rfl

theorem linkRaw_rs (hwf : mm.WF) (s : St) (x f y pos a f') :
    (linkRaw mm s x f y pos).rs a f' =
      if (mm.feat f).opp = some f' ∧ a = y then
        (if (mm.feat f').many then appendVal (mm.feat f').isList (s.rs y f') x else [x])
      else if a = x ∧ f' = f then
        (if (mm.feat f).many then addVal (mm.feat f).isList (s.rs x f) y pos else [y])
      else s.rs a f' := by
  rw [linkRaw_eq]
  cases hopp : (mm.feat f).opp with
  | none => simp only []; split <;> simp
  | some g =>
    have hne : f ≠ g := (hwf.opp_mutual f g hopp).2
    simp only []
    split <;> split <;> simp <;> grind

theorem linkRaw_cont (s : St) (x f y pos o) :
    (linkRaw mm s x f y pos).cont o =
      if o = x ∧ ∃ g, (mm.feat f).opp = some g ∧ (mm.feat g).cont = true then
        (match (mm.feat f).opp with | some g => some (y, g) | none => none)
      else if o = y ∧ (mm.feat f).cont = true then some (x, f)
      else s.cont o := by
  rw [linkRaw_eq]
  cases hopp : (mm.feat f).opp with
  | none => simp only []; split <;> simp_all
  | some g => simp only []; split <;> split <;> simp_all <;> grind

/-- membership after `linkRaw` in any slot that is not list-like -/
theorem mem_linkRaw (hwf : mm.WF) (s : St) (x f y pos a f' b) :
    b ∈ (linkRaw mm s x f y pos).rs a f' ↔
      if (mm.feat f).opp = some f' ∧ a = y then
        (b = x ∨ ((mm.feat f').many = true ∧ b ∈ s.rs y f'))
      else if a = x ∧ f' = f then
        (b = y ∨ ((mm.feat f).many = true ∧ b ∈ s.rs x f))
      else b ∈ s.rs a f' := by
  rw [linkRaw_rs mm hwf]
  split
  · split
    · rw [mem_appendVal]; grind
    · simp; grind
  · split
    · split
      · rw [mem_addVal]; grind
      · simp; grind
    · rfl

/-- Preconditions of `linkRaw`: single-valued ends are empty, the ends to be contained have no owner,
the value is not there yet. -/
structure LinkPre (s : St) (x : Oid) (f : Fid) (y : Oid) : Prop where
  p1 : (mm.feat f).many = false → s.rs x f = []
  p2 : ∀ g, (mm.feat f).opp = some g → (mm.feat g).many = false → s.rs y g = []
  p3 : (mm.feat f).cont = true → s.cont y = none ∧ s.eres y = none
  p4 : ∀ g, (mm.feat f).opp = some g → (mm.feat g).cont = true → s.cont x = none ∧ s.eres x = none
  p5 : (mm.feat f).isList = false → y ∉ s.rs x f

theorem linkRaw_sym (hwf : mm.WF) (s : St) (hs : Sym mm s) (x f y pos) (hp : LinkPre mm s x f y) :
    Sym mm (linkRaw mm s x f y pos) := by
  intro f' g' hfg a b
  rw [mem_linkRaw mm hwf, mem_linkRaw mm hwf]
  have h0 := hs f' g' hfg a b
  have hm := hwf.opp_mutual f' g' hfg
  have hmf : ∀ g, (mm.feat f).opp = some g → (mm.feat g).opp = some f ∧ f ≠ g := fun g h => hwf.opp_mutual f g h
  have p1 := hp.p1
  have p2 := hp.p2
  have hsx : ∀ g, (mm.feat f).opp = some g → ∀ b, b ∈ s.rs x f ↔ x ∈ s.rs b g := fun g h b => hs f g h x b
  have hsy : ∀ g, (mm.feat f).opp = some g → ∀ b, b ∈ s.rs y g ↔ y ∈ s.rs b f :=
    fun g h b => hs g f (hmf g h).1 y b
  by_cases hff : f' = f
  · subst hff
    have hg := hfg
    have := hsx g' hfg
    have := hsy g' hfg
    have := p2 g' hfg
    cases hmany : (mm.feat f').many <;> cases hmany' : (mm.feat g').many <;> simp_all <;> grind
  · by_cases hgf : g' = f
    · subst hgf
      have hfg' := hm.1
      have := hsx f' hfg'
      have := hsy f' hfg'
      have := p2 f' hfg'
      cases hmany : (mm.feat g').many <;> cases hmany' : (mm.feat f').many <;> simp_all <;> grind
    · -- neither end of (f', g') is f; it could still be that f' or g' is the opposite of f: then g' = f or f' = f
      have n1 : ¬ ((mm.feat f).opp = some f') := by
        intro h; exact hgf ((Option.some.inj ((hmf f' h).1.symm.trans hfg).symm).symm ▸ rfl)
      have n2 : ¬ ((mm.feat f).opp = some g') := by
        intro h; exact hff ((Option.some.inj ((hmf g' h).1.symm.trans hm.1).symm).symm ▸ rfl)
      simp only [n1, n2, false_and, if_false, hff, hgf, and_false]
      exact h0

end Store

namespace Store
variable (mm : MM)

theorem linkRaw_card (hwf : mm.WF) (s : St) (hc : Card mm s) (x f y pos) (hp : LinkPre mm s x f y) :
    Card mm (linkRaw mm s x f y pos) := by
  intro a f'
  rw [linkRaw_rs mm hwf]
  have h0 := hc a f'
  split
  · rename_i h; obtain ⟨hopp, rfl⟩ := h
    split
    · rename_i hm
      refine ⟨fun h => by simp [hm] at h, fun hl => ?_⟩
      rw [hl]; exact appendVal_nodup _ _ (h0.2 hl)
    · exact ⟨fun _ => by simp, fun _ => by simp⟩
  · split
    · rename_i h; obtain ⟨rfl, rfl⟩ := h
      split
      · rename_i hm
        refine ⟨fun h => by simp [hm] at h, fun hl => ?_⟩
        rw [hl]; exact addVal_nodup _ _ _ (h0.2 hl)
      · exact ⟨fun _ => by simp, fun _ => by simp⟩
    · exact h0

theorem linkRaw_own (hwf : mm.WF) (s : St) (hs : Sym mm s) (ho : Own mm s) (x f y pos)
    (hp : LinkPre mm s x f y) : Own mm (linkRaw mm s x f y pos) := by
  intro o p f'
  rw [linkRaw_cont, mem_linkRaw mm hwf]
  have h0 := ho o p f'
  have p1 := hp.p1
  have p2 := hp.p2
  have p3 := hp.p3
  have p4 := hp.p4
  have p5 := hp.p5
  have hco := hwf.cont_opp
  have hmf : ∀ g, (mm.feat f).opp = some g → (mm.feat g).opp = some f ∧ f ≠ g := fun g h => hwf.opp_mutual f g h
  -- an object without back-pointer is in no containment slot
  have hfree : ∀ o, s.cont o = none → ∀ p f', (mm.feat f').cont = true → o ∉ s.rs p f' := by
    intro o hn p f' hc hm
    have := (ho o p f').2 ⟨hc, hm⟩
    rw [hn] at this; cases this
  have hsx : ∀ g, (mm.feat f).opp = some g → ∀ b, b ∈ s.rs x f ↔ x ∈ s.rs b g := fun g h b => hs f g h x b
  cases hopp : (mm.feat f).opp with
  | none =>
    simp only [hopp, false_and, if_false, reduceCtorEq, exists_false, and_false]
    by_cases hcf : (mm.feat f).cont = true
    · have := p3 hcf
      have hl := isList_false_of_cont mm hwf hcf
      have := p5 hl
      have := hfree y (p3 hcf).1
      grind
    · grind
  | some g =>
    have hgf := hmf g hopp
    have := hsx g hopp
    by_cases hcf : (mm.feat f).cont = true
    · have hg := hco f g hopp hcf
      have := p3 hcf
      have hl := isList_false_of_cont mm hwf hcf
      have := p5 hl
      have := hfree y (p3 hcf).1
      simp only [hopp, Option.some.injEq, exists_eq_left']
      grind
    · by_cases hcg : (mm.feat g).cont = true
      · have hf := hco g f hgf.1 hcg
        have := p4 g hopp hcg
        have := hfree x (p4 g hopp hcg).1
        have hl := isList_false_of_opp mm hwf hopp
        have := p5 hl
        simp only [hopp, Option.some.injEq, exists_eq_left']
        grind
      · simp only [hopp, Option.some.injEq, exists_eq_left']
        grind

theorem linkRaw_resOK (s : St) (hr : ResOK s) (x f y pos) (hp : LinkPre mm s x f y) :
    ResOK (linkRaw mm s x f y pos) := by
  refine ⟨?_, ?_, ?_⟩
  · intro o r; simp only [linkRaw_eres, linkRaw_rcont]; exact hr.1 o r
  · intro r; simp only [linkRaw_rcont]; exact hr.2.1 r
  · intro o h
    simp only [linkRaw_eres]
    rw [linkRaw_cont] at h
    split at h
    · rename_i hc
      obtain ⟨rfl, g, hg, hgc⟩ := hc
      exact (hp.p4 g hg hgc).2
    · split at h
      · rename_i hc; obtain ⟨rfl, hcf⟩ := hc; exact (hp.p3 hcf).2
      · exact hr.2.2 o h

theorem linkRaw_inv (hwf : mm.WF) (s : St) (h : Inv mm s) (x f y pos) (hp : LinkPre mm s x f y) :
    Inv mm (linkRaw mm s x f y pos) :=
  ⟨linkRaw_sym mm hwf s h.1 x f y pos hp, linkRaw_card mm hwf s h.2.1 x f y pos hp,
   linkRaw_own mm hwf s h.1 h.2.2.1 x f y pos hp, linkRaw_resOK mm s h.2.2.2 x f y pos hp⟩

end Store

namespace Store
variable (mm : MM)

/-! ### `link` = release the occupants of single-valued ends, detach what becomes contained, `linkRaw` -/

def relOcc (s : St) (x : Oid) (f : Fid) : St :=
  if (mm.feat f).many then s else
    match s.rs x f with
    | y0 :: _ => unlinkRaw mm s x f y0
    | [] => s

def detachIf (c : Bool) (s : St) (y : Oid) : St := if c then detach mm s y else s

def stealStep (s : St) (x : Oid) (f : Fid) (y : Oid) : St :=
  match (mm.feat f).opp with
  | none => s
  | some g =>
    if (mm.feat g).many then detachIf mm (mm.feat g).cont s x else
      match (detachIf mm (mm.feat g).cont s x).rs y g with
      | x0 :: _ => unlinkRaw mm (detachIf mm (mm.feat g).cont s x) x0 f y
      | [] => detachIf mm (mm.feat g).cont s x

theorem link_eq (s : St) (x f y pos) :
    link mm s x f y pos =
      if y ∈ s.rs x f ∧ (mm.feat f).isList = false then s
      else linkRaw mm (stealStep mm (detachIf mm (mm.feat f).cont (relOcc mm s x f) y) x f y) x f y pos := by
  rfl

theorem relOcc_inv (hwf : mm.WF) (s : St) (h : Inv mm s) (x f) : Inv mm (relOcc mm s x f) := by
  unfold relOcc; split
  · exact h
  · split
    · exact unlinkRaw_inv mm hwf s h _ _ _
    · exact h

theorem relOcc_shrinks (s : St) (x f) : Shrinks s (relOcc mm s x f) := by
  unfold relOcc; split
  · exact Shrinks.refl s
  · split
    · exact unlinkRaw_shrinks mm s _ _ _
    · exact Shrinks.refl s

theorem relOcc_empty (hwf : mm.WF) (s : St) (hc : Card mm s) (x f) (hm : (mm.feat f).many = false) :
    (relOcc mm s x f).rs x f = [] := by
  unfold relOcc
  simp only [hm, Bool.false_eq_true, if_false]
  have hl : (mm.feat f).isList = false := by simp [Feature.isList, hm]
  cases hx : s.rs x f with
  | nil => simpa using hx
  | cons y0 t =>
    simp only []
    have hlen := (hc x f).1 hm
    rw [hx] at hlen
    have ht : t = [] := by
      cases t with
      | nil => rfl
      | cons _ _ => simp at hlen
    subst ht
    rw [unlinkRaw_rs]
    have hmem : y0 ∈ s.rs x f := by rw [hx]; simp
    simp only [hmem, if_true]
    cases hopp : (mm.feat f).opp with
    | none => simp [hx, hl, rmVal]
    | some g =>
      have hne : f ≠ g := (hwf.opp_mutual f g hopp).2
      have : ¬ (x = y0 ∧ f = g) := fun h => hne h.2
      simp [this, hx, hl, rmVal]

theorem detachIf_inv (hwf : mm.WF) (c : Bool) (s : St) (h : Inv mm s) (y) : Inv mm (detachIf mm c s y) := by
  unfold detachIf; split
  · exact detach_inv mm hwf s h y
  · exact h

theorem detachIf_shrinks (c : Bool) (s : St) (y) : Shrinks s (detachIf mm c s y) := by
  unfold detachIf; split
  · exact detach_shrinks mm s y
  · exact Shrinks.refl s

theorem detachIf_free (c : Bool) (s : St) (h : Inv mm s) (y) (hc : c = true) :
    (detachIf mm c s y).cont y = none ∧ (detachIf mm c s y).eres y = none := by
  unfold detachIf; simp only [hc, if_true]; exact detach_free mm s h y

theorem stealStep_inv (hwf : mm.WF) (s : St) (h : Inv mm s) (x f y) : Inv mm (stealStep mm s x f y) := by
  unfold stealStep
  split
  · exact h
  · split
    · exact detachIf_inv mm hwf _ s h x
    · split
      · exact unlinkRaw_inv mm hwf _ (detachIf_inv mm hwf _ s h x) _ _ _
      · exact detachIf_inv mm hwf _ s h x

theorem stealStep_shrinks (s : St) (x f y) : Shrinks s (stealStep mm s x f y) := by
  unfold stealStep
  split
  · exact Shrinks.refl s
  · split
    · exact detachIf_shrinks mm _ s x
    · split
      · exact (detachIf_shrinks mm _ s x).trans (unlinkRaw_shrinks mm _ _ _ _)
      · exact detachIf_shrinks mm _ s x

theorem Shrinks.free {s s' : St} (h : Shrinks s s') {o} (hc : s.cont o = none ∧ s.eres o = none) :
    s'.cont o = none ∧ s'.eres o = none := by
  constructor
  · rcases h.2.1 o with h1 | h1
    · exact h1
    · rw [h1]; exact hc.1
  · rcases h.2.2 o with h1 | h1
    · exact h1
    · rw [h1]; exact hc.2

theorem Shrinks.empty {s s' : St} (h : Shrinks s s') {a f} (he : s.rs a f = []) : s'.rs a f = [] := by
  cases hl : s'.rs a f with
  | nil => rfl
  | cons b t =>
    have := h.1 a f b (by rw [hl]; simp)
    rw [he] at this; cases this

/-- after the steal step a single-valued opposite end of `y` is empty -/
theorem stealStep_p2 (hwf : mm.WF) (s : St) (h : Inv mm s) (x f y g)
    (hopp : (mm.feat f).opp = some g) (hm : (mm.feat g).many = false) :
    (stealStep mm s x f y).rs y g = [] := by
  unfold stealStep
  simp only [hopp, hm, Bool.false_eq_true, if_false]
  have hi := detachIf_inv mm hwf (mm.feat g).cont s h x
  generalize detachIf mm (mm.feat g).cont s x = s' at hi
  have hl : (mm.feat g).isList = false := by simp [Feature.isList, hm]
  have hgf := hwf.opp_mutual f g hopp
  cases hx : s'.rs y g with
  | nil => simpa using hx
  | cons x0 t =>
    simp only []
    have hlen := (hi.2.1 y g).1 hm
    rw [hx] at hlen
    have ht : t = [] := by
      cases t with
      | nil => rfl
      | cons _ _ => simp at hlen
    subst ht
    have hmem : y ∈ s'.rs x0 f := (hi.1 g f hgf.1 y x0).1 (by rw [hx]; simp)
    rw [unlinkRaw_rs]
    simp only [hmem, if_true, hopp, true_and]
    have : ¬ (y = x0 ∧ g = f) := fun h => hgf.2 h.2.symm
    simp [this, hx, hl, rmVal]

/-- after the steal step, if the opposite is a containment, `x` has no owner -/
theorem stealStep_p4 (hwf : mm.WF) (s : St) (h : Inv mm s) (x f y g)
    (hopp : (mm.feat f).opp = some g) (hc : (mm.feat g).cont = true) :
    (stealStep mm s x f y).cont x = none ∧ (stealStep mm s x f y).eres x = none := by
  have hfree := detachIf_free mm (mm.feat g).cont s h x hc
  unfold stealStep
  simp only [hopp]
  split
  · exact hfree
  · split
    · exact (unlinkRaw_shrinks mm _ _ _ _).free hfree
    · exact hfree

theorem link_inv (hwf : mm.WF) (s : St) (h : Inv mm s) (x f y pos) : Inv mm (link mm s x f y pos) := by
  rw [link_eq]
  split
  · exact h
  · rename_i hnot
    have i1 := relOcc_inv mm hwf s h x f
    have i2 := detachIf_inv mm hwf (mm.feat f).cont _ i1 y
    have i3 := stealStep_inv mm hwf _ i2 x f y
    have sh1 := relOcc_shrinks mm s x f
    have sh2 := detachIf_shrinks mm (mm.feat f).cont (relOcc mm s x f) y
    have sh3 := stealStep_shrinks mm (detachIf mm (mm.feat f).cont (relOcc mm s x f) y) x f y
    refine linkRaw_inv mm hwf _ i3 x f y pos ⟨?_, ?_, ?_, ?_, ?_⟩
    · intro hm
      exact (sh2.trans sh3).empty (relOcc_empty mm hwf s h.2.1 x f hm)
    · intro g hopp hm
      exact stealStep_p2 mm hwf _ i2 x f y g hopp hm
    · intro hc
      exact sh3.free (detachIf_free mm _ _ i1 y hc)
    · intro g hopp hc
      exact stealStep_p4 mm hwf _ i2 x f y g hopp hc
    · intro hl hmem
      have := (sh1.trans (sh2.trans sh3)).1 x f y hmem
      exact hnot ⟨this, hl⟩

end Store
