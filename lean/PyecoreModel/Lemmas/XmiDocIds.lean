import PyecoreModel.Lemmas.XmiDocRefs
/-! Key addressing (uuids, id attributes): the document-order enumeration of a forest, canonical paths, and the proof
    that a key resolves in the loaded forest to the object it was written for (C08, C09). -/
namespace XDoc
open Xmi

def extP (p : Path) (f : Str) (i : Option Nat) : Path := { p with segs := p.segs ++ [(f, i)] }
def extPs (p : Path) (segs : List (Str × Option Nat)) : Path := { p with segs := p.segs ++ segs }

def idxOf (fi : FInfo) (j : Nat) : Option Nat := if fi.many then some j else Option.none

/-- the nodes below (and including) `n`, with their paths; children are taken feature by feature, in the order of the
    metamodel's containment features (document order of a normal form) -/
def nodesV {ρ : Type} (mm : MMX) : Nat → Path → SNode ρ → List (Path × SNode ρ)
  | 0, _, _ => []
  | fuel + 1, p, n =>
    (p, n) :: ((mm.feats n.cls).filter fun fi => fi.kind = .cont).flatMap fun fi =>
      (kidsVia n fi.name).zipIdx.flatMap fun ki => nodesV mm fuel (extP p fi.name (idxOf fi ki.2)) ki.1

/-- canonical paths: every step goes through a containment feature of the class, indexed iff many-valued -/
inductive CF {ρ : Type} (mm : MMX) : SNode ρ → List (Str × Option Nat) → SNode ρ → Prop
  | nil (n : SNode ρ) : CF mm n [] n
  | cons (n : SNode ρ) (fi : FInfo) (j : Nat) (k : SNode ρ) (t : List (Str × Option Nat)) (m : SNode ρ)
      (hfi : fi ∈ mm.feats n.cls) (hc : fi.kind = .cont) (hk : (kidsVia n fi.name)[j]? = some k) (ht : CF mm k t m) :
      CF mm n ((fi.name, idxOf fi j) :: t) m

theorem extPs_nil (p : Path) : extPs p [] = p := by cases p; simp [extPs]
theorem extPs_cons (p : Path) (f : Str) (i : Option Nat) (t : List (Str × Option Nat)) :
    extPs (extP p f i) t = extPs p ((f, i) :: t) := by
  cases p; simp [extPs, extP]

theorem nodesV_iff {ρ : Type} (mm : MMX) (fuel : Nat) :
    ∀ (p : Path) (n : SNode ρ) (q : Path) (m : SNode ρ),
      (q, m) ∈ nodesV mm fuel p n ↔ ∃ segs, segs.length < fuel ∧ q = extPs p segs ∧ CF mm n segs m := by
  induction fuel with
  | zero => intro p n q m; simp [nodesV]
  | succ fuel ih =>
    intro p n q m
    simp only [nodesV, List.mem_cons, List.mem_flatMap, List.mem_filter]
    constructor
    · rintro (h | ⟨fi, ⟨hfi, hc⟩, ki, hki, hmem⟩)
      · cases h
        exact ⟨[], by simp, (extPs_nil p).symm, CF.nil n⟩
      · obtain ⟨segs, hl, hq, hcf⟩ := (ih _ _ _ _).mp hmem
        obtain ⟨k, j⟩ := ki
        have hk : (kidsVia n fi.name)[j]? = some k := by
          have := List.mem_zipIdx_iff_getElem?.mp hki
          simpa using this
        refine ⟨(fi.name, idxOf fi j) :: segs, by simp; omega, ?_, CF.cons n fi j k segs m hfi (by simpa using hc) hk hcf⟩
        rw [hq, extPs_cons]
    · rintro ⟨segs, hl, hq, hcf⟩
      cases hcf with
      | nil => left; rw [hq, extPs_nil]
      | cons _ fi j k t _ hfi hc hk ht =>
        right
        refine ⟨fi, ⟨hfi, by simpa using hc⟩, (k, j), ?_, ?_⟩
        · exact List.mem_zipIdx_iff_getElem?.mpr (by simpa using hk)
        · apply (ih _ _ _ _).mpr
          exact ⟨t, by simp at hl; omega, by rw [hq, extPs_cons], ht⟩

end XDoc

namespace XDoc
open Xmi

mutual
def sizeN {ρ : Type} : SNode ρ → Nat
  | .mk _ _ _ _ kids => 1 + sizeL kids
def sizeL {ρ : Type} : List (SNode ρ) → Nat
  | [] => 0
  | k :: t => sizeN k + sizeL t
end

theorem sizeN_pos {ρ : Type} (n : SNode ρ) : 0 < sizeN n := by cases n; simp [sizeN]; omega

theorem sizeL_mem {ρ : Type} (l : List (SNode ρ)) (k : SNode ρ) (h : k ∈ l) : sizeN k ≤ sizeL l := by
  induction l with
  | nil => cases h
  | cons a t ih =>
    simp only [sizeL]
    rcases List.mem_cons.mp h with rfl | h
    · omega
    · have := ih h; omega

theorem sizeN_kid {ρ : Type} (n k : SNode ρ) (h : k ∈ n.kids) : sizeN k < sizeN n := by
  cases n with
  | mk via cls uuid slots kids =>
    simp only [SNode.kids] at h
    simp only [sizeN]
    have := sizeL_mem kids k h
    omega

theorem CF_depth {ρ : Type} (mm : MMX) (n : SNode ρ) (segs : List (Str × Option Nat)) (m : SNode ρ) (h : CF mm n segs m) :
    segs.length < sizeN n := by
  induction h with
  | nil n => simpa using sizeN_pos n
  | cons n fi j k t m _ _ hk _ ih =>
    have hkm : k ∈ n.kids := (List.mem_filter.mp (List.mem_of_getElem? hk)).1
    have := sizeN_kid n k hkm
    simp only [List.length_cons]
    omega

/-- every node of a forest with its canonical path -/
def allNodesV {ρ : Type} (mm : MMX) (roots : List (SNode ρ)) : List (Path × SNode ρ) :=
  roots.zipIdx.flatMap fun ri => nodesV mm (sizeN ri.1) ⟨ri.2, []⟩ ri.1

theorem allNodesV_iff {ρ : Type} (mm : MMX) (roots : List (SNode ρ)) (q : Path) (m : SNode ρ) :
    (q, m) ∈ allNodesV mm roots ↔ ∃ r, roots[q.root]? = some r ∧ CF mm r q.segs m := by
  unfold allNodesV
  simp only [List.mem_flatMap]
  constructor
  · rintro ⟨⟨r, i⟩, hri, hmem⟩
    have hr : roots[i]? = some r := by simpa using List.mem_zipIdx_iff_getElem?.mp hri
    obtain ⟨segs, _, hq, hcf⟩ := (nodesV_iff mm _ _ _ _ _).mp hmem
    subst hq
    exact ⟨r, by simpa [extPs] using hr, by simpa [extPs] using hcf⟩
  · rintro ⟨r, hr, hcf⟩
    refine ⟨(r, q.root), List.mem_zipIdx_iff_getElem?.mpr (by simpa using hr), ?_⟩
    apply (nodesV_iff mm _ _ _ _ _).mpr
    refine ⟨q.segs, CF_depth mm r q.segs m hcf, ?_, hcf⟩
    cases q; simp [extPs]

/-- a single-valued containment feature holds at most one child (part of well-formedness) -/
def SingleOK {ρ : Type} (mm : MMX) : SNode ρ → Prop
  | n => ∀ fi ∈ mm.feats n.cls, fi.kind = .cont → fi.many = false → (kidsVia n fi.name).length ≤ 1

theorem WFG_single {ρ : Type} {P : ρ → Prop} (mm : MMX) (n : SNode ρ) (h : WFG mm P n) : SingleOK mm n := by
  cases h with
  | mk via cls uuid slots kids hc hnd hs hk hk2 h1 =>
    intro fi hfi hkc hm
    exact h1 fi hfi hkc hm

theorem WFG_kid {ρ : Type} {P : ρ → Prop} (mm : MMX) (n k : SNode ρ) (h : WFG mm P n) (hk : k ∈ n.kids) : WFG mm P k := by
  cases h with
  | mk via cls uuid slots kids hc hnd hs hkids hk2 h1 => exact hkids k hk

/-- a canonical path is followed by `follow` -/
theorem CF_follow {ρ : Type} {P : ρ → Prop} (mm : MMX) (n : SNode ρ) (segs : List (Str × Option Nat)) (m : SNode ρ)
    (h : CF mm n segs m) (hwf : WFG mm P n) : follow n segs = some m := by
  induction h with
  | nil n => rfl
  | cons n fi j k t m hfi hc hk _ ih =>
    have hkm : k ∈ n.kids := (List.mem_filter.mp (List.mem_of_getElem? hk)).1
    have hj : (idxOf fi j).getD 0 = j := by
      unfold idxOf
      cases hm : fi.many with
      | true => simp
      | false =>
        simp only [Bool.false_eq_true, if_false, Option.getD_none]
        have := WFG_single mm n hwf fi hfi hc hm
        have hlt := (List.getElem?_eq_some_iff.mp hk).1
        omega
    simp only [follow, hj, hk]
    exact ih (WFG_kid mm n k hwf hkm)

end XDoc

namespace XDoc
open Xmi

@[simp] theorem eff_cls {ρ : Type} (mm : MMX) (o : Opts) (top : Bool) (n : SNode ρ) : (eff mm o top n).cls = n.cls := by
  cases n; simp [eff, SNode.cls]

@[simp] theorem mapT_cls {ρ σ : Type} (g : ρ → σ) (n : SNode ρ) : (mapT g n).cls = n.cls := by
  cases n; simp [mapT, SNode.cls]

theorem CF_inv_nil {ρ : Type} (mm : MMX) (n m : SNode ρ) (h : CF mm n [] m) : m = n := by
  cases h; rfl

theorem CF_inv_cons {ρ : Type} (mm : MMX) (n m : SNode ρ) (s : Str × Option Nat) (t : List (Str × Option Nat))
    (h : CF mm n (s :: t) m) :
    ∃ fi j k, fi ∈ mm.feats n.cls ∧ fi.kind = .cont ∧ (kidsVia n fi.name)[j]? = some k ∧ s = (fi.name, idxOf fi j) ∧ CF mm k t m := by
  cases h with
  | cons _ fi j k _ _ hfi hc hk ht => exact ⟨fi, j, k, hfi, hc, hk, rfl, ht⟩

theorem CF_eff_fwd {ρ : Type} {P : ρ → Prop} (mm : MMX) (o : Opts) (hmm : MMOK mm) (n : SNode ρ) (segs : List (Str × Option Nat))
    (m : SNode ρ) (h : CF mm n segs m) :
    ∀ top, WFG mm P n → ∃ b, CF mm (eff mm o top n) segs (eff mm o b m) := by
  induction h with
  | nil n => intro top _; exact ⟨top, CF.nil _⟩
  | cons n fi j k t m hfi hc hk _ ih =>
    intro top hwf
    have hkm : k ∈ n.kids := (List.mem_filter.mp (List.mem_of_getElem? hk)).1
    obtain ⟨b, hb⟩ := ih false (WFG_kid mm n k hwf hkm)
    refine ⟨b, CF.cons _ fi j (eff mm o false k) t _ (by simpa using hfi) hc ?_ hb⟩
    rw [kidsVia_eff mm o hmm top n hwf, List.getElem?_map, hk]; rfl

theorem CF_eff_bwd {ρ : Type} {P : ρ → Prop} (mm : MMX) (o : Opts) (hmm : MMOK mm) (segs : List (Str × Option Nat)) :
    ∀ (top : Bool) (n : SNode ρ) (m' : SNode ρ), WFG mm P n → CF mm (eff mm o top n) segs m' →
      ∃ m b, CF mm n segs m ∧ m' = eff mm o b m := by
  induction segs with
  | nil =>
    intro top n m' _ h
    exact ⟨n, top, CF.nil n, CF_inv_nil mm _ _ h⟩
  | cons s t ih =>
    intro top n m' hwf h
    obtain ⟨fi, j, k', hfi, hc, hk, hs, ht⟩ := CF_inv_cons mm _ _ s t h
    rw [kidsVia_eff mm o hmm top n hwf, List.getElem?_map] at hk
    cases hk0 : (kidsVia n fi.name)[j]? with
    | none => rw [hk0] at hk; cases hk
    | some k =>
      rw [hk0] at hk
      simp only [Option.map_some, Option.some.injEq] at hk
      subst hk
      have hkm : k ∈ n.kids := (List.mem_filter.mp (List.mem_of_getElem? hk0)).1
      obtain ⟨m, b, hcf, hm⟩ := ih false k m' (WFG_kid mm n k hwf hkm) ht
      exact ⟨m, b, by rw [hs]; exact CF.cons n fi j k t m (by simpa using hfi) hc hk0 hcf, hm⟩

theorem CF_mapT_fwd {ρ σ : Type} (mm : MMX) (g : ρ → σ) (n : SNode ρ) (segs : List (Str × Option Nat)) (m : SNode ρ)
    (h : CF mm n segs m) : CF mm (mapT g n) segs (mapT g m) := by
  induction h with
  | nil n => exact CF.nil _
  | cons n fi j k t m hfi hc hk _ ih =>
    refine CF.cons _ fi j (mapT g k) t _ (by simpa using hfi) hc ?_ ih
    rw [kidsVia_mapT, List.getElem?_map, hk]; rfl

theorem CF_mapT_bwd {ρ σ : Type} (mm : MMX) (g : ρ → σ) (segs : List (Str × Option Nat)) :
    ∀ (n : SNode ρ) (m' : SNode σ), CF mm (mapT g n) segs m' → ∃ m, CF mm n segs m ∧ m' = mapT g m := by
  induction segs with
  | nil => intro n m' h; exact ⟨n, CF.nil n, CF_inv_nil mm _ _ h⟩
  | cons s t ih =>
    intro n m' h
    obtain ⟨fi, j, k', hfi, hc, hk, hs, ht⟩ := CF_inv_cons mm _ _ s t h
    rw [kidsVia_mapT, List.getElem?_map] at hk
    cases hk0 : (kidsVia n fi.name)[j]? with
    | none => rw [hk0] at hk; cases hk
    | some k =>
      rw [hk0] at hk
      simp only [Option.map_some, Option.some.injEq] at hk
      subst hk
      obtain ⟨m, hcf, hm⟩ := ih k m' ht
      exact ⟨m, by rw [hs]; exact CF.cons n fi j k t m (by simpa using hfi) hc hk0 hcf, hm⟩

end XDoc

namespace XDoc
open Xmi

theorem idValue_none {ρ : Type} (mm : MMX) (n : SNode ρ) (hid : ∀ c, ∀ fi ∈ mm.feats c, fi.isId = false) :
    idValue mm n = Option.none := by
  unfold idValue
  have hf : (mm.feats n.cls).find? (fun fi => fi.isId && decide (fi.kind = .attr)) = Option.none := by
    apply List.find?_eq_none.mpr
    intro fi hfi
    simp [hid n.cls fi hfi]
  rw [hf]

/-- `uuid_dict` over the canonical enumeration -/
def idTableV {ρ : Type} (mm : MMX) (o : Opts) (roots : List (SNode ρ)) : List (Str × Path) :=
  (allNodesV mm roots).flatMap fun pn =>
    (if o.uuid then [(pn.2.uuid, pn.1)] else []) ++
    (match idValue mm pn.2 with | some s => [(s, pn.1)] | Option.none => [])

theorem lookupId_of_unique {β : Type} (tbl : List (Str × β)) (k : Str) (b : β)
    (hex : (k, b) ∈ tbl) (hun : ∀ e ∈ tbl, e.1 = k → e.2 = b) : lookupId tbl k = some b := by
  unfold lookupId
  have hmem : (k, b) ∈ tbl.reverse := List.mem_reverse.mpr hex
  cases hf : tbl.reverse.find? (fun p => p.1 == k) with
  | none =>
    have := List.find?_eq_none.mp hf (k, b) hmem
    simp at this
  | some e =>
    have he := List.find?_some hf
    have hem : e ∈ tbl := List.mem_reverse.mp (List.mem_of_find?_eq_some hf)
    have : e.2 = b := hun e hem (by simpa using he)
    simp [this]

@[simp] theorem eff_uuid {ρ : Type} (mm : MMX) (o : Opts) (b : Bool) (n : SNode ρ) :
    (eff mm o b n).uuid = if o.uuid then n.uuid else [] := by
  cases n; simp [eff, SNode.uuid]

@[simp] theorem mapT_uuid {ρ σ : Type} (g : ρ → σ) (n : SNode ρ) : (mapT g n).uuid = n.uuid := by
  cases n; simp [mapT, SNode.uuid]

/-- what makes a uuid usable as a token -/
def UuidTok (u : Str) : Prop := u.contains '#' = false ∧ ∃ c t, u = c :: t ∧ c ≠ '/'

/-- the uuid of the object at a canonical path is a key of the loaded forest's table, and every entry under that key
    points to that path -/
theorem uuid_entry {P : Path → Prop} (mm : MMX) (o : Opts) (hmm : MMOK mm) (roots : List (SNode Path)) (g : Path → Str)
    (hu : o.uuid = true) (hid : ∀ c, ∀ fi ∈ mm.feats c, fi.isId = false)
    (hwf : ∀ r ∈ roots, WFG mm P r)
    (hdist : ∀ q m q' m', (q, m) ∈ allNodesV mm roots → (q', m') ∈ allNodesV mm roots → m.uuid = m'.uuid → q = q')
    (p : Path) (n : SNode Path) (hp : (p, n) ∈ allNodesV mm roots) :
    (n.uuid, p) ∈ idTableV mm o (roots.map fun r => eff mm o true (mapT g r)) ∧
    ∀ e ∈ idTableV mm o (roots.map fun r => eff mm o true (mapT g r)), e.1 = n.uuid → e.2 = p := by
  -- membership of every node of the loaded forest, in terms of the original one
  have hE : ∀ q m', (q, m') ∈ allNodesV mm (roots.map fun r => eff mm o true (mapT g r)) →
      ∃ m, (q, m) ∈ allNodesV mm roots ∧ m'.uuid = m.uuid := by
    intro q m' hm
    obtain ⟨r', hr', hcf⟩ := (allNodesV_iff mm _ q m').mp hm
    rw [List.getElem?_map] at hr'
    cases hr0 : roots[q.root]? with
    | none => rw [hr0] at hr'; cases hr'
    | some r =>
      rw [hr0] at hr'
      simp only [Option.map_some, Option.some.injEq] at hr'
      subst hr'
      have hrm : r ∈ roots := List.mem_of_getElem? hr0
      have hwfm : WFG mm (fun _ => True) (mapT g r) := WFG_mapT mm P (fun _ => True) g (fun _ _ => trivial) r (hwf r hrm)
      obtain ⟨m1, b, hcf1, hm1⟩ := CF_eff_bwd mm o hmm q.segs true (mapT g r) m' hwfm hcf
      obtain ⟨m0, hcf0, hm0⟩ := CF_mapT_bwd mm g q.segs r m1 hcf1
      refine ⟨m0, (allNodesV_iff mm roots q m0).mpr ⟨r, hr0, hcf0⟩, ?_⟩
      rw [hm1, hm0]; simp [hu]
  have hEfwd : ∃ m', (p, m') ∈ allNodesV mm (roots.map fun r => eff mm o true (mapT g r)) ∧ m'.uuid = n.uuid := by
    obtain ⟨r, hr0, hcf⟩ := (allNodesV_iff mm roots p n).mp hp
    have hrm : r ∈ roots := List.mem_of_getElem? hr0
    have hwfm : WFG mm (fun _ => True) (mapT g r) := WFG_mapT mm P (fun _ => True) g (fun _ _ => trivial) r (hwf r hrm)
    obtain ⟨b, hb⟩ := CF_eff_fwd mm o hmm (mapT g r) p.segs (mapT g n) (CF_mapT_fwd mm g r p.segs n hcf) true hwfm
    refine ⟨eff mm o b (mapT g n), (allNodesV_iff mm _ p _).mpr ⟨eff mm o true (mapT g r), ?_, hb⟩, by simp [hu]⟩
    rw [List.getElem?_map, hr0]; rfl
  obtain ⟨m', hm'mem, hm'uuid⟩ := hEfwd
  constructor
  · unfold idTableV
    apply List.mem_flatMap.mpr
    refine ⟨(p, m'), hm'mem, ?_⟩
    simp [hu, hm'uuid]
  · intro e he hek
    unfold idTableV at he
    obtain ⟨⟨q, mq⟩, hq, hin⟩ := List.mem_flatMap.mp he
    have hidn : idValue mm mq = Option.none := idValue_none mm mq hid
    simp only [hu, if_true, hidn, List.append_nil, List.mem_singleton] at hin
    subst hin
    simp only at hek ⊢
    obtain ⟨m0, hm0, hmu⟩ := hE q mq hq
    exact (hdist p n q m0 hp hm0 (by rw [← hmu, hek])).symm

end XDoc

namespace XDoc
open Xmi


/-- index of a child in the fragment of its parent, as `nodesFrom` computes it -/
def idxD (mm : MMX) (pcls : Nat) (f : Str) (j : Nat) : Option Nat :=
  if ((mm.find pcls f).map (·.many)).getD true then some j else Option.none

/-- document-order paths: the `j`-th child, indexed by the number of earlier siblings under the same feature -/
inductive CFd {ρ : Type} (mm : MMX) : SNode ρ → List (Str × Option Nat) → SNode ρ → Prop
  | nil (n : SNode ρ) : CFd mm n [] n
  | cons (n : SNode ρ) (j : Nat) (k : SNode ρ) (t : List (Str × Option Nat)) (m : SNode ρ)
      (hk : n.kids[j]? = some k) (ht : CFd mm k t m) :
      CFd mm n ((k.via, idxD mm n.cls k.via (((n.kids.take j).filter fun x => x.via == k.via).length)) :: t) m


mutual
theorem nodesFrom_iff {ρ : Type} (mm : MMX) : (n : SNode ρ) → ∀ (p q : Path) (m : SNode ρ),
    (q, m) ∈ nodesFrom mm p n ↔ ∃ segs, q = extPs p segs ∧ CFd mm n segs m
  | .mk via cls uuid slots kids => by
    intro p q m
    rw [nodesFrom]
    simp only [List.mem_cons]
    rw [kidsFrom_iff mm kids p cls [] q m]
    constructor
    · rintro (h | ⟨j, k, segs, hk, hq, hc⟩)
      · refine ⟨[], ?_, ?_⟩
        · simp only [Prod.mk.injEq] at h; rw [extPs_nil]; exact h.1
        · simp only [Prod.mk.injEq] at h; rw [h.2]; exact CFd.nil _
      · refine ⟨_, hq, ?_⟩
        have := CFd.cons (mm := mm) (.mk via cls uuid slots kids) j k segs m hk hc
        simpa [SNode.kids, SNode.cls] using this
    · rintro ⟨segs, hq, hc⟩
      cases hc with
      | nil => left; rw [hq, extPs_nil]
      | cons _ j k t _ hk ht =>
        right
        refine ⟨j, k, t, hk, ?_, ht⟩
        rw [hq]; simp [SNode.kids, SNode.cls]
theorem kidsFrom_iff {ρ : Type} (mm : MMX) : (l : List (SNode ρ)) → ∀ (p : Path) (pcls : Nat) (seen : List Str) (q : Path) (m : SNode ρ),
    (q, m) ∈ kidsFrom mm p pcls seen l ↔ ∃ j k segs, l[j]? = some k ∧
      q = extPs p ((k.via, idxD mm pcls k.via (seen.count k.via + ((l.take j).filter fun x => x.via == k.via).length)) :: segs) ∧
      CFd mm k segs m
  | [] => by intro p pcls seen q m; simp [kidsFrom]
  | k :: t => by
    intro p pcls seen q m
    rw [kidsFrom]
    simp only [List.mem_append]
    rw [nodesFrom_iff mm k, kidsFrom_iff mm t]
    constructor
    · rintro (⟨segs, hq, hc⟩ | ⟨j, k', segs, hk', hq, hc⟩)
      · refine ⟨0, k, segs, rfl, ?_, hc⟩
        rw [hq, ← extPs_cons]
        simp [extP, idxD]
      · refine ⟨j + 1, k', segs, by simpa using hk', ?_, hc⟩
        rw [hq]
        congr 3
        simp only [List.take_succ_cons, List.filter_cons, List.count_cons]
        by_cases hv : k.via = k'.via
        · simp [hv]; congr 1; omega
        · have : (k.via == k'.via) = false := by simpa using hv
          simp [this]
    · rintro ⟨j, k', segs, hk', hq, hc⟩
      cases j with
      | zero =>
        simp only [List.getElem?_cons_zero, Option.some.injEq] at hk'
        subst hk'
        left
        refine ⟨segs, ?_, hc⟩
        rw [hq, ← extPs_cons]
        simp [extP, idxD]
      | succ j =>
        right
        refine ⟨j, k', segs, by simpa using hk', ?_, hc⟩
        rw [hq]
        congr 3
        simp only [List.take_succ_cons, List.filter_cons, List.count_cons]
        by_cases hv : k.via = k'.via
        · simp [hv]; congr 1; omega
        · have : (k.via == k'.via) = false := by simpa using hv
          simp [this]
end

end XDoc

namespace XDoc
open Xmi

theorem filter_getElem_of {α : Type} (p : α → Bool) : ∀ (l : List α) (j : Nat) (k : α), l[j]? = some k → p k = true →
    (l.filter p)[((l.take j).filter p).length]? = some k
  | [], j, k, h, _ => by simp at h
  | a :: t, 0, k, h, hp => by
    simp only [List.getElem?_cons_zero, Option.some.injEq] at h
    subst h
    simp [hp]
  | a :: t, j + 1, k, h, hp => by
    simp only [List.getElem?_cons_succ] at h
    have ih := filter_getElem_of p t j k h hp
    simp only [List.take_succ_cons, List.filter_cons]
    by_cases ha : p a = true
    · simp only [ha, if_true, List.length_cons, List.getElem?_cons_succ]; exact ih
    · have : p a = false := by simpa using ha
      simp only [this, Bool.false_eq_true, if_false]; exact ih

theorem filter_getElem_inv {α : Type} (p : α → Bool) : ∀ (l : List α) (i : Nat) (k : α), (l.filter p)[i]? = some k →
    ∃ j, l[j]? = some k ∧ ((l.take j).filter p).length = i ∧ p k = true
  | [], i, k, h => by simp at h
  | a :: t, i, k, h => by
    simp only [List.filter_cons] at h
    by_cases ha : p a = true
    · simp only [ha, if_true] at h
      cases i with
      | zero =>
        simp only [List.getElem?_cons_zero, Option.some.injEq] at h
        subst h
        exact ⟨0, by simp, by simp, ha⟩
      | succ i =>
        simp only [List.getElem?_cons_succ] at h
        obtain ⟨j, hj, hl, hp⟩ := filter_getElem_inv p t i k h
        exact ⟨j + 1, by simpa using hj, by simp [ha, hl], hp⟩
    · have hf : p a = false := by simpa using ha
      simp only [hf, Bool.false_eq_true, if_false] at h
      obtain ⟨j, hj, hl, hp⟩ := filter_getElem_inv p t i k h
      exact ⟨j + 1, by simpa using hj, by simp [hf, hl], hp⟩

/-- a canonical path is a document-order path -/
theorem CF_to_CFd {ρ : Type} (mm : MMX) (hmm : MMOK mm) (n : SNode ρ) (segs : List (Str × Option Nat)) (m : SNode ρ)
    (h : CF mm n segs m) : CFd mm n segs m := by
  induction h with
  | nil n => exact CFd.nil n
  | cons n fi j k t m hfi hc hk ht ih =>
    unfold kidsVia at hk
    obtain ⟨j', hj', hl, hp⟩ := filter_getElem_inv _ n.kids j k hk
    have hv : k.via = fi.name := by simpa using hp
    have := CFd.cons (mm := mm) n j' k t m hj' ih
    rw [hv] at this
    rw [hl] at this
    have hidx : idxD mm n.cls fi.name j = idxOf fi j := by
      unfold idxD idxOf
      rw [hmm.findSelf n.cls fi hfi]; rfl
    rw [hidx] at this
    exact this

/-- the children of a normal form: each is the normal form of a child, filed under a containment feature of the class -/
theorem eff_kid {ρ : Type} (mm : MMX) (o : Opts) (b : Bool) (n : SNode ρ) (k' : SNode ρ) (h : k' ∈ (eff mm o b n).kids) :
    ∃ fi ∈ mm.feats n.cls, fi.kind = .cont ∧ k'.via = fi.name ∧ ∃ k ∈ n.kids, k' = eff mm o false k := by
  cases n with
  | mk via cls uuid slots kids =>
    simp only [eff, SNode.kids, effKids_eq_map] at h
    obtain ⟨fi, hfi, hk⟩ := List.mem_flatMap.mp h
    obtain ⟨hfm, hfc⟩ := List.mem_filter.mp hfi
    obtain ⟨hkm, hkv⟩ := List.mem_filter.mp hk
    obtain ⟨k, hk0, hke⟩ := List.mem_map.mp hkm
    exact ⟨fi, hfm, by simpa using hfc, by simpa using hkv, k, hk0, hke.symm⟩

/-- in a normal form, a document-order path is a canonical path -/
theorem CFd_eff_CF {ρ : Type} (mm : MMX) (o : Opts) (hmm : MMOK mm) (segs : List (Str × Option Nat)) :
    ∀ (b : Bool) (n : SNode ρ) (m' : SNode ρ), CFd mm (eff mm o b n) segs m' → CF mm (eff mm o b n) segs m' := by
  induction segs with
  | nil => intro b n m' h; cases h; exact CF.nil _
  | cons s t ih =>
    intro b n m' h
    cases h with
    | cons _ j k' _ _ hk ht =>
      obtain ⟨fi, hfm, hfc, hv, k, _, hke⟩ := eff_kid mm o b n k' (List.mem_of_getElem? hk)
      subst hke
      have ht' := ih false k m' ht
      have hcls : (eff mm o b n).cls = n.cls := eff_cls mm o b n
      have hfm' : fi ∈ mm.feats (eff mm o b n).cls := by rw [hcls]; exact hfm
      have hget := filter_getElem_of (fun x : SNode ρ => x.via == fi.name) (eff mm o b n).kids j _ hk (by simpa using hv)
      have := CF.cons (mm := mm) (eff mm o b n) fi _ _ t m' hfm' hfc hget ht'
      rw [hv]
      have hidx : ∀ c, idxD mm (eff mm o b n).cls fi.name c = idxOf fi c := by
        intro c; unfold idxD idxOf
        rw [hmm.findSelf _ fi hfm']; rfl
      rw [hidx]
      exact this

theorem allNodes_iff {ρ : Type} (mm : MMX) (roots : List (SNode ρ)) (q : Path) (m : SNode ρ) :
    (q, m) ∈ allNodes mm roots ↔ ∃ r, roots[q.root]? = some r ∧ CFd mm r q.segs m := by
  unfold allNodes
  constructor
  · intro h
    obtain ⟨⟨r, i⟩, hri, hm⟩ := List.mem_flatMap.mp h
    simp only at hm
    obtain ⟨segs, hq, hc⟩ := (nodesFrom_iff mm r ⟨i, []⟩ q m).mp hm
    have hi := List.mem_zipIdx hri
    subst hq
    refine ⟨r, ?_, by simpa [extPs] using hc⟩
    simp only [extPs]
    have h3 := hi.2.2
    simp only [Nat.sub_zero] at h3
    simp [h3]
  · rintro ⟨r, hr, hc⟩
    apply List.mem_flatMap.mpr
    refine ⟨(r, q.root), ?_, ?_⟩
    · have := List.mk_mem_zipIdx_iff_getElem? (l := roots) (x := r) (i := q.root)
      exact this.mpr hr
    · simp only
      apply (nodesFrom_iff mm r ⟨q.root, []⟩ q m).mpr
      exact ⟨q.segs, by cases q; simp [extPs], hc⟩

end XDoc

namespace XDoc
open Xmi

/-- in a well-formed tree, a document-order path is a canonical path -/
theorem CFd_WFG_CF {ρ : Type} {P : ρ → Prop} (mm : MMX) (segs : List (Str × Option Nat)) :
    ∀ (n : SNode ρ) (m : SNode ρ), WFG mm P n → CFd mm n segs m → CF mm n segs m := by
  induction segs with
  | nil => intro n m _ h; cases h; exact CF.nil _
  | cons s t ih =>
    intro n m hwf h
    cases h with
    | cons _ j k _ _ hk ht =>
      have hkm : k ∈ n.kids := List.mem_of_getElem? hk
      have ht' := ih k m (WFG_kid mm n k hwf hkm) ht
      have hfind : ∃ fi, mm.find n.cls k.via = some fi ∧ fi.kind = .cont := by
        cases hwf with
        | mk via cls uuid slots kids hc hnd hs hkw hk2 h1 =>
          obtain ⟨fi, hf, hkc, _⟩ := hk2 k hkm
          exact ⟨fi, hf, hkc⟩
      obtain ⟨fi, hf, hkc⟩ := hfind
      obtain ⟨hname, hmem⟩ := find_name mm n.cls k.via fi hf
      have hget := filter_getElem_of (fun x : SNode ρ => x.via == fi.name) n.kids j k hk (by simp [hname])
      have := CF.cons (mm := mm) n fi _ k t m hmem hkc hget ht'
      have hidx : ∀ c, idxD mm n.cls k.via c = idxOf fi c := by
        intro c; unfold idxD idxOf; rw [hf]; rfl
      rw [hidx, ← hname]
      exact this

/-- on well-formed forests the document-order enumeration and the canonical one have the same members -/
theorem allNodes_V_of_WFG {ρ : Type} {P : ρ → Prop} (mm : MMX) (hmm : MMOK mm) (roots : List (SNode ρ))
    (hwf : ∀ r ∈ roots, WFG mm P r) (q : Path) (m : SNode ρ) :
    (q, m) ∈ allNodes mm roots ↔ (q, m) ∈ allNodesV mm roots := by
  rw [allNodes_iff, allNodesV_iff]
  constructor
  · rintro ⟨r, hr, hc⟩
    exact ⟨r, hr, CFd_WFG_CF mm q.segs r m (hwf r (List.mem_of_getElem? hr)) hc⟩
  · rintro ⟨r, hr, hc⟩
    exact ⟨r, hr, CF_to_CFd mm hmm r q.segs m hc⟩

/-- the same for a forest of normal forms -/
theorem allNodes_V_of_eff {ρ σ : Type} (mm : MMX) (o : Opts) (hmm : MMOK mm) (roots : List (SNode ρ)) (h : SNode ρ → SNode σ)
    (q : Path) (m : SNode σ) :
    (q, m) ∈ allNodes mm (roots.map fun r => eff mm o true (h r)) ↔ (q, m) ∈ allNodesV mm (roots.map fun r => eff mm o true (h r)) := by
  rw [allNodes_iff, allNodesV_iff]
  constructor
  · rintro ⟨r', hr', hc⟩
    refine ⟨r', hr', ?_⟩
    rw [List.getElem?_map] at hr'
    cases hr0 : roots[q.root]? with
    | none => rw [hr0] at hr'; cases hr'
    | some r =>
      rw [hr0] at hr'
      simp only [Option.map_some, Option.some.injEq] at hr'
      subst hr'
      exact CFd_eff_CF mm o hmm q.segs true (h r) m hc
  · rintro ⟨r, hr, hc⟩
    exact ⟨r, hr, CF_to_CFd mm hmm r q.segs m hc⟩

theorem idTable_mem_iff {ρ : Type} (mm : MMX) (o : Opts) (R : List (SNode ρ))
    (heq : ∀ q m, (q, m) ∈ allNodes mm R ↔ (q, m) ∈ allNodesV mm R) (e : Str × Path) :
    e ∈ idTable mm o R ↔ e ∈ idTableV mm o R := by
  unfold idTable idTableV
  simp only [List.mem_flatMap]
  constructor
  · rintro ⟨⟨q, m⟩, hqm, he⟩
    exact ⟨(q, m), (heq q m).mp hqm, he⟩
  · rintro ⟨⟨q, m⟩, hqm, he⟩
    exact ⟨(q, m), (heq q m).mpr hqm, he⟩

/-- **uuid addressing.**  In a uuid resource over a metamodel without id attributes, whose objects carry pairwise distinct
    uuids that can stand as tokens, the uuid of an object resolves, in the loaded forest, to the path of that object. -/
theorem resolveTok_uuid {P : Path → Prop} (mm : MMX) (o : Opts) (hmm : MMOK mm) (roots : List (SNode Path)) (g : Path → Str)
    (parse : Str → Option Path)
    (hu : o.uuid = true) (hid : ∀ c, ∀ fi ∈ mm.feats c, fi.isId = false)
    (hwf : ∀ r ∈ roots, WFG mm P r)
    (htok : ∀ q m, (q, m) ∈ allNodes mm roots → UuidTok m.uuid)
    (hdist : ∀ q m q' m', (q, m) ∈ allNodes mm roots → (q', m') ∈ allNodes mm roots → m.uuid = m'.uuid → q = q')
    (p : Path) (n : SNode Path) (hp : (p, n) ∈ allNodes mm roots) :
    resolveTok mm o parse (roots.map fun r => eff mm o true (mapT g r)) n.uuid = some p := by
  have hV := allNodes_V_of_WFG mm hmm roots hwf
  obtain ⟨hnh, c, t, hct, hc⟩ := htok p n hp
  unfold resolveTok
  rw [hnh]
  simp only [Bool.false_eq_true, if_false]
  rw [hct]
  have hcne : (c != '/') = true := by simpa using hc
  simp only [hcne, if_true]
  rw [← hct]
  obtain ⟨hex, hun⟩ := uuid_entry (P := P) mm o hmm roots g hu hid hwf
    (fun q m q' m' h1 h2 => hdist q m q' m' ((hV q m).mpr h1) ((hV q' m').mpr h2)) p n ((hV p n).mp hp)
  have hT := idTable_mem_iff mm o (roots.map fun r => eff mm o true (mapT g r))
    (allNodes_V_of_eff mm o hmm roots (mapT g))
  exact lookupId_of_unique _ _ _ ((hT _).mpr hex) (fun e he => hun e ((hT e).mp he))

end XDoc

namespace XDoc
open Xmi

mutual
theorem AllRefs_mono {ρ : Type} (P Q : ρ → Prop) (hPQ : ∀ r, P r → Q r) : (n : SNode ρ) → AllRefs P n → AllRefs Q n
  | .mk via cls uuid slots kids, h => by
    cases h with
    | mk _ _ _ _ _ hs hk =>
      refine AllRefs.mk _ _ _ _ _ ?_ (AllRefsL_mono P Q hPQ kids hk)
      intro e he
      have := hs e he
      cases hv : e.2 with
      | ref1 t => rw [hv] at this; exact hPQ t this
      | refN ts => rw [hv] at this; intro t ht; exact hPQ t (this t ht)
      | none => trivial
      | attr1 _ => trivial
      | attrN _ => trivial
      | kids => trivial
theorem AllRefsL_mono {ρ : Type} (P Q : ρ → Prop) (hPQ : ∀ r, P r → Q r) :
    (l : List (SNode ρ)) → (∀ k ∈ l, AllRefs P k) → ∀ k ∈ l, AllRefs Q k
  | [], _ => by simp
  | a :: t, h => by
    intro k hk
    rcases List.mem_cons.mp hk with he | hk
    · rw [he]; exact AllRefs_mono P Q hPQ a (h a (by simp))
    · exact AllRefsL_mono P Q hPQ t (fun x hx => h x (by simp [hx])) k hk
end

mutual
theorem WFG_mono {ρ : Type} (mm : MMX) (P Q : ρ → Prop) (hPQ : ∀ r, P r → Q r) : (n : SNode ρ) → WFG mm P n → WFG mm Q n
  | .mk via cls uuid slots kids, h => by
    cases h with
    | mk _ _ _ _ _ hc hnd hs hk hk2 h1 =>
      refine WFG.mk _ _ _ _ _ hc hnd ?_ (WFGL_mono mm P Q hPQ kids hk) hk2 h1
      intro e he
      obtain ⟨fi, hf, hkk⟩ := hs e he
      refine ⟨fi, hf, ?_⟩
      rcases hkk with hkk | hkk
      · exact Or.inl hkk
      · right
        obtain ⟨k, s⟩ := e
        cases s with
        | ref1 t => exact ⟨hkk.1, hkk.2.1, hPQ t hkk.2.2⟩
        | refN ts => exact ⟨hkk.1, hkk.2.1, fun t ht => hPQ t (hkk.2.2 t ht)⟩
        | _ => exact hkk
theorem WFGL_mono {ρ : Type} (mm : MMX) (P Q : ρ → Prop) (hPQ : ∀ r, P r → Q r) :
    (l : List (SNode ρ)) → (∀ k ∈ l, WFG mm P k) → ∀ k ∈ l, WFG mm Q k
  | [], _ => by simp
  | a :: t, h => by
    intro k hk
    rcases List.mem_cons.mp hk with he | hk
    · rw [he]; exact WFG_mono mm P Q hPQ a (h a (by simp))
    · exact WFGL_mono mm P Q hPQ t (fun x hx => h x (by simp [hx])) k hk
end

/-- in a uuid resource the token of an object of the forest is its uuid -/
theorem tokenOf_uuid {ρ : Type} {P : ρ → Prop} (mm : MMX) (o : Opts) (hmm : MMOK mm) (render : Path → Str) (roots : List (SNode ρ))
    (hu : o.uuid = true) (hwf : ∀ r ∈ roots, WFG mm P r) (p : Path) (n : SNode ρ) (hp : (p, n) ∈ allNodes mm roots) :
    tokenOf mm o render roots p = n.uuid := by
  obtain ⟨r, hr, hc⟩ := (allNodesV_iff mm roots p n).mp ((allNodes_V_of_WFG mm hmm roots hwf p n).mp hp)
  have hf := CF_follow mm r p.segs n hc (hwf r (List.mem_of_getElem? hr))
  unfold tokenOf nodeAt
  rw [hr]
  simp only [hf, hu, if_true]

/-- **Document round trip, uuid addressing.**  In a uuid resource over a metamodel without id attributes, for every forest
    of well-formed objects whose uuids are pairwise distinct blank-free words that can stand as tokens and whose
    references point (by canonical path) at objects of the forest: loading what was saved gives every root's normal form
    with every reference on its original target. -/
theorem doc_roundtrip_uuid (mm : MMX) (o : Opts) (hmm : MMOK mm) (render : Path → Str) (parse : Str → Option Path)
    (roots : List (SNode Path))
    (hu : o.uuid = true) (hid : ∀ c, ∀ fi ∈ mm.feats c, fi.isId = false)
    (hwf : ∀ r ∈ roots, WFG mm (fun p => ∃ n, (p, n) ∈ allNodes mm roots) r)
    (hrefs : ∀ r ∈ roots, AllRefs (fun p => ∃ n, (p, n) ∈ allNodes mm roots) r)
    (htok : ∀ q m, (q, m) ∈ allNodes mm roots → UuidTok m.uuid ∧ Word mm.ws m.uuid)
    (hdist : ∀ q m q' m', (q, m) ∈ allNodes mm roots → (q', m') ∈ allNodes mm roots → m.uuid = m'.uuid → q = q') :
    (encodeDoc mm o render roots).bind (decodeDoc mm o parse) = some (roots.map (eff mm o true)) := by
  apply doc_roundtrip mm o hmm render parse roots
  · intro r hr
    apply WFG_mono mm _ _ _ r (hwf r hr)
    rintro p ⟨n, hn⟩
    rw [tokenOf_uuid mm o hmm render roots hu hwf p n hn]
    exact (htok p n hn).2
  · intro r hr
    apply AllRefs_mono _ _ _ r (hrefs r hr)
    rintro p ⟨n, hn⟩
    rw [tokenOf_uuid mm o hmm render roots hu hwf p n hn]
    exact resolveTok_uuid mm o hmm roots (tokenOf mm o render roots) parse hu hid hwf
      (fun q m h => (htok q m h).1) hdist p n hn

end XDoc


/-! ### id attributes as well -/
namespace XDoc
open Xmi

/-- the keys under which `uuid_dict` knows a node -/
def keysOf {ρ : Type} (mm : MMX) (o : Opts) (n : SNode ρ) : List Str :=
  (if o.uuid then [n.uuid] else []) ++ (match idValue mm n with | some s => [s] | Option.none => [])

/-- id attributes are single-valued and not floating point -/
def IdOK (mm : MMX) : Prop :=
  ∀ c, ∀ fi ∈ mm.feats c, fi.isId = true → fi.kind = .attr → fi.many = false ∧ fi.float = false

@[simp] theorem mapT_slots {ρ σ : Type} (g : ρ → σ) (n : SNode ρ) :
    (mapT g n).slots = n.slots.map fun e => (e.1, mapSlotT g e.2) := by
  cases n; simp [mapT, SNode.slots]

theorem idValue_mapT {ρ σ : Type} (mm : MMX) (g : ρ → σ) (n : SNode ρ) : idValue mm (mapT g n) = idValue mm n := by
  unfold idValue
  rw [mapT_cls]
  cases (mm.feats n.cls).find? (fun fi => fi.isId && decide (fi.kind = .attr)) with
  | none => rfl
  | some fi =>
    simp only [mapT_slots, lookup_map_slots]
    cases n.slots.lookup fi.name with
    | none => rfl
    | some s => cases s <;> rfl

theorem lookup_effSlots {ρ : Type} (sd : Bool) (slots : List (Str × SlotV ρ)) :
    ∀ (feats : List FInfo), (feats.map (·.name)).Nodup → ∀ fi ∈ feats, ∀ v, effSlot sd fi slots = some (fi.name, v) →
      (feats.filterMap fun g => effSlot sd g slots).lookup fi.name = some v
  | [], _, fi, hfi, _, _ => by simp at hfi
  | g :: t, hnd, fi, hfi, v, hv => by
    simp only [List.map_cons, List.nodup_cons] at hnd
    rcases List.mem_cons.mp hfi with he | hmem
    · subst he
      simp only [List.filterMap_cons, hv, List.lookup_cons, beq_self_eq_true]
    · have hne : g.name ≠ fi.name := fun he => hnd.1 (List.mem_map.mpr ⟨fi, hmem, he.symm⟩)
      have ih := lookup_effSlots sd slots t hnd.2 fi hmem v hv
      simp only [List.filterMap_cons]
      cases hg : effSlot sd g slots with
      | none => simpa using ih
      | some e =>
        have hen : e.1 = g.name := by
          unfold effSlot at hg
          cases hk : g.kind <;> rw [hk] at hg <;> simp at hg <;> rw [← hg]
        obtain ⟨e1, e2⟩ := e
        have : (fi.name == e1) = false := by
          simp only at hen; rw [hen]; simpa using fun h => hne h.symm
        simp only [List.lookup_cons, this]; exact ih

@[simp] theorem eff_slots {ρ : Type} (mm : MMX) (o : Opts) (b : Bool) (n : SNode ρ) :
    (eff mm o b n).slots = (mm.feats n.cls).filterMap fun fi => effSlot o.sd fi n.slots := by
  cases n; simp [eff, SNode.slots, SNode.cls]

theorem idValue_eff {ρ : Type} (mm : MMX) (o : Opts) (hmm : MMOK mm) (hid : IdOK mm) (b : Bool) (n : SNode ρ) :
    idValue mm (eff mm o b n) = idValue mm n := by
  unfold idValue
  rw [eff_cls]
  cases hf : (mm.feats n.cls).find? (fun fi => fi.isId && decide (fi.kind = .attr)) with
  | none => rfl
  | some fi =>
    have hmem : fi ∈ mm.feats n.cls := List.mem_of_find?_eq_some hf
    have hp := List.find?_some hf
    simp only [Bool.and_eq_true, decide_eq_true_eq] at hp
    obtain ⟨hmany, hfloat⟩ := hid n.cls fi hmem hp.1 hp.2
    simp only [eff_slots]
    have hlk : ∀ v, effSlot o.sd fi n.slots = some (fi.name, v) →
        ((mm.feats n.cls).filterMap fun g => effSlot o.sd g n.slots).lookup fi.name = some v :=
      lookup_effSlots o.sd n.slots (mm.feats n.cls) (hmm.nd n.cls) fi hmem
    cases hl : n.slots.lookup fi.name with
    | none =>
      have : effSlot o.sd fi n.slots = some (fi.name, unsetSlot fi) := by
        unfold effSlot; rw [hp.2]; simp only [hl]
      rw [hlk _ this]
      unfold unsetSlot
      rw [hp.2]; simp only [hmany, Bool.false_eq_true, if_false]
      cases hd : fi.dflt with
      | none => rfl
      | some d =>
        have hvd : veq fi d = true := by unfold veq; rw [hd]; simp
        simp only [hvd, if_true]
    | some s =>
      cases s with
      | attr1 v =>
        have : effSlot o.sd fi n.slots = some (fi.name, if !o.sd && veq fi v then .attr1 (fi.dflt.getD v) else .attr1 v) := by
          unfold effSlot; rw [hp.2]; simp only [hl]
        rw [hlk _ this]
        by_cases hc : (!o.sd && veq fi v) = true
        · simp only [hc, if_true]
          have hv : veq fi v = true := by
            simp only [Bool.and_eq_true] at hc; exact hc.2
          unfold veq at hv
          cases hd : fi.dflt with
          | none => rw [hd] at hv; cases hv
          | some d =>
            rw [hd] at hv
            simp only [hfloat, Bool.false_and, Bool.or_false, beq_iff_eq] at hv
            subst hv
            simp only [Option.getD_some]
        · have : (!o.sd && veq fi v) = false := by simpa using hc
          simp only [this, Bool.false_eq_true, if_false]
      | none =>
        have : effSlot o.sd fi n.slots = some (fi.name, (.none : SlotV ρ)) := by
          unfold effSlot; rw [hp.2]; simp only [hl]
        rw [hlk _ this]
      | attrN vs =>
        have : effSlot o.sd fi n.slots = some (fi.name, (.attrN vs : SlotV ρ)) := by
          unfold effSlot; rw [hp.2]; simp only [hl]
        rw [hlk _ this]
      | ref1 t =>
        have : effSlot o.sd fi n.slots = some (fi.name, (.ref1 t : SlotV ρ)) := by
          unfold effSlot; rw [hp.2]; simp only [hl]
        rw [hlk _ this]
      | refN ts =>
        have : effSlot o.sd fi n.slots = some (fi.name, (.refN ts : SlotV ρ)) := by
          unfold effSlot; rw [hp.2]; simp only [hl]
        rw [hlk _ this]
      | kids =>
        have : effSlot o.sd fi n.slots = some (fi.name, (.kids : SlotV ρ)) := by
          unfold effSlot; rw [hp.2]; simp only [hl]
        rw [hlk _ this]

theorem keysOf_loaded {ρ σ : Type} (mm : MMX) (o : Opts) (hmm : MMOK mm) (hid : IdOK mm) (b : Bool) (g : ρ → σ) (n : SNode ρ) :
    keysOf mm o (eff mm o b (mapT g n)) = keysOf mm o n := by
  unfold keysOf
  rw [idValue_eff mm o hmm hid, idValue_mapT]
  cases hu : o.uuid <;> simp [hu]

end XDoc

namespace XDoc
open Xmi

theorem idTableV_mem {ρ : Type} (mm : MMX) (o : Opts) (R : List (SNode ρ)) (e : Str × Path) :
    e ∈ idTableV mm o R ↔ ∃ m, (e.2, m) ∈ allNodesV mm R ∧ e.1 ∈ keysOf mm o m := by
  unfold idTableV keysOf
  simp only [List.mem_flatMap]
  constructor
  · rintro ⟨⟨q, m⟩, hqm, he⟩
    refine ⟨m, ?_, ?_⟩
    · simp only [List.mem_append] at he
      rcases he with he | he
      · cases hu : o.uuid <;> simp [hu] at he; rw [he]; exact hqm
      · cases hi : idValue mm m <;> simp [hi] at he; rw [he]; exact hqm
    · simp only [List.mem_append] at he ⊢
      rcases he with he | he
      · left; cases hu : o.uuid <;> simp [hu] at he ⊢; rw [he]
      · right; cases hi : idValue mm m <;> simp [hi] at he ⊢; rw [he]
  · rintro ⟨m, hqm, hk⟩
    refine ⟨(e.2, m), hqm, ?_⟩
    obtain ⟨k, q⟩ := e
    simp only [List.mem_append] at hk ⊢
    rcases hk with hk | hk
    · left; cases hu : o.uuid <;> simp [hu] at hk ⊢; exact hk
    · right; cases hi : idValue mm m <;> simp [hi] at hk ⊢; exact hk

/-- a key of the object at a canonical path is a key of the loaded forest's table, and every entry under that key points
    to that path -/
theorem key_entry {P : Path → Prop} (mm : MMX) (o : Opts) (hmm : MMOK mm) (hid : IdOK mm) (roots : List (SNode Path)) (g : Path → Str)
    (hwf : ∀ r ∈ roots, WFG mm P r)
    (hdist : ∀ q m q' m' k, (q, m) ∈ allNodesV mm roots → (q', m') ∈ allNodesV mm roots →
      k ∈ keysOf mm o m → k ∈ keysOf mm o m' → q = q')
    (p : Path) (n : SNode Path) (hp : (p, n) ∈ allNodesV mm roots) (k : Str) (hk : k ∈ keysOf mm o n) :
    (k, p) ∈ idTableV mm o (roots.map fun r => eff mm o true (mapT g r)) ∧
    ∀ e ∈ idTableV mm o (roots.map fun r => eff mm o true (mapT g r)), e.1 = k → e.2 = p := by
  have hE : ∀ q m', (q, m') ∈ allNodesV mm (roots.map fun r => eff mm o true (mapT g r)) →
      ∃ m, (q, m) ∈ allNodesV mm roots ∧ keysOf mm o m' = keysOf mm o m := by
    intro q m' hm
    obtain ⟨r', hr', hcf⟩ := (allNodesV_iff mm _ q m').mp hm
    rw [List.getElem?_map] at hr'
    cases hr0 : roots[q.root]? with
    | none => rw [hr0] at hr'; cases hr'
    | some r =>
      rw [hr0] at hr'
      simp only [Option.map_some, Option.some.injEq] at hr'
      subst hr'
      have hrm : r ∈ roots := List.mem_of_getElem? hr0
      have hwfm : WFG mm (fun _ => True) (mapT g r) := WFG_mapT mm P (fun _ => True) g (fun _ _ => trivial) r (hwf r hrm)
      obtain ⟨m1, b, hcf1, hm1⟩ := CF_eff_bwd mm o hmm q.segs true (mapT g r) m' hwfm hcf
      obtain ⟨m0, hcf0, hm0⟩ := CF_mapT_bwd mm g q.segs r m1 hcf1
      refine ⟨m0, (allNodesV_iff mm roots q m0).mpr ⟨r, hr0, hcf0⟩, ?_⟩
      rw [hm1, hm0]; exact keysOf_loaded mm o hmm hid b g m0
  have hEfwd : ∃ m', (p, m') ∈ allNodesV mm (roots.map fun r => eff mm o true (mapT g r)) ∧ keysOf mm o m' = keysOf mm o n := by
    obtain ⟨r, hr0, hcf⟩ := (allNodesV_iff mm roots p n).mp hp
    have hrm : r ∈ roots := List.mem_of_getElem? hr0
    have hwfm : WFG mm (fun _ => True) (mapT g r) := WFG_mapT mm P (fun _ => True) g (fun _ _ => trivial) r (hwf r hrm)
    obtain ⟨b, hb⟩ := CF_eff_fwd mm o hmm (mapT g r) p.segs (mapT g n) (CF_mapT_fwd mm g r p.segs n hcf) true hwfm
    refine ⟨eff mm o b (mapT g n), (allNodesV_iff mm _ p _).mpr ⟨eff mm o true (mapT g r), ?_, hb⟩,
      keysOf_loaded mm o hmm hid b g n⟩
    rw [List.getElem?_map, hr0]; rfl
  obtain ⟨m', hm'mem, hm'keys⟩ := hEfwd
  constructor
  · exact (idTableV_mem mm o _ (k, p)).mpr ⟨m', hm'mem, by rw [hm'keys]; exact hk⟩
  · intro e he hek
    obtain ⟨mq, hq, hkq⟩ := (idTableV_mem mm o _ e).mp he
    obtain ⟨m0, hm0, hmk⟩ := hE e.2 mq hq
    rw [hmk, hek] at hkq
    exact (hdist p n e.2 m0 k hp hm0 hk hkq).symm

/-- what makes a string usable as an id token -/
theorem isTok_shape (ws : Char → Bool) (s : Str) (h : isTok ws s = true) : UuidTok s ∧ Word ws s := by
  unfold isTok at h
  cases s with
  | nil => cases h
  | cons c t =>
    simp only [Bool.and_eq_true, bne_iff_ne, ne_eq, Bool.not_eq_true'] at h
    refine ⟨⟨h.1.2, c, t, rfl, h.1.1⟩, by simp, ?_⟩
    intro x hx
    have := h.2
    rw [List.any_eq_false] at this
    simpa using this x hx

/-- **key addressing.**  A key (uuid or id value) of an object of the forest that can stand as a token resolves, in the
    loaded forest, to the path of that object — provided no other object goes by the same key. -/
theorem resolveTok_key {P : Path → Prop} (mm : MMX) (o : Opts) (hmm : MMOK mm) (hid : IdOK mm) (roots : List (SNode Path))
    (g : Path → Str) (parse : Str → Option Path)
    (hwf : ∀ r ∈ roots, WFG mm P r)
    (hdist : ∀ q m q' m' k, (q, m) ∈ allNodes mm roots → (q', m') ∈ allNodes mm roots →
      k ∈ keysOf mm o m → k ∈ keysOf mm o m' → q = q')
    (p : Path) (n : SNode Path) (hp : (p, n) ∈ allNodes mm roots) (k : Str) (hk : k ∈ keysOf mm o n) (hshape : UuidTok k) :
    resolveTok mm o parse (roots.map fun r => eff mm o true (mapT g r)) k = some p := by
  have hV := allNodes_V_of_WFG mm hmm roots hwf
  obtain ⟨hnh, c, t, hct, hc⟩ := hshape
  unfold resolveTok
  rw [hnh]
  simp only [Bool.false_eq_true, if_false]
  rw [hct]
  have hcne : (c != '/') = true := by simpa using hc
  simp only [hcne, if_true]
  rw [← hct]
  obtain ⟨hex, hun⟩ := key_entry (P := P) mm o hmm hid roots g hwf
    (fun q m q' m' k h1 h2 => hdist q m q' m' k ((hV q m).mpr h1) ((hV q' m').mpr h2)) p n ((hV p n).mp hp) k hk
  have hT := idTable_mem_iff mm o (roots.map fun r => eff mm o true (mapT g r))
    (allNodes_V_of_eff mm o hmm roots (mapT g))
  exact lookupId_of_unique _ _ _ ((hT _).mpr hex) (fun e he => hun e ((hT e).mp he))

end XDoc

namespace XDoc
open Xmi

theorem nodeAt_of_mem {ρ : Type} {P : ρ → Prop} (mm : MMX) (hmm : MMOK mm) (roots : List (SNode ρ))
    (hwf : ∀ r ∈ roots, WFG mm P r) (p : Path) (n : SNode ρ) (hp : (p, n) ∈ allNodes mm roots) : nodeAt roots p = some n := by
  obtain ⟨r, hr, hc⟩ := (allNodesV_iff mm roots p n).mp ((allNodes_V_of_WFG mm hmm roots hwf p n).mp hp)
  have hf := CF_follow mm r p.segs n hc (hwf r (List.mem_of_getElem? hr))
  unfold nodeAt
  rw [hr]; exact hf

/-- what a reference must point at: an object of the forest, by its canonical path, whose fragment text is one word over
    plain feature names -/
def Target (mm : MMX) (single : Bool) (roots : List (SNode Path)) (p : Path) : Prop :=
  (∃ n, (p, n) ∈ allNodes mm roots) ∧ (∀ s ∈ p.segs, NameOK s.1 ∧ '#' ∉ s.1) ∧ Word mm.ws (renderPath single p)

/-- the token written for a target is one word and resolves, in the loaded forest, to that target -/
theorem token_resolves {P : Path → Prop} (mm : MMX) (o : Opts) (hmm : MMOK mm) (hid : IdOK mm) (single : Bool) (roots : List (SNode Path))
    (hsingle : single = true → roots.length = 1)
    (hwf : ∀ r ∈ roots, WFG mm P r)
    (huuid : o.uuid = true → ∀ q m, (q, m) ∈ allNodes mm roots → UuidTok m.uuid ∧ Word mm.ws m.uuid)
    (hdist : ∀ q m q' m' k, (q, m) ∈ allNodes mm roots → (q', m') ∈ allNodes mm roots →
      k ∈ keysOf mm o m → k ∈ keysOf mm o m' → q = q') :
    ∀ p, Target mm single roots p →
      Word mm.ws (tokenOf mm o (renderPath single) roots p) ∧
      resolveTok mm o parsePath (roots.map fun r => eff mm o true (mapT (tokenOf mm o (renderPath single) roots) r))
        (tokenOf mm o (renderPath single) roots p) = some p := by
    rintro p ⟨⟨n, hn⟩, hnames, hword⟩
    have hna := nodeAt_of_mem mm hmm roots hwf p n hn
    have hfrag : resolveTok mm o parsePath
        (roots.map fun r => eff mm o true (mapT (tokenOf mm o (renderPath single) roots) r)) (renderPath single p) = some p := by
      apply resolve_fragment mm o hmm single roots _ hwf p (by rw [hna]; rfl) hnames
      intro hs1
      have hlen := hsingle hs1
      unfold nodeAt at hna
      cases hr0 : roots[p.root]? with
      | none => rw [hr0] at hna; cases hna
      | some _ =>
        have := (List.getElem?_eq_some_iff.mp hr0).1
        omega
    have htk : tokenOf mm o (renderPath single) roots p =
        if o.uuid then n.uuid else match idValue mm n with
          | some s => if isTok mm.ws s then s else renderPath single p
          | Option.none => renderPath single p := by
      unfold tokenOf; rw [hna]; rfl
    rw [htk]
    cases hu : o.uuid with
    | true =>
      simp only [if_true]
      obtain ⟨hs, hw⟩ := huuid hu p n hn
      exact ⟨hw, resolveTok_key mm o hmm hid roots (tokenOf mm o (renderPath single) roots) parsePath hwf hdist p n hn n.uuid
        (by unfold keysOf; simp [hu]) hs⟩
    | false =>
      simp only [Bool.false_eq_true, if_false]
      cases hi : idValue mm n with
      | none => exact ⟨hword, hfrag⟩
      | some s =>
        simp only
        cases ht : isTok mm.ws s with
        | false => simp only [Bool.false_eq_true, if_false]; exact ⟨hword, hfrag⟩
        | true =>
          simp only [if_true]
          obtain ⟨hs, hw⟩ := isTok_shape mm.ws s ht
          exact ⟨hw, resolveTok_key mm o hmm hid roots (tokenOf mm o (renderPath single) roots) parsePath hwf hdist p n hn s
            (by unfold keysOf; simp [hu, hi]) hs⟩

/-- **Document round trip, every addressing mode.**  Whatever the resource uses to address a target — its uuid, the
    value of its id attribute, or its fragment path — loading what was saved gives every root's normal form with every
    reference on its original target, provided no two objects share a key (uuid or id value). -/
theorem doc_roundtrip_addr (mm : MMX) (o : Opts) (hmm : MMOK mm) (hid : IdOK mm) (single : Bool) (roots : List (SNode Path))
    (hsingle : single = true → roots.length = 1)
    (hwf : ∀ r ∈ roots, WFG mm (Target mm single roots) r)
    (hrefs : ∀ r ∈ roots, AllRefs (Target mm single roots) r)
    (huuid : o.uuid = true → ∀ q m, (q, m) ∈ allNodes mm roots → UuidTok m.uuid ∧ Word mm.ws m.uuid)
    (hdist : ∀ q m q' m' k, (q, m) ∈ allNodes mm roots → (q', m') ∈ allNodes mm roots →
      k ∈ keysOf mm o m → k ∈ keysOf mm o m' → q = q') :
    (encodeDoc mm o (renderPath single) roots).bind (decodeDoc mm o parsePath) = some (roots.map (eff mm o true)) := by
  have key := token_resolves mm o hmm hid single roots hsingle hwf huuid hdist
  apply doc_roundtrip mm o hmm (renderPath single) parsePath roots
  · intro r hr
    exact WFG_mono mm _ _ (fun p hp => (key p hp).1) r (hwf r hr)
  · intro r hr
    exact AllRefs_mono _ _ (fun p hp => (key p hp).2) r (hrefs r hr)

end XDoc

