import PyecoreModel.Model.Codec
import Std.Data.String.ToInt
/-! Round-trip lemmas for the modelled converters (C17). -/
set_option linter.unusedVariables false
namespace Codec

theorem digitVal_digitChar (d : Nat) (h : d < 10) : digitVal (digitChar d) = some d := by
  have : d = 0 ∨ d = 1 ∨ d = 2 ∨ d = 3 ∨ d = 4 ∨ d = 5 ∨ d = 6 ∨ d = 7 ∨ d = 8 ∨ d = 9 := by omega
  rcases this with rfl | rfl | rfl | rfl | rfl | rfl | rfl | rfl | rfl | rfl <;> decide

theorem digitsN_pad (w : Nat) : ∀ (n acc : Nat) (rest : List Char), n < 10 ^ w →
    digitsN w acc (pad w n ++ rest) = some (acc * 10 ^ w + n, rest) := by
  induction w with
  | zero => intro n acc rest h; simp at h; subst h; simp [digitsN, pad]
  | succ w ih =>
    intro n acc rest h
    have hpos : 0 < 10 ^ w := Nat.pow_pos (by decide)
    have hq : n / 10 ^ w < 10 := by
      rw [Nat.div_lt_iff_lt_mul hpos]
      calc n < 10 ^ (w + 1) := h
        _ = 10 * 10 ^ w := by rw [Nat.pow_succ, Nat.mul_comm]
    have hr : n % 10 ^ w < 10 ^ w := Nat.mod_lt _ hpos
    simp only [pad, List.cons_append, digitsN, digitVal_digitChar _ hq]
    rw [ih _ _ _ hr]
    congr 2
    have := Nat.div_add_mod n (10 ^ w)
    rw [Nat.pow_succ]
    calc (acc * 10 + n / 10 ^ w) * 10 ^ w + n % 10 ^ w
        = acc * (10 ^ w * 10) + (10 ^ w * (n / 10 ^ w) + n % 10 ^ w) := by
          rw [Nat.add_mul, Nat.mul_assoc, Nat.mul_comm 10 (10 ^ w), Nat.mul_comm (n / 10 ^ w), Nat.add_assoc]
      _ = acc * (10 ^ w * 10) + n := by rw [this]

theorem digitsN_pad' (w n : Nat) (rest : List Char) (h : n < 10 ^ w) :
    digitsN w 0 (pad w n ++ rest) = some (n, rest) := by
  rw [digitsN_pad w n 0 rest h]; simp

theorem pad_ne_nil (w n : Nat) (h : 0 < w) : pad w n ≠ [] := by
  cases w with
  | zero => omega
  | succ w => simp [pad]

theorem parseTz_fmtTz (tz : Option Tz)
    (h : ∀ t, tz = some t → t.hh < 100 ∧ t.mm < 100 ∧ t.ss < 100 ∧ t.us < 1000000) :
    parseTz (fmtTz tz) = some tz := by
  cases tz with
  | none => rfl
  | some t =>
    obtain ⟨h1, h2, h3, h4⟩ := h t rfl
    obtain ⟨neg, hh, mm, ss, us⟩ := t
    simp only at h1 h2 h3 h4
    have hsign : ((if neg = true then '-' else '+') = '+' ∨ (if neg = true then '-' else '+') = '-') := by
      cases neg <;> simp
    have hneg : decide ((if neg = true then '-' else '+') = '-') = neg := by cases neg <;> simp
    simp only [fmtTz, List.singleton_append, List.cons_append, parseTz, hsign, if_true, List.append_assoc, List.nil_append]
    rw [digitsN_pad' 2 hh _ (by simpa using h1)]
    simp only
    rw [digitsN_pad' 2 mm _ (by simpa using h2)]
    simp only
    by_cases hz : ss = 0 ∧ us = 0
    · obtain ⟨rfl, rfl⟩ := hz
      simp [hneg]
    · simp only [hz, if_false]
      have hne : pad 2 ss ++ (if us = 0 then [] else '.' :: pad 6 us) ≠ [] := by
        simp [pad]
      split
      · rename_i heq; exact absurd heq hne
      · rw [digitsN_pad' 2 ss _ (by simpa using h3)]
        simp only
        by_cases hu : us = 0
        · subst hu
          have : ss ≠ 0 := fun e => hz ⟨e, rfl⟩
          simp [hneg]
        · simp only [hu, if_false, expect, if_true]
          have := digitsN_pad' 6 us [] (by simpa using h4)
          rw [List.append_nil] at this
          rw [this]
          simp [hneg]

/-- **dates**: reading the ISO text of a date gives the date back, for every field value the fixed-width form can
carry — every offset, with or without seconds / microseconds in the offset, with or without a time zone. -/
theorem parseDate_fmtDate (d : DT) (h : d.Fits) : parseDate (fmtDate d) = some d := by
  obtain ⟨hY, hM, hD, hh, hm, hs, hus, htz⟩ := h
  obtain ⟨Y, M, D, hr, mi, s, us, tz⟩ := d
  simp only at hY hM hD hh hm hs hus htz
  simp only [parseDate, fmtDate, List.append_assoc, List.singleton_append, List.cons_append, List.nil_append]
  rw [digitsN_pad' 4 Y _ (by simpa using hY)]
  simp only [Option.bind_eq_bind, Option.bind_some, expect, if_true]
  rw [digitsN_pad' 2 M _ (by simpa using hM)]
  simp only [Option.bind_some, expect, if_true]
  rw [digitsN_pad' 2 D _ (by simpa using hD)]
  simp only [Option.bind_some, expect, if_true]
  rw [digitsN_pad' 2 hr _ (by simpa using hh)]
  simp only [Option.bind_some, expect, if_true]
  rw [digitsN_pad' 2 mi _ (by simpa using hm)]
  simp only [Option.bind_some, expect, if_true]
  rw [digitsN_pad' 2 s _ (by simpa using hs)]
  simp only [Option.bind_some, expect, if_true]
  rw [digitsN_pad' 6 us _ (by simpa using hus)]
  simp only [Option.bind_some]
  rw [parseTz_fmtTz tz htz]
  rfl

theorem int_roundtrip (n : Int) : intFrom (intTo n) = some n := by
  unfold intFrom intTo
  exact Int.toInt?_repr n

theorem bool_roundtrip (b : Bool) : boolFrom (boolTo b) = b := by cases b <;> decide

theorem enum_roundtrip (names : List String) (hn : names.Nodup) (k : Nat) (hk : k < names.length) :
    enumFrom names names[k] = some k := by
  unfold enumFrom
  have := List.Nodup.idxOf_getElem hn k hk
  simp [this, hk]

end Codec
