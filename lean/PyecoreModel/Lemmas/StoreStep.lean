import PyecoreModel.Lemmas.StoreLink
/-! Every public operation of the Store preserves `Inv`. -/
set_option linter.unusedSectionVars false
set_option linter.unusedSimpArgs false
set_option linter.unusedVariables false
namespace Store
variable (mm : MM)

theorem Inv.congr {s s' : St} (h : Inv mm s) (h1 : s'.rs = s.rs) (h2 : s'.cont = s.cont)
    (h3 : s'.eres = s.eres) (h4 : s'.rcont = s.rcont) : Inv mm s' := by
  obtain ⟨a, b, c, d⟩ := h
  refine ⟨?_, ?_, ?_, ?_⟩
  · intro f g hfg x y; rw [h1]; exact a f g hfg x y
  · intro x f; rw [h1]; exact b x f
  · intro o p f; rw [h1, h2]; exact c o p f
  · refine ⟨?_, ?_, ?_⟩
    · intro o r; rw [h3, h4]; exact d.1 o r
    · intro r; rw [h4]; exact d.2.1 r
    · intro o; rw [h2, h3]; exact d.2.2 o

theorem setAs_inv (s : St) (h : Inv mm s) (x f l) : Inv mm (s.setAs x f l) := h.congr mm rfl rfl rfl rfl

theorem foldl_inv {β : Type} (g : St → β → St) (hg : ∀ s b, Inv mm s → Inv mm (g s b))
    (l : List β) (s : St) (h : Inv mm s) : Inv mm (l.foldl g s) := by
  induction l generalizing s with
  | nil => exact h
  | cons b t ih => exact ih _ (hg s b h)

theorem clearRef_inv (hwf : mm.WF) (s : St) (h : Inv mm s) (x f) : Inv mm (clearRef mm s x f) :=
  foldl_inv mm _ (fun s y hs => unlinkRaw_inv mm hwf s hs x f y) _ s h

theorem extendRef_inv (hwf : mm.WF) (s : St) (h : Inv mm s) (x f ys) : Inv mm (extendRef mm s x f ys) :=
  foldl_inv mm _ (fun s y hs => link_inv mm hwf s hs x f y _) _ s h

theorem deleteOne_inv (hwf : mm.WF) (s : St) (h : Inv mm s) (x) : Inv mm (deleteOne mm s x) :=
  foldl_inv mm _ (fun s l hs => unlinkRaw_inv mm hwf s hs _ _ _) _ s h

theorem delete_inv (hwf : mm.WF) (s : St) (h : Inv mm s) (x r) : Inv mm (delete mm s x r) := by
  unfold delete
  exact deleteOne_inv mm hwf _ (foldl_inv mm _ (fun s d hs => deleteOne_inv mm hwf s hs d) _ s h) x

/-- overwriting a list-like slot (no opposite, no containment by well-formedness) -/
theorem setRs_list_inv (hwf : mm.WF) (s : St) (h : Inv mm s) (x f l) (hl : (mm.feat f).isList = true) :
    Inv mm (s.setRs x f l) := by
  have hno : ∀ g, (mm.feat f).opp ≠ some g := by
    intro g hg; have := isList_false_of_opp mm hwf hg; rw [hl] at this; cases this
  have hnc : (mm.feat f).cont ≠ true := by
    intro hc; have := isList_false_of_cont mm hwf hc; rw [hl] at this; cases this
  obtain ⟨a, b, c, d⟩ := h
  refine ⟨?_, ?_, ?_, ?_⟩
  · intro f' g' hfg a' b'
    have n1 : f' ≠ f := by rintro rfl; exact hno g' hfg
    have n2 : g' ≠ f := by rintro rfl; exact hno f' (hwf.opp_mutual f' g' hfg).1
    simp only [setRs_rs, n1, n2, and_false, if_false]
    exact a f' g' hfg a' b'
  · intro a' f'
    simp only [setRs_rs]
    split
    · rename_i hh; obtain ⟨rfl, rfl⟩ := hh
      have hm : (mm.feat f').many = true := by
        simp only [Feature.isList, Bool.and_eq_true] at hl; exact hl.1
      exact ⟨fun h => (by rw [hm] at h; cases h), fun h => (by rw [hl] at h; cases h)⟩
    · exact b a' f'
  · intro o p f'
    simp only [setRs_rs, setRs_cont]
    have := c o p f'
    by_cases hff : f' = f
    · subst hff
      constructor
      · intro hc; exact absurd (this.1 hc).1 hnc
      · intro hc; exact absurd hc.1 hnc
    · simp only [hff, and_false, if_false]; exact this
  · exact d

/-! ### resources -/

theorem rremove_eq (s : St) (hr : ResOK s) (r o) (h : o ∈ s.rcont r) :
    (s.setRcont r ((s.rcont r).erase o)).setEres o none = unroot s o := by
  have := (hr.1 o r).2 h
  unfold unroot; rw [this]

theorem rappend_eq (s : St) (r o) :
    rappend mm s r o =
      if s.eres o = some r ∧ o ∈ s.rcont r then s else
      match (((unroot s o).setRcont r ((unroot s o).rcont r ++ [o])).setEres o (some r)).cont o with
      | some (p, pf) => unlinkRaw mm (((unroot s o).setRcont r ((unroot s o).rcont r ++ [o])).setEres o (some r)) p pf o
      | none => (((unroot s o).setRcont r ((unroot s o).rcont r ++ [o])).setEres o (some r)) := by
  rfl

theorem rappend_inv (hwf : mm.WF) (s : St) (h : Inv mm s) (r o) : Inv mm (rappend mm s r o) := by
  rw [rappend_eq]
  split
  · exact h
  · have h1 := unroot_inv mm s h o
    have he1 : (unroot s o).eres o = none := by rw [unroot_eres]; simp
    generalize unroot s o = s1 at h1 he1
    -- the state with the new root registered: everything but "contained ⇒ not a root" holds
    have hnot : ∀ r', o ∉ s1.rcont r' := by
      intro r' hm; have := (h1.2.2.2.1 o r').2 hm; rw [he1] at this; cases this
    have e12 : ∀ o' r', ((s1.setRcont r (s1.rcont r ++ [o])).setEres o (some r)).eres o' = some r' ↔
        o' ∈ ((s1.setRcont r (s1.rcont r ++ [o])).setEres o (some r)).rcont r' := by
      intro o' r'
      simp only [setEres_eres, setEres_rcont, setRcont_rcont]
      have hiff := h1.2.2.2.1 o' r'
      by_cases ho : o' = o
      · subst ho
        simp only [if_true, Option.some.injEq]
        split
        · rename_i e; subst e; simp
        · rename_i e; constructor
          · intro e2; exact absurd e2.symm e
          · intro hm; exact absurd hm (hnot r')
      · simp only [ho, if_false]
        split
        · rename_i e; subst e; simp [ho]; exact hiff
        · exact hiff
    have nd : ∀ r', (((s1.setRcont r (s1.rcont r ++ [o])).setEres o (some r)).rcont r').Nodup := by
      intro r'
      simp only [setEres_rcont, setRcont_rcont]
      split
      · rename_i e; subst e
        rw [List.nodup_append]
        refine ⟨h1.2.2.2.2.1 r', by simp, ?_⟩
        intro a ha b hb
        simp only [List.mem_singleton] at hb; subst hb
        intro e; subst e; exact hnot r' ha
      · exact h1.2.2.2.2.1 r'
    generalize hs2 : ((s1.setRcont r (s1.rcont r ++ [o])).setEres o (some r)) = s2 at e12 nd
    have r2 : s2.rs = s1.rs := by subst hs2; rfl
    have c2 : s2.cont = s1.cont := by subst hs2; rfl
    have sym2 : Sym mm s2 := by intro f g hfg a b; rw [r2]; exact h1.1 f g hfg a b
    have card2 : Card mm s2 := by intro a f; rw [r2]; exact h1.2.1 a f
    have own2 : Own mm s2 := by intro a p f; rw [r2, c2]; exact h1.2.2.1 a p f
    have e2o : ∀ o', o' ≠ o → s2.eres o' = s1.eres o' := by
      intro o' hne; subst hs2; simp [hne]
    cases hc : s2.cont o with
    | none =>
      simp only []
      refine ⟨sym2, card2, own2, e12, nd, ?_⟩
      intro o' hne
      by_cases ho : o' = o
      · subst ho; exact absurd hc hne
      · rw [e2o o' ho]; rw [c2] at hne; exact h1.2.2.2.2.2 o' hne
    | some ppf =>
      obtain ⟨p, pf⟩ := ppf
      simp only []
      refine ⟨unlinkRaw_sym mm hwf s2 sym2 _ _ _, unlinkRaw_card mm s2 card2 _ _ _,
              unlinkRaw_own mm hwf s2 sym2 own2 _ _ _, ?_, ?_, ?_⟩
      · intro o' r'; simp only [unlinkRaw_eres, unlinkRaw_rcont]; exact e12 o' r'
      · intro r'; simp only [unlinkRaw_rcont]; exact nd r'
      · intro o' hne
        simp only [unlinkRaw_eres]
        rw [unlinkRaw_cont] at hne
        have hown := (own2 o p pf).1 hc
        by_cases ho : o' = o
        · subst ho
          simp only [hown.2, hown.1, and_self, true_or, true_and, if_true] at hne
          exact absurd rfl hne
        · rw [e2o o' ho]
          split at hne
          · exact absurd rfl hne
          · rw [c2] at hne; exact h1.2.2.2.2.2 o' hne

/-! ### the step function -/

theorem stepAttr_inv (s : St) (h : Inv mm s) (x f op) : Inv mm (stepAttr mm s x f op).1 := by
  cases op <;> simp only [stepAttr] <;> (repeat' split) <;> first | exact h | exact setAs_inv mm s h _ _ _

theorem unlinkHead_inv (hwf : mm.WF) (s : St) (h : Inv mm s) (x f) :
    Inv mm (match s.rs x f with | y0 :: _ => unlinkRaw mm s x f y0 | [] => s) := by
  split
  · exact unlinkRaw_inv mm hwf s h _ _ _
  · exact h

theorem stepRef_inv (hwf : mm.WF) (s : St) (h : Inv mm s) (x f op) : Inv mm (stepRef mm s x f op).1 := by
  cases op with
  | set x' f' v =>
    simp only [stepRef]; split
    · exact h
    · split
      · exact link_inv mm hwf s h _ _ _ _
      · exact unlinkHead_inv mm hwf s h x f
  | del x' f' =>
    simp only [stepRef]; split
    · exact clearRef_inv mm hwf s h x f
    · exact unlinkHead_inv mm hwf s h x f
  | add x' f' v =>
    simp only [stepRef]; split
    · exact link_inv mm hwf s h _ _ _ _
    · exact h
  | insert x' f' i v =>
    simp only [stepRef]; split
    · exact link_inv mm hwf s h _ _ _ _
    · exact h
  | remove x' f' v =>
    simp only [stepRef]; split
    · split
      · exact unlinkRaw_inv mm hwf s h _ _ _
      · exact h
    · exact h
  | pop x' f' i =>
    simp only [stepRef]
    split
    · exact h
    · split
      · exact h
      · split
        · exact h
        · split
          · rename_i hl; exact setRs_list_inv mm hwf s h _ _ _ hl
          · exact unlinkRaw_inv mm hwf s h _ _ _
  | clear x' f' => simp only [stepRef]; exact clearRef_inv mm hwf s h x f
  | setItem x' f' i v =>
    simp only [stepRef]
    split
    · split
      · rename_i hl
        split
        · exact h
        · exact setRs_list_inv mm hwf s h _ _ _ hl
      · split
        · exact h
        · split
          · exact h
          · split
            · exact h
            · exact link_inv mm hwf _ (unlinkRaw_inv mm hwf s h _ _ _) _ _ _ _
    · exact h
  | delItem x' f' i =>
    simp only [stepRef]
    split
    · exact h
    · split
      · exact h
      · split
        · exact h
        · split
          · rename_i hl; exact setRs_list_inv mm hwf s h _ _ _ hl
          · exact unlinkRaw_inv mm hwf s h _ _ _
  | extend x' f' vs => simp only [stepRef]; exact extendRef_inv mm hwf s h _ _ _
  | assign x' f' vs => simp only [stepRef]; exact extendRef_inv mm hwf _ (clearRef_inv mm hwf s h x f) _ _ _
  | new c => exact h
  | res => exact h
  | delete x' r => exact h
  | rappend r o => exact h
  | rremove r o => exact h

theorem inv_init : Inv mm init := by
  refine ⟨?_, ?_, ?_, ?_, ?_, ?_⟩ <;> simp [init, Sym, Card, Own]

/-- **Backbone**: every public operation, whatever it returns or raises, preserves the invariants. -/
theorem inv_step (hwf : mm.WF) (s : St) (h : Inv mm s) (op : Op) : Inv mm (step mm s op).1 := by
  have tgt : ∀ (op : Op) (x f), targetOf op = some (x, f) →
      Inv mm (if (!hasFeat mm s x f) = true then (s, (Except.error Py.Err.attributeError : Res)) else
        if (!(offered op).all (conforms mm s f)) = true then (s, Except.error Py.Err.badValue) else
        if (mm.feat f).isRef = true then stepRef mm s x f op else stepAttr mm s x f op).1 := by
    intro op x f _
    split
    · exact h
    · split
      · exact h
      · split
        · exact stepRef_inv mm hwf s h x f op
        · exact stepAttr_inv mm s h x f op
  cases op with
  | new c => exact h.congr mm rfl rfl rfl rfl
  | res => exact h.congr mm rfl rfl rfl rfl
  | delete x r =>
    simp only [step]; split
    · exact delete_inv mm hwf s h x r
    · exact h
  | rappend r o =>
    simp only [step]; split
    · exact rappend_inv mm hwf s h r o
    · exact h
  | rremove r o =>
    simp only [step]; split
    · rename_i hm
      rw [rremove_eq s h.2.2.2 r o hm]; exact unroot_inv mm s h o
    · exact h
  | set x f v => simp only [step, targetOf]; exact tgt (.set x f v) x f rfl
  | del x f => simp only [step, targetOf]; exact tgt (.del x f) x f rfl
  | add x f v => simp only [step, targetOf]; exact tgt (.add x f v) x f rfl
  | insert x f i v => simp only [step, targetOf]; exact tgt (.insert x f i v) x f rfl
  | remove x f v => simp only [step, targetOf]; exact tgt (.remove x f v) x f rfl
  | pop x f i => simp only [step, targetOf]; exact tgt (.pop x f i) x f rfl
  | clear x f => simp only [step, targetOf]; exact tgt (.clear x f) x f rfl
  | setItem x f i v => simp only [step, targetOf]; exact tgt (.setItem x f i v) x f rfl
  | delItem x f i => simp only [step, targetOf]; exact tgt (.delItem x f i) x f rfl
  | extend x f vs => simp only [step, targetOf]; exact tgt (.extend x f vs) x f rfl
  | assign x f vs => simp only [step, targetOf]; exact tgt (.assign x f vs) x f rfl

theorem inv_run (hwf : mm.WF) (ops : List Op) : Inv mm (run mm ops) := by
  unfold run
  exact foldl_inv mm _ (fun s op hs => inv_step mm hwf s hs op) ops init (inv_init mm)

end Store
