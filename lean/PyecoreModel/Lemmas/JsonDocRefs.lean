import PyecoreModel.Lemmas.JsonDoc
import PyecoreModel.Lemmas.XmiDocIds
/-! JSON documents: references, document-level round trip (C09). -/
namespace JDoc
open XDoc Xmi

theorem mapSlot_some {ρ σ : Type} (f : ρ → Option σ) (g : ρ → σ) (s : SlotV ρ)
    (h : SlotRefs (fun r => f r = some (g r)) s) : mapSlot f s = some (mapSlotT g s) := by
  cases s with
  | ref1 t => simp only [mapSlot, mapSlotT]; rw [h]; rfl
  | refN ts =>
    simp only [mapSlot, mapSlotT]
    have : ts.mapM f = some (ts.map g) := mapM_some_of_forall f g ts h
    rw [this]; rfl
  | _ => simp [mapSlot, mapSlotT]

theorem mapSlots_some {ρ σ : Type} (f : ρ → Option σ) (g : ρ → σ) (l : List (Str × SlotV ρ))
    (h : ∀ e ∈ l, SlotRefs (fun r => f r = some (g r)) e.2) :
    mapSlots f l = some (l.map fun e => (e.1, mapSlotT g e.2)) := by
  induction l with
  | nil => rfl
  | cons e t ih =>
    obtain ⟨k, s⟩ := e
    simp only [mapSlots, mapSlot_some f g s (h (k, s) (by simp)), ih (fun x hx => h x (by simp [hx])), List.map_cons]

mutual
theorem mapRefs_some {ρ σ : Type} (f : ρ → Option σ) (g : ρ → σ) :
    (n : SNode ρ) → AllRefs (fun r => f r = some (g r)) n → mapRefs f n = some (mapT g n)
  | .mk via cls uuid slots kids, h => by
    cases h with
    | mk _ _ _ _ _ hs hk =>
      simp only [mapRefs, mapSlots_some f g slots hs, mapRefsL_some f g kids hk, mapT]
theorem mapRefsL_some {ρ σ : Type} (f : ρ → Option σ) (g : ρ → σ) :
    (l : List (SNode ρ)) → (∀ k ∈ l, AllRefs (fun r => f r = some (g r)) k) → mapRefsL f l = some (mapTL g l)
  | [], _ => by simp [mapRefsL, mapTL]
  | k :: t, h => by
    simp only [mapRefsL, mapRefs_some f g k (h k (by simp)), mapRefsL_some f g t (fun x hx => h x (by simp [hx])), mapTL]
end

theorem mapSlotT_comp {ρ σ τ : Type} (g : ρ → σ) (h : σ → τ) (s : SlotV ρ) :
    mapSlotT h (mapSlotT g s) = mapSlotT (h ∘ g) s := by
  cases s <;> simp [mapSlotT]

mutual
theorem mapT_comp {ρ σ τ : Type} (g : ρ → σ) (h : σ → τ) : (n : SNode ρ) → mapT h (mapT g n) = mapT (h ∘ g) n
  | .mk via cls uuid slots kids => by
    simp only [mapT, List.map_map, mapTL_comp g h kids]
    congr 1
    apply List.map_congr_left
    intro e _
    simp [mapSlotT_comp]
theorem mapTL_comp {ρ σ τ : Type} (g : ρ → σ) (h : σ → τ) : (l : List (SNode ρ)) → mapTL h (mapTL g l) = mapTL (h ∘ g) l
  | [] => by simp [mapTL]
  | k :: t => by simp only [mapTL, mapT_comp g h k, mapTL_comp g h t]
end


/-- the reference written for a path: the class of the target and the token -/
def jref (mm : MMX) (o : Opts) (render : Path → Str) (roots : List (SNode Path)) (p : Path) : JRef :=
  ⟨match nodeAt roots p with | some n => mm.cname n.cls | Option.none => [], tokenOf mm o render roots p⟩

/-- **Document level, JSON.**  Saving a forest of well-formed objects whose references point into the forest and
    loading the values again gives every root's normal form (uuids included)
    with every reference on its original target, provided each token resolves in the loaded forest to the path it was
    written for. -/
theorem jdoc_roundtrip (mm : MMX) (o : Opts) (hmm : MMJ mm) (render : Path → Str) (parse : Str → Option Path)
    (roots : List (SNode Path))
    (hwf : ∀ r ∈ roots, WFG mm (fun _ => True) r)
    (hvalid : ∀ r ∈ roots, AllRefs (fun p => (nodeAt roots p).isSome = true) r)
    (hres : ∀ r ∈ roots, AllRefs (fun p =>
        resolveTok mm o parse (roots.map fun r => eff mm o true (mapT (tokenOf mm o render roots) r))
          (tokenOf mm o render roots p) = some p) r) :
    (jEncodeDoc mm o render roots).bind (jDecodeDoc mm o parse) = some (roots.map (eff mm o true)) := by
  unfold jEncodeDoc
  have henc : mapRefsL (jrefOf mm o render roots) roots = some (mapTL (jref mm o render roots) roots) := by
    apply mapRefsL_some
    intro r hr
    apply AllRefs_mono _ _ _ r (hvalid r hr)
    intro p hp
    unfold jref jrefOf
    cases hn : nodeAt roots p with
    | none => rw [hn] at hp; cases hp
    | some n => rfl
  rw [henc, mapTL_eq_map]
  simp only [Option.map_some, Option.bind_some, List.map_map]
  unfold jDecodeDoc
  have htok : (JRef.tok ∘ jref mm o render roots) = tokenOf mm o render roots := by
    funext p; rfl
  have hdec : (roots.map (jEnc mm o true 0 ∘ mapT (jref mm o render roots))).mapM (jDec mm true [] 0)
      = some (roots.map fun r => eff mm o true (mapT (tokenOf mm o render roots) r)) := by
    rw [List.mapM_map]
    apply mapM_some_of_forall
    intro r hr
    simp only [Function.comp]
    have := jdec_enc mm o hmm (mapT (jref mm o render roots) r)
      (WFG_mapT mm (fun _ => True) (fun _ => True) (jref mm o render roots) (fun _ _ => trivial) r (hwf r hr))
      true 0 [] (by intro h; cases h)
    rw [this, mapT_comp, htok]
  rw [hdec]
  simp only
  have hE : (roots.map fun r => eff mm o true (mapT (tokenOf mm o render roots) r))
      = mapTL (tokenOf mm o render roots) (roots.map (eff mm o true)) := by
    rw [mapTL_eq_map, List.map_map]
    apply List.map_congr_left
    intro r _
    exact eff_mapT mm o _ true r
  have hback : mapRefsL (resolveTok mm o parse (roots.map fun r => eff mm o true (mapT (tokenOf mm o render roots) r)))
      (roots.map fun r => eff mm o true (mapT (tokenOf mm o render roots) r)) = some (roots.map (eff mm o true)) := by
    rw [hE]
    apply mapRefsL_back
    intro k hk
    obtain ⟨r, hr, rfl⟩ := List.mem_map.mp hk
    have := AllRefs_eff _ mm o true r (hres r hr)
    rw [hE] at this
    exact this
  rw [hback]

end JDoc

namespace JDoc
open XDoc Xmi

/-- **Document round trip, JSON, fragment addressing** — no resolution hypothesis left. -/
theorem jdoc_roundtrip_fragment (mm : MMX) (o : Opts) (hmm : MMJ mm) (single : Bool) (roots : List (SNode Path))
    (hu : o.uuid = false) (hid : ∀ c, ∀ fi ∈ mm.feats c, fi.isId = false)
    (hsingle : single = true → roots.length = 1)
    (hwf : ∀ r ∈ roots, WFG mm (fun _ => True) r)
    (hrefs : ∀ r ∈ roots, AllRefs (fun p => (nodeAt roots p).isSome = true ∧ (∀ s ∈ p.segs, NameOK s.1 ∧ '#' ∉ s.1)) r) :
    (jEncodeDoc mm o (renderPath single) roots).bind (jDecodeDoc mm o parsePath)
      = some (roots.map (eff mm o true)) := by
  have htok : tokenOf mm o (renderPath single) roots = renderPath single := by
    funext p; exact tokenOf_fragment mm o (renderPath single) roots p hu hid
  apply jdoc_roundtrip mm o hmm (renderPath single) parsePath roots hwf
  · intro r hr
    exact AllRefs_mono _ _ (fun _ h => h.1) r (hrefs r hr)
  · intro r hr
    rw [htok]
    apply AllRefs_mono _ _ _ r (hrefs r hr)
    intro q hq
    apply resolve_fragment mm o hmm.toMMOK single roots (renderPath single) hwf q hq.1 hq.2
    intro hs1
    have hlen := hsingle hs1
    have hv := hq.1
    unfold nodeAt at hv
    cases hr0 : roots[q.root]? with
    | none => rw [hr0] at hv; cases hv
    | some _ =>
      have := (List.getElem?_eq_some_iff.mp hr0).1
      omega

end JDoc

namespace JDoc
open XDoc Xmi

/-- **Document round trip, JSON, uuid addressing.** -/
theorem jdoc_roundtrip_uuid (mm : MMX) (o : Opts) (hmm : MMJ mm) (render : Path → Str) (parse : Str → Option Path)
    (roots : List (SNode Path))
    (hu : o.uuid = true) (hid : ∀ c, ∀ fi ∈ mm.feats c, fi.isId = false)
    (hwf : ∀ r ∈ roots, WFG mm (fun _ => True) r)
    (hrefs : ∀ r ∈ roots, AllRefs (fun p => ∃ n, (p, n) ∈ allNodes mm roots) r)
    (htok : ∀ q m, (q, m) ∈ allNodes mm roots → UuidTok m.uuid)
    (hdist : ∀ q m q' m', (q, m) ∈ allNodes mm roots → (q', m') ∈ allNodes mm roots → m.uuid = m'.uuid → q = q') :
    (jEncodeDoc mm o render roots).bind (jDecodeDoc mm o parse) = some (roots.map (eff mm o true)) := by
  apply jdoc_roundtrip mm o hmm render parse roots hwf
  · intro r hr
    apply AllRefs_mono _ _ _ r (hrefs r hr)
    rintro p ⟨n, hn⟩
    obtain ⟨r0, hr0, hc⟩ := (allNodesV_iff mm roots p n).mp ((allNodes_V_of_WFG mm hmm.toMMOK roots hwf p n).mp hn)
    have hf := CF_follow mm r0 p.segs n hc (hwf r0 (List.mem_of_getElem? hr0))
    unfold nodeAt
    rw [hr0]; simp [hf]
  · intro r hr
    apply AllRefs_mono _ _ _ r (hrefs r hr)
    rintro p ⟨n, hn⟩
    rw [tokenOf_uuid mm o hmm.toMMOK render roots hu hwf p n hn]
    exact resolveTok_uuid mm o hmm.toMMOK roots (tokenOf mm o render roots) parse hu hid hwf htok hdist p n hn

end JDoc

namespace JDoc
open XDoc Xmi

/-- **Document round trip, JSON, every addressing mode.** -/
theorem jdoc_roundtrip_addr (mm : MMX) (o : Opts) (hmm : MMJ mm) (hid : IdOK mm) (single : Bool) (roots : List (SNode Path))
    (hsingle : single = true → roots.length = 1)
    (hwf : ∀ r ∈ roots, WFG mm (fun _ => True) r)
    (hrefs : ∀ r ∈ roots, AllRefs (Target mm single roots) r)
    (huuid : o.uuid = true → ∀ q m, (q, m) ∈ allNodes mm roots → UuidTok m.uuid ∧ Word mm.ws m.uuid)
    (hdist : ∀ q m q' m' k, (q, m) ∈ allNodes mm roots → (q', m') ∈ allNodes mm roots →
      k ∈ keysOf mm o m → k ∈ keysOf mm o m' → q = q') :
    (jEncodeDoc mm o (renderPath single) roots).bind (jDecodeDoc mm o parsePath)
      = some (roots.map (eff mm o true)) := by
  have key := token_resolves mm o hmm.toMMOK hid single roots hsingle hwf huuid hdist
  apply jdoc_roundtrip mm o hmm (renderPath single) parsePath roots hwf
  · intro r hr
    apply AllRefs_mono _ _ _ r (hrefs r hr)
    rintro p ⟨⟨n, hn⟩, _, _⟩
    rw [nodeAt_of_mem mm hmm.toMMOK roots hwf p n hn]; rfl
  · intro r hr
    exact AllRefs_mono _ _ (fun p hp => (key p hp).2) r (hrefs r hr)

end JDoc
