import PyecoreModel.Model.SaveSkeleton
/-! A failing build before the target is opened leaves the file as it was. -/
namespace Skel

theorem runSave_fault_before_open (content : Bytes) (steps : List SaveStep) (fs : FS) (built : Option Bytes)
    (h : buildBeforeOpen steps = true) (hb : steps.contains .build = true) (hno : fs.opened = false) :
    (runSave content true steps fs built).1.file = fs.file ∧ (runSave content true steps fs built).2 = true := by
  induction steps generalizing fs built with
  | nil => simp at hb
  | cons st rest ih =>
    cases st with
    | build => simp [runSave]
    | openOut =>
      simp only [buildBeforeOpen, Bool.not_eq_true'] at h
      simp only [List.contains_cons] at hb
      have : (rest.contains SaveStep.build) = true := by simpa using hb
      rw [h] at this; cases this
    | write =>
      simp only [buildBeforeOpen] at h
      have hb' : rest.contains SaveStep.build = true := by simpa [List.contains_cons] using hb
      simp only [runSave]
      cases built with
      | none => exact ih fs none h hb' hno
      | some b =>
        have := ih { fs with file := if fs.opened then some b else fs.file } (some b) h hb' (by simpa using hno)
        simpa [hno] using this
    | flush =>
      simp only [buildBeforeOpen] at h
      have hb' : rest.contains SaveStep.build = true := by simpa [List.contains_cons] using hb
      simpa [runSave] using ih fs built h hb' hno
    | close =>
      simp only [buildBeforeOpen] at h
      have hb' : rest.contains SaveStep.build = true := by simpa [List.contains_cons] using hb
      have := ih { fs with opened := false } built h hb' rfl
      simpa [runSave] using this

end Skel
