import PyecoreModel.Model.Store
/-! Characterisation lemmas for the link-level primitives of the Store (`unlinkRaw`, `detach`, `linkRaw`):
what each does to every slot, back-pointer and resource list.  Everything else is propositional reasoning
on top of these (DESIGN 3.3). -/
set_option linter.unusedSectionVars false
set_option linter.unusedSimpArgs false
namespace Store

@[simp] theorem setRs_rs (s : St) (x f l x' f') :
    (s.setRs x f l).rs x' f' = if x' = x ∧ f' = f then l else s.rs x' f' := rfl
@[simp] theorem setRs_cont (s : St) (x f l) : (s.setRs x f l).cont = s.cont := rfl
@[simp] theorem setRs_eres (s : St) (x f l) : (s.setRs x f l).eres = s.eres := rfl
@[simp] theorem setRs_rcont (s : St) (x f l) : (s.setRs x f l).rcont = s.rcont := rfl
@[simp] theorem setRs_as (s : St) (x f l) : (s.setRs x f l).as = s.as := rfl
@[simp] theorem setRs_nObj (s : St) (x f l) : (s.setRs x f l).nObj = s.nObj := rfl
@[simp] theorem setRs_cls (s : St) (x f l) : (s.setRs x f l).cls = s.cls := rfl
@[simp] theorem setRs_nRes (s : St) (x f l) : (s.setRs x f l).nRes = s.nRes := rfl
@[simp] theorem setCont_rs (s : St) (o c) : (s.setCont o c).rs = s.rs := rfl
@[simp] theorem setCont_cont (s : St) (o c o') :
    (s.setCont o c).cont o' = if o' = o then c else s.cont o' := rfl
@[simp] theorem setCont_eres (s : St) (o c) : (s.setCont o c).eres = s.eres := rfl
@[simp] theorem setCont_rcont (s : St) (o c) : (s.setCont o c).rcont = s.rcont := rfl
@[simp] theorem setCont_as (s : St) (o c) : (s.setCont o c).as = s.as := rfl
@[simp] theorem setCont_nObj (s : St) (o c) : (s.setCont o c).nObj = s.nObj := rfl
@[simp] theorem setCont_cls (s : St) (o c) : (s.setCont o c).cls = s.cls := rfl
@[simp] theorem setCont_nRes (s : St) (o c) : (s.setCont o c).nRes = s.nRes := rfl
@[simp] theorem setEres_rs (s : St) (o r) : (s.setEres o r).rs = s.rs := rfl
@[simp] theorem setEres_cont (s : St) (o r) : (s.setEres o r).cont = s.cont := rfl
@[simp] theorem setEres_eres (s : St) (o r o') :
    (s.setEres o r).eres o' = if o' = o then r else s.eres o' := rfl
@[simp] theorem setEres_rcont (s : St) (o r) : (s.setEres o r).rcont = s.rcont := rfl
@[simp] theorem setEres_as (s : St) (o r) : (s.setEres o r).as = s.as := rfl
@[simp] theorem setEres_nObj (s : St) (o r) : (s.setEres o r).nObj = s.nObj := rfl
@[simp] theorem setEres_cls (s : St) (o r) : (s.setEres o r).cls = s.cls := rfl
@[simp] theorem setEres_nRes (s : St) (o r) : (s.setEres o r).nRes = s.nRes := rfl
@[simp] theorem setRcont_rs (s : St) (r l) : (s.setRcont r l).rs = s.rs := rfl
@[simp] theorem setRcont_cont (s : St) (r l) : (s.setRcont r l).cont = s.cont := rfl
@[simp] theorem setRcont_eres (s : St) (r l) : (s.setRcont r l).eres = s.eres := rfl
@[simp] theorem setRcont_rcont (s : St) (r l r') :
    (s.setRcont r l).rcont r' = if r' = r then l else s.rcont r' := rfl
@[simp] theorem setRcont_as (s : St) (r l) : (s.setRcont r l).as = s.as := rfl
@[simp] theorem setRcont_nObj (s : St) (r l) : (s.setRcont r l).nObj = s.nObj := rfl
@[simp] theorem setRcont_cls (s : St) (r l) : (s.setRcont r l).cls = s.cls := rfl
@[simp] theorem setRcont_nRes (s : St) (r l) : (s.setRcont r l).nRes = s.nRes := rfl

/-! ### list helpers -/
section
variable {α : Type} [DecidableEq α]

theorem mem_rmVal_set (l : List α) (y b : α) : b ∈ rmVal false l y ↔ b ∈ l ∧ b ≠ y := by
  simp [rmVal]

theorem mem_rmVal_sub (isList : Bool) (l : List α) (y b : α) : b ∈ rmVal isList l y → b ∈ l := by
  unfold rmVal; split
  · exact List.mem_of_mem_erase
  · intro h; exact (List.mem_filter.1 h).1

theorem rmVal_length_le (isList : Bool) (l : List α) (y : α) : (rmVal isList l y).length ≤ l.length := by
  unfold rmVal; split
  · exact List.length_erase_le
  · exact List.length_filter_le _ _

theorem rmVal_nodup (isList : Bool) (l : List α) (y : α) (h : l.Nodup) : (rmVal isList l y).Nodup := by
  unfold rmVal; split
  · exact h.erase y
  · exact h.filter _

theorem mem_addVal (isList : Bool) (l : List α) (y b : α) (pos : Int) :
    b ∈ addVal isList l y pos ↔ b ∈ l ∨ b = y := by
  unfold addVal
  split
  · rename_i h
    simp only [Bool.and_eq_true, Bool.not_eq_true', List.contains_iff_mem] at h
    constructor
    · intro hb; exact Or.inl hb
    · rintro (hb | rfl)
      · exact hb
      · exact h.2
  · simp only [Py.pyInsert, Py.insertAt, List.mem_append, List.mem_cons]
    constructor
    · rintro (hb | rfl | hb)
      · exact Or.inl (List.mem_of_mem_take hb)
      · exact Or.inr rfl
      · exact Or.inl (List.mem_of_mem_drop hb)
    · rintro (hb | rfl)
      · rw [← List.take_append_drop (Py.clampIns l.length pos) l, List.mem_append] at hb
        rcases hb with hb | hb
        · exact Or.inl hb
        · exact Or.inr (Or.inr hb)
      · exact Or.inr (Or.inl rfl)

theorem mem_appendVal (isList : Bool) (l : List α) (y b : α) :
    b ∈ appendVal isList l y ↔ b ∈ l ∨ b = y := by
  unfold appendVal
  split
  · rename_i h
    simp only [Bool.and_eq_true, Bool.not_eq_true', List.contains_iff_mem] at h
    constructor
    · intro hb; exact Or.inl hb
    · rintro (hb | rfl)
      · exact hb
      · exact h.2
  · simp

theorem addVal_nodup (l : List α) (y : α) (pos : Int) (h : l.Nodup) : (addVal false l y pos).Nodup := by
  unfold addVal
  split
  · exact h
  · rename_i hc
    have hy : y ∉ l := by simpa using hc
    unfold Py.pyInsert Py.insertAt
    rw [← List.take_append_drop (Py.clampIns l.length pos) l] at h hy
    rw [List.nodup_append] at h ⊢
    simp only [List.mem_append, not_or] at hy
    refine ⟨h.1, List.nodup_cons.2 ⟨hy.2, h.2.1⟩, ?_⟩
    intro a ha b hb
    rcases List.mem_cons.1 hb with rfl | hb
    · intro hab; subst hab; exact hy.1 ha
    · exact h.2.2 a ha b hb

theorem appendVal_nodup (l : List α) (y : α) (h : l.Nodup) : (appendVal false l y).Nodup := by
  unfold appendVal
  split
  · exact h
  · rename_i hc
    have hy : y ∉ l := by simpa using hc
    rw [List.nodup_append]
    refine ⟨h, by simp, ?_⟩
    intro a ha b hb
    simp only [List.mem_singleton] at hb
    subst hb; intro hab; subst hab; exact hy ha
end

/-! ### `unlinkRaw` -/

variable (mm : MM)

theorem unlinkRaw_absent (s : St) (x f y) (h : y ∉ s.rs x f) : unlinkRaw mm s x f y = s := by
  simp [unlinkRaw, h]

/-- `unlinkRaw` without local definitions -/
theorem unlinkRaw_eq (s : St) (x f y) :
    unlinkRaw mm s x f y =
      if y ∈ s.rs x f then
        match (mm.feat f).opp with
        | none =>
          if (mm.feat f).cont then (s.setRs x f (rmVal (mm.feat f).isList (s.rs x f) y)).setCont y none
          else s.setRs x f (rmVal (mm.feat f).isList (s.rs x f) y)
        | some g =>
          if (mm.feat g).cont then
            ((if (mm.feat f).cont then (s.setRs x f (rmVal (mm.feat f).isList (s.rs x f) y)).setCont y none
              else s.setRs x f (rmVal (mm.feat f).isList (s.rs x f) y)).setRs y g
                (rmVal (mm.feat g).isList
                  ((if (mm.feat f).cont then (s.setRs x f (rmVal (mm.feat f).isList (s.rs x f) y)).setCont y none
                    else s.setRs x f (rmVal (mm.feat f).isList (s.rs x f) y)).rs y g) x)).setCont x none
          else
            (if (mm.feat f).cont then (s.setRs x f (rmVal (mm.feat f).isList (s.rs x f) y)).setCont y none
              else s.setRs x f (rmVal (mm.feat f).isList (s.rs x f) y)).setRs y g
                (rmVal (mm.feat g).isList
                  ((if (mm.feat f).cont then (s.setRs x f (rmVal (mm.feat f).isList (s.rs x f) y)).setCont y none
                    else s.setRs x f (rmVal (mm.feat f).isList (s.rs x f) y)).rs y g) x)
      else s := by
  rfl

@[simp] theorem unlinkRaw_eres (s : St) (x f y) : (unlinkRaw mm s x f y).eres = s.eres := by
  rw [unlinkRaw_eq]; (repeat' split) <;> rfl
@[simp] theorem unlinkRaw_rcont (s : St) (x f y) : (unlinkRaw mm s x f y).rcont = s.rcont := by
  rw [unlinkRaw_eq]; (repeat' split) <;> rfl
@[simp] theorem unlinkRaw_as (s : St) (x f y) : (unlinkRaw mm s x f y).as = s.as := by
  rw [unlinkRaw_eq]; (repeat' split) <;> rfl
@[simp] theorem unlinkRaw_nObj (s : St) (x f y) : (unlinkRaw mm s x f y).nObj = s.nObj := by
  rw [unlinkRaw_eq]; (repeat' split) <;> rfl
@[simp] theorem unlinkRaw_cls (s : St) (x f y) : (unlinkRaw mm s x f y).cls = s.cls := by
  rw [unlinkRaw_eq]; (repeat' split) <;> rfl
@[simp] theorem unlinkRaw_nRes (s : St) (x f y) : (unlinkRaw mm s x f y).nRes = s.nRes := by
  rw [unlinkRaw_eq]; (repeat' split) <;> rfl

/-- the slots after `unlinkRaw`, as one expression -/
theorem unlinkRaw_rs (s : St) (x f y a f') :
    (unlinkRaw mm s x f y).rs a f' =
      if y ∈ s.rs x f then
        match (mm.feat f).opp with
        | none => if a = x ∧ f' = f then rmVal (mm.feat f).isList (s.rs x f) y else s.rs a f'
        | some g =>
          if a = y ∧ f' = g then
            rmVal (mm.feat g).isList (if y = x ∧ g = f then rmVal (mm.feat f).isList (s.rs x f) y else s.rs y g) x
          else if a = x ∧ f' = f then rmVal (mm.feat f).isList (s.rs x f) y else s.rs a f'
      else s.rs a f' := by
  rw [unlinkRaw_eq]
  by_cases h : y ∈ s.rs x f
  · simp only [h, if_true]
    cases hopp : (mm.feat f).opp with
    | none => simp only []; split <;> simp
    | some g => simp only []; split <;> split <;> simp
  · simp [h]

theorem unlinkRaw_cont (s : St) (x f y o) :
    (unlinkRaw mm s x f y).cont o =
      if y ∈ s.rs x f ∧ ((o = y ∧ (mm.feat f).cont = true) ∨
          (o = x ∧ ∃ g, (mm.feat f).opp = some g ∧ (mm.feat g).cont = true))
      then none else s.cont o := by
  rw [unlinkRaw_eq]
  by_cases h : y ∈ s.rs x f
  · simp only [h, if_true, true_and]
    cases hopp : (mm.feat f).opp with
    | none => simp only []; split <;> simp_all
    | some g => simp only []; split <;> split <;> simp_all <;> grind
  · simp [h]

/-- membership after `unlinkRaw` in any slot that is not list-like -/
theorem mem_unlinkRaw (hwf : mm.WF) (s : St) (x f y a f' b) (hf' : (mm.feat f').isList = false) :
    b ∈ (unlinkRaw mm s x f y).rs a f' ↔
      b ∈ s.rs a f' ∧ ¬ (y ∈ s.rs x f ∧ ((a = x ∧ f' = f ∧ b = y) ∨
          ((mm.feat f).opp = some f' ∧ a = y ∧ b = x))) := by
  rw [unlinkRaw_rs]
  by_cases h : y ∈ s.rs x f
  · simp only [h, if_true, true_and]
    cases hopp : (mm.feat f).opp with
    | none =>
      simp only []
      split
      · rename_i hc; obtain ⟨rfl, rfl⟩ := hc
        rw [hf', mem_rmVal_set]; grind
      · grind
    | some g =>
      have hne : f ≠ g := (hwf.opp_mutual f g hopp).2
      have hgl : (mm.feat g).isList = false := by
        have := hwf.opp_unique g f (hwf.opp_mutual f g hopp).1
        simp [Feature.isList, this]
      have hfl : (mm.feat f).isList = false := by
        have := hwf.opp_unique f g hopp
        simp [Feature.isList, this]
      simp only []
      split
      · rename_i hc; obtain ⟨rfl, rfl⟩ := hc
        have : ¬ (a = x ∧ f' = f) := by intro ⟨_, h2⟩; exact hne h2.symm
        simp only [this, if_false, hgl, mem_rmVal_set]
        grind
      · split
        · rename_i hc1 hc; obtain ⟨rfl, rfl⟩ := hc
          rw [hfl, mem_rmVal_set]; grind
        · grind
  · simp [h]

/-- `unlinkRaw` only ever shrinks slots -/
theorem unlinkRaw_sub (s : St) (x f y a f' b) :
    b ∈ (unlinkRaw mm s x f y).rs a f' → b ∈ s.rs a f' := by
  rw [unlinkRaw_rs]
  split
  · cases (mm.feat f).opp with
    | none => simp only []; split
              · rename_i hc; obtain ⟨rfl, rfl⟩ := hc; exact mem_rmVal_sub _ _ _ _
              · exact id
    | some g =>
      simp only []
      split
      · rename_i hc; obtain ⟨rfl, rfl⟩ := hc
        intro hb
        have hb := mem_rmVal_sub _ _ _ _ hb
        split at hb
        · rename_i hc2; obtain ⟨rfl, rfl⟩ := hc2; exact mem_rmVal_sub _ _ _ _ hb
        · exact hb
      · split
        · rename_i hc; obtain ⟨rfl, rfl⟩ := hc; exact mem_rmVal_sub _ _ _ _
        · exact id
  · exact id

end Store
