import PyecoreModel.Model.Commands
import PyecoreModel.Lemmas.OSet
import PyecoreModel.Lemmas.Notif
/-! List-level inverse laws behind Add / Remove / Move, and lemmas on the command stack (C06). -/
set_option linter.unusedSectionVars false
set_option linter.unusedSimpArgs false
set_option linter.unusedVariables false
namespace Py
variable {α : Type} [DecidableEq α]

theorem length_insertAt (l : List α) (k : Nat) (x : α) (h : k ≤ l.length) : (insertAt l k x).length = l.length + 1 := by
  simp [insertAt, List.length_take, Nat.min_eq_left h]; omega

theorem eraseIdx_insertAt (l : List α) (k : Nat) (x : α) (h : k ≤ l.length) : (insertAt l k x).eraseIdx k = l := by
  unfold insertAt
  have hk : (l.take k).length = k := by simp [Nat.min_eq_left h]
  rw [List.eraseIdx_append_of_length_le (by omega)]
  simp [hk]

theorem insertAt_eraseIdx (l : List α) (k : Nat) (x : α) (h : l[k]? = some x) : insertAt (l.eraseIdx k) k x = l := by
  induction l generalizing k with
  | nil => simp at h
  | cons a t ih =>
    cases k with
    | zero => simp at h; subst h; simp [insertAt]
    | succ j =>
      simp only [List.getElem?_cons_succ] at h
      have := ih j h
      simp only [List.eraseIdx_cons_succ]
      unfold insertAt at this ⊢
      simp only [List.take_succ_cons, List.drop_succ_cons, List.cons_append]
      rw [this]

theorem normIdx_ofNat {n k : Nat} (h : k < n) : normIdx n (k : Int) = some k := by
  unfold normIdx
  have h1 : ¬ ((k : Int) < 0) := by omega
  have h2 : (k : Int) < n := by omega
  simp [h1, h2]

/-- **Add then undo**: popping the effective index gives the collection and the value back, for every index. -/
theorem add_undo (l : List α) (i : Int) (x : α) :
    pyPop (pyInsert l i x) (clampIns l.length i : Nat) = some (l, x) := by
  have hk := clampIns_le l.length i
  unfold pyPop pyInsert
  rw [length_insertAt l _ x hk, normIdx_ofNat (by omega)]
  simp only [getElem?_insertAt l _ x hk, Nat.lt_irrefl, if_false, if_true]
  rw [eraseIdx_insertAt l _ x hk]

/-- **Remove then undo**: re-inserting the removed value at the (normalised) index restores the collection. -/
theorem remove_undo (l l' : List α) (i : Int) (x : α) (h : pyPop l i = some (l', x)) :
    ∃ k, normIdx l.length i = some k ∧ pyInsert l' (k : Int) x = l := by
  obtain ⟨k, hn, hg, rfl⟩ := pyPop_spec h
  refine ⟨k, hn, ?_⟩
  have hlt : k < l.length := normIdx_lt hn
  unfold pyInsert
  have hc : clampIns (l.eraseIdx k).length (k : Int) = k := by
    unfold clampIns
    have h1 : ¬ ((k : Int) < 0) := by omega
    rw [List.length_eraseIdx_of_lt hlt]
    simp only [h1, if_false]
    split <;> omega
  rw [hc]; exact insertAt_eraseIdx l k x hg

/-- **Move then undo**: pop `frm`, insert at the clamped `to`; pop that position, insert at `frm`: the collection is
what it was, for every pair of indices. -/
theorem move_undo (l : List α) (k : Nat) (x : α) (to : Int) (hg : l[k]? = some x) :
    let t := clampIns (l.eraseIdx k).length to
    pyPop (insertAt (l.eraseIdx k) t x) (t : Int) = some (l.eraseIdx k, x) ∧ insertAt (l.eraseIdx k) k x = l := by
  intro t
  have ht : t ≤ (l.eraseIdx k).length := clampIns_le _ _
  refine ⟨?_, insertAt_eraseIdx l k x hg⟩
  unfold pyPop
  rw [length_insertAt _ _ x ht, normIdx_ofNat (by omega)]
  simp only [getElem?_insertAt _ _ x ht, Nat.lt_irrefl, if_false, if_true]
  rw [eraseIdx_insertAt _ _ x ht]

end Py
