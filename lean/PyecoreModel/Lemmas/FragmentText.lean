import PyecoreModel.Model.XmiDoc
/-! The text of a fragment path reads back as the path: `parsePath (renderPath single p) = some p`. -/
namespace XDoc

/-! ### numbers -/

theorem digitVal_digitChar (m : Nat) (h : m < 10) : digitVal (Nat.digitChar m) = some m := by
  unfold digitVal
  have hd : (Nat.digitChar m).isDigit = true := by simp [Nat.isDigit_digitChar, h]
  simp only [hd, if_true]
  have : (Nat.digitChar m).toNat - '0'.toNat = m := Nat.toNat_digitChar_sub_48_of_lt_ten h
  rw [this]

def foldDigits (acc : Option Nat) (s : Str) : Option Nat :=
  s.foldl (fun acc c => match acc, digitVal c with
      | some a, some d => some (a * 10 + d)
      | _, _ => none) acc

theorem foldDigits_toDigits (k : Nat) : foldDigits (some 0) (Nat.toDigits 10 k) = some k := by
  induction k using Nat.strongRecOn with
  | _ k ih =>
    rw [Nat.toDigits_eq_if (by decide : 1 < 10)]
    split
    · rename_i hlt
      simp [foldDigits, digitVal_digitChar k hlt]
    · rename_i hge
      have hlt : k / 10 < k := Nat.div_lt_self (by omega) (by decide)
      have := ih (k / 10) hlt
      unfold foldDigits at this ⊢
      rw [List.foldl_append, this]
      simp only [List.foldl_cons, List.foldl_nil, digitVal_digitChar (k % 10) (Nat.mod_lt _ (by decide))]
      congr 1
      omega

theorem natOfDigits_digitsOf (k : Nat) : natOfDigits (digitsOf k) = some k := by
  unfold natOfDigits digitsOf
  have hne : Nat.toDigits 10 k ≠ [] := Nat.toDigits_ne_nil
  cases h : Nat.toDigits 10 k with
  | nil => exact absurd h hne
  | cons c cs =>
    have := foldDigits_toDigits k
    rw [h] at this
    exact this

theorem digitsOf_isDigit (k : Nat) : ∀ c ∈ digitsOf k, c.isDigit = true :=
  fun _ hc => Nat.isDigit_of_mem_toDigits (by decide) (by decide) hc

theorem digitsOf_ne_nil (k : Nat) : digitsOf k ≠ [] := Nat.toDigits_ne_nil

/-! ### splitting -/

theorem splitOnC_no (c : Char) (w : Str) (h : c ∉ w) : splitOnC c w = [w] := by
  induction w with
  | nil => rfl
  | cons x t ih =>
    have hx : (x == c) = false := by
      have : x ≠ c := fun he => h (by simp [he])
      simpa using this
    have ht : c ∉ t := fun hm => h (List.mem_cons_of_mem _ hm)
    simp [splitOnC, hx, ih ht]

/-- `splitOnC c (w ++ c :: w₁ ++ c :: w₂ …) = [w, w₁, w₂, …]` when `c` occurs in none of them -/
theorem splitOnC_join (c : Char) (ws : List Str) (hws : ∀ w ∈ ws, c ∉ w) (w : Str) (hw : c ∉ w) :
    splitOnC c (w ++ (ws.map (c :: ·)).flatten) = w :: ws := by
  induction ws generalizing w with
  | nil => simpa using splitOnC_no c w hw
  | cons w1 t ih =>
    have ih' := ih (fun x hx => hws x (by simp [hx])) w1 (hws w1 (by simp))
    induction w with
    | nil =>
      simp only [List.nil_append, List.map_cons, List.flatten_cons, List.cons_append]
      simp only [splitOnC, beq_self_eq_true, if_true]
      rw [ih']
    | cons x w' ihw =>
      have hx : (x == c) = false := by
        have : x ≠ c := fun he => hw (by simp [he])
        simpa using this
      have hw' : c ∉ w' := fun hm => hw (List.mem_cons_of_mem _ hm)
      simp only [List.cons_append, splitOnC, hx, Bool.false_eq_true, if_false]
      rw [ihw hw']

end XDoc

namespace XDoc

/-- the text of one segment after the slash -/
def segStr (s : Str × Option Nat) : Str :=
  '@' :: s.1 ++ (match s.2 with | none => [] | some k => '.' :: digitsOf k)

theorem renderSeg_eq (s : Str × Option Nat) : renderSeg s = '/' :: segStr s := rfl

/-- a feature name that can stand in a fragment path -/
def NameOK (n : Str) : Prop := '/' ∉ n ∧ '.' ∉ n

theorem digit_ne (k : Nat) (c : Char) (hc : c.isDigit = false) : c ∉ digitsOf k := by
  intro h
  have := digitsOf_isDigit k c h
  rw [hc] at this
  cases this

theorem parseSeg_segStr (s : Str × Option Nat) (h : NameOK s.1) : parseSeg (segStr s) = some s := by
  obtain ⟨name, idx⟩ := s
  cases idx with
  | none =>
    show (match splitOnC '.' (name ++ []) with
      | [name] => some (name, none)
      | [name, idx] => (natOfDigits idx).map fun k => (name, some k)
      | _ => none) = some (name, none)
    rw [List.append_nil, splitOnC_no '.' name h.2]
  | some k =>
    have hj := splitOnC_join '.' [digitsOf k] (by
      intro w hw
      simp only [List.mem_singleton] at hw
      subst hw
      exact digit_ne k '.' (by decide)) name h.2
    simp only [List.map_cons, List.map_nil, List.flatten_cons, List.flatten_nil, List.append_nil] at hj
    show (match splitOnC '.' (name ++ '.' :: digitsOf k) with
      | [name] => some (name, none)
      | [name, idx] => (natOfDigits idx).map fun k => (name, some k)
      | _ => none) = some (name, some k)
    rw [hj]
    simp only [natOfDigits_digitsOf, Option.map_some]

theorem segStr_no_slash (s : Str × Option Nat) (h : NameOK s.1) : '/' ∉ segStr s := by
  obtain ⟨name, idx⟩ := s
  cases idx with
  | none =>
    intro hm
    have hm' : '/' ∈ '@' :: (name ++ []) := hm
    rcases List.mem_cons.mp hm' with h1 | h2
    · exact absurd h1 (by decide)
    · rw [List.append_nil] at h2; exact h.1 h2
  | some k =>
    intro hm
    have hm' : '/' ∈ '@' :: (name ++ '.' :: digitsOf k) := hm
    rcases List.mem_cons.mp hm' with h1 | h2
    · exact absurd h1 (by decide)
    · rcases List.mem_append.mp h2 with h3 | h3
      · exact h.1 h3
      · rcases List.mem_cons.mp h3 with h4 | h4
        · exact absurd h4 (by decide)
        · exact digit_ne k '/' (by decide) h4

theorem segStr_nonempty (s : Str × Option Nat) : (segStr s).isEmpty = false := rfl

theorem mapM_parseSeg (segs : List (Str × Option Nat)) (h : ∀ s ∈ segs, NameOK s.1) :
    ((segs.map segStr).filter fun x => !x.isEmpty).mapM parseSeg = some segs := by
  induction segs with
  | nil => rfl
  | cons s t ih =>
    have ih' := ih (fun x hx => h x (by simp [hx]))
    simp only [List.map_cons, List.filter_cons, segStr_nonempty, Bool.not_false, if_true, List.mapM_cons,
      parseSeg_segStr s (h s (by simp)), ih']
    rfl

/-- **The text of a fragment path reads back as the path.** -/
theorem parse_render (single : Bool) (p : Path) (hn : ∀ s ∈ p.segs, NameOK s.1) (hroot : single = true → p.root = 0) :
    parsePath (renderPath single p) = some p := by
  obtain ⟨root, segs⟩ := p
  simp only at hn hroot
  have hflat : (segs.map renderSeg).flatten = ((segs.map segStr).map ('/' :: ·)).flatten := by
    rw [List.map_map]; rfl
  have hns : ∀ w ∈ segs.map segStr, '/' ∉ w := by
    intro w hw
    obtain ⟨s, hs, rfl⟩ := List.mem_map.mp hw
    exact segStr_no_slash s (hn s hs)
  unfold renderPath parsePath
  cases single with
  | true =>
    have hr : root = 0 := hroot rfl
    subst hr
    simp only [if_true, List.cons_append, List.nil_append, hflat]
    have hj := splitOnC_join '/' (segs.map segStr) hns [] (by simp)
    simp only [List.nil_append] at hj
    rw [hj]
    simp only [List.filter_cons, List.isEmpty_nil, Bool.not_true, Bool.false_eq_true, if_false, mapM_parseSeg segs hn,
      Option.map_some]
  | false =>
    simp only [Bool.false_eq_true, if_false, List.cons_append, hflat]
    have hd : '/' ∉ digitsOf root := digit_ne root '/' (by decide)
    have hj := splitOnC_join '/' (segs.map segStr) hns (digitsOf root) hd
    rw [hj]
    have hne := digitsOf_ne_nil root
    cases hds : digitsOf root with
    | nil => exact absurd hds hne
    | cons c cs =>
      have hc : c.isDigit = true := digitsOf_isDigit root c (by rw [hds]; simp)
      have hnat : natOfDigits (c :: cs) = some root := by rw [← hds]; exact natOfDigits_digitsOf root
      simp only [hc, if_true, hnat, Option.getD_some, Option.isNone_some, Bool.and_false, Bool.false_eq_true, if_false,
        mapM_parseSeg segs hn, Option.map_some]

end XDoc

namespace XDoc

theorem render_head (single : Bool) (p : Path) : ∃ rest, renderPath single p = '/' :: rest := by
  unfold renderPath
  cases single <;> simp

theorem render_no_hash (single : Bool) (p : Path) (h : ∀ s ∈ p.segs, '#' ∉ s.1) : (renderPath single p).contains '#' = false := by
  have hmem : '#' ∉ renderPath single p := by
    unfold renderPath
    intro hm
    rcases List.mem_append.mp hm with h1 | h2
    · cases single with
      | true => simp at h1
      | false =>
        simp only [Bool.false_eq_true, if_false, List.mem_cons] at h1
        rcases h1 with h1 | h1
        · exact absurd h1 (by decide)
        · exact digit_ne p.root '#' (by decide) h1
    · obtain ⟨l, hl, hml⟩ := List.mem_flatten.mp h2
      obtain ⟨s, hs, rfl⟩ := List.mem_map.mp hl
      obtain ⟨name, idx⟩ := s
      cases idx with
      | none =>
        have hm' : '#' ∈ '/' :: '@' :: (name ++ []) := hml
        simp only [List.append_nil, List.mem_cons] at hm'
        rcases hm' with h3 | h3 | h3
        · exact absurd h3 (by decide)
        · exact absurd h3 (by decide)
        · exact h (name, none) hs h3
      | some k =>
        have hm' : '#' ∈ '/' :: '@' :: (name ++ '.' :: digitsOf k) := hml
        simp only [List.mem_cons, List.mem_append] at hm'
        rcases hm' with h3 | h3 | h3 | h3 | h3
        · exact absurd h3 (by decide)
        · exact absurd h3 (by decide)
        · exact h (name, some k) hs h3
        · exact absurd h3 (by decide)
        · exact digit_ne k '#' (by decide) h3
  simpa using hmem

end XDoc
