import PyecoreModel.Model.NamedTree
namespace NamedTree

theorem idxOf_getElem_of_nodup {l : List String} (h : l.Nodup) {i : Nat} (hi : i < l.length) : l.idxOf l[i] = i := by
  induction l generalizing i with
  | nil => simp at hi
  | cons a t ih =>
    cases i with
    | zero => simp [List.idxOf_cons_self]
    | succ j =>
      have hnd := List.nodup_cons.mp h
      have hj : j < t.length := by simpa using hi
      have hne : t[j] ≠ a := fun he => hnd.1 (he ▸ List.getElem_mem hj)
      simp only [List.getElem_cons_succ]
      rw [List.idxOf_cons]
      have : (a == t[j]) = false := by simpa using Ne.symm hne
      rw [this, cond_false, ih hnd.2 hj]

/-- **the fragment of an element resolves to the element's position** -/
theorem resolve_frag : ∀ (t : NT) (p : List Nat) (ns : List String), t.Uniq → t.frag p = some ns → t.resolve ns = some p
  | _, [], ns, _, h => by
    simp [NT.frag] at h; subst h; rfl
  | .node n ks, i :: p, ns, hu, h => by
    cases hu with
    | mk _ _ hnd hks =>
      simp only [NT.frag, NT.kids] at h
      cases hc : ks[i]? with
      | none => simp [hc] at h
      | some c =>
        simp only [hc, Option.map_eq_some_iff] at h
        obtain ⟨ns', hf, rfl⟩ := h
        have hi : i < ks.length := (List.getElem?_eq_some_iff.mp hc).1
        have hci : ks[i] = c := (List.getElem?_eq_some_iff.mp hc).2
        have hidx : (ks.map NT.name).idxOf c.name = i := by
          have := idxOf_getElem_of_nodup hnd (i := i) (by simpa using hi)
          simpa [hci] using this
        simp only [NT.resolve, NT.kids, hidx, hc]
        rw [resolve_frag c p ns' (hks c (hci ▸ List.getElem_mem hi)) hf]
        rfl

/-- **two different positions never have the same fragment** -/
theorem frag_injective (t : NT) (hu : t.Uniq) (p q : List Nat) (ns : List String)
    (hp : t.frag p = some ns) (hq : t.frag q = some ns) : p = q := by
  have h1 := resolve_frag t p ns hu hp
  have h2 := resolve_frag t q ns hu hq
  rw [h1] at h2; exact Option.some.inj h2

/-- the position a fragment resolves to bears that fragment -/
theorem frag_resolve : ∀ (t : NT) (ns : List String) (p : List Nat), t.resolve ns = some p → t.frag p = some ns
  | _, [], p, h => by simp [NT.resolve] at h; subst h; rfl
  | .node n ks, m :: ns, p, h => by
    simp only [NT.resolve, NT.kids] at h
    generalize hi : (ks.map NT.name).idxOf m = i at h
    cases hc : ks[i]? with
    | none => simp [hc] at h
    | some c =>
      simp only [hc, Option.map_eq_some_iff] at h
      obtain ⟨p', hr, rfl⟩ := h
      have hlt : i < ks.length := (List.getElem?_eq_some_iff.mp hc).1
      have hci : ks[i] = c := (List.getElem?_eq_some_iff.mp hc).2
      have hname : c.name = m := by
        have hlt' : i < (ks.map NT.name).length := by simpa using hlt
        have := List.getElem_idxOf (xs := ks.map NT.name) (x := m) (by rw [hi]; exact hlt')
        simp only [hi, List.getElem_map, hci] at this
        exact this
      simp only [NT.frag, NT.kids, hc, frag_resolve c ns p' hr, Option.map_some, hname]

end NamedTree
