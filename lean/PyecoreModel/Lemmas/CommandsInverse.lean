import PyecoreModel.Lemmas.StoreTyped
import PyecoreModel.Lemmas.OSet
import PyecoreModel.Lemmas.Commands
import PyecoreModel.Model.Commands
/-! Whole-model inverse laws of the commands on attribute features (C06): the shape invariant of attribute slots, and
    `undo ∘ execute = id`, `redo ∘ undo ∘ execute = execute` as equalities of Store states. -/namespace Store
open Py
variable (mm : MM)

/-- the shape of an attribute slot: a single-valued one holds at most one value and never `None`; a collection that is
    not list-like holds no duplicate -/
def ASlot (F : Feature) (l : List PyVal) : Prop :=
  (F.many = false → l.length ≤ 1 ∧ PyVal.none ∉ l) ∧ (F.isList = false → l.Nodup)

/-- every attribute slot has its shape -/
def AShape (s : St) : Prop := ∀ x f, (mm.feat f).isRef = false → ASlot (mm.feat f) (s.as x f)

/-- collection operations are offered to many-valued features only (a single-valued attribute has no `append`) -/
def ArityOK : Op → Prop
  | .add _ f _ | .insert _ f _ _ | .remove _ f _ | .pop _ f _ | .clear _ f | .setItem _ f _ _ | .delItem _ f _
  | .extend _ f _ | .assign _ f _ => (mm.feat f).many = true
  | _ => True

theorem ASlot_many (F : Feature) (l : List PyVal) (hm : F.many = true) (h : F.isList = false → l.Nodup) : ASlot F l :=
  ⟨fun h' => by rw [hm] at h'; exact absurd h' (by simp), h⟩

theorem foldl_appendVal_nodup (b : Bool) (vs l : List PyVal) (h : b = false → l.Nodup) :
    b = false → (vs.foldl (appendVal b) l).Nodup := by
  induction vs generalizing l with
  | nil => exact h
  | cons v t ih =>
    simp only [List.foldl_cons]
    apply ih
    intro hb
    subst hb
    exact appendVal_nodup l v (h rfl)

theorem dflt_not_none (hwft : mm.WFT) (f : Fid) (d : PyVal) (h : (mm.feat f).dflt = some d) : d ≠ .none := by
  intro he
  have := hwft.dflt_ok f d h
  rw [he] at this
  simp [conformsDt] at this

/-- an attribute operation leaves the state alone or rewrites the one slot, to a list of the right shape -/
theorem stepAttr_slot (hwft : mm.WFT) (s : St) (x : Oid) (f : Fid) (op : Op) (hop : ArityOK mm op)
    (htgt : targetOf op = some (x, f))
    (hsl : ASlot (mm.feat f) (s.as x f)) :
    (stepAttr mm s x f op).1 = s ∨ ∃ l, ASlot (mm.feat f) l ∧ (stepAttr mm s x f op).1 = s.setAs x f l := by
  cases op with
  | set x' f' v =>
    simp only [stepAttr]; split
    · exact Or.inl rfl
    · rename_i hm
      have hm : (mm.feat f).many = false := by simpa using hm
      refine Or.inr ⟨_, ?_, rfl⟩
      have hil : (mm.feat f).isList = false := by simp [Feature.isList, hm]
      split
      · exact ⟨fun _ => ⟨by simp, by simp⟩, fun _ => List.nodup_nil⟩
      · rename_i hv
        exact ⟨fun _ => ⟨by simp, by simpa using fun h => hv h.symm⟩, fun _ => by simp⟩
  | del x' f' =>
    simp only [stepAttr]; split
    · rename_i hm
      exact Or.inr ⟨_, ASlot_many _ _ hm (fun _ => List.nodup_nil), rfl⟩
    · refine Or.inr ⟨_, ?_, rfl⟩
      split
      · rename_i d hd
        have := dflt_not_none mm hwft f d hd
        exact ⟨fun _ => ⟨by simp, by simpa using fun h => this h.symm⟩, fun _ => by simp⟩
      · exact ⟨fun _ => ⟨by simp, by simp⟩, fun _ => List.nodup_nil⟩
  | add x' f' v =>
    simp only [targetOf, Option.some.injEq, Prod.mk.injEq] at htgt
    obtain ⟨rfl, rfl⟩ := htgt
    simp only [stepAttr]
    refine Or.inr ⟨_, ASlot_many _ _ hop ?_, rfl⟩
    intro hl; rw [hl]; exact appendVal_nodup _ _ (hsl.2 hl)
  | insert x' f' i v =>
    simp only [targetOf, Option.some.injEq, Prod.mk.injEq] at htgt
    obtain ⟨rfl, rfl⟩ := htgt
    simp only [stepAttr]
    refine Or.inr ⟨_, ASlot_many _ _ hop ?_, rfl⟩
    intro hl; rw [hl]; exact addVal_nodup _ _ _ (hsl.2 hl)
  | remove x' f' v =>
    simp only [targetOf, Option.some.injEq, Prod.mk.injEq] at htgt
    obtain ⟨rfl, rfl⟩ := htgt
    simp only [stepAttr]; split
    · refine Or.inr ⟨_, ASlot_many _ _ hop ?_, rfl⟩
      intro hl; exact rmVal_nodup _ _ _ (hsl.2 hl)
    · exact Or.inl rfl
  | pop x' f' i =>
    simp only [targetOf, Option.some.injEq, Prod.mk.injEq] at htgt
    obtain ⟨rfl, rfl⟩ := htgt
    simp only [stepAttr]; split
    · exact Or.inl rfl
    · cases hp : pyPop (s.as x' f') i with
      | none => exact Or.inl rfl
      | some lv =>
        obtain ⟨l, v⟩ := lv
        obtain ⟨k, _, _, rfl⟩ := pyPop_spec hp
        refine Or.inr ⟨_, ASlot_many _ _ hop ?_, rfl⟩
        intro hl; exact nodup_eraseIdx (hsl.2 hl) k
  | clear x' f' =>
    simp only [targetOf, Option.some.injEq, Prod.mk.injEq] at htgt
    obtain ⟨rfl, rfl⟩ := htgt
    exact Or.inr ⟨_, ASlot_many _ _ hop (fun _ => List.nodup_nil), rfl⟩
  | setItem x' f' i v =>
    simp only [targetOf, Option.some.injEq, Prod.mk.injEq] at htgt
    obtain ⟨rfl, rfl⟩ := htgt
    simp only [stepAttr]; split
    · rename_i hl
      cases hp : pySet (s.as x' f') i v with
      | none => exact Or.inl rfl
      | some l => exact Or.inr ⟨_, ASlot_many _ _ hop (fun h => by rw [hl] at h; cases h), rfl⟩
    · rename_i hl
      have hl : (mm.feat f').isList = false := by simpa using hl
      split
      · exact Or.inl rfl
      · cases hn : normIdx (s.as x' f').length i with
        | none => exact Or.inl rfl
        | some k =>
          refine Or.inr ⟨_, ASlot_many _ _ hop ?_, rfl⟩
          intro _; exact addVal_nodup _ _ _ (nodup_eraseIdx (hsl.2 hl) k)
  | delItem x' f' i =>
    simp only [targetOf, Option.some.injEq, Prod.mk.injEq] at htgt
    obtain ⟨rfl, rfl⟩ := htgt
    simp only [stepAttr]; split
    · exact Or.inl rfl
    · cases hp : pyPop (s.as x' f') i with
      | none => exact Or.inl rfl
      | some lv =>
        obtain ⟨l, v⟩ := lv
        obtain ⟨k, _, _, rfl⟩ := pyPop_spec hp
        refine Or.inr ⟨_, ASlot_many _ _ hop ?_, rfl⟩
        intro hl; exact nodup_eraseIdx (hsl.2 hl) k
  | extend x' f' vs =>
    simp only [targetOf, Option.some.injEq, Prod.mk.injEq] at htgt
    obtain ⟨rfl, rfl⟩ := htgt
    refine Or.inr ⟨_, ASlot_many _ _ hop ?_, rfl⟩
    exact foldl_appendVal_nodup _ vs _ hsl.2
  | assign x' f' vs =>
    simp only [targetOf, Option.some.injEq, Prod.mk.injEq] at htgt
    obtain ⟨rfl, rfl⟩ := htgt
    refine Or.inr ⟨_, ASlot_many _ _ hop ?_, rfl⟩
    exact foldl_appendVal_nodup _ vs _ (fun _ => List.nodup_nil)
  | new c => exact Or.inl rfl
  | res => exact Or.inl rfl
  | delete a r => exact Or.inl rfl
  | rappend r o => exact Or.inl rfl
  | rremove r o => exact Or.inl rfl

end Store

namespace Store
open Py
variable (mm : MM)

theorem ashape_setAs (s : St) (h : AShape mm s) (x : Oid) (f : Fid) (l : List PyVal) (hl : ASlot (mm.feat f) l) :
    AShape mm (s.setAs x f l) := by
  intro a g hr
  simp only [setAs_as]
  split
  · rename_i hc; obtain ⟨rfl, rfl⟩ := hc; exact hl
  · exact h a g hr

/-- **every public call keeps the shape of every attribute slot** -/
theorem ashape_step (hwft : mm.WFT) (s : St) (h : AShape mm s) (op : Op) (hop : ArityOK mm op) : AShape mm (step mm s op).1 := by
  have tgt : ∀ (op : Op) (x f), ArityOK mm op → targetOf op = some (x, f) →
      AShape mm (if (!hasFeat mm s x f) = true then (s, (Except.error Py.Err.attributeError : Res)) else
        if (!(offered op).all (conforms mm s f)) = true then (s, Except.error Py.Err.badValue) else
        if (mm.feat f).isRef = true then stepRef mm s x f op else stepAttr mm s x f op).1 := by
    intro op x f hop htgt
    split
    · exact h
    · split
      · exact h
      · split
        · intro a g hr
          rw [(stepRef_frame mm s x f op).2.2.1]
          exact h a g hr
        · rename_i hr
          have hr : (mm.feat f).isRef = false := by simpa using hr
          rcases stepAttr_slot mm hwft s x f op hop htgt (h x f hr) with he | ⟨l, hl, he⟩
          · rw [he]; exact h
          · rw [he]; exact ashape_setAs mm s h x f l hl
  cases op with
  | new c =>
    simp only [step]
    intro a f hr
    simp only
    split
    · simp only [hr, Bool.false_or]
      split
      · rename_i hm
        exact ASlot_many _ _ hm (fun _ => List.nodup_nil)
      · split
        · rename_i d hd
          have := dflt_not_none mm hwft f d hd
          exact ⟨fun _ => ⟨by simp, by simpa using fun h => this h.symm⟩, fun _ => by simp⟩
        · exact ⟨fun _ => ⟨by simp, by simp⟩, fun _ => List.nodup_nil⟩
    · exact h a f hr
  | res => exact h
  | delete x r =>
    simp only [step]; split
    · intro a f hr; rw [(delete_frame mm s x r).2.2.1]; exact h a f hr
    · exact h
  | rappend r o =>
    simp only [step]; split
    · intro a f hr; rw [(rappend_frame mm s r o).2.2]; exact h a f hr
    · exact h
  | rremove r o =>
    simp only [step]; split
    · exact h
    · exact h
  | set x f v => simp only [step, targetOf]; exact tgt (.set x f v) x f hop rfl
  | del x f => simp only [step, targetOf]; exact tgt (.del x f) x f hop rfl
  | add x f v => simp only [step, targetOf]; exact tgt (.add x f v) x f hop rfl
  | insert x f i v => simp only [step, targetOf]; exact tgt (.insert x f i v) x f hop rfl
  | remove x f v => simp only [step, targetOf]; exact tgt (.remove x f v) x f hop rfl
  | pop x f i => simp only [step, targetOf]; exact tgt (.pop x f i) x f hop rfl
  | clear x f => simp only [step, targetOf]; exact tgt (.clear x f) x f hop rfl
  | setItem x f i v => simp only [step, targetOf]; exact tgt (.setItem x f i v) x f hop rfl
  | delItem x f i => simp only [step, targetOf]; exact tgt (.delItem x f i) x f hop rfl
  | extend x f vs => simp only [step, targetOf]; exact tgt (.extend x f vs) x f hop rfl
  | assign x f vs => simp only [step, targetOf]; exact tgt (.assign x f vs) x f hop rfl

theorem ashape_init : AShape mm init := by
  intro x f _
  exact ⟨fun _ => ⟨by simp [init], by simp [init]⟩, fun _ => by simp [init]⟩

/-- … so after every history of such calls -/
theorem ashape_run (hwft : mm.WFT) (ops : List Op) (hops : ∀ op ∈ ops, ArityOK mm op) : AShape mm (run mm ops) := by
  unfold run
  suffices H : ∀ (l : List Op) (s : St), (∀ op ∈ l, ArityOK mm op) → AShape mm s →
      AShape mm (l.foldl (fun s op => (step mm s op).1) s) from H ops init hops (ashape_init mm)
  intro l
  induction l with
  | nil => intro s _ h; exact h
  | cons op t ih =>
    intro s hl h
    exact ih _ (fun o ho => hl o (List.mem_cons_of_mem _ ho)) (ashape_step mm hwft s h op (hl op (by simp)))

end Store

namespace Store
open Py

theorem setAs_setAs (s : St) (x : Oid) (f : Fid) (l l' : List PyVal) : (s.setAs x f l).setAs x f l' = s.setAs x f l' := by
  unfold St.setAs
  congr 1
  funext x' f'
  by_cases h : x' = x ∧ f' = f <;> simp [h]

theorem setAs_self (s : St) (x : Oid) (f : Fid) : s.setAs x f (s.as x f) = s := by
  unfold St.setAs
  cases s
  congr 1
  funext x' f'
  by_cases h : x' = x ∧ f' = f
  · simp [h]
  · simp [h]

@[simp] theorem setAs_as_same (s : St) (x : Oid) (f : Fid) (l : List PyVal) : (s.setAs x f l).as x f = l := by
  simp [St.setAs]

@[simp] theorem hasFeat_setAs (mm : MM) (s : St) (x f l a g) : hasFeat mm (s.setAs x f l) a g = hasFeat mm s a g := rfl
@[simp] theorem conforms_setAs (mm : MM) (s : St) (x f l g v) : conforms mm (s.setAs x f l) g v = conforms mm s g v := by
  cases v <;> rfl

/-- what a public call on an attribute does -/
theorem step_attr_set (mm : MM) (s : St) (x : Oid) (f : Fid) (v : PyVal) (hf : hasFeat mm s x f = true)
    (hr : (mm.feat f).isRef = false) (hm : (mm.feat f).many = false) (hc : conforms mm s f v = true) :
    step mm s (.set x f v) = (s.setAs x f (if v = .none then [] else [v]), .ok none) := by
  simp [step, targetOf, hf, offered, hc, hr, stepAttr, hm]

end Store

namespace Store
open Py

theorem slotVals_attr (mm : MM) (s : St) (x : Oid) (f : Fid) (hr : (mm.feat f).isRef = false) : slotVals mm s x f = s.as x f := by
  simp [slotVals, hr]

/-- **Set on an attribute**: undo gives back the very state, redo the state after. -/
theorem set_attr_inverse (mm : MM) (s : St) (x : Oid) (f : Fid) (v : PyVal) (hr : (mm.feat f).isRef = false)
    (hshape : ASlot (mm.feat f) (s.as x f)) (hty : ∀ p ∈ s.as x f, conforms mm s f p = true)
    (c : Cmd) (hprep : prepare mm s (.set x f v) = .ok c) (r : Option PyVal) (hex : (c.exec mm s).2 = .ok r) :
    (c.after mm s).undo mm (c.exec mm s).1 = (s, .ok none) ∧ (c.after mm s).redo mm s = c.exec mm s := by
  simp only [prepare] at hprep
  split at hprep
  · cases hprep
  · rename_i hg
    simp only [Bool.or_eq_true, Bool.not_eq_true', not_or, Bool.not_eq_false, Bool.not_eq_true] at hg
    obtain ⟨hf, hm⟩ := hg
    simp only [Prep.ok.injEq] at hprep
    subst hprep
    have hc : conforms mm s f v = true := by
      cases hcv : conforms mm s f v with
      | true => rfl
      | false =>
        simp [Cmd.exec, step, targetOf, hf, offered, hcv] at hex
    simp only [Cmd.exec, Cmd.after, Cmd.redo, and_true]
    rw [step_attr_set mm s x f v hf hr hm hc]
    simp only [Cmd.undo]
    rw [slotVals_attr mm s x f hr]
    obtain ⟨hlen, hnone⟩ := hshape.1 hm
    cases hl : s.as x f with
    | nil =>
      rw [step_attr_set mm _ x f .none (by simpa using hf) hr hm (by rfl)]
      simp only [if_true, setAs_setAs]
      rw [← hl, setAs_self]
    | cons p t =>
      have ht : t = [] := by
        rw [hl] at hlen
        simp only [List.length_cons] at hlen
        exact List.eq_nil_of_length_eq_zero (by omega)
      subst ht
      have hp : p ≠ .none := by
        intro he; apply hnone; rw [hl, he]; simp
      have hcp : conforms mm s f p = true := hty p (by rw [hl]; simp)
      rw [step_attr_set mm _ x f p (by simpa using hf) hr hm (by simpa using hcp)]
      simp only [hp, if_false, setAs_setAs]
      rw [← hl, setAs_self]

end Store

namespace Store
open Py

theorem step_attr_insert (mm : MM) (s : St) (x : Oid) (f : Fid) (i : Int) (v : PyVal) (hf : hasFeat mm s x f = true)
    (hr : (mm.feat f).isRef = false) (hc : conforms mm s f v = true) :
    step mm s (.insert x f i v) = (s.setAs x f (addVal (mm.feat f).isList (s.as x f) v i), .ok none) := by
  simp [step, targetOf, hf, offered, hc, hr, stepAttr]

theorem step_attr_pop (mm : MM) (s : St) (x : Oid) (f : Fid) (i : Int) (hf : hasFeat mm s x f = true)
    (hr : (mm.feat f).isRef = false) (l : List PyVal) (v : PyVal) (hp : pyPop (s.as x f) i = some (l, v)) :
    step mm s (.pop x f i) = (s.setAs x f l, .ok (some v)) := by
  have hne : (s.as x f).isEmpty = false := by
    cases hl : s.as x f with
    | nil => rw [hl] at hp; simp [pyPop, normIdx] at hp; split at hp <;> simp at hp
    | cons _ _ => rfl
  simp [step, targetOf, hf, offered, hr, stepAttr, hne, hp]

theorem clampIns_self (n k : Nat) (h : k ≤ n) : clampIns n (k : Int) = k := by
  unfold clampIns
  have h1 : ¬ ((k : Int) < 0) := by omega
  simp only [h1, if_false]
  split <;> omega

theorem pyInsert_nat {α : Type} (l : List α) (k : Nat) (x : α) (h : k ≤ l.length) : pyInsert l (k : Int) x = insertAt l k x := by
  unfold pyInsert; rw [clampIns_self _ _ h]

theorem mem_insertAt {α : Type} (l : List α) (k : Nat) (x : α) : x ∈ insertAt l k x := by
  unfold insertAt; simp

/-- **Add on an attribute collection**: undo gives back the very state, redo the state after. -/
theorem add_attr_inverse (mm : MM) (s : St) (x : Oid) (f : Fid) (v : PyVal) (idx : Option Int) (hr : (mm.feat f).isRef = false)
    (c : Cmd) (hprep : prepare mm s (.add x f v idx) = .ok c) (r : Option PyVal) (hex : (c.exec mm s).2 = .ok r) :
    (c.after mm s).undo mm (c.exec mm s).1 = (s, .ok (some v)) ∧ (c.after mm s).redo mm s = c.exec mm s := by
  simp only [prepare] at hprep
  split at hprep
  · cases hprep
  · rename_i hg
    simp only [Bool.or_eq_true, Bool.not_eq_true', not_or, Bool.not_eq_false, Bool.not_eq_true, beq_iff_eq] at hg
    obtain ⟨⟨hf, hvn⟩, hm⟩ := hg
    rw [slotVals_attr mm s x f hr] at hprep
    split at hprep
    · cases hprep
    · rename_i hu
      simp only [Prep.ok.injEq] at hprep
      -- the effective index
      obtain ⟨k, hkle, hck⟩ : ∃ k, k ≤ (s.as x f).length ∧ c = .add x f v k := by
        cases idx with
        | none => exact ⟨_, Nat.le_refl _, hprep.symm⟩
        | some i => exact ⟨_, clampIns_le _ _, hprep.symm⟩
      subst hck
      have hc : conforms mm s f v = true := by
        cases hcv : conforms mm s f v with
        | true => rfl
        | false => simp [Cmd.exec, step, targetOf, hf, offered, hcv] at hex
      simp only [Cmd.exec, Cmd.after, Cmd.redo, and_true]
      rw [step_attr_insert mm s x f k v hf hr hc]
      have hadd : addVal (mm.feat f).isList (s.as x f) v (k : Int) = insertAt (s.as x f) k v := by
        unfold addVal
        have : (!(mm.feat f).isList && (s.as x f).contains v) = false := by
          simp only [Feature.isList, hm, Bool.true_and, Bool.not_not]
          simpa using hu
        rw [this]; simp only [Bool.false_eq_true, if_false]
        exact pyInsert_nat _ _ _ hkle
      rw [hadd]
      simp only [Cmd.undo]
      rw [slotVals_attr _ _ x f hr]
      have hcont : ((s.setAs x f (insertAt (s.as x f) k v)).as x f).contains v = true := by
        simp [mem_insertAt]
      rw [hcont]; simp only [if_true]
      have hpop : pyPop ((s.setAs x f (insertAt (s.as x f) k v)).as x f) (k : Int) = some (s.as x f, v) := by
        have := add_undo (s.as x f) (k : Int) v
        rw [clampIns_self _ _ hkle, pyInsert_nat _ _ _ hkle] at this
        simpa using this
      rw [step_attr_pop mm _ x f k (by simpa using hf) hr _ _ hpop, setAs_setAs, setAs_self]

end Store

namespace Store
open Py

theorem idxOf?_getElem (l : List PyVal) (v : PyVal) (k : Nat) (h : l.idxOf? v = some k) : l[k]? = some v := by
  unfold List.idxOf? at h
  obtain ⟨hlt, hp, _⟩ := List.findIdx?_eq_some_iff_getElem.mp h
  rw [List.getElem?_eq_getElem hlt]
  simp only [beq_iff_eq] at hp
  rw [hp]

theorem pyPop_nat {α : Type} (l : List α) (k : Nat) (x : α) (h : l[k]? = some x) : pyPop l (k : Int) = some (l.eraseIdx k, x) := by
  have hlt : k < l.length := (List.getElem?_eq_some_iff.mp h).1
  unfold pyPop
  rw [normIdx_ofNat hlt]
  simp [h]

theorem not_mem_eraseIdx_of_nodup {α : Type} [DecidableEq α] (l : List α) (k : Nat) (x : α) (hnd : l.Nodup) (h : l[k]? = some x) :
    x ∉ l.eraseIdx k := by
  intro hm
  have hlt : k < l.length := (List.getElem?_eq_some_iff.mp h).1
  have hx : l[k] = x := (List.getElem?_eq_some_iff.mp h).2
  rw [List.mem_eraseIdx_iff_getElem] at hm
  obtain ⟨j, hj, hne, hjx⟩ := hm
  have hp := List.pairwise_iff_getElem.mp (List.nodup_iff_pairwise_ne.mp hnd)
  rcases Nat.lt_or_gt_of_ne hne with hlt' | hlt'
  · exact hp j k hj hlt hlt' (by rw [hjx, hx])
  · exact hp k j hlt hj hlt' (by rw [hjx, hx])

/-- re-inserting what was removed: the collection takes it (a set-like collection held it once only) -/
theorem addVal_back (F : Feature) (l : List PyVal) (k : Nat) (v : PyVal) (hshape : ASlot F l) (hg : l[k]? = some v) (j : Nat)
    (hj : j ≤ (l.eraseIdx k).length) :
    addVal F.isList (l.eraseIdx k) v (j : Int) = insertAt (l.eraseIdx k) j v := by
  unfold addVal
  have : (!F.isList && (l.eraseIdx k).contains v) = false := by
    cases hl : F.isList with
    | true => rfl
    | false =>
      simp only [Bool.not_false, Bool.true_and]
      have := not_mem_eraseIdx_of_nodup l k v (hshape.2 hl) hg
      simpa using this
  rw [this]; simp only [Bool.false_eq_true, if_false]
  exact pyInsert_nat _ _ _ hj

end Store

namespace Store
open Py

/-- what `prepare` fixes for a Remove on an attribute collection -/
theorem prepare_remove_attr (mm : MM) (s : St) (x : Oid) (f : Fid) (v : Option PyVal) (idx : Option Int)
    (hr : (mm.feat f).isRef = false) (c : Cmd) (hprep : prepare mm s (.remove x f v idx) = .ok c) :
    hasFeat mm s x f = true ∧ (mm.feat f).many = true ∧ ∃ k w, c = .remove x f w k ∧ (s.as x f)[k]? = some w := by
  simp only [prepare] at hprep
  split at hprep
  · cases hprep
  · rename_i hg
    simp only [Bool.or_eq_true, Bool.not_eq_true', not_or, Bool.not_eq_false] at hg
    refine ⟨hg.1, hg.2, ?_⟩
    rw [slotVals_attr mm s x f hr] at hprep
    cases v with
    | none =>
      cases idx with
      | none => cases hprep
      | some i =>
        simp only at hprep
        cases hn : normIdx (s.as x f).length i with
        | none => rw [hn] at hprep; cases hprep
        | some k =>
          rw [hn] at hprep
          simp only at hprep
          cases hg2 : (s.as x f)[k]? with
          | none => rw [hg2] at hprep; cases hprep
          | some w =>
            rw [hg2] at hprep
            simp only [Prep.ok.injEq] at hprep
            exact ⟨k, w, hprep.symm, hg2⟩
    | some w =>
      cases idx with
      | some _ => cases hprep
      | none =>
        simp only at hprep
        split at hprep
        · cases hprep
        · cases hi : (s.as x f).idxOf? w with
          | none => rw [hi] at hprep; cases hprep
          | some k =>
            rw [hi] at hprep
            simp only [Prep.ok.injEq] at hprep
            exact ⟨k, w, hprep.symm, idxOf?_getElem _ _ _ hi⟩

/-- **Remove on an attribute collection**: undo gives back the very state, redo the state after. -/
theorem remove_attr_inverse (mm : MM) (s : St) (x : Oid) (f : Fid) (v : Option PyVal) (idx : Option Int) (hr : (mm.feat f).isRef = false)
    (hshape : ASlot (mm.feat f) (s.as x f)) (hty : ∀ p ∈ s.as x f, conforms mm s f p = true)
    (c : Cmd) (hprep : prepare mm s (.remove x f v idx) = .ok c) :
    (c.after mm s).undo mm (c.exec mm s).1 = (s, .ok none) ∧ (c.after mm s).redo mm s = c.exec mm s := by
  obtain ⟨hf, hm, k, w, rfl, hg⟩ := prepare_remove_attr mm s x f v idx hr c hprep
  have hlt : k < (s.as x f).length := (List.getElem?_eq_some_iff.mp hg).1
  simp only [Cmd.after, slotVals_attr mm s x f hr, hg, Option.getD_some, Cmd.redo, and_true, Cmd.exec]
  rw [step_attr_pop mm s x f k hf hr _ _ (pyPop_nat _ _ _ hg)]
  simp only [Cmd.undo]
  have hcw : conforms mm s f w = true := hty w (List.mem_of_getElem? hg)
  rw [step_attr_insert mm _ x f k w (by simpa using hf) hr (by simpa using hcw)]
  simp only [setAs_as_same, setAs_setAs]
  rw [addVal_back (mm.feat f) (s.as x f) k w hshape hg k (by rw [List.length_eraseIdx_of_lt hlt]; omega)]
  rw [insertAt_eraseIdx _ _ _ hg, setAs_self]

end Store

namespace Store
open Py

theorem prepare_move_attr (mm : MM) (s : St) (x : Oid) (f : Fid) (frm : Option Int) (to : Int) (v : Option PyVal)
    (hr : (mm.feat f).isRef = false) (c : Cmd) (hprep : prepare mm s (.move x f frm to v) = .ok c) :
    hasFeat mm s x f = true ∧ (mm.feat f).many = true ∧
      ∃ k w, c = .move x f w k (clampIns ((s.as x f).length - 1) to) ∧ (s.as x f)[k]? = some w := by
  simp only [prepare] at hprep
  split at hprep
  · cases hprep
  · rename_i hg
    simp only [Bool.or_eq_true, Bool.not_eq_true', not_or, Bool.not_eq_false] at hg
    refine ⟨hg.1, hg.2, ?_⟩
    rw [slotVals_attr mm s x f hr] at hprep
    cases frm with
    | none =>
      cases v with
      | none => cases hprep
      | some w =>
        simp only at hprep
        cases hi : (s.as x f).idxOf? w with
        | none => rw [hi] at hprep; cases hprep
        | some k =>
          rw [hi] at hprep
          simp only [Option.map_some, Prep.ok.injEq] at hprep
          exact ⟨k, w, hprep.symm, idxOf?_getElem _ _ _ hi⟩
    | some i =>
      cases v with
      | some _ => cases hprep
      | none =>
        simp only at hprep
        cases hn : normIdx (s.as x f).length i with
        | none => rw [hn] at hprep; cases hprep
        | some k =>
          rw [hn] at hprep
          simp only [Option.bind_some] at hprep
          cases hg2 : (s.as x f)[k]? with
          | none => rw [hg2] at hprep; cases hprep
          | some w =>
            rw [hg2] at hprep
            simp only [Option.map_some, Prep.ok.injEq] at hprep
            exact ⟨k, w, hprep.symm, hg2⟩

/-- **Move within an attribute collection**: undo gives back the very state, redo the state after. -/
theorem move_attr_inverse (mm : MM) (s : St) (x : Oid) (f : Fid) (frm : Option Int) (to : Int) (v : Option PyVal)
    (hr : (mm.feat f).isRef = false)
    (hshape : ASlot (mm.feat f) (s.as x f)) (hty : ∀ p ∈ s.as x f, conforms mm s f p = true)
    (c : Cmd) (hprep : prepare mm s (.move x f frm to v) = .ok c) :
    (c.after mm s).undo mm (c.exec mm s).1 = (s, .ok none) ∧ (c.after mm s).redo mm s = c.exec mm s := by
  obtain ⟨hf, hm, k, w, rfl, hg⟩ := prepare_move_attr mm s x f frm to v hr c hprep
  have hlt : k < (s.as x f).length := (List.getElem?_eq_some_iff.mp hg).1
  have hlen : ((s.as x f).eraseIdx k).length = (s.as x f).length - 1 := List.length_eraseIdx_of_lt hlt
  generalize ht : clampIns ((s.as x f).length - 1) to = t
  have htle : t ≤ ((s.as x f).eraseIdx k).length := by rw [hlen, ← ht]; exact clampIns_le _ _
  have hcw : conforms mm s f w = true := hty w (List.mem_of_getElem? hg)
  simp only [Cmd.after, slotVals_attr mm s x f hr, hg, Option.getD_some, Cmd.redo, and_true, Cmd.exec]
  rw [step_attr_pop mm s x f k hf hr _ _ (pyPop_nat _ _ _ hg)]
  simp only [Option.getD_some]
  rw [step_attr_insert mm _ x f t w (by simpa using hf) hr (by simpa using hcw)]
  simp only [setAs_as_same, setAs_setAs]
  rw [addVal_back (mm.feat f) (s.as x f) k w hshape hg t htle]
  simp only [Cmd.undo, slotVals_attr _ _ x f hr, setAs_as_same]
  have hget : (insertAt ((s.as x f).eraseIdx k) t w)[t]? = some w := by
    rw [getElem?_insertAt _ _ w htle]; simp
  rw [hget]
  simp only [bne_self_eq_false, Bool.false_eq_true, if_false]
  have hmv := move_undo (s.as x f) k w to hg
  simp only [hlen, ht] at hmv
  rw [step_attr_pop mm _ x f t (by simpa using hf) hr _ _ (by simpa using hmv.1)]
  simp only
  rw [step_attr_insert mm _ x f k w (by simpa using hf) hr (by simpa using hcw)]
  simp only [setAs_as_same, setAs_setAs]
  rw [addVal_back (mm.feat f) (s.as x f) k w hshape hg k (by rw [hlen]; omega), hmv.2, setAs_self]

end Store

namespace Store
open Py

def Spec.fid : Spec → Fid
  | .set _ f _ | .add _ f _ _ | .remove _ f _ _ | .move _ f _ _ _ => f
def Spec.oid : Spec → Oid
  | .set x _ _ | .add x _ _ _ | .remove x _ _ _ | .move x _ _ _ _ => x

theorem typed_conforms (mm : MM) (s : St) (ht : Typed mm s) (x : Oid) (f : Fid) (hr : (mm.feat f).isRef = false) :
    ∀ p ∈ s.as x f, conforms mm s f p = true := by
  intro p hp
  rcases ht.2 x f p hp hr with h | h
  · cases p <;> simp_all [conforms, conformsDt]
  · subst h; rfl

/-- **One command on an attribute feature**: from any state where slots have their shape and hold conforming values, a
    command that can execute and does: undo gives back the very state (every slot, container, resource of every
    object), redo gives the state after the command. -/
theorem attr_inverse (mm : MM) (s : St) (hs : AShape mm s) (ht : Typed mm s) (sp : Spec)
    (hr : (mm.feat sp.fid).isRef = false) (c : Cmd) (hprep : prepare mm s sp = .ok c) (r : Option PyVal)
    (hex : (c.exec mm s).2 = .ok r) :
    (∃ r', (c.after mm s).undo mm (c.exec mm s).1 = (s, .ok r')) ∧ (c.after mm s).redo mm s = c.exec mm s := by
  cases sp with
  | set x f v =>
    have := set_attr_inverse mm s x f v hr (hs x f hr) (typed_conforms mm s ht x f hr) c hprep r hex
    exact ⟨⟨_, this.1⟩, this.2⟩
  | add x f v idx =>
    have := add_attr_inverse mm s x f v idx hr c hprep r hex
    exact ⟨⟨_, this.1⟩, this.2⟩
  | remove x f v idx =>
    have := remove_attr_inverse mm s x f v idx hr (hs x f hr) (typed_conforms mm s ht x f hr) c hprep
    exact ⟨⟨_, this.1⟩, this.2⟩
  | move x f frm to v =>
    have := move_attr_inverse mm s x f frm to v hr (hs x f hr) (typed_conforms mm s ht x f hr) c hprep
    exact ⟨⟨_, this.1⟩, this.2⟩

theorem after_after (mm : MM) (s : St) (c : Cmd) : (c.after mm s).after mm s = c.after mm s := by
  cases c with
  | set x f v p => rfl
  | add x f v i => rfl
  | remove x f v i =>
    simp only [Cmd.after]
    cases h : (slotVals mm s x f)[i]? <;> simp
  | move x f v a b =>
    simp only [Cmd.after]
    cases h : (slotVals mm s x f)[a]? <;> simp

/-- **execute, undo, redo through the stack**: after a successful execute of a command that obeys the one-step law, undo
    succeeds and restores the state, and redo succeeds and restores the state after the command and the stack. -/
theorem stack_roundtrip (mm : MM) (cs : CStack) (s : St) (hok : cs.n ≤ cs.stack.length) (sp : Spec)
    (hlaw : ∀ c r, prepare mm s sp = .ok c → (c.exec mm s).2 = .ok r →
      (∃ r', (c.after mm s).undo mm (c.exec mm s).1 = (s, .ok r')) ∧ (c.after mm s).redo mm s = c.exec mm s)
    (h1 : (cstep mm cs s (.exec sp)).2.2 = "ok") :
    let r1 := cstep mm cs s (.exec sp)
    let r2 := cstep mm r1.1 r1.2.1 .undo
    let r3 := cstep mm r2.1 r2.2.1 .redo
    r2.2.2 = "ok" ∧ r2.2.1 = s ∧ r2.1 = { r1.1 with n := cs.n } ∧ r3.2.2 = "ok" ∧ r3.2.1 = r1.2.1 ∧ r3.1 = r1.1 := by
  intro r1 r2 r3
  have hr1 : r1 = cstep mm cs s (.exec sp) := rfl
  simp only [cstep] at hr1 h1
  cases hp : prepare mm s sp with
  | cannot => rw [hp] at h1; simp at h1
  | raises => rw [hp] at h1; simp at h1
  | ok c =>
    rw [hp] at hr1 h1
    simp only at hr1 h1
    cases he : (c.exec mm s).2 with
    | error e => rw [he] at h1; simp at h1
    | ok r =>
      rw [he] at hr1
      simp only at hr1
      obtain ⟨⟨r', hu⟩, hre⟩ := hlaw c r hp he
      have hlen : (cs.stack.take cs.n).length = cs.n := by simp [Nat.min_eq_left hok]
      have hget : (cs.stack.take cs.n ++ [c.after mm s])[cs.n]? = some (c.after mm s) := by
        rw [List.getElem?_append_right (by omega)]; simp [hlen]
      have hr2 : r2 = ({ stack := cs.stack.take cs.n ++ [c.after mm s], n := cs.n }, s, "ok") := by
        show cstep mm r1.1 r1.2.1 .undo = _
        rw [hr1]
        simp only [cstep, Nat.add_sub_cancel, hget, hu]
        simp
      have hr3 : r3 = r1 := by
        show cstep mm r2.1 r2.2.1 .redo = _
        rw [hr2, hr1]
        simp only [cstep, hget, hre, he, after_after]
        congr 2
        rw [List.set_append_right _ _ (by omega)]
        simp [hlen]
      rw [hr3, hr2, hr1]
      simp

end Store

/-! ### references without opposite and without containment -/
namespace Store
open Py

/-- a plain reference: no opposite end to keep in step, no ownership to move -/
def PlainRef (F : Feature) : Prop := F.isRef = true ∧ F.opp = none ∧ F.cont = false

theorem setRs_setRs (s : St) (x : Oid) (f : Fid) (l l' : List Oid) : (s.setRs x f l).setRs x f l' = s.setRs x f l' := by
  unfold St.setRs
  congr 1
  funext x' f'
  by_cases h : x' = x ∧ f' = f <;> simp [h]

theorem setRs_self (s : St) (x : Oid) (f : Fid) : s.setRs x f (s.rs x f) = s := by
  unfold St.setRs
  cases s
  congr 1
  funext x' f'
  by_cases h : x' = x ∧ f' = f
  · simp [h]
  · simp [h]

@[simp] theorem setRs_rs_same (s : St) (x : Oid) (f : Fid) (l : List Oid) : (s.setRs x f l).rs x f = l := by
  simp [St.setRs]

@[simp] theorem hasFeat_setRs (mm : MM) (s : St) (x f l a g) : hasFeat mm (s.setRs x f l) a g = hasFeat mm s a g := rfl
@[simp] theorem conforms_setRs (mm : MM) (s : St) (x f l g v) : conforms mm (s.setRs x f l) g v = conforms mm s g v := by
  cases v <;> rfl

theorem filter_ne_eq_erase (l : List Oid) (y : Oid) (hnd : l.Nodup) : l.filter (· ≠ y) = l.erase y := by
  induction l with
  | nil => rfl
  | cons a t ih =>
    have hnd' := List.nodup_cons.mp hnd
    by_cases h : a = y
    · subst h
      simp only [List.filter_cons, ne_eq, not_true_eq_false, decide_false, Bool.false_eq_true, if_false, List.erase_cons_head]
      apply List.filter_eq_self.mpr
      intro b hb
      simp only [ne_eq, decide_eq_true_eq]
      intro hba; subst hba; exact hnd'.1 hb
    · simp only [List.filter_cons, ne_eq, h, not_false_eq_true, decide_true, if_true]
      rw [List.erase_cons_tail (by simpa using h), ih hnd'.2]

/-- the shape of a reference slot (this is `Card`) -/
def RSlot (F : Feature) (l : List Oid) : Prop := (F.many = false → l.length ≤ 1) ∧ (F.isList = false → l.Nodup)

theorem unlinkRaw_plain (mm : MM) (s : St) (x : Oid) (f : Fid) (y : Oid) (hp : PlainRef (mm.feat f)) :
    unlinkRaw mm s x f y = s.setRs x f (rmVal (mm.feat f).isList (s.rs x f) y) := by
  rw [unlinkRaw_eq]
  split
  · rw [hp.2.1]; simp [hp.2.2]
  · rename_i hn
    have : rmVal (mm.feat f).isList (s.rs x f) y = s.rs x f := by
      unfold rmVal; split
      · exact List.erase_of_not_mem hn
      · apply List.filter_eq_self.mpr
        intro b hb; simp only [ne_eq, decide_eq_true_eq]; intro h; subst h; exact hn hb
    rw [this, setRs_self]

theorem link_plain_many (mm : MM) (s : St) (x : Oid) (f : Fid) (y : Oid) (pos : Int) (hp : PlainRef (mm.feat f))
    (hm : (mm.feat f).many = true) :
    link mm s x f y pos = s.setRs x f (addVal (mm.feat f).isList (s.rs x f) y pos) := by
  rw [link_eq]
  split
  · rename_i h
    have : addVal (mm.feat f).isList (s.rs x f) y pos = s.rs x f := by
      unfold addVal; simp [h.2, h.1]
    rw [this, setRs_self]
  · simp only [relOcc, hm, if_true, detachIf, hp.2.2, Bool.false_eq_true, if_false, stealStep, hp.2.1]
    rw [linkRaw_eq]; simp [hp.2.1, hp.2.2, hm]

theorem link_plain_single (mm : MM) (s : St) (x : Oid) (f : Fid) (y : Oid) (pos : Int) (hp : PlainRef (mm.feat f))
    (hm : (mm.feat f).many = false) (hsl : RSlot (mm.feat f) (s.rs x f)) :
    link mm s x f y pos = s.setRs x f [y] := by
  have hlen := hsl.1 hm
  rw [link_eq]
  split
  · rename_i h
    have : s.rs x f = [y] := by
      cases hl : s.rs x f with
      | nil => rw [hl] at h; simp at h
      | cons a t =>
        rw [hl] at hlen h
        have ht : t = [] := List.eq_nil_of_length_eq_zero (by simp only [List.length_cons] at hlen; omega)
        subst ht
        simp only [List.mem_singleton] at h
        rw [h.1]
    rw [← this, setRs_self]
  · simp only [relOcc, hm, Bool.false_eq_true, if_false, detachIf, hp.2.2, stealStep, hp.2.1]
    rw [linkRaw_eq]; simp only [hp.2.1, hp.2.2, hm, Bool.false_eq_true, if_false]
    cases hl : s.rs x f with
    | nil => rfl
    | cons a t => simp only; rw [unlinkRaw_plain mm s x f a hp, setRs_setRs]

end Store

namespace Store
open Py

theorem slotVals_ref (mm : MM) (s : St) (x : Oid) (f : Fid) (hr : (mm.feat f).isRef = true) :
    slotVals mm s x f = (s.rs x f).map .obj := by
  simp [slotVals, hr]

theorem step_pref_set_obj (mm : MM) (s : St) (x : Oid) (f : Fid) (y : Oid) (hf : hasFeat mm s x f = true)
    (hp : PlainRef (mm.feat f)) (hm : (mm.feat f).many = false) (hc : conforms mm s f (.obj y) = true)
    (hsl : RSlot (mm.feat f) (s.rs x f)) :
    step mm s (.set x f (.obj y)) = (s.setRs x f [y], .ok none) := by
  simp only [step, targetOf, hf, offered, List.all_cons, hc, List.all_nil, Bool.and_self, Bool.not_true, Bool.false_eq_true,
    if_false, hp.1, if_true, stepRef, hm]
  rw [link_plain_single mm s x f y 0 hp hm hsl]

theorem step_pref_set_none (mm : MM) (s : St) (x : Oid) (f : Fid) (hf : hasFeat mm s x f = true)
    (hp : PlainRef (mm.feat f)) (hm : (mm.feat f).many = false) (hsl : RSlot (mm.feat f) (s.rs x f)) :
    step mm s (.set x f .none) = (s.setRs x f [], .ok none) := by
  have hlen := hsl.1 hm
  simp only [step, targetOf, hf, offered, List.all_cons, conforms, List.all_nil, Bool.and_self, Bool.not_true, Bool.false_eq_true,
    if_false, hp.1, if_true, stepRef, hm]
  cases hl : s.rs x f with
  | nil => simp only; rw [← hl, setRs_self]
  | cons a t =>
    simp only
    rw [unlinkRaw_plain mm s x f a hp, hl]
    have ht : t = [] := by
      rw [hl] at hlen
      exact List.eq_nil_of_length_eq_zero (by simp only [List.length_cons] at hlen; omega)
    subst ht
    have hil : (mm.feat f).isList = false := by simp [Feature.isList, hm]
    simp [rmVal, hil]

theorem step_pref_insert (mm : MM) (s : St) (x : Oid) (f : Fid) (i : Int) (y : Oid) (hf : hasFeat mm s x f = true)
    (hp : PlainRef (mm.feat f)) (hm : (mm.feat f).many = true) (hc : conforms mm s f (.obj y) = true) :
    step mm s (.insert x f i (.obj y)) = (s.setRs x f (addVal (mm.feat f).isList (s.rs x f) y i), .ok none) := by
  simp only [step, targetOf, hf, offered, List.all_cons, hc, List.all_nil, Bool.and_self, Bool.not_true, Bool.false_eq_true,
    if_false, hp.1, if_true, stepRef]
  rw [link_plain_many mm s x f y i hp hm]

theorem step_pref_pop (mm : MM) (s : St) (x : Oid) (f : Fid) (k : Nat) (y : Oid) (hf : hasFeat mm s x f = true)
    (hp : PlainRef (mm.feat f)) (hsl : RSlot (mm.feat f) (s.rs x f)) (hg : (s.rs x f)[k]? = some y) :
    step mm s (.pop x f k) = (s.setRs x f ((s.rs x f).eraseIdx k), .ok (some (.obj y))) := by
  have hlt : k < (s.rs x f).length := (List.getElem?_eq_some_iff.mp hg).1
  have hne : (s.rs x f).isEmpty = false := by
    cases hl : s.rs x f with
    | nil => rw [hl] at hlt; simp at hlt
    | cons _ _ => rfl
  simp only [step, targetOf, hf, offered, List.all_nil, Bool.not_true, Bool.false_eq_true, if_false, hp.1, if_true, stepRef, hne,
    normIdx_ofNat hlt, hg]
  split
  · rfl
  · rename_i hl
    have hl : (mm.feat f).isList = false := by simpa using hl
    rw [unlinkRaw_plain mm s x f y hp]
    simp only [rmVal, hl, Bool.false_eq_true, if_false]
    rw [filter_ne_eq_erase _ _ (hsl.2 hl), erase_eq_eraseIdx_of_getElem? (hsl.2 hl) hg]

end Store

namespace Store
open Py

theorem map_obj_getElem? (l : List Oid) (k : Nat) (w : PyVal) (h : (l.map PyVal.obj)[k]? = some w) :
    ∃ y, w = .obj y ∧ l[k]? = some y := by
  rw [List.getElem?_map] at h
  cases hl : l[k]? with
  | none => rw [hl] at h; cases h
  | some y => rw [hl] at h; simp only [Option.map_some, Option.some.injEq] at h; exact ⟨y, h.symm, rfl⟩

theorem map_obj_contains (l : List Oid) (y : Oid) : (l.map PyVal.obj).contains (.obj y) = l.contains y := by
  induction l with
  | nil => rfl
  | cons a t ih =>
    simp only [List.map_cons, List.contains_cons, ih]
    congr 1
    apply Bool.eq_iff_iff.mpr
    simp

/-- **Set on a plain single-valued reference** -/
theorem set_pref_inverse (mm : MM) (s : St) (x : Oid) (f : Fid) (v : PyVal) (hp : PlainRef (mm.feat f))
    (hsl : RSlot (mm.feat f) (s.rs x f)) (hty : ∀ y ∈ s.rs x f, conforms mm s f (.obj y) = true)
    (c : Cmd) (hprep : prepare mm s (.set x f v) = .ok c) (r : Option PyVal) (hex : (c.exec mm s).2 = .ok r) :
    (c.after mm s).undo mm (c.exec mm s).1 = (s, .ok none) ∧ (c.after mm s).redo mm s = c.exec mm s := by
  simp only [prepare] at hprep
  split at hprep
  · cases hprep
  · rename_i hg
    simp only [Bool.or_eq_true, Bool.not_eq_true', not_or, Bool.not_eq_false, Bool.not_eq_true] at hg
    obtain ⟨hf, hm⟩ := hg
    simp only [Prep.ok.injEq] at hprep
    subst hprep
    have hc : conforms mm s f v = true := by
      cases hcv : conforms mm s f v with
      | true => rfl
      | false => simp [Cmd.exec, step, targetOf, hf, offered, hcv] at hex
    simp only [Cmd.exec, Cmd.after, Cmd.redo, and_true, Cmd.undo]
    rw [slotVals_ref mm s x f hp.1]
    have hlen := hsl.1 hm
    have hil : (mm.feat f).isList = false := by simp [Feature.isList, hm]
    -- the state after the command
    obtain ⟨L, hstep, hslL⟩ : ∃ L, step mm s (.set x f v) = (s.setRs x f L, .ok none) ∧ RSlot (mm.feat f) L := by
      cases v with
      | obj y => exact ⟨[y], step_pref_set_obj mm s x f y hf hp hm hc hsl, ⟨fun _ => by simp, fun _ => by simp⟩⟩
      | none => exact ⟨[], step_pref_set_none mm s x f hf hp hm hsl, ⟨fun _ => by simp, fun _ => by simp⟩⟩
      | bool b => simp [conforms, hp.1] at hc
      | int i => simp [conforms, hp.1] at hc
      | str t => simp [conforms, hp.1] at hc
      | other k => simp [conforms, hp.1] at hc
    rw [hstep]
    cases hl : s.rs x f with
    | nil =>
      simp only [List.map_nil]
      rw [step_pref_set_none mm _ x f (by simpa using hf) hp hm (by simpa using hslL), setRs_setRs, ← hl, setRs_self]
    | cons a t =>
      have ht : t = [] := by
        rw [hl] at hlen
        exact List.eq_nil_of_length_eq_zero (by simp only [List.length_cons] at hlen; omega)
      subst ht
      simp only [List.map_cons]
      have hca : conforms mm s f (.obj a) = true := hty a (by rw [hl]; simp)
      rw [step_pref_set_obj mm _ x f a (by simpa using hf) hp hm (by simpa using hca) (by simpa using hslL),
        setRs_setRs, ← hl, setRs_self]

end Store

namespace Store
open Py

theorem addValO_back (F : Feature) (l : List Oid) (k : Nat) (y : Oid) (hshape : RSlot F l) (hg : l[k]? = some y) (j : Nat)
    (hj : j ≤ (l.eraseIdx k).length) :
    addVal F.isList (l.eraseIdx k) y (j : Int) = insertAt (l.eraseIdx k) j y := by
  unfold addVal
  have : (!F.isList && (l.eraseIdx k).contains y) = false := by
    cases hl : F.isList with
    | true => rfl
    | false =>
      simp only [Bool.not_false, Bool.true_and]
      have := not_mem_eraseIdx_of_nodup l k y (hshape.2 hl) hg
      simpa using this
  rw [this]; simp only [Bool.false_eq_true, if_false]
  exact pyInsert_nat _ _ _ hj

/-- **Add on a plain reference collection** -/
theorem add_pref_inverse (mm : MM) (s : St) (x : Oid) (f : Fid) (v : PyVal) (idx : Option Int) (hp : PlainRef (mm.feat f))
    (hsl : RSlot (mm.feat f) (s.rs x f))
    (c : Cmd) (hprep : prepare mm s (.add x f v idx) = .ok c) (r : Option PyVal) (hex : (c.exec mm s).2 = .ok r) :
    (c.after mm s).undo mm (c.exec mm s).1 = (s, .ok (some v)) ∧ (c.after mm s).redo mm s = c.exec mm s := by
  simp only [prepare] at hprep
  split at hprep
  · cases hprep
  · rename_i hg
    simp only [Bool.or_eq_true, Bool.not_eq_true', not_or, Bool.not_eq_false, beq_iff_eq] at hg
    obtain ⟨⟨hf, hvn⟩, hm⟩ := hg
    rw [slotVals_ref mm s x f hp.1] at hprep
    split at hprep
    · cases hprep
    · rename_i hu
      simp only [Prep.ok.injEq, List.length_map] at hprep
      obtain ⟨k, hkle, hck⟩ : ∃ k, k ≤ (s.rs x f).length ∧ c = .add x f v k := by
        cases idx with
        | none => exact ⟨_, Nat.le_refl _, hprep.symm⟩
        | some i => exact ⟨_, clampIns_le _ _, hprep.symm⟩
      subst hck
      have hc : conforms mm s f v = true := by
        cases hcv : conforms mm s f v with
        | true => rfl
        | false => simp [Cmd.exec, step, targetOf, hf, offered, hcv] at hex
      obtain ⟨y, rfl⟩ : ∃ y, v = .obj y := by
        cases v with
        | obj y => exact ⟨y, rfl⟩
        | none => exact absurd rfl hvn
        | bool b => simp [conforms, hp.1] at hc
        | int i => simp [conforms, hp.1] at hc
        | str t => simp [conforms, hp.1] at hc
        | other k => simp [conforms, hp.1] at hc
      simp only [Cmd.exec, Cmd.after, Cmd.redo, and_true]
      rw [step_pref_insert mm s x f k y hf hp hm hc]
      have hadd : addVal (mm.feat f).isList (s.rs x f) y (k : Int) = insertAt (s.rs x f) k y := by
        unfold addVal
        have : (!(mm.feat f).isList && (s.rs x f).contains y) = false := by
          simp only [Feature.isList, hm, Bool.true_and, Bool.not_not]
          rw [map_obj_contains] at hu
          simpa using hu
        rw [this]; simp only [Bool.false_eq_true, if_false]
        exact pyInsert_nat _ _ _ hkle
      rw [hadd]
      simp only [Cmd.undo]
      rw [slotVals_ref _ _ x f hp.1]
      have hcont : (((s.setRs x f (insertAt (s.rs x f) k y)).rs x f).map PyVal.obj).contains (.obj y) = true := by
        rw [map_obj_contains]; simp [mem_insertAt]
      rw [hcont]; simp only [if_true]
      have hslL : RSlot (mm.feat f) (insertAt (s.rs x f) k y) := by
        refine ⟨fun h => by rw [hm] at h; exact absurd h (by simp), fun hl => ?_⟩
        apply nodup_insertAt (hsl.2 hl)
        have hl' : (mm.feat f).unique = true := by
          simp only [Feature.isList, hm, Bool.true_and, Bool.not_eq_false'] at hl; exact hl
        rw [map_obj_contains, hl'] at hu
        simpa using hu
      have hget : ((s.setRs x f (insertAt (s.rs x f) k y)).rs x f)[k]? = some y := by
        rw [setRs_rs_same, getElem?_insertAt _ _ y hkle]; simp
      rw [step_pref_pop mm _ x f k y (by simpa using hf) hp (by simpa using hslL) hget]
      simp only [setRs_rs_same, setRs_setRs]
      rw [eraseIdx_insertAt _ _ _ hkle, setRs_self]

end Store

namespace Store
open Py

theorem prepare_remove_ref (mm : MM) (s : St) (x : Oid) (f : Fid) (v : Option PyVal) (idx : Option Int)
    (hr : (mm.feat f).isRef = true) (c : Cmd) (hprep : prepare mm s (.remove x f v idx) = .ok c) :
    hasFeat mm s x f = true ∧ (mm.feat f).many = true ∧ ∃ k y, c = .remove x f (.obj y) k ∧ (s.rs x f)[k]? = some y := by
  simp only [prepare] at hprep
  split at hprep
  · cases hprep
  · rename_i hg
    simp only [Bool.or_eq_true, Bool.not_eq_true', not_or, Bool.not_eq_false] at hg
    refine ⟨hg.1, hg.2, ?_⟩
    rw [slotVals_ref mm s x f hr] at hprep
    cases v with
    | none =>
      cases idx with
      | none => cases hprep
      | some i =>
        simp only at hprep
        cases hn : normIdx ((s.rs x f).map PyVal.obj).length i with
        | none => rw [hn] at hprep; cases hprep
        | some k =>
          rw [hn] at hprep
          simp only at hprep
          cases hg2 : ((s.rs x f).map PyVal.obj)[k]? with
          | none => rw [hg2] at hprep; cases hprep
          | some w =>
            rw [hg2] at hprep
            simp only [Prep.ok.injEq] at hprep
            obtain ⟨y, rfl, hy⟩ := map_obj_getElem? _ _ _ hg2
            exact ⟨k, y, hprep.symm, hy⟩
    | some w =>
      cases idx with
      | some _ => cases hprep
      | none =>
        simp only at hprep
        split at hprep
        · cases hprep
        · cases hi : ((s.rs x f).map PyVal.obj).idxOf? w with
          | none => rw [hi] at hprep; cases hprep
          | some k =>
            rw [hi] at hprep
            simp only [Prep.ok.injEq] at hprep
            obtain ⟨y, rfl, hy⟩ := map_obj_getElem? _ _ _ (idxOf?_getElem _ _ _ hi)
            exact ⟨k, y, hprep.symm, hy⟩

/-- **Remove on a plain reference collection** -/
theorem remove_pref_inverse (mm : MM) (s : St) (x : Oid) (f : Fid) (v : Option PyVal) (idx : Option Int) (hp : PlainRef (mm.feat f))
    (hsl : RSlot (mm.feat f) (s.rs x f)) (hty : ∀ y ∈ s.rs x f, conforms mm s f (.obj y) = true)
    (c : Cmd) (hprep : prepare mm s (.remove x f v idx) = .ok c) :
    (c.after mm s).undo mm (c.exec mm s).1 = (s, .ok none) ∧ (c.after mm s).redo mm s = c.exec mm s := by
  obtain ⟨hf, hm, k, y, rfl, hg⟩ := prepare_remove_ref mm s x f v idx hp.1 c hprep
  have hlt : k < (s.rs x f).length := (List.getElem?_eq_some_iff.mp hg).1
  have hgm : ((s.rs x f).map PyVal.obj)[k]? = some (.obj y) := by rw [List.getElem?_map, hg]; rfl
  simp only [Cmd.after, slotVals_ref mm s x f hp.1, hgm, Option.getD_some, Cmd.redo, and_true, Cmd.exec]
  rw [step_pref_pop mm s x f k y hf hp hsl hg]
  simp only [Cmd.undo]
  have hcy : conforms mm s f (.obj y) = true := hty y (List.mem_of_getElem? hg)
  rw [step_pref_insert mm _ x f k y (by simpa using hf) hp hm (by simpa using hcy)]
  simp only [setRs_rs_same, setRs_setRs]
  rw [addValO_back (mm.feat f) (s.rs x f) k y hsl hg k (by rw [List.length_eraseIdx_of_lt hlt]; omega)]
  rw [insertAt_eraseIdx _ _ _ hg, setRs_self]

theorem prepare_move_ref (mm : MM) (s : St) (x : Oid) (f : Fid) (frm : Option Int) (to : Int) (v : Option PyVal)
    (hr : (mm.feat f).isRef = true) (c : Cmd) (hprep : prepare mm s (.move x f frm to v) = .ok c) :
    hasFeat mm s x f = true ∧ (mm.feat f).many = true ∧
      ∃ k y, c = .move x f (.obj y) k (clampIns ((s.rs x f).length - 1) to) ∧ (s.rs x f)[k]? = some y := by
  simp only [prepare] at hprep
  split at hprep
  · cases hprep
  · rename_i hg
    simp only [Bool.or_eq_true, Bool.not_eq_true', not_or, Bool.not_eq_false] at hg
    refine ⟨hg.1, hg.2, ?_⟩
    rw [slotVals_ref mm s x f hr] at hprep
    simp only [List.length_map] at hprep
    cases frm with
    | none =>
      cases v with
      | none => cases hprep
      | some w =>
        simp only at hprep
        cases hi : ((s.rs x f).map PyVal.obj).idxOf? w with
        | none => rw [hi] at hprep; cases hprep
        | some k =>
          rw [hi] at hprep
          simp only [Option.map_some, Prep.ok.injEq] at hprep
          obtain ⟨y, rfl, hy⟩ := map_obj_getElem? _ _ _ (idxOf?_getElem _ _ _ hi)
          exact ⟨k, y, hprep.symm, hy⟩
    | some i =>
      cases v with
      | some _ => cases hprep
      | none =>
        simp only at hprep
        cases hn : normIdx (s.rs x f).length i with
        | none => rw [hn] at hprep; cases hprep
        | some k =>
          rw [hn] at hprep
          simp only [Option.bind_some] at hprep
          cases hg2 : ((s.rs x f).map PyVal.obj)[k]? with
          | none => rw [hg2] at hprep; cases hprep
          | some w =>
            rw [hg2] at hprep
            simp only [Option.map_some, Prep.ok.injEq] at hprep
            obtain ⟨y, rfl, hy⟩ := map_obj_getElem? _ _ _ hg2
            exact ⟨k, y, hprep.symm, hy⟩

/-- **Move within a plain reference collection** -/
theorem move_pref_inverse (mm : MM) (s : St) (x : Oid) (f : Fid) (frm : Option Int) (to : Int) (v : Option PyVal)
    (hp : PlainRef (mm.feat f))
    (hsl : RSlot (mm.feat f) (s.rs x f)) (hty : ∀ y ∈ s.rs x f, conforms mm s f (.obj y) = true)
    (c : Cmd) (hprep : prepare mm s (.move x f frm to v) = .ok c) :
    (c.after mm s).undo mm (c.exec mm s).1 = (s, .ok none) ∧ (c.after mm s).redo mm s = c.exec mm s := by
  obtain ⟨hf, hm, k, y, rfl, hg⟩ := prepare_move_ref mm s x f frm to v hp.1 c hprep
  have hlt : k < (s.rs x f).length := (List.getElem?_eq_some_iff.mp hg).1
  have hlen : ((s.rs x f).eraseIdx k).length = (s.rs x f).length - 1 := List.length_eraseIdx_of_lt hlt
  generalize ht : clampIns ((s.rs x f).length - 1) to = t
  have htle : t ≤ ((s.rs x f).eraseIdx k).length := by rw [hlen, ← ht]; exact clampIns_le _ _
  have hcy : conforms mm s f (.obj y) = true := hty y (List.mem_of_getElem? hg)
  have hgm : ((s.rs x f).map PyVal.obj)[k]? = some (.obj y) := by rw [List.getElem?_map, hg]; rfl
  have hslE : RSlot (mm.feat f) ((s.rs x f).eraseIdx k) :=
    ⟨fun h => by rw [hm] at h; exact absurd h (by simp), fun hl => nodup_eraseIdx (hsl.2 hl) k⟩
  have hslI : RSlot (mm.feat f) (insertAt ((s.rs x f).eraseIdx k) t y) := by
    refine ⟨fun h => by rw [hm] at h; exact absurd h (by simp), fun hl => ?_⟩
    exact nodup_insertAt (nodup_eraseIdx (hsl.2 hl) k) (not_mem_eraseIdx_of_nodup _ k y (hsl.2 hl) hg) t
  simp only [Cmd.after, slotVals_ref mm s x f hp.1, hgm, Option.getD_some, Cmd.redo, and_true, Cmd.exec]
  rw [step_pref_pop mm s x f k y hf hp hsl hg]
  simp only [Option.getD_some]
  rw [step_pref_insert mm _ x f t y (by simpa using hf) hp hm (by simpa using hcy)]
  simp only [setRs_rs_same, setRs_setRs]
  rw [addValO_back (mm.feat f) (s.rs x f) k y hsl hg t htle]
  simp only [Cmd.undo, slotVals_ref _ _ x f hp.1, setRs_rs_same]
  have hget : (insertAt ((s.rs x f).eraseIdx k) t y)[t]? = some y := by
    rw [getElem?_insertAt _ _ y htle]; simp
  have hgetm : ((insertAt ((s.rs x f).eraseIdx k) t y).map PyVal.obj)[t]? = some (.obj y) := by
    rw [List.getElem?_map, hget]; rfl
  rw [hgetm]
  simp only [bne_self_eq_false, Bool.false_eq_true, if_false]
  rw [step_pref_pop mm _ x f t y (by simpa using hf) hp (by simpa using hslI) (by simpa using hget)]
  simp only [setRs_rs_same, setRs_setRs]
  rw [eraseIdx_insertAt _ _ _ htle]
  rw [step_pref_insert mm _ x f k y (by simpa using hf) hp hm (by simpa using hcy)]
  simp only [setRs_rs_same, setRs_setRs]
  rw [addValO_back (mm.feat f) (s.rs x f) k y hsl hg k (by rw [hlen]; omega), insertAt_eraseIdx _ _ _ hg, setRs_self]

end Store

namespace Store
open Py

/-- a feature whose commands the whole-model law covers: an attribute, or a reference without opposite and containment -/
def Plain (F : Feature) : Prop := F.isRef = false ∨ PlainRef F

theorem typed_conforms_ref (mm : MM) (s : St) (ht : Typed mm s) (x : Oid) (f : Fid) (hr : (mm.feat f).isRef = true) :
    ∀ y ∈ s.rs x f, conforms mm s f (.obj y) = true := by
  intro y hy
  have := ht.1 x f y hy
  simp [conforms, hr, this.2.1, this.2.2]

/-- **One command on a plain feature**: from any state satisfying the invariants, a command that can execute and does:
    undo gives back the very state (every slot, container, resource of every object), redo the state after it. -/
theorem plain_inverse (mm : MM) (s : St) (hs : AShape mm s) (hcard : Card mm s) (ht : Typed mm s) (sp : Spec)
    (hpl : Plain (mm.feat sp.fid)) (c : Cmd) (hprep : prepare mm s sp = .ok c) (r : Option PyVal)
    (hex : (c.exec mm s).2 = .ok r) :
    (∃ r', (c.after mm s).undo mm (c.exec mm s).1 = (s, .ok r')) ∧ (c.after mm s).redo mm s = c.exec mm s := by
  rcases hpl with hr | hp
  · exact attr_inverse mm s hs ht sp hr c hprep r hex
  · cases sp with
    | set x f v =>
      have := set_pref_inverse mm s x f v hp (hcard x f) (typed_conforms_ref mm s ht x f hp.1) c hprep r hex
      exact ⟨⟨_, this.1⟩, this.2⟩
    | add x f v idx =>
      have := add_pref_inverse mm s x f v idx hp (hcard x f) c hprep r hex
      exact ⟨⟨_, this.1⟩, this.2⟩
    | remove x f v idx =>
      have := remove_pref_inverse mm s x f v idx hp (hcard x f) (typed_conforms_ref mm s ht x f hp.1) c hprep
      exact ⟨⟨_, this.1⟩, this.2⟩
    | move x f frm to v =>
      have := move_pref_inverse mm s x f frm to v hp (hcard x f) (typed_conforms_ref mm s ht x f hp.1) c hprep
      exact ⟨⟨_, this.1⟩, this.2⟩

end Store

/-! ### k undos, then k redos -/
namespace Store
open Py

/-- the invariants the one-step law needs -/
def Good (mm : MM) (s : St) : Prop := AShape mm s ∧ Inv mm s ∧ Typed mm s

def Cmd.arity (mm : MM) : Cmd → Prop
  | .set _ _ _ _ => True
  | .add _ f _ _ | .remove _ f _ _ | .move _ f _ _ _ => (mm.feat f).many = true

theorem prepare_arity (mm : MM) (s : St) (sp : Spec) (c : Cmd) (h : prepare mm s sp = .ok c) : c.arity mm := by
  cases sp with
  | set x f v =>
    simp only [prepare] at h
    split at h
    · cases h
    · simp only [Prep.ok.injEq] at h; subst h; trivial
  | add x f v idx =>
    simp only [prepare] at h
    split at h
    · cases h
    · rename_i hg
      simp only [Bool.or_eq_true, Bool.not_eq_true', not_or, Bool.not_eq_false] at hg
      split at h
      · cases h
      · simp only [Prep.ok.injEq] at h; subst h; exact hg.2
  | remove x f v idx =>
    simp only [prepare] at h
    split at h
    · cases h
    · rename_i hg
      simp only [Bool.or_eq_true, Bool.not_eq_true', not_or, Bool.not_eq_false] at hg
      have hm := hg.2
      split at h
      · split at h
        · cases h
        · split at h
          · simp only [Prep.ok.injEq] at h; subst h; exact hm
          · cases h
      · split at h
        · split at h
          · simp only [Prep.ok.injEq] at h; subst h; exact hm
          · cases h
        · cases h
      · cases h
  | move x f frm to v =>
    simp only [prepare] at h
    split at h
    · cases h
    · rename_i hg
      simp only [Bool.or_eq_true, Bool.not_eq_true', not_or, Bool.not_eq_false] at hg
      have hm := hg.2
      split at h
      · cases h
      · simp only [Prep.ok.injEq] at h; subst h; exact hm

theorem good_step (mm : MM) (hwf : mm.WF) (hwft : mm.WFT) (s : St) (h : Good mm s) (op : Op) (hop : ArityOK mm op) :
    Good mm (step mm s op).1 :=
  ⟨ashape_step mm hwft s h.1 op hop, inv_step mm hwf s h.2.1 op, typed_step mm hwf hwft s h.2.2 op⟩

theorem good_exec (mm : MM) (hwf : mm.WF) (hwft : mm.WFT) (s : St) (h : Good mm s) (c : Cmd) (hc : c.arity mm) :
    Good mm (c.exec mm s).1 := by
  cases c with
  | set x f v p => exact good_step mm hwf hwft s h _ trivial
  | add x f v i => exact good_step mm hwf hwft s h _ hc
  | remove x f v i => exact good_step mm hwf hwft s h _ hc
  | move x f v a b =>
    simp only [Cmd.exec]; split
    · exact good_step mm hwf hwft s h (.pop x f a) hc
    · exact good_step mm hwf hwft _ (good_step mm hwf hwft s h (.pop x f a) hc) (.insert x f b _) hc

end Store

namespace Store
open Py

/-- one letter: the stack and the state afterwards -/
def nextL (mm : MM) (p : CStack × St) (l : Letter) : CStack × St := ((cstep mm p.1 p.2 l).1, (cstep mm p.1 p.2 l).2.1)

def runL (mm : MM) (p : CStack × St) (ls : List Letter) : CStack × St := ls.foldl (nextL mm) p

/-- every letter of the word reports success -/
def okL (mm : MM) : CStack × St → List Letter → Prop
  | _, [] => True
  | p, l :: t => (cstep mm p.1 p.2 l).2.2 = "ok" ∧ okL mm (nextL mm p l) t

theorem runL_append (mm : MM) (p : CStack × St) (a b : List Letter) : runL mm p (a ++ b) = runL mm (runL mm p a) b := by
  simp [runL, List.foldl_append]

theorem okL_append (mm : MM) (a b : List Letter) : ∀ p, okL mm p (a ++ b) ↔ okL mm p a ∧ okL mm (runL mm p a) b := by
  induction a with
  | nil => intro p; simp [okL, runL]
  | cons l t ih =>
    intro p
    simp only [List.cons_append, okL, ih, runL, List.foldl_cons, and_assoc]

theorem exec_ok_shape (mm : MM) (cs : CStack) (s : St) (sp : Spec) (h : (cstep mm cs s (.exec sp)).2.2 = "ok") :
    ∃ c r, prepare mm s sp = .ok c ∧ (c.exec mm s).2 = .ok r ∧
      cstep mm cs s (.exec sp) = ({ stack := cs.stack.take cs.n ++ [c.after mm s], n := cs.n + 1 }, (c.exec mm s).1, "ok") := by
  simp only [cstep] at h ⊢
  cases hp : prepare mm s sp with
  | cannot => rw [hp] at h; simp at h
  | raises => rw [hp] at h; simp at h
  | ok c =>
    rw [hp] at h
    simp only at h ⊢
    cases he : (c.exec mm s).2 with
    | error e => rw [he] at h; simp at h
    | ok r => exact ⟨c, r, rfl, he, by simp [he]⟩

theorem set_same {α : Type} (l : List α) (i : Nat) (a : α) (h : l[i]? = some a) : l.set i a = l := by
  apply List.ext_getElem?
  intro j
  rw [List.getElem?_set]
  split
  · rename_i hij; subst hij
    have hlt : i < l.length := (List.getElem?_eq_some_iff.mp h).1
    rw [h]; simp [hlt]
  · rfl

theorem getElem?_of_take_succ {α : Type} (l a : List α) (c : α) (n : Nat) (h : l.take (n + 1) = a ++ [c]) (ha : a.length = n) :
    l[n]? = some c := by
  have : (l.take (n + 1))[n]? = some c := by
    rw [h, List.getElem?_append_right (by omega)]; simp [ha]
  rw [List.getElem?_take] at this
  simpa using this

end Store


/-! ### containment references without opposite, for values that have no owner yet -/
namespace Store
open Py

/-- a containment reference without opposite -/
def ContRef (F : Feature) : Prop := F.isRef = true ∧ F.opp = none ∧ F.cont = true

/-- an object nobody owns: no container, root of no resource -/
def Free (s : St) (y : Oid) : Prop := s.cont y = none ∧ s.eres y = none

theorem setCont_setRs (s : St) (y : Oid) (c : Option (Oid × Fid)) (x : Oid) (f : Fid) (l : List Oid) :
    (s.setCont y c).setRs x f l = (s.setRs x f l).setCont y c := rfl

theorem setCont_setCont (s : St) (y : Oid) (c c' : Option (Oid × Fid)) : (s.setCont y c).setCont y c' = s.setCont y c' := by
  unfold St.setCont
  congr 1
  funext o
  by_cases h : o = y <;> simp [h]

theorem setCont_self (s : St) (y : Oid) (c : Option (Oid × Fid)) (h : s.cont y = c) : s.setCont y c = s := by
  unfold St.setCont
  cases s
  congr 1
  funext o
  by_cases ho : o = y
  · subst ho; simp [← h]
  · simp [ho]

theorem setCont_comm (s : St) (y z : Oid) (c d : Option (Oid × Fid)) (h : y ≠ z) :
    (s.setCont y c).setCont z d = (s.setCont z d).setCont y c := by
  unfold St.setCont
  congr 1
  funext o
  by_cases h1 : o = z <;> by_cases h2 : o = y <;> simp [h1, h2]
  · subst h1; subst h2; exact absurd rfl h
  · intro h3; exact absurd h3.symm h
  · intro h3; exact absurd h3 h

@[simp] theorem hasFeat_setCont (mm : MM) (s : St) (y c a g) : hasFeat mm (s.setCont y c) a g = hasFeat mm s a g := rfl
@[simp] theorem conforms_setCont (mm : MM) (s : St) (y c g v) : conforms mm (s.setCont y c) g v = conforms mm s g v := by
  cases v <;> rfl

theorem detach_of_free (mm : MM) (s : St) (y : Oid) (h : Free s y) : detach mm s y = s := by
  rw [detach_eq]
  have hu : unroot s y = s := by unfold unroot; rw [h.2]
  rw [hu, h.1]

theorem isList_cont (mm : MM) (hwf : mm.WF) (f : Fid) (hc : ContRef (mm.feat f)) : (mm.feat f).isList = false := by
  have := (hwf.cont_unique f hc.2.2).1
  simp [Feature.isList, this]

theorem unlinkRaw_contRef (mm : MM) (hwf : mm.WF) (s : St) (x : Oid) (f : Fid) (y : Oid) (hc : ContRef (mm.feat f)) (hy : y ∈ s.rs x f) :
    unlinkRaw mm s x f y = (s.setRs x f ((s.rs x f).filter (· ≠ y))).setCont y none := by
  rw [unlinkRaw_eq]
  simp only [hy, if_true, hc.2.1, hc.2.2, rmVal, isList_cont mm hwf f hc, Bool.false_eq_true, if_false]

/-- storing a free object that is not yet there into a many-valued containment -/
theorem link_cont_many (mm : MM) (hwf : mm.WF) (s : St) (x : Oid) (f : Fid) (y : Oid) (pos : Int) (hc : ContRef (mm.feat f))
    (hm : (mm.feat f).many = true) (hy : y ∉ s.rs x f) (hfree : Free s y) :
    link mm s x f y pos = (s.setRs x f (pyInsert (s.rs x f) pos y)).setCont y (some (x, f)) := by
  rw [link_eq]
  have hil := isList_cont mm hwf f hc
  simp only [hy, false_and, if_false, relOcc, hm, if_true, detachIf, hc.2.2, detach_of_free mm s y hfree, stealStep, hc.2.1]
  rw [linkRaw_eq]
  simp only [hc.2.1, hc.2.2, if_true, hm, addVal, hil, Bool.not_false, Bool.true_and]
  simp [hy]

end Store

namespace Store
open Py

theorem step_cont_pop (mm : MM) (hwf : mm.WF) (s : St) (x : Oid) (f : Fid) (k : Nat) (y : Oid) (hf : hasFeat mm s x f = true)
    (hc : ContRef (mm.feat f)) (hnd : (s.rs x f).Nodup) (hg : (s.rs x f)[k]? = some y) :
    step mm s (.pop x f k) = ((s.setRs x f ((s.rs x f).eraseIdx k)).setCont y none, .ok (some (.obj y))) := by
  have hlt : k < (s.rs x f).length := (List.getElem?_eq_some_iff.mp hg).1
  have hne : (s.rs x f).isEmpty = false := by
    cases hl : s.rs x f with
    | nil => rw [hl] at hlt; simp at hlt
    | cons _ _ => rfl
  simp only [step, targetOf, hf, offered, List.all_nil, Bool.not_true, Bool.false_eq_true, if_false, hc.1, if_true, stepRef, hne,
    normIdx_ofNat hlt, hg, isList_cont mm hwf f hc]
  rw [unlinkRaw_contRef mm hwf s x f y hc (List.mem_of_getElem? hg), filter_ne_eq_erase _ _ hnd,
    erase_eq_eraseIdx_of_getElem? hnd hg]

theorem step_cont_insert (mm : MM) (hwf : mm.WF) (s : St) (x : Oid) (f : Fid) (i : Int) (y : Oid) (hf : hasFeat mm s x f = true)
    (hc : ContRef (mm.feat f)) (hm : (mm.feat f).many = true) (hcf : conforms mm s f (.obj y) = true)
    (hy : y ∉ s.rs x f) (hfree : Free s y) :
    step mm s (.insert x f i (.obj y)) = ((s.setRs x f (pyInsert (s.rs x f) i y)).setCont y (some (x, f)), .ok none) := by
  simp only [step, targetOf, hf, offered, List.all_cons, hcf, List.all_nil, Bool.and_self, Bool.not_true, Bool.false_eq_true,
    if_false, hc.1, if_true, stepRef]
  rw [link_cont_many mm hwf s x f y i hc hm hy hfree]

/-- **Add of an unowned object to a containment collection** -/
theorem add_cont_inverse (mm : MM) (hwf : mm.WF) (s : St) (x : Oid) (f : Fid) (v : PyVal) (idx : Option Int) (hc : ContRef (mm.feat f))
    (hsl : RSlot (mm.feat f) (s.rs x f)) (hfree : ∀ y, v = .obj y → y ∈ s.rs x f ∨ Free s y)
    (c : Cmd) (hprep : prepare mm s (.add x f v idx) = .ok c) (r : Option PyVal) (hex : (c.exec mm s).2 = .ok r) :
    (c.after mm s).undo mm (c.exec mm s).1 = (s, .ok (some v)) ∧ (c.after mm s).redo mm s = c.exec mm s := by
  have hil := isList_cont mm hwf f hc
  have hnd := hsl.2 hil
  simp only [prepare] at hprep
  split at hprep
  · cases hprep
  · rename_i hg
    simp only [Bool.or_eq_true, Bool.not_eq_true', not_or, Bool.not_eq_false, beq_iff_eq] at hg
    obtain ⟨⟨hf, hvn⟩, hm⟩ := hg
    rw [slotVals_ref mm s x f hc.1] at hprep
    split at hprep
    · cases hprep
    · rename_i hu
      simp only [Prep.ok.injEq, List.length_map] at hprep
      obtain ⟨k, hkle, hck⟩ : ∃ k, k ≤ (s.rs x f).length ∧ c = .add x f v k := by
        cases idx with
        | none => exact ⟨_, Nat.le_refl _, hprep.symm⟩
        | some i => exact ⟨_, clampIns_le _ _, hprep.symm⟩
      subst hck
      have hcv : conforms mm s f v = true := by
        cases hcv : conforms mm s f v with
        | true => rfl
        | false => simp [Cmd.exec, step, targetOf, hf, offered, hcv] at hex
      obtain ⟨y, rfl⟩ : ∃ y, v = .obj y := by
        cases v with
        | obj y => exact ⟨y, rfl⟩
        | none => exact absurd rfl hvn
        | bool b => simp [conforms, hc.1] at hcv
        | int i => simp [conforms, hc.1] at hcv
        | str t => simp [conforms, hc.1] at hcv
        | other k => simp [conforms, hc.1] at hcv
      have huq : (mm.feat f).unique = true := (hwf.cont_unique f hc.2.2).1
      have hy : y ∉ s.rs x f := by
        rw [map_obj_contains, huq] at hu
        simpa using hu
      have hfr : Free s y := by
        rcases hfree y rfl with h | h
        · exact absurd h hy
        · exact h
      simp only [Cmd.exec, Cmd.after, Cmd.redo, and_true]
      rw [step_cont_insert mm hwf s x f k y hf hc hm hcv hy hfr, pyInsert_nat _ _ _ hkle]
      simp only [Cmd.undo]
      rw [slotVals_ref _ _ x f hc.1]
      have hcont : ((((s.setRs x f (insertAt (s.rs x f) k y)).setCont y (some (x, f))).rs x f).map PyVal.obj).contains (.obj y) = true := by
        rw [map_obj_contains]; simp [mem_insertAt]
      rw [hcont]; simp only [if_true]
      have hget : (((s.setRs x f (insertAt (s.rs x f) k y)).setCont y (some (x, f))).rs x f)[k]? = some y := by
        simp only [setCont_rs, setRs_rs_same]
        rw [getElem?_insertAt _ _ y hkle]; simp
      rw [step_cont_pop mm hwf _ x f k y (by simpa using hf) hc
        (by simp only [setCont_rs, setRs_rs_same]; exact nodup_insertAt hnd hy k) hget]
      simp only [setCont_rs, setRs_rs_same]
      rw [eraseIdx_insertAt _ _ _ hkle, setCont_setRs, setRs_setRs, setRs_self, setCont_setCont, setCont_self s y none hfr.1]

end Store

namespace Store
open Py

/-- the children in a containment slot point back to it and are roots of no resource (from `Own` and `ResOK`) -/
def Owned (s : St) (x : Oid) (f : Fid) : Prop := ∀ y ∈ s.rs x f, s.cont y = some (x, f) ∧ s.eres y = none

/-- **Remove of a child from a containment collection** -/
theorem remove_cont_inverse (mm : MM) (hwf : mm.WF) (s : St) (x : Oid) (f : Fid) (v : Option PyVal) (idx : Option Int) (hc : ContRef (mm.feat f))
    (hsl : RSlot (mm.feat f) (s.rs x f)) (hty : ∀ y ∈ s.rs x f, conforms mm s f (.obj y) = true) (hown : Owned s x f)
    (c : Cmd) (hprep : prepare mm s (.remove x f v idx) = .ok c) :
    (c.after mm s).undo mm (c.exec mm s).1 = (s, .ok none) ∧ (c.after mm s).redo mm s = c.exec mm s := by
  have hil := isList_cont mm hwf f hc
  have hnd := hsl.2 hil
  obtain ⟨hf, hm, k, y, rfl, hg⟩ := prepare_remove_ref mm s x f v idx hc.1 c hprep
  have hlt : k < (s.rs x f).length := (List.getElem?_eq_some_iff.mp hg).1
  have hgm : ((s.rs x f).map PyVal.obj)[k]? = some (.obj y) := by rw [List.getElem?_map, hg]; rfl
  obtain ⟨hcy, hey⟩ := hown y (List.mem_of_getElem? hg)
  simp only [Cmd.after, slotVals_ref mm s x f hc.1, hgm, Option.getD_some, Cmd.redo, and_true, Cmd.exec]
  rw [step_cont_pop mm hwf s x f k y hf hc hnd hg]
  simp only [Cmd.undo]
  have hcf : conforms mm s f (.obj y) = true := hty y (List.mem_of_getElem? hg)
  rw [step_cont_insert mm hwf _ x f k y (by simpa using hf) hc hm (by simpa using hcf)
    (by simp only [setCont_rs, setRs_rs_same]; exact not_mem_eraseIdx_of_nodup _ k y hnd hg)
    ⟨by simp, by simpa using hey⟩]
  simp only [setCont_rs, setRs_rs_same]
  rw [pyInsert_nat _ _ _ (by rw [List.length_eraseIdx_of_lt hlt]; omega), insertAt_eraseIdx _ _ _ hg,
    setCont_setRs, setRs_setRs, setRs_self, setCont_setCont, setCont_self s y _ hcy]

/-- **Move of a child within a containment collection** -/
theorem move_cont_inverse (mm : MM) (hwf : mm.WF) (s : St) (x : Oid) (f : Fid) (frm : Option Int) (to : Int) (v : Option PyVal)
    (hc : ContRef (mm.feat f))
    (hsl : RSlot (mm.feat f) (s.rs x f)) (hty : ∀ y ∈ s.rs x f, conforms mm s f (.obj y) = true) (hown : Owned s x f)
    (c : Cmd) (hprep : prepare mm s (.move x f frm to v) = .ok c) :
    (c.after mm s).undo mm (c.exec mm s).1 = (s, .ok none) ∧ (c.after mm s).redo mm s = c.exec mm s := by
  have hil := isList_cont mm hwf f hc
  have hnd := hsl.2 hil
  obtain ⟨hf, hm, k, y, rfl, hg⟩ := prepare_move_ref mm s x f frm to v hc.1 c hprep
  have hlt : k < (s.rs x f).length := (List.getElem?_eq_some_iff.mp hg).1
  have hlen : ((s.rs x f).eraseIdx k).length = (s.rs x f).length - 1 := List.length_eraseIdx_of_lt hlt
  generalize ht : clampIns ((s.rs x f).length - 1) to = t
  have htle : t ≤ ((s.rs x f).eraseIdx k).length := by rw [hlen, ← ht]; exact clampIns_le _ _
  have hcf : conforms mm s f (.obj y) = true := hty y (List.mem_of_getElem? hg)
  have hgm : ((s.rs x f).map PyVal.obj)[k]? = some (.obj y) := by rw [List.getElem?_map, hg]; rfl
  obtain ⟨hcy, hey⟩ := hown y (List.mem_of_getElem? hg)
  have hnotin : y ∉ (s.rs x f).eraseIdx k := not_mem_eraseIdx_of_nodup _ k y hnd hg
  -- the state after the command: only the slot changed
  have hexec : (Cmd.move x f (.obj y) k t).exec mm s = (s.setRs x f (insertAt ((s.rs x f).eraseIdx k) t y), .ok none) := by
    simp only [Cmd.exec]
    rw [step_cont_pop mm hwf s x f k y hf hc hnd hg]
    simp only [Option.getD_some]
    rw [step_cont_insert mm hwf _ x f t y (by simpa using hf) hc hm (by simpa using hcf)
      (by simp only [setCont_rs, setRs_rs_same]; exact hnotin) ⟨by simp, by simpa using hey⟩]
    simp only [setCont_rs, setRs_rs_same]
    rw [pyInsert_nat _ _ _ htle, setCont_setRs, setRs_setRs, setCont_setCont, setCont_self _ y _ (by simpa using hcy)]
  simp only [Cmd.after, slotVals_ref mm s x f hc.1, hgm, Option.getD_some, Cmd.redo, and_true]
  rw [hexec]
  simp only [Cmd.undo, slotVals_ref _ _ x f hc.1, setRs_rs_same]
  have hget : (insertAt ((s.rs x f).eraseIdx k) t y)[t]? = some y := by
    rw [getElem?_insertAt _ _ y htle]; simp
  have hgetm : ((insertAt ((s.rs x f).eraseIdx k) t y).map PyVal.obj)[t]? = some (.obj y) := by
    rw [List.getElem?_map, hget]; rfl
  rw [hgetm]
  simp only [bne_self_eq_false, Bool.false_eq_true, if_false]
  rw [step_cont_pop mm hwf _ x f t y (by simpa using hf) hc
    (by rw [setRs_rs_same]; exact nodup_insertAt (nodup_eraseIdx hnd k) hnotin t) (by simpa using hget)]
  simp only [setRs_rs_same]
  rw [eraseIdx_insertAt _ _ _ htle]
  rw [step_cont_insert mm hwf _ x f k y (by simpa using hf) hc hm (by simpa using hcf)
    (by simp only [setCont_rs, setRs_rs_same]; exact hnotin) ⟨by simp, by simpa using hey⟩]
  simp only [setCont_rs, setRs_rs_same]
  rw [pyInsert_nat _ _ _ (by rw [hlen]; omega), insertAt_eraseIdx _ _ _ hg, setCont_setRs, setRs_setRs, setRs_setRs, setRs_self,
    setCont_setCont, setCont_self s y _ hcy]

end Store

namespace Store
open Py

theorem St.ext2 (a b : St) (h1 : a.nObj = b.nObj) (h2 : a.cls = b.cls) (h3 : ∀ x f, a.rs x f = b.rs x f) (h4 : a.as = b.as)
    (h5 : ∀ o, a.cont o = b.cont o) (h6 : a.eres = b.eres) (h7 : a.rcont = b.rcont) (h8 : a.nRes = b.nRes) : a = b := by
  cases a; cases b
  simp only [St.mk.injEq] at *
  exact ⟨h1, h2, funext fun x => funext fun f => h3 x f, h4, funext h5, h6, h7, h8⟩

theorem rslot_single (F : Feature) (l : List Oid) (h : RSlot F l) (hm : F.many = false) : l = [] ∨ ∃ y0, l = [y0] := by
  have := h.1 hm
  cases l with
  | nil => exact Or.inl rfl
  | cons a t =>
    right
    have ht : t = [] := List.eq_nil_of_length_eq_zero (by simp only [List.length_cons] at this; omega)
    exact ⟨a, by rw [ht]⟩

/-- releasing the occupant of a single-valued containment slot -/
def vacate (s : St) (x : Oid) (f : Fid) : St :=
  match s.rs x f with
  | y0 :: _ => (s.setRs x f []).setCont y0 none
  | [] => s

theorem vacate_nil (s : St) (x : Oid) (f : Fid) (h : s.rs x f = []) : vacate s x f = s := by
  unfold vacate; rw [h]

theorem vacate_one (s : St) (x : Oid) (f : Fid) (y0 : Oid) (h : s.rs x f = [y0]) :
    vacate s x f = (s.setRs x f []).setCont y0 none := by
  unfold vacate; rw [h]

theorem unlink_one (mm : MM) (hwf : mm.WF) (s : St) (x : Oid) (f : Fid) (y0 : Oid) (hc : ContRef (mm.feat f)) (h : s.rs x f = [y0]) :
    unlinkRaw mm s x f y0 = (s.setRs x f []).setCont y0 none := by
  rw [unlinkRaw_contRef mm hwf s x f y0 hc (by rw [h]; simp), h]
  simp

theorem step_cont_set_none (mm : MM) (hwf : mm.WF) (s : St) (x : Oid) (f : Fid) (hf : hasFeat mm s x f = true)
    (hc : ContRef (mm.feat f)) (hm : (mm.feat f).many = false) (hsl : RSlot (mm.feat f) (s.rs x f)) :
    step mm s (.set x f .none) = (vacate s x f, .ok none) := by
  simp only [step, targetOf, hf, offered, List.all_cons, conforms, List.all_nil, Bool.and_self, Bool.not_true, Bool.false_eq_true,
    if_false, hc.1, if_true, stepRef, hm]
  rcases rslot_single _ _ hsl hm with h | ⟨y0, h⟩
  · rw [vacate_nil s x f h]; simp only [h]
  · rw [vacate_one s x f y0 h]; simp only [h]; rw [unlink_one mm hwf s x f y0 hc h]

theorem step_cont_set_same (mm : MM) (hwf : mm.WF) (s : St) (x : Oid) (f : Fid) (y : Oid) (hf : hasFeat mm s x f = true)
    (hc : ContRef (mm.feat f)) (hm : (mm.feat f).many = false) (hcf : conforms mm s f (.obj y) = true) (hy : y ∈ s.rs x f) :
    step mm s (.set x f (.obj y)) = (s, .ok none) := by
  simp only [step, targetOf, hf, offered, List.all_cons, hcf, List.all_nil, Bool.and_self, Bool.not_true, Bool.false_eq_true,
    if_false, hc.1, if_true, stepRef, hm]
  rw [link_eq]; simp [hy, isList_cont mm hwf f hc]

theorem vacate_free (s : St) (x : Oid) (f : Fid) (y : Oid) (hy : y ∉ s.rs x f) (h : Free s y) : Free (vacate s x f) y := by
  unfold vacate
  cases hl : s.rs x f with
  | nil => exact h
  | cons y0 t =>
    have hne : y ≠ y0 := by intro he; apply hy; rw [hl, he]; simp
    exact ⟨by simp [hne, h.1], by simpa using h.2⟩

theorem step_cont_set_obj (mm : MM) (hwf : mm.WF) (s : St) (x : Oid) (f : Fid) (y : Oid) (hf : hasFeat mm s x f = true)
    (hc : ContRef (mm.feat f)) (hm : (mm.feat f).many = false) (hcf : conforms mm s f (.obj y) = true)
    (hsl : RSlot (mm.feat f) (s.rs x f)) (hy : y ∉ s.rs x f) (hfree : Free s y) :
    step mm s (.set x f (.obj y)) = (((vacate s x f).setRs x f [y]).setCont y (some (x, f)), .ok none) := by
  simp only [step, targetOf, hf, offered, List.all_cons, hcf, List.all_nil, Bool.and_self, Bool.not_true, Bool.false_eq_true,
    if_false, hc.1, if_true, stepRef, hm]
  rw [link_eq]
  simp only [hy, false_and, if_false, relOcc, hm, Bool.false_eq_true, detachIf, hc.2.2, if_true, stealStep, hc.2.1]
  have hv := vacate_free s x f y hy hfree
  rcases rslot_single _ _ hsl hm with h | ⟨y0, h⟩
  · rw [vacate_nil s x f h] at hv ⊢
    simp only [h]
    rw [detach_of_free mm _ y hv, linkRaw_eq]
    simp [hc.2.1, hc.2.2, hm]
  · rw [vacate_one s x f y0 h] at hv ⊢
    simp only [h]
    rw [unlink_one mm hwf s x f y0 hc h, detach_of_free mm _ y hv, linkRaw_eq]
    simp [hc.2.1, hc.2.2, hm]

end Store

namespace Store
open Py

/-- **Set on a single-valued containment**, for a value that is already there, has no owner yet, or is `None` -/
theorem set_cont_inverse (mm : MM) (hwf : mm.WF) (s : St) (x : Oid) (f : Fid) (v : PyVal) (hc : ContRef (mm.feat f))
    (hsl : RSlot (mm.feat f) (s.rs x f)) (hty : ∀ y ∈ s.rs x f, conforms mm s f (.obj y) = true) (hown : Owned s x f)
    (hfree : ∀ y, v = .obj y → y ∈ s.rs x f ∨ Free s y)
    (c : Cmd) (hprep : prepare mm s (.set x f v) = .ok c) (r : Option PyVal) (hex : (c.exec mm s).2 = .ok r) :
    (c.after mm s).undo mm (c.exec mm s).1 = (s, .ok none) ∧ (c.after mm s).redo mm s = c.exec mm s := by
  simp only [prepare] at hprep
  split at hprep
  · cases hprep
  · rename_i hg
    simp only [Bool.or_eq_true, Bool.not_eq_true', not_or, Bool.not_eq_false, Bool.not_eq_true] at hg
    obtain ⟨hf, hm⟩ := hg
    simp only [Prep.ok.injEq] at hprep
    subst hprep
    have hcv : conforms mm s f v = true := by
      cases hcv : conforms mm s f v with
      | true => rfl
      | false => simp [Cmd.exec, step, targetOf, hf, offered, hcv] at hex
    simp only [Cmd.exec, Cmd.after, Cmd.redo, and_true, Cmd.undo]
    rw [slotVals_ref mm s x f hc.1]
    have hnil : RSlot (mm.feat f) ([] : List Oid) := ⟨fun _ => by simp, fun _ => List.nodup_nil⟩
    have hone : ∀ z, RSlot (mm.feat f) [z] := fun z => ⟨fun _ => by simp, fun _ => by simp⟩
    rcases rslot_single _ _ hsl hm with hl | ⟨y0, hl⟩
    · -- the slot was empty
      simp only [hl, List.map_nil]
      cases v with
      | none =>
        rw [step_cont_set_none mm hwf s x f hf hc hm hsl, vacate_nil s x f hl]
        rw [step_cont_set_none mm hwf s x f hf hc hm hsl, vacate_nil s x f hl]
      | obj y =>
        have hy : y ∉ s.rs x f := by rw [hl]; simp
        have hfr : Free s y := by
          rcases hfree y rfl with h | h
          · exact absurd h hy
          · exact h
        rw [step_cont_set_obj mm hwf s x f y hf hc hm hcv hsl hy hfr, vacate_nil s x f hl]
        have hrs : ((s.setRs x f [y]).setCont y (some (x, f))).rs x f = [y] := by simp
        rw [step_cont_set_none mm hwf _ x f (by simpa using hf) hc hm (by rw [hrs]; exact hone y), vacate_one _ x f y hrs]
        congr 1
        apply St.ext2 <;> try rfl
        · intro a g; simp only [setCont_rs, setRs_rs]
          split
          · rename_i h; obtain ⟨rfl, rfl⟩ := h; exact hl.symm
          · rfl
        · intro o; simp only [setCont_cont, setRs_cont]
          split
          · rename_i h; subst h; exact hfr.1.symm
          · rfl
      | bool b => simp [conforms, hc.1] at hcv
      | int i => simp [conforms, hc.1] at hcv
      | str t => simp [conforms, hc.1] at hcv
      | other k => simp [conforms, hc.1] at hcv
    · -- the slot held y0
      simp only [hl, List.map_cons, List.map_nil]
      obtain ⟨hc0, he0⟩ := hown y0 (by rw [hl]; simp)
      have hcf0 : conforms mm s f (.obj y0) = true := hty y0 (by rw [hl]; simp)
      cases v with
      | none =>
        rw [step_cont_set_none mm hwf s x f hf hc hm hsl, vacate_one s x f y0 hl]
        have hrs : ((s.setRs x f []).setCont y0 none).rs x f = [] := by simp
        rw [step_cont_set_obj mm hwf _ x f y0 (by simpa using hf) hc hm (by simpa using hcf0) (by rw [hrs]; exact hnil)
          (by rw [hrs]; simp) ⟨by simp, by simpa using he0⟩, vacate_nil _ x f hrs]
        congr 1
        apply St.ext2 <;> try rfl
        · intro a g; simp only [setCont_rs, setRs_rs]
          split
          · rename_i h; obtain ⟨rfl, rfl⟩ := h; exact hl.symm
          · rfl
        · intro o; simp only [setCont_cont, setRs_cont]
          split
          · rename_i h; subst h; exact hc0.symm
          · rfl
      | obj y =>
        by_cases hy : y ∈ s.rs x f
        · -- the same child again: nothing happens, twice
          have hyy : y = y0 := by rw [hl] at hy; simpa using hy
          subst hyy
          rw [step_cont_set_same mm hwf s x f y hf hc hm hcv hy]
          rw [step_cont_set_same mm hwf s x f y hf hc hm hcv hy]
        · have hfr : Free s y := by
            rcases hfree y rfl with h | h
            · exact absurd h hy
            · exact h
          have hne : y ≠ y0 := by intro he; apply hy; rw [hl, he]; simp
          rw [step_cont_set_obj mm hwf s x f y hf hc hm hcv hsl hy hfr, vacate_one s x f y0 hl]
          have hrs : ((((s.setRs x f []).setCont y0 none).setRs x f [y]).setCont y (some (x, f))).rs x f = [y] := by simp
          rw [step_cont_set_obj mm hwf _ x f y0 (by simpa using hf) hc hm (by simpa using hcf0) (by rw [hrs]; exact hone y)
            (by rw [hrs]; simpa using hne.symm) ⟨by simp [hne.symm], by simpa using he0⟩, vacate_one _ x f y hrs]
          congr 1
          apply St.ext2 <;> try rfl
          · intro a g; simp only [setCont_rs, setRs_rs]
            split
            · rename_i h; obtain ⟨rfl, rfl⟩ := h; exact hl.symm
            · rfl
          · intro o; simp only [setCont_cont, setRs_cont]
            by_cases h1 : o = y0
            · subst h1; simp [hc0]
            · by_cases h2 : o = y
              · subst h2; simp [h1, hfr.1]
              · simp [h1, h2]
      | bool b => simp [conforms, hc.1] at hcv
      | int i => simp [conforms, hc.1] at hcv
      | str t => simp [conforms, hc.1] at hcv
      | other k => simp [conforms, hc.1] at hcv

end Store

namespace Store
open Py

def Spec.offers : Spec → Option PyVal
  | .set _ _ v | .add _ _ v _ => some v
  | _ => none

/-- what the whole-model law covers: commands on features without an opposite; on a containment, the value offered is
    already there or has no owner yet (the command does not take it away from another container or a resource) -/
def Covered (mm : MM) (s : St) (sp : Spec) : Prop :=
  ((mm.feat sp.fid).isRef = false ∨ (mm.feat sp.fid).opp = none) ∧
  ((mm.feat sp.fid).cont = true → ∀ y, sp.offers = some (.obj y) → y ∈ s.rs sp.oid sp.fid ∨ Free s y)

theorem owned_of_inv (mm : MM) (s : St) (h : Inv mm s) (x : Oid) (f : Fid) (hc : (mm.feat f).cont = true) : Owned s x f := by
  intro y hy
  have hco : s.cont y = some (x, f) := (h.2.2.1 y x f).mpr ⟨hc, hy⟩
  exact ⟨hco, h.2.2.2.2.2 y (by rw [hco]; simp)⟩

/-- **One command on a feature without opposite**: from any state satisfying the invariants, a command that can execute
    and does, and does not take its value away from another owner: undo gives back the very state (every slot, container
    and resource membership of every object), redo the state after it. -/
theorem covered_inverse (mm : MM) (hwf : mm.WF) (s : St) (hg : Good mm s) (sp : Spec) (hcov : Covered mm s sp)
    (c : Cmd) (hprep : prepare mm s sp = .ok c) (r : Option PyVal) (hex : (c.exec mm s).2 = .ok r) :
    (∃ r', (c.after mm s).undo mm (c.exec mm s).1 = (s, .ok r')) ∧ (c.after mm s).redo mm s = c.exec mm s := by
  obtain ⟨hs, hinv, ht⟩ := hg
  have hcard := hinv.2.1
  by_cases hr : (mm.feat sp.fid).isRef = false
  · exact plain_inverse mm s hs hcard ht sp (Or.inl hr) c hprep r hex
  · have hr : (mm.feat sp.fid).isRef = true := by simpa using hr
    have hopp : (mm.feat sp.fid).opp = none := by
      rcases hcov.1 with h | h
      · rw [h] at hr; cases hr
      · exact h
    by_cases hc : (mm.feat sp.fid).cont = true
    · have hcr : ContRef (mm.feat sp.fid) := ⟨hr, hopp, hc⟩
      have hval := hcov.2 hc
      cases sp with
      | set x f v =>
        have := set_cont_inverse mm hwf s x f v hcr (hcard x f) (typed_conforms_ref mm s ht x f hr) (owned_of_inv mm s hinv x f hc)
          (fun y hy => hval y (by simp [Spec.offers, hy])) c hprep r hex
        exact ⟨⟨_, this.1⟩, this.2⟩
      | add x f v idx =>
        have := add_cont_inverse mm hwf s x f v idx hcr (hcard x f)
          (fun y hy => hval y (by simp [Spec.offers, hy])) c hprep r hex
        exact ⟨⟨_, this.1⟩, this.2⟩
      | remove x f v idx =>
        have := remove_cont_inverse mm hwf s x f v idx hcr (hcard x f) (typed_conforms_ref mm s ht x f hr)
          (owned_of_inv mm s hinv x f hc) c hprep
        exact ⟨⟨_, this.1⟩, this.2⟩
      | move x f frm to v =>
        have := move_cont_inverse mm hwf s x f frm to v hcr (hcard x f) (typed_conforms_ref mm s ht x f hr)
          (owned_of_inv mm s hinv x f hc) c hprep
        exact ⟨⟨_, this.1⟩, this.2⟩
    · have hc : (mm.feat sp.fid).cont = false := by simpa using hc
      exact plain_inverse mm s hs hcard ht sp (Or.inr ⟨hr, hopp, hc⟩) c hprep r hex

/-- the coverage condition along a word: each command is judged in the state it is executed in -/
def coveredL (mm : MM) : CStack × St → List Spec → Prop
  | _, [] => True
  | p, sp :: t => Covered mm p.2 sp ∧ coveredL mm (nextL mm p (.exec sp)) t

end Store

namespace Store
open Py

/-- **k commands, k undos, k redos.**  From any state satisfying the invariants, for every word of commands on plain
    features (attributes, references without opposite; containments only for values that have no owner yet) that all execute: the k undos all succeed and bring back the very state the word started from (with the
    cursor where it was), and the k redos all succeed and bring back the state and the stack after the word. -/
theorem k_undo_redo (mm : MM) (hwf : mm.WF) (hwft : mm.WFT) : ∀ (sps : List Spec) (cs : CStack) (s : St),
    cs.n ≤ cs.stack.length → Good mm s → coveredL mm (cs, s) sps → okL mm (cs, s) (sps.map .exec) →
    (runL mm (cs, s) (sps.map .exec)).1.n = cs.n + sps.length ∧
    (runL mm (cs, s) (sps.map .exec)).1.stack.take cs.n = cs.stack.take cs.n ∧
    okL mm (runL mm (cs, s) (sps.map .exec)) (List.replicate sps.length .undo) ∧
    runL mm (runL mm (cs, s) (sps.map .exec)) (List.replicate sps.length .undo)
      = ({ (runL mm (cs, s) (sps.map .exec)).1 with n := cs.n }, s) ∧
    okL mm ({ (runL mm (cs, s) (sps.map .exec)).1 with n := cs.n }, s) (List.replicate sps.length .redo) ∧
    runL mm ({ (runL mm (cs, s) (sps.map .exec)).1 with n := cs.n }, s) (List.replicate sps.length .redo)
      = runL mm (cs, s) (sps.map .exec) := by
  intro sps
  induction sps with
  | nil =>
    intro cs s _ _ _ _
    simp [runL, okL]
  | cons sp rest ih =>
    intro cs s hok hgood hplain hall
    simp only [coveredL] at hplain
    simp only [List.map_cons, okL] at hall
    obtain ⟨h1, hrest⟩ := hall
    obtain ⟨c, r, hprep, hex, hstep⟩ := exec_ok_shape mm cs s sp h1
    -- the state and stack after the first command
    have hnext : nextL mm (cs, s) (.exec sp)
        = ({ stack := cs.stack.take cs.n ++ [c.after mm s], n := cs.n + 1 }, (c.exec mm s).1) := by
      simp only [nextL, hstep]
    rw [hnext] at hrest
    have hcovrest := hplain.2
    rw [hnext] at hcovrest
    have hlen : (cs.stack.take cs.n).length = cs.n := by simp [Nat.min_eq_left hok]
    have hgood' : Good mm (c.exec mm s).1 := good_exec mm hwf hwft s hgood c (prepare_arity mm s sp c hprep)
    obtain ⟨hn, hpre, hokU, hrunU, hokR, hrunR⟩ := ih { stack := cs.stack.take cs.n ++ [c.after mm s], n := cs.n + 1 } (c.exec mm s).1
      (by simp [hlen]) hgood' hcovrest hrest
    -- the one-step law for the first command
    obtain ⟨⟨r', hu⟩, hre⟩ := covered_inverse mm hwf s hgood sp hplain.1 c hprep r hex
    simp only [List.map_cons, runL, List.foldl_cons, hnext] at *
    generalize hP : List.foldl (nextL mm) ({ stack := cs.stack.take cs.n ++ [c.after mm s], n := cs.n + 1 }, (c.exec mm s).1)
      (rest.map Letter.exec) = P at *
    -- the first command sits at position cs.n of the final stack
    have htake : P.1.stack.take (cs.n + 1) = cs.stack.take cs.n ++ [c.after mm s] := by
      rw [hpre]; exact List.take_of_length_le (by rw [List.length_append, hlen]; simp)
    have hget : P.1.stack[cs.n]? = some (c.after mm s) := getElem?_of_take_succ _ _ _ _ htake hlen
    have hlast : cstep mm { P.1 with n := cs.n + 1 } (c.exec mm s).1 .undo = ({ P.1 with n := cs.n }, s, "ok") := by
      simp only [cstep, Nat.add_sub_cancel, hget, hu]
      simp
    have hfirst : cstep mm { P.1 with n := cs.n } s .redo = ({ P.1 with n := cs.n + 1 }, (c.exec mm s).1, "ok") := by
      simp only [cstep, hget, hre, hex, after_after, set_same _ _ _ hget]
    refine ⟨by rw [List.length_cons]; omega, ?_, ?_, ?_, ?_, ?_⟩
    · have := congrArg (List.take cs.n) htake
      rw [List.take_take, Nat.min_eq_left (by omega)] at this
      rw [this, List.take_append_of_le_length (by omega), List.take_take]
      simp
    · rw [List.length_cons, List.replicate_succ', okL_append]
      refine ⟨hokU, ?_⟩
      simp only [runL] at hrunU ⊢
      rw [hrunU]
      simp only [okL, hlast, and_true]
    · rw [List.length_cons, List.replicate_succ', List.foldl_append, hrunU]
      simp only [List.foldl_cons, List.foldl_nil, nextL, hlast]
    · rw [List.length_cons, List.replicate_succ]
      simp only [okL, hfirst, nextL, true_and]
      exact hokR
    · rw [List.length_cons, List.replicate_succ]
      simp only [List.foldl_cons, nextL, hfirst]
      exact hrunR

end Store


namespace Store
open Py

instance okL.dec (mm : MM) : ∀ (p : CStack × St) (ls : List Letter), Decidable (okL mm p ls)
  | _, [] => isTrue trivial
  | p, l :: t => by
    unfold okL
    exact @instDecidableAnd _ _ _ (okL.dec mm _ t)

/-- `Covered`, computed -/
def coveredB (mm : MM) (s : St) (sp : Spec) : Bool :=
  (!(mm.feat sp.fid).isRef || (mm.feat sp.fid).opp.isNone) &&
  (!(mm.feat sp.fid).cont || match sp.offers with
    | some (.obj y) => (s.rs sp.oid sp.fid).contains y || ((s.cont y).isNone && (s.eres y).isNone)
    | _ => true)

theorem covered_of_B (mm : MM) (s : St) (sp : Spec) (h : coveredB mm s sp = true) : Covered mm s sp := by
  simp only [coveredB, Bool.and_eq_true, Bool.or_eq_true, Bool.not_eq_true', Option.isNone_iff_eq_none] at h
  refine ⟨h.1, ?_⟩
  intro hc y hy
  rcases h.2 with h2 | h2
  · rw [hc] at h2; cases h2
  · rw [hy] at h2
    simp only [Bool.or_eq_true, List.contains_iff_mem, Bool.and_eq_true, Option.isNone_iff_eq_none] at h2
    exact h2

def coveredLB (mm : MM) : CStack × St → List Spec → Bool
  | _, [] => true
  | p, sp :: t => coveredB mm p.2 sp && coveredLB mm (nextL mm p (.exec sp)) t

theorem coveredL_of_B (mm : MM) : ∀ (sps : List Spec) (p : CStack × St), coveredLB mm p sps = true → coveredL mm p sps
  | [], _, _ => trivial
  | sp :: t, p, h => by
    simp only [coveredLB, Bool.and_eq_true] at h
    exact ⟨covered_of_B mm p.2 sp h.1, coveredL_of_B mm t _ h.2⟩

end Store
