import PyecoreModel.Lemmas.Commands
import PyecoreModel.Lemmas.StoreStep
import PyecoreModel.Lemmas.CommandsInverse
import PyecoreModel.Lemmas.Compound
/-!
# C06 — Undo restores the previous model state; redo restores the next one  (**partial**)

Full statement (kept visible): for every word over {execute(Set|Add|Remove|Move|Delete|Compound …), undo, redo} from
every reachable state, with commands that can execute and do not steal, `view (undo (exec s c)) = view s`,
`view (redo (undo (exec s c))) = view (exec s c)`, k undos then k redos are the identity, and executing after an undo
discards the undone commands.

Proved here, for all inputs: (1) the stack discipline — truncation of the redo tail, the cursor invariant, undo
followed by redo is the identity on the stack whenever the command's own undo/redo are inverse at that state;
(2) the inverse laws of Add / Remove / Move on the collection they act on, for every index (negative, out of range)
— the index conventions are where the unrepaired code was wrong; (3) every command keeps the C01/C02 invariants;
(4) **the whole-model law** for `Set`/`Add`/`Remove`/`Move` on every feature *without an opposite* (attributes,
plain references, containments) whose value is not taken away from another owner — `C06_inverse`: undo gives back the
very Store state (every slot, container, resource membership of every object), redo the state after the command;
`C06_stack_inverse`: the same through `CommandStack`; `C06_k_undo_redo`: for every word of such commands, k undos bring
back the state the word started from and k redos the state and stack after it; `C06_good_reachable` /
`C06_good_exec`: the invariants these need hold in every reachable state (`Lemmas/CommandsInverse.lean`).
**Not proved**: the whole-model inverse law for references *with an opposite* — it is false of the code as it is
(the owner is re-appended on the other end; recorded finding F-C06-1, mirrored by the model and visible in
`C06_counterexample_opposite_order`) — and `Delete`, which the model does not contain; it is decided by the check's
oracle only.  (5) **`Compound`** (`Model/Compound.lean`, tied by the `kcmd` correspondence): `can_execute` of every
sub-command is asked before any runs, `can_undo` after all ran; `C06_compound_of_one` — the two halves of a command, met
by one state, are the command alone; `C06_compound_single` — the stack of one-element compounds simulates the
stack of commands letter by letter; `C06_compound_undo` / `C06_compound_redo` — when the snapshots are stable along the
run and the sub-commands are covered ones, a compound that reports `can_undo` is undone to exactly the state before it
and redone to exactly the state after it, as one stack entry.  When the snapshots are *not* stable, or `can_undo`
refuses, the code does not restore the state (recorded finding F-C06-3; `C06_compound_refusal_witness` shows it in the
model).
-/
namespace Store

/-- the cursor never passes the end of the stack -/
def CStack.OK (cs : CStack) : Prop := cs.n ≤ cs.stack.length

theorem C06_cursor (mm : MM) (cs : CStack) (s : St) (l : Letter) (h : cs.OK) : (cstep mm cs s l).1.OK := by
  cases l with
  | exec sp =>
    simp only [cstep]
    cases prepare mm s sp with
    | cannot => exact h
    | raises => exact h
    | ok c =>
      simp only
      split
      · exact h
      · simp [CStack.OK, List.length_take, Nat.min_eq_left h]
  | undo =>
    simp only [cstep]; split
    · exact h
    · split
      · exact h
      · split
        · exact h
        · simp only [CStack.OK] at h ⊢; omega
  | redo =>
    simp only [cstep]
    cases hc : cs.stack[cs.n]? with
    | none => exact h
    | some c =>
      simp only
      split
      · exact h
      · have : cs.n < cs.stack.length := by
          rcases Nat.lt_or_ge cs.n cs.stack.length with h' | h'
          · exact h'
          · rw [List.getElem?_eq_none h'] at hc; cases hc
        simp only [CStack.OK, List.length_set]; omega

/-- **Executing a new command discards the undone ones**: after a successful execute the cursor is at the end of
the stack, whatever was undone before … -/
theorem C06_truncate (mm : MM) (cs : CStack) (s : St) (sp : Spec) (h : cs.OK)
    (hok : (cstep mm cs s (.exec sp)).2.2 = "ok") :
    (cstep mm cs s (.exec sp)).1.n = (cstep mm cs s (.exec sp)).1.stack.length := by
  simp only [cstep] at hok ⊢
  cases hp : prepare mm s sp with
  | cannot => simp [hp] at hok
  | raises => simp [hp] at hok
  | ok c =>
    simp only [hp] at hok ⊢
    split
    · rename_i e he; simp [he] at hok
    · simp [List.length_take, Nat.min_eq_left h]

/-- … so `redo` can never re-apply a superseded change: it reports an error and leaves model and stack untouched. -/
theorem C06_redo_after_execute (mm : MM) (cs : CStack) (s : St) (hn : cs.n = cs.stack.length) :
    cstep mm cs s .redo = (cs, s, "err") := by
  simp only [cstep]
  rw [List.getElem?_eq_none (by omega)]

/-- `undo` on an empty history reports an error and changes nothing. -/
theorem C06_undo_empty (mm : MM) (cs : CStack) (s : St) (hn : cs.n = 0) : cstep mm cs s .undo = (cs, s, "err") := by
  simp [cstep, hn]

/-- **undo then redo is the identity** on model and stack whenever the top command's redo inverts its undo at this
state (which is what the per-command laws below establish for the collection the command acts on). -/
theorem C06_undo_redo (mm : MM) (cs : CStack) (s : St) (c : Cmd) (hn : 0 < cs.n)
    (hc : cs.stack[cs.n - 1]? = some c) (s1 : St)
    (hu : c.undo mm s = (s1, .ok none)) (hr : c.redo mm s1 = (s, .ok none))
    (ha : c.after mm s1 = c) :      -- the redo pops the very element the undo put back
    (cstep mm (cstep mm cs s .undo).1 (cstep mm cs s .undo).2.1 .redo) = (cs, s, "ok") := by
  have h0 : cs.n ≠ 0 := by omega
  simp only [cstep, h0, if_false, hc, hu]
  have : cs.n - 1 + 1 = cs.n := by omega
  simp only [hc, hr, this, ha]
  have hset : cs.stack.set (cs.n - 1) c = cs.stack := by
    apply List.ext_getElem?
    intro i
    by_cases hi : i = cs.n - 1
    · subst hi
      rw [List.getElem?_set]
      have hlt : cs.n - 1 < cs.stack.length := by
        rcases Nat.lt_or_ge (cs.n - 1) cs.stack.length with h' | h'
        · exact h'
        · rw [List.getElem?_eq_none h'] at hc; cases hc
      have hget := (List.getElem?_eq_some_iff.mp hc).2
      simp [hlt, hget]
    · rw [List.getElem?_set]; simp [Ne.symm hi]
  rw [hset]

/-! ### The collection a command acts on: inverse laws for every index (restated from `Lemmas/Commands.lean`) -/

/-- Add with any index (clamped by `insert`), then undo (pop of the remembered effective index). -/
theorem C06_add_undo {α : Type} [DecidableEq α] (l : List α) (i : Int) (x : α) :
    Py.pyPop (Py.pyInsert l i x) (Py.clampIns l.length i : Nat) = some (l, x) := Py.add_undo l i x

/-- Remove with any valid index (negative included), then undo (insert at the normalised index). -/
theorem C06_remove_undo {α : Type} [DecidableEq α] (l l' : List α) (i : Int) (x : α)
    (h : Py.pyPop l i = some (l', x)) :
    ∃ k, Py.normIdx l.length i = some k ∧ Py.pyInsert l' (k : Int) x = l := Py.remove_undo l l' i x h

/-- Move from a valid position to any index, then undo. -/
theorem C06_move_undo {α : Type} [DecidableEq α] (l : List α) (k : Nat) (x : α) (to : Int) (hg : l[k]? = some x) :
    Py.pyPop (Py.insertAt (l.eraseIdx k) (Py.clampIns (l.eraseIdx k).length to) x)
        (Py.clampIns (l.eraseIdx k).length to : Nat) = some (l.eraseIdx k, x)
    ∧ Py.insertAt (l.eraseIdx k) k x = l := Py.move_undo l k x to hg

/-- every letter of every word keeps the invariants of C01/C02 (commands only use the Store's public operations) -/
theorem C06_inv (mm : MM) (hwf : mm.WF) (cs : CStack) (s : St) (h : Inv mm s) (l : Letter) :
    Inv mm (cstep mm cs s l).2.1 := by
  have hexec : ∀ c : Cmd, Inv mm (c.exec mm s).1 := by
    intro c; cases c with
    | set x f v p => exact inv_step mm hwf s h _
    | add x f v i => exact inv_step mm hwf s h _
    | remove x f v i => exact inv_step mm hwf s h _
    | move x f v a b =>
      simp only [Cmd.exec]; split
      · exact inv_step mm hwf s h _
      · exact inv_step mm hwf _ (inv_step mm hwf s h _) _
  have hundo : ∀ c : Cmd, Inv mm (c.undo mm s).1 := by
    intro c; cases c with
    | set x f v p => exact inv_step mm hwf s h _
    | add x f v i => simp only [Cmd.undo]; split
                     · exact inv_step mm hwf s h _
                     · exact h
    | remove x f v i => exact inv_step mm hwf s h _
    | move x f v a b =>
      simp only [Cmd.undo]; split
      · exact h
      · split
        · exact inv_step mm hwf s h _
        · exact inv_step mm hwf _ (inv_step mm hwf s h _) _
  cases l with
  | exec sp =>
    simp only [cstep]
    cases prepare mm s sp with
    | cannot => exact h
    | raises => exact h
    | ok c => simp only; split <;> exact hexec c
  | undo =>
    simp only [cstep]; split
    · exact h
    · split
      · exact h
      · split <;> exact hundo _
  | redo =>
    simp only [cstep]
    cases cs.stack[cs.n]? with
    | none => exact h
    | some c => simp only; split <;> exact hexec c

/-! ### Non-vacuity, and the excluded corner -/

/-- kids/parent: f0 many (opposite f1 single).  Attribute f2 : list-like EInt. -/
def exMM6 : MM :=
  { feat := fun f => if f = 0 then { many := true, opp := some 1 }
                     else if f = 1 then { opp := some 0 }
                     else { isRef := false, many := true, unique := false, tdt := "EInt" }
    nFeat := 3, sub := fun c t => c == t, abstr := fun _ => false, nCls := 1 }

/-- Add with a far out-of-range index, a negative Move, undo both, redo both, execute anew, redo fails -/
example :
    let s0 := run exMM6 [.new 0, .add 0 2 (.int 1), .add 0 2 (.int 2)]
    let r1 := cstep exMM6 {} s0 (.exec (.add 0 2 (.int 3) (some 99)))
    let r2 := cstep exMM6 r1.1 r1.2.1 (.exec (.move 0 2 (some (-1)) (-7) none))
    let r3 := cstep exMM6 r2.1 r2.2.1 .undo
    let r4 := cstep exMM6 r3.1 r3.2.1 .undo
    let r5 := cstep exMM6 r4.1 r4.2.1 .redo
    let r6 := cstep exMM6 r5.1 r5.2.1 (.exec (.remove 0 2 none (some (-1))))
    let r7 := cstep exMM6 r6.1 r6.2.1 .redo
    r2.2.1.as 0 2 = [.int 3, .int 1, .int 2] ∧ r4.2.1.as 0 2 = [.int 1, .int 2] ∧
    r5.2.1.as 0 2 = [.int 1, .int 2, .int 3] ∧ r6.2.1.as 0 2 = [.int 1, .int 2] ∧ r6.1.stack.length = 2 ∧
    r7.2.2 = "err" ∧ r7.2.1.as 0 2 = [.int 1, .int 2] := by decide

/-- **Counterexample for references with an opposite** (finding F-C06-1, mirrored by the model): re-pointing a child
and undoing puts it back at the *end* of its old parent's children. -/
theorem C06_counterexample_opposite_order :
    let s0 := run exMM6 [.new 0, .new 0, .new 0, .new 0, .add 0 0 (.obj 2), .add 0 0 (.obj 3)]
    let r1 := cstep exMM6 {} s0 (.exec (.set 2 1 (.obj 1)))
    let r2 := cstep exMM6 r1.1 r1.2.1 .undo
    s0.rs 0 0 = [2, 3] ∧ r2.2.1.rs 0 0 = [3, 2] := by decide

end Store

/-! ### The whole-model inverse law (features without an opposite) -/
namespace Store
open Py

/-- every reachable state satisfies what the law needs: the shape of attribute slots, the C01/C02 invariants, C03 -/
theorem C06_good_reachable (mm : MM) (hwf : mm.WF) (hwft : mm.WFT) (ops : List Op) (hops : ∀ op ∈ ops, ArityOK mm op) :
    Good mm (run mm ops) :=
  ⟨ashape_run mm hwft ops hops, inv_run mm hwf ops, typed_run mm hwf hwft ops⟩

/-- … and so does every state a command leads to -/
theorem C06_good_exec (mm : MM) (hwf : mm.WF) (hwft : mm.WFT) (s : St) (h : Good mm s) (sp : Spec) (c : Cmd)
    (hprep : prepare mm s sp = .ok c) : Good mm (c.exec mm s).1 :=
  good_exec mm hwf hwft s h c (prepare_arity mm s sp c hprep)

/-- **Undo restores the previous model state; redo restores the next one** — as equalities of whole Store states (every
    attribute and reference slot, container, resource membership of every object), for `Set`, `Add`, `Remove`, `Move`
    on any feature without an opposite, with any value, index (negative, out of range) or form (by value, by index),
    provided the command does not take its value away from another owner. -/
theorem C06_inverse (mm : MM) (hwf : mm.WF) (s : St) (hg : Good mm s) (sp : Spec) (hcov : Covered mm s sp)
    (c : Cmd) (hprep : prepare mm s sp = .ok c) (r : Option PyVal) (hex : (c.exec mm s).2 = .ok r) :
    (∃ r', (c.after mm s).undo mm (c.exec mm s).1 = (s, .ok r')) ∧ (c.after mm s).redo mm s = c.exec mm s :=
  covered_inverse mm hwf s hg sp hcov c hprep r hex

/-- the same through the stack: execute, undo, redo all report success; the state after undo is the state before the
    command, the state and the stack after redo are those after the command -/
theorem C06_stack_inverse (mm : MM) (hwf : mm.WF) (cs : CStack) (s : St) (hok : cs.OK) (hg : Good mm s) (sp : Spec)
    (hcov : Covered mm s sp) (h1 : (cstep mm cs s (.exec sp)).2.2 = "ok") :
    let r1 := cstep mm cs s (.exec sp)
    let r2 := cstep mm r1.1 r1.2.1 .undo
    let r3 := cstep mm r2.1 r2.2.1 .redo
    r2.2.2 = "ok" ∧ r2.2.1 = s ∧ r2.1 = { r1.1 with n := cs.n } ∧ r3.2.2 = "ok" ∧ r3.2.1 = r1.2.1 ∧ r3.1 = r1.1 :=
  stack_roundtrip mm cs s hok sp (fun c r hp he => covered_inverse mm hwf s hg sp hcov c hp r he) h1

/-- **k undos followed by k redos is the identity** (and the k undos are the inverse of the k commands): for every word
    of covered commands that all execute, from every state satisfying the invariants and every stack. -/
theorem C06_k_undo_redo (mm : MM) (hwf : mm.WF) (hwft : mm.WFT) (sps : List Spec) (cs : CStack) (s : St)
    (hok : cs.OK) (hg : Good mm s) (hcov : coveredL mm (cs, s) sps) (hall : okL mm (cs, s) (sps.map .exec)) :
    okL mm (runL mm (cs, s) (sps.map .exec)) (List.replicate sps.length .undo) ∧
    runL mm (runL mm (cs, s) (sps.map .exec)) (List.replicate sps.length .undo)
      = ({ (runL mm (cs, s) (sps.map .exec)).1 with n := cs.n }, s) ∧
    okL mm ({ (runL mm (cs, s) (sps.map .exec)).1 with n := cs.n }, s) (List.replicate sps.length .redo) ∧
    runL mm ({ (runL mm (cs, s) (sps.map .exec)).1 with n := cs.n }, s) (List.replicate sps.length .redo)
      = runL mm (cs, s) (sps.map .exec) :=
  (k_undo_redo mm hwf hwft sps cs s hok hg hcov hall).2.2

/-! non-vacuity: a metamodel with an attribute collection, a plain reference and a containment; a word over all three -/

/-- f0 : containment, many.  f1 : plain reference, single.  f2 : list-like EInt attribute. -/
def exMM6b : MM :=
  { feat := fun f => if f = 0 then { many := true, cont := true }
                     else if f = 1 then { }
                     else { isRef := false, many := true, unique := false, tdt := "EInt" }
    nFeat := 3, sub := fun c t => c == t, abstr := fun _ => false, nCls := 1 }

theorem exMM6b_wf : exMM6b.WF := by
  refine ⟨?_, ?_, ?_, ?_, ?_⟩ <;> intro f <;> simp only [exMM6b] <;> (repeat' split) <;> simp_all

theorem exMM6b_wft : exMM6b.WFT := by
  refine ⟨?_, ?_, ?_⟩ <;> intro f <;> simp only [exMM6b] <;> (repeat' split) <;> simp_all

def exOps6b : List Op := [.new 0, .new 0, .new 0, .add 0 2 (.int 1), .add 0 2 (.int 2)]
def exWord6b : List Spec :=
  [.add 0 2 (.int 3) (some 99), .add 0 0 (.obj 1) none, .set 0 1 (.obj 2), .move 0 2 (some (-1)) (-7) none,
   .add 0 0 (.obj 2) (some 0), .remove 0 0 (some (.obj 1)) none]

example : (∀ op ∈ exOps6b, ArityOK exMM6b op) ∧ okL exMM6b ({}, run exMM6b exOps6b) (exWord6b.map .exec) ∧
    coveredL exMM6b ({}, run exMM6b exOps6b) exWord6b ∧
    (run exMM6b exOps6b).rs 0 0 = [] ∧ (runL exMM6b ({}, run exMM6b exOps6b) (exWord6b.map .exec)).2.rs 0 0 = [2] ∧
    (runL exMM6b ({}, run exMM6b exOps6b) (exWord6b.map .exec)).2.as 0 2 = [.int 3, .int 1, .int 2] := by
  refine ⟨?_, by decide, coveredL_of_B _ _ _ (by decide), by decide, by decide, by decide⟩
  intro op hop
  simp only [exOps6b, List.mem_cons, List.mem_nil_iff, or_false] at hop
  rcases hop with rfl | rfl | rfl | rfl | rfl <;> simp [ArityOK, exMM6b]


/-! ### Compound commands -/

/-- a command executed alone is a compound of one: what `can_execute` fixes (`snap`) and what `do_execute` fixes
    (`Snap.fix`), when both meet the same state, are `prepare` -/
theorem C06_compound_of_one (mm : MM) (s : St) (sp : Spec) : prepare mm s sp = joinPrep mm s sp :=
  prepare_snap_fix mm s sp

/-- a letter of the single-command alphabet as a letter over compounds -/
def Letter.k : Letter → KLetter
  | .exec sp => .exec [sp]
  | .undo => .undo
  | .redo => .redo

/-- the stack of compounds that holds, entry by entry, the compound of one of a stack of commands -/
def KRel (ks : KStack) (cs : CStack) : Prop := ks.stack = cs.stack.map (fun c => [c]) ∧ ks.n = cs.n

/-- **`Compound(c)` is `c`**: letter by letter — execute, undo, redo — the stack of compounds of one simulates the
    stack of commands: same Store state afterwards, success exactly when the command alone succeeds, and the stacks stay
    related.  Every theorem above about words of single commands therefore speaks about their one-element compounds. -/
theorem C06_compound_single (mm : MM) (ks : KStack) (cs : CStack) (s : St) (l : Letter) (hrel : KRel ks cs) :
    (kstep mm ks s l.k).2.1 = (cstep mm cs s l).2.1 ∧
    ((kstep mm ks s l.k).2.2 = "ok" ↔ (cstep mm cs s l).2.2 = "ok") ∧
    KRel (kstep mm ks s l.k).1 (cstep mm cs s l).1 := by
  cases l with
  | exec sp => exact kstep_exec_single mm ks cs s sp hrel
  | undo => exact kstep_undo_single mm ks cs s hrel
  | redo => exact kstep_redo_single mm ks cs s hrel

/-- **Undo of a `Compound`**: from every state satisfying the invariants and every stack, a compound whose sub-commands
    (any number, any of Set / Add / Remove / Move, the same feature several times if one likes) keep their snapshots
    stable along the run and are covered commands, which ran to the end and then reports `can_undo`: executing it
    pushes one entry, and `undo` brings back exactly the Store state it started from, moving the cursor back by one. -/
theorem C06_compound_undo (mm : MM) (hwf : mm.WF) (hwft : mm.WFT) (ks : KStack) (s : St) (sps : List Spec)
    (ps : List Snap) (hok : ks.n ≤ ks.stack.length) (hg : Good mm s) (hsnap : snapAll mm s sps = .ok ps)
    (hst : StableCov mm s sps ps) (s' : St) (cs : List Cmd) (hrun : runAll mm s ps = .ok s' cs)
    (hcan : canUndoAll mm s' cs = some true) :
    kstep mm ks s (.exec sps) = ({ stack := ks.stack.take ks.n ++ [cs], n := ks.n + 1 }, s', "ok") ∧
    kstep mm { stack := ks.stack.take ks.n ++ [cs], n := ks.n + 1 } s' .undo
      = ({ stack := ks.stack.take ks.n ++ [cs], n := ks.n }, s, "ok") :=
  compound_stack_undo mm hwf hwft ks s sps ps hok hg hsnap hst s' cs hrun hcan

/-- **Redo of a `Compound`** (same hypotheses, `can_undo` not needed): `redo` after the undo brings back exactly the
    state and the stack after the compound. -/
theorem C06_compound_redo (mm : MM) (hwf : mm.WF) (hwft : mm.WFT) (ks : KStack) (s : St) (sps : List Spec)
    (ps : List Snap) (hok : ks.n ≤ ks.stack.length) (hg : Good mm s)
    (hst : StableCov mm s sps ps) (s' : St) (cs : List Cmd) (hrun : runAll mm s ps = .ok s' cs) :
    kstep mm { stack := ks.stack.take ks.n ++ [cs], n := ks.n } s .redo
      = ({ stack := ks.stack.take ks.n ++ [cs], n := ks.n + 1 }, s', "ok") :=
  compound_stack_redo mm hwf hwft ks s sps ps hok hg hst s' cs hrun

/-- even without asking `can_undo`: the sub-commands' bare `undo`s, in reverse order, all succeed and restore the state -/
theorem C06_compound_undo_raw (mm : MM) (hwf : mm.WF) (hwft : mm.WFT) (sps : List Spec) (ps : List Snap) (s s' : St)
    (cs : List Cmd) (hg : Good mm s) (hst : StableCov mm s sps ps) (hrun : runAll mm s ps = .ok s' cs) :
    undoAll mm s' cs.reverse = (s, true) :=
  (compound_undo mm hwf hwft sps ps s s' cs hg hst hrun).1

/-! non-vacuity: three sub-commands, two of them on the same list attribute, over `exMM6b` -/
def exComp6 : List Spec := [.add 0 2 (.int 3) (some 99), .set 0 1 (.obj 2), .add 0 2 (.int 4) (some 0)]
def exSnaps6 : List Snap := [.add 0 2 (.int 3) (some 99), .set 0 1 (.obj 2), .add 0 2 (.int 4) (some 0)]

example : snapAll exMM6b (run exMM6b exOps6b) exComp6 = .ok exSnaps6 ∧
    StableCov exMM6b (run exMM6b exOps6b) exComp6 exSnaps6 ∧
    (kstep exMM6b {} (run exMM6b exOps6b) (.exec exComp6)).2.2 = "ok" ∧
    (kstep exMM6b {} (run exMM6b exOps6b) (.exec exComp6)).2.1.as 0 2 = [.int 4, .int 1, .int 2, .int 3] ∧
    (match runAll exMM6b (run exMM6b exOps6b) exSnaps6 with
     | .ok s' cs => canUndoAll exMM6b s' cs == some true
     | _ => false) = true := by
  refine ⟨by decide, stableCov_of_B _ _ _ _ (by decide), by decide, by decide, by decide⟩

/-- **F-C06-3 in the model**: `Compound(Add(x, f, 7), Remove(x, f, value=7))` executes; its snapshots are stable and its
    sub-commands covered, so the bare undos would restore the state (`C06_compound_undo_raw`) — but `Add.can_undo` looks
    for the added value in the collection *after the whole compound ran*, does not find it, and the stack's `undo` does
    nothing: the state stays the one after the compound. -/
theorem C06_compound_refusal_witness :
    let s0 := run exMM6b exOps6b
    let r1 := kstep exMM6b {} s0 (.exec [.add 0 2 (.int 7) none, .remove 0 2 (some (.int 7)) none])
    let r2 := kstep exMM6b r1.1 r1.2.1 .undo
    r1.2.2 = "ok" ∧ r1.2.1.as 0 2 = s0.as 0 2 ∧ r2.2.2 = "err" ∧ r2.1.n = 1 := by
  decide

end Store
