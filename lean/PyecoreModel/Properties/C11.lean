import PyecoreModel.Lemmas.StoreNav
import PyecoreModel.Lemmas.FragmentText
import PyecoreModel.Lemmas.NamedTree
/-!
# C11 — An object's URI fragment always resolves back to that object

`frag` mirrors `EObject.eURIFragment`, `resolve` mirrors `Resource.resolve` → `extract_rootnum_and_frag` →
`_navigate_from` (positional form).  The index written into a fragment is the position the collection *reports*
(`index()`); that it is the iteration position is C04 (`C04_index_is_position`), and in the Store the slot *is*
the iteration order.  The string layer (rendering a path as `/2/@kids.0/@leaf` and reading it back) is
`C11_fragment_text`, over the document model's paths (feature names and indices; `Lemmas/FragmentText.lean`); that the
real `eURIFragment()` text is the rendering of the model's path is the correspondence: the check renders the model's
`Path`, compares it with the real text, and feeds the real text to the real `resolve`.
-/
namespace Store

/-- **resolve ∘ eURIFragment = id** for every object under a root of the resource, at any depth, whatever history
led to the state (`Inv` is an invariant of every history: `inv_run`).  `hroot`: the container chain ends within the
fuel; `he`: its top is a root of `r`. -/
theorem C11_resolve_frag (mm : MM) (s : St) (h : Inv mm s) (n : Nat) (o : Oid) (r : Rid)
    (hroot : s.cont (eRoot s n o) = none) (he : s.eres (eRoot s n o) = some r) :
    resolve mm s r (frag mm s n o) = some o := by
  unfold resolve frag
  simp only
  rw [root_lookup s h.2.2.2 _ r he]
  exact navigate_fragSegs mm s h n o hroot

/-- **Distinct objects of a resource have distinct fragments** (a left inverse makes `frag` injective). -/
theorem C11_injective (mm : MM) (s : St) (h : Inv mm s) (n : Nat) (o1 o2 : Oid) (r : Rid)
    (h1 : s.cont (eRoot s n o1) = none) (e1 : s.eres (eRoot s n o1) = some r)
    (h2 : s.cont (eRoot s n o2) = none) (e2 : s.eres (eRoot s n o2) = some r)
    (heq : frag mm s n o1 = frag mm s n o2) : o1 = o2 := by
  have a := C11_resolve_frag mm s h n o1 r h1 e1
  have b := C11_resolve_frag mm s h n o2 r h2 e2
  rw [heq, b] at a; exact (Option.some.inj a).symm

/-- … after every history: the hypotheses on the state are met by every reachable state. -/
theorem C11_reachable (mm : MM) (hwf : mm.WF) (ops : List Op) (n : Nat) (o : Oid) (r : Rid)
    (hroot : (run mm ops).cont (eRoot (run mm ops) n o) = none)
    (he : (run mm ops).eres (eRoot (run mm ops) n o) = some r) :
    resolve mm (run mm ops) r (frag mm (run mm ops) n o) = some o :=
  C11_resolve_frag mm (run mm ops) (inv_run mm hwf ops) n o r hroot he

/-! ### Non-vacuity -/

/-- f0 : many containment, f1 : single containment -/
def exMM11 : MM :=
  { feat := fun f => if f = 0 then { many := true, cont := true } else { cont := true }
    nFeat := 2, sub := fun c t => c == t, abstr := fun _ => false, nCls := 1 }

/-- two roots; o2, o3 under o1.f0 (o3 inserted in front, then o2 popped and re-added: positions move); o4 = o3.f1 -/
example :
    let s := run exMM11 [.new 0, .new 0, .new 0, .new 0, .new 0, .res, .rappend 0 0, .rappend 0 1,
                         .add 1 0 (.obj 2), .insert 1 0 0 (.obj 3), .pop 1 0 (-1), .add 1 0 (.obj 2), .set 3 1 (.obj 4)]
    frag exMM11 s 5 4 = ⟨some 1, [(0, some 0), (1, none)]⟩ ∧ frag exMM11 s 5 2 = ⟨some 1, [(0, some 1)]⟩ ∧
    resolve exMM11 s 0 (frag exMM11 s 5 4) = some 4 ∧ resolve exMM11 s 0 (frag exMM11 s 5 2) = some 2 := by decide

end Store

namespace XDoc

/-- **The text of a positional fragment reads back as the path it was written for** (`eURIFragment` /
`extract_rootnum_and_frag` + `_navigate_from`): every root number, any depth, single-valued steps (`@f`) and indexed ones
(`@f.3`), for feature names without the four characters the syntax uses; in a single-root resource the root is `/`. -/
theorem C11_fragment_text (single : Bool) (p : Path) (hn : ∀ s ∈ p.segs, NameOK s.1) (hroot : single = true → p.root = 0) :
    parsePath (renderPath single p) = some p :=
  parse_render single p hn hroot

example : renderPath false ⟨2, [("kids".toList, some 0), ("leaf".toList, none)]⟩ = "/2/@kids.0/@leaf".toList := by decide

end XDoc

namespace NamedTree

/-- **Name-based fragments of metamodel elements**: in a tree of named elements where no two elements contained in the
same element bear the same name, the fragment of every element (the names on the way down from the root package)
resolves to that very element … -/
theorem C11_named_resolve (t : NT) (hu : t.Uniq) (p : List Nat) (ns : List String) (h : t.frag p = some ns) :
    t.resolve ns = some p := resolve_frag t p ns hu h

/-- … and two different elements never have the same fragment. -/
theorem C11_named_injective (t : NT) (hu : t.Uniq) (p q : List Nat) (ns : List String)
    (hp : t.frag p = some ns) (hq : t.frag q = some ns) : p = q := frag_injective t hu p q ns hp hq

/-- (what a fragment resolves to bears that fragment — whatever the names: with two siblings of one name the *first* one
answers for both, which is how the uniqueness hypothesis above cannot be dropped) -/
theorem C11_named_sound (t : NT) (ns : List String) (p : List Nat) (h : t.resolve ns = some p) : t.frag p = some ns :=
  frag_resolve t ns p h

def exPkg : NT := .node "p" [.node "org.ex" [.node "B" [.node "a.b" []]], .node "A" [.node "x" [], .node "op" [.node "arg" []]]]

example : exPkg.frag [1, 1, 0] = some ["A", "op", "arg"] ∧ exPkg.resolve ["A", "op", "arg"] = some [1, 1, 0] ∧
    exPkg.resolve ["org.ex", "B", "a.b"] = some [0, 0, 0] := by decide
/-- without uniqueness: an attribute and an operation of one class named alike share a fragment, the first one answers -/
example : (NT.node "p" [.node "B" [.node "op" [], .node "op" []]]).frag [0, 1] = some ["B", "op"] ∧
    (NT.node "p" [.node "B" [.node "op" [], .node "op" []]]).resolve ["B", "op"] = some [0, 0] := by decide

end NamedTree
