import PyecoreModel.Model.GetResource
import PyecoreModel.Generated.Skeletons
import PyecoreModel.Lemmas.StoreTyped
/-!
# C18 — A load that fails leaves no trace, and whatever loads is well-formed  (**partial**)

`Generated/Skeletons.lean` holds the step skeleton of `ResourceSet.get_resource` read off its AST on every run;
`runGet` interprets it.  Proved for the skeleton of the code as it is now, for every resource set, URI and load effect:

* `C18_no_trace`: when the load fails, the dict of resources afterwards *is* the dict before (whatever alias keys the
  load had registered for the failing resource), and the call raises;
* `C18_idempotent`: after a successful call, asking again for the same URI returns the same resource and changes
  nothing;
* `C18_wellformed`: a load is a sequence of the Store's public operations, so its result satisfies the invariants of
  C01–C03 (`inv_run`, `typed_run`) — whatever the document.
**Not proved** (decided by the check on every run): that the real `load` only uses those operations and raises rather
than hangs on every truncated or corrupted document (watchdog), that the metamodel registries are untouched.
-/
namespace Skel

/-- the shape the proofs below rely on, kernel-checked against the regenerated skeleton -/
theorem C18_skeleton : getResource = [.lookup, .create, .load, .removeOnError, .reraise] := by decide

theorem filter_fresh (rs : RSet) (n : Nat) (h : ∀ p ∈ rs, p.2 < n) : rs.filter (·.2 != n) = rs := by
  rw [List.filter_eq_self]
  intro p hp
  have := h p hp
  simp; omega

/-- **A failing load leaves the resource set exactly as it was.** -/
theorem C18_no_trace (g : GState) (hf : g.Fresh) (uri : Key) (aliases : List Key)
    (hnew : lookupKey g.resources uri = none) :
    (runGet ⟨aliases, false⟩ uri getResource g none).1.resources = g.resources ∧
    (runGet ⟨aliases, false⟩ uri getResource g none).2 = .raised := by
  rw [C18_skeleton]
  simp only [runGet, hnew]
  refine ⟨?_, rfl⟩
  simp only [List.filter_append]
  rw [filter_fresh g.resources g.next hf]
  simp

/-- **Asking twice returns the same resource**, without touching the set. -/
theorem C18_idempotent (g : GState) (uri : Key) (aliases : List Key) (hnew : lookupKey g.resources uri = none) :
    let r1 := runGet ⟨aliases, true⟩ uri getResource g none
    r1.2 = .loaded g.next ∧ runGet ⟨aliases, true⟩ uri getResource r1.1 none = (r1.1, .found g.next) := by
  rw [C18_skeleton]
  simp only [runGet, hnew]
  refine ⟨rfl, ?_⟩
  show runGet ⟨aliases, true⟩ uri [.lookup, .create, .load, .removeOnError, .reraise]
      { resources := g.resources ++ [(uri, g.next)] ++ aliases.map (fun k => (k, g.next)), next := g.next + 1 } none = _
  have : lookupKey (g.resources ++ [(uri, g.next)] ++ aliases.map (fun k => (k, g.next))) uri = some g.next := by
    unfold lookupKey at hnew ⊢
    rw [List.append_assoc, List.find?_append]
    have hn : List.find? (fun x => x.1 == uri) g.resources = none := by
      cases h : List.find? (fun x => x.1 == uri) g.resources with
      | none => rfl
      | some p => rw [h] at hnew; cases hnew
    simp [hn]
  simp only [runGet, this, if_true]

/-- **Whatever loads is well-formed**: any sequence of Store operations (which is all a load performs) ends in a state
satisfying the invariants of C01, C02 and C03. -/
theorem C18_wellformed (mm : Store.MM) (hwf : mm.WF) (hwft : mm.WFT) (ops : List Store.Op) :
    Store.Inv mm (Store.run mm ops) ∧ Store.Typed mm (Store.run mm ops) :=
  ⟨Store.inv_run mm hwf ops, Store.typed_run mm hwf hwft ops⟩

/-- without the handler's `remove_resource` the half-built resource would stay registered (what the skeleton check
guards against) -/
theorem C18_counterexample_no_remove :
    (runGet ⟨[], false⟩ "u" [.lookup, .create, .load, .reraise] ⟨[], 0⟩ none).1.resources = [("u", 0)] := by decide

end Skel
