import PyecoreModel.Model.Classes
/-!
# C12 — Dynamic metaclasses and their instances follow metamodel edits  (**partial: CPython's class machinery is a parameter**)

Model: `Model/Classes.lean`.  Proved for every admissible edit sequence (add/remove feature or operation, add/remove
supertype at the front or back, instance creation, feature access, in any interleaving):
the Python class dictionaries and `__bases__` mirror the EClasses (`Sync`), no instance keeps a holder for a name its
class lost (`NoStale`); hence attribute lookup finds exactly the own and inherited features and operations, never a raw
holder, and `isinstance` holds exactly for the class and its transitive supertypes — diamonds and every supertype
order included, because lookup and `isinstance` only use reachability through `__bases__`.
**Modelled, not verified**: that CPython's `type.__setattr__/__delattr__`, `__bases__` assignment and MRO computation
(C3, and pyecore's two fall-backs when C3 fails) realise this reachability.  The check compares, after every edit of
generated sequences, `getattr` of every name ever declared on every instance and the `isinstance` /
`EcoreUtils.isinstance` matrix on the real classes with the model.
-/
namespace Cls
set_option linter.unusedVariables false

theorem inv_init : Inv ({} : W) := by
  refine ⟨⟨?_, rfl⟩, ?_, ?_⟩ <;> simp [Sync, Disj, NoStale]

theorem purge_noStale (w : W) : NoStale (purge w) := by
  intro i n h
  simp only [purge, List.mem_filter] at h
  simpa [allFeatures, allSupers, purge] using h.2

/-- more fuel reaches at least as much -/
theorem reach_mono (g : Cid → List Cid) (k : Nat) (c d : Cid) (h : d ∈ reach g k c) : d ∈ reach g (k + 1) c := by
  induction k generalizing c d with
  | zero => simp [reach] at h
  | succ k ih =>
    have h' : d ∈ g c ++ (g c).flatMap (reach g k) := h
    show d ∈ g c ++ (g c).flatMap (reach g (k + 1))
    rw [List.mem_append, List.mem_flatMap] at h' ⊢
    rcases h' with h' | ⟨b, hb, hd⟩
    · exact Or.inl h'
    · exact Or.inr ⟨b, hb, ih b d hd⟩

/-- what a class offers only grows when lists of supertypes and features grow -/
theorem reach_sub (g g' : Cid → List Cid) (hg : ∀ c d, d ∈ g c → d ∈ g' c) (k : Nat) (c d : Cid)
    (h : d ∈ reach g k c) : d ∈ reach g' k c := by
  induction k generalizing c d with
  | zero => simp [reach] at h
  | succ k ih =>
    have h' : d ∈ g c ++ (g c).flatMap (reach g k) := h
    show d ∈ g' c ++ (g' c).flatMap (reach g' k)
    rw [List.mem_append, List.mem_flatMap] at h' ⊢
    rcases h' with h' | ⟨b, hb, hd⟩
    · exact Or.inl (hg c d h')
    · exact Or.inr ⟨b, hg c b hb, ih b d hd⟩

theorem allFeatures_sub (w w' : W) (hn : w'.nCls = w.nCls)
    (hf : ∀ c n, n ∈ w.feats c → n ∈ w'.feats c) (hsup : ∀ c d, d ∈ w.supers c → d ∈ w'.supers c)
    (c : Cid) (n : Name) (h : n ∈ allFeatures w c) : n ∈ allFeatures w' c := by
  simp only [allFeatures, allSupers, List.mem_append, List.mem_flatMap] at h ⊢
  rcases h with h | ⟨d, hd, hm⟩
  · exact Or.inl (hf c n h)
  · exact Or.inr ⟨d, by rw [hn]; exact reach_sub _ _ hsup _ _ _ hd, hf d n hm⟩

/-- **Every admissible edit keeps the Python side in step and leaves no stale holder.** -/
theorem C12_inv_edit (w : W) (h : Inv w) (e : Edit) (ha : Admissible w e) : Inv (edit w e) := by
  obtain ⟨⟨hs, hb⟩, hd, hn⟩ := h
  cases e with
  | newClass =>
    refine ⟨⟨hs, hb⟩, hd, ?_⟩
    intro i n hi
    have := hn i n hi
    simp only [allFeatures, allSupers, edit, List.mem_append, List.mem_flatMap] at this ⊢
    rcases this with h | ⟨d, hd', hm⟩
    · exact Or.inl h
    · exact Or.inr ⟨d, reach_mono _ _ _ _ hd', hm⟩
  | addFeat c n =>
    have hfresh : n ∉ w.pdict c := ha
    refine ⟨⟨?_, hb⟩, ?_, ?_⟩
    · intro c' m
      have := hs c' m
      simp only [edit]
      by_cases hc : c' = c
      · subst hc; simp only [if_true, List.mem_append, List.mem_singleton]; grind
      · simp only [hc, if_false]; exact this
    · intro c' m
      have h0 := hd c' m
      have h1 := hs c' m
      simp only [edit]
      by_cases hc : c' = c
      · subst hc; simp only [if_true, List.mem_append, List.mem_singleton]; grind
      · simp only [hc, if_false]; exact h0
    · intro i m hi
      refine allFeatures_sub w (edit w (.addFeat c n)) rfl ?_ (fun _ _ h => h) (w.icls i) m (hn i m hi)
      intro c' n' h'
      simp only [edit]; split
      · rename_i e; subst e; exact List.mem_append_left _ h'
      · exact h'
  | addOp c n =>
    have hfresh : n ∉ w.pdict c := ha
    refine ⟨⟨?_, hb⟩, ?_, ?_⟩
    · intro c' m
      have := hs c' m
      simp only [edit]
      by_cases hc : c' = c
      · subst hc; simp only [if_true, List.mem_append, List.mem_singleton]; grind
      · simp only [hc, if_false]; exact this
    · intro c' m
      have h0 := hd c' m
      have h1 := hs c' m
      simp only [edit]
      by_cases hc : c' = c
      · subst hc; simp only [if_true, List.mem_append, List.mem_singleton]; grind
      · simp only [hc, if_false]; exact h0
    · exact hn
  | removeFeat c n =>
    have hdecl : n ∈ w.feats c := ha
    refine ⟨⟨?_, hb⟩, ?_, purge_noStale _⟩
    · intro c' m
      have h1 := hs c' m
      have h0 := hd c' m
      simp only [edit, purge]
      by_cases hc : c' = c
      · subst hc; simp only [if_true, List.mem_filter, decide_eq_true_eq]; grind
      · simp only [hc, if_false]; exact h1
    · intro c' m
      have h0 := hd c' m
      simp only [edit, purge]
      by_cases hc : c' = c
      · subst hc; simp only [if_true, List.mem_filter, decide_eq_true_eq]; grind
      · simp only [hc, if_false]; exact h0
  | removeOp c n =>
    have hdecl : n ∈ w.ops c := ha
    refine ⟨⟨?_, hb⟩, ?_, hn⟩
    · intro c' m
      have h1 := hs c' m
      have h0 := hd c' m
      simp only [edit]
      by_cases hc : c' = c
      · subst hc; simp only [if_true, List.mem_filter, decide_eq_true_eq]; grind
      · simp only [hc, if_false]; exact h1
    · intro c' m
      have h0 := hd c' m
      simp only [edit]
      by_cases hc : c' = c
      · subst hc; simp only [if_true, List.mem_filter, decide_eq_true_eq]; grind
      · simp only [hc, if_false]; exact h0
  | addSuper c s front =>
    refine ⟨⟨hs, ?_⟩, hd, ?_⟩
    · simp only [edit]; funext c'; rw [hb]
    · intro i m hi
      refine allFeatures_sub w (edit w (.addSuper c s front)) rfl (fun _ _ h => h) ?_ (w.icls i) m (hn i m hi)
      intro c' d h'
      simp only [edit]; split
      · rename_i e; subst e; split
        · exact List.mem_cons_of_mem _ h'
        · exact List.mem_append_left _ h'
      · exact h'
  | removeSuper c s =>
    refine ⟨⟨hs, ?_⟩, hd, purge_noStale _⟩
    simp only [edit, purge]; funext c'; rw [hb]
  | newInst c =>
    refine ⟨⟨hs, hb⟩, hd, ?_⟩
    intro i m hi
    simp only [edit] at hi ⊢
    split at hi
    · cases hi
    · rename_i hne
      have := hn i m hi
      simpa [allFeatures, allSupers, hne] using this
  | touch i n =>
    simp only [edit]
    split
    · rename_i hc
      refine ⟨⟨hs, hb⟩, hd, ?_⟩
      intro i' m hi
      simp only at hi
      split at hi
      · rename_i e; subst e
        rw [List.mem_append] at hi
        rcases hi with hi | hi
        · exact hn i' m hi
        · simp only [List.mem_singleton] at hi; subst hi
          simp only [Bool.and_eq_true, List.contains_iff_mem] at hc
          exact hc.1
      · exact hn i' m hi
    · exact ⟨⟨hs, hb⟩, hd, hn⟩

/-- a sequence of edits each admissible where it is applied -/
def AdmissibleSeq : W → List Edit → Prop
  | _, [] => True
  | w, e :: t => Admissible w e ∧ AdmissibleSeq (edit w e) t

/-- … hence every state reached by admissible edits, from any state satisfying the invariant. -/
theorem C12_inv_run (w : W) (h : Inv w) (es : List Edit) (ha : AdmissibleSeq w es) : Inv (es.foldl edit w) := by
  induction es generalizing w with
  | nil => exact h
  | cons e t ih => exact ih _ (C12_inv_edit w h e ha.1) ha.2

/-- **Features**: the class side of attribute lookup finds a name exactly when it is an own or inherited feature or
operation. -/
theorem C12_features (w : W) (h : Sync w) (c : Cid) (n : Name) :
    classLookup w c n = true ↔ n ∈ allFeatures w c ∨ n ∈ allOps w c := by
  obtain ⟨hs, hb⟩ := h
  simp only [classLookup, Bool.or_eq_true, List.contains_iff_mem, List.any_eq_true, allFeatures, allOps, allSupers,
    List.mem_append, List.mem_flatMap, hb]
  constructor
  · rintro (h | ⟨d, hd, hm⟩)
    · rcases (hs c n).1 h with a | a
      · exact Or.inl (Or.inl a)
      · exact Or.inr (Or.inl a)
    · rcases (hs d n).1 hm with a | a
      · exact Or.inl (Or.inr ⟨d, hd, a⟩)
      · exact Or.inr (Or.inr ⟨d, hd, a⟩)
  · rintro ((h | ⟨d, hd, hm⟩) | (h | ⟨d, hd, hm⟩))
    · exact Or.inl ((hs c n).2 (Or.inl h))
    · exact Or.inr ⟨d, hd, (hs d n).2 (Or.inl hm)⟩
    · exact Or.inl ((hs c n).2 (Or.inr h))
    · exact Or.inr ⟨d, hd, (hs d n).2 (Or.inr hm)⟩

/-- **Nothing that was removed**: `getattr` never hands out a raw holder, and finds a descriptor exactly for the
declared names. -/
theorem C12_getattr (w : W) (h : Inv w) (i : Nat) (n : Name) :
    getattr w i n ≠ .rawHolder ∧
    (getattr w i n = .descriptor ↔ n ∈ allFeatures w (w.icls i) ∨ n ∈ allOps w (w.icls i)) := by
  obtain ⟨hs, hd, hn⟩ := h
  have hl := C12_features w hs (w.icls i) n
  unfold getattr
  by_cases hc : classLookup w (w.icls i) n = true
  · simp only [hc, if_true]
    exact ⟨by simp, ⟨fun _ => hl.1 hc, fun _ => trivial⟩⟩
  · have hnot : (w.idict i).contains n = false := by
      cases hh : (w.idict i).contains n with
      | false => rfl
      | true =>
        have := hn i n (by simpa using hh)
        exact absurd (hl.2 (Or.inl this)) hc
    simp only [hc, hnot]
    refine ⟨by simp, ⟨fun h => (by cases h), fun h => absurd (hl.2 h) hc⟩⟩

/-- **isinstance** holds exactly for the class and its transitive supertypes. -/
theorem C12_isinstance (w : W) (h : Sync w) (i : Nat) (c : Cid) :
    isInstance w i c = true ↔ c = w.icls i ∨ c ∈ allSupers w (w.icls i) := by
  simp only [isInstance, Bool.or_eq_true, beq_iff_eq, List.contains_iff_mem, allSupers, h.2]
  constructor
  · rintro (h | h)
    · exact Or.inl h.symm
    · exact Or.inr h
  · rintro (h | h)
    · exact Or.inl h.symm
    · exact Or.inr h

/-! ### Non-vacuity, and what the purge is for -/

/-- diamond K3 < K1, K2 < K0 (supertypes declared in both orders), a feature on the apex, an instance that touched it,
then the feature removed: no descriptor, no raw holder -/
example :
    let w := run [.newClass, .newClass, .newClass, .newClass, .addSuper 1 0 false, .addSuper 2 0 false,
                  .addSuper 3 2 false, .addSuper 3 1 true, .addFeat 0 7, .newInst 3, .touch 0 7]
    getattr w 0 7 = .descriptor ∧ isInstance w 0 0 = true ∧ isInstance w 0 1 = true ∧
    getattr (edit w (.removeFeat 0 7)) 0 7 = .nothing ∧
    getattr (edit w (.removeSuper 3 1)) 0 7 = .descriptor ∧
    getattr (edit (edit w (.removeSuper 3 1)) (.removeSuper 3 2)) 0 7 = .nothing := by decide

/-- without dropping stale holders (the behaviour before the repair) the instance would hand out the raw holder -/
theorem C12_counterexample_no_purge :
    let w := run [.newClass, .addFeat 0 7, .newInst 0, .touch 0 7]
    let w' : W := { w with feats := fun _ => [], pdict := fun _ => [] }      -- removal without `purge`
    getattr w' 0 7 = .rawHolder := by decide

end Cls
