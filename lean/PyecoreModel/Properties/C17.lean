import PyecoreModel.Lemmas.Codec
import PyecoreModel.Generated.DataTypeTable
/-!
# C17 — Data type values survive conversion to text and back  (**partial: floats and Decimal by enumeration**)

`Generated/DataTypeTable.lean` is rewritten from `/repo` on every run: every `EDataType` of `pyecore.ecore` and
`pyecore.type` with its Python type and the *kind* of its converters (classified from the callable's identity or the
lambda's code object).  `C17_table` is re-checked by the kernel against that table: a data type whose converters no
longer form one of the round-tripping combinations breaks this theorem.  The kinds themselves are proved below for
every value of the domain; `str(float)`/`float(s)` and `str(Decimal)`/`Decimal(s)` are CPython's and are covered by
the check's enumeration and sampling only.
-/
namespace Codec

/-- **integers**: `int(str(n)) = n` for every integer, unbounded. -/
theorem C17_int (n : Int) : intFrom (intTo n) = some n := int_roundtrip n

/-- **booleans** -/
theorem C17_bool (b : Bool) : boolFrom (boolTo b) = b := bool_roundtrip b

/-- **strings, characters**: the text form is the value. -/
theorem C17_str (s : String) : (fun x : String => x) ((fun x : String => x) s) = s := rfl

/-- **enumerations**: a literal is found again by its name, when names are unique in the enumeration. -/
theorem C17_enum (names : List String) (hn : names.Nodup) (k : Nat) (hk : k < names.length) :
    enumFrom names names[k] = some k := enum_roundtrip names hn k hk

/-- **dates**, with and without time zone, offset seconds and microseconds: for every date whose fields fit the
fixed-width form (year ≤ 9999; years below 1000 are written zero-padded since the repair recorded in known_findings.json — glibc's `%Y` alone is not 4 wide there). -/
theorem C17_date (d : DT) (h : d.Fits) : parseDate (fmtDate d) = some d := parseDate_fmtDate d h

/-- **the table of the code as it is now**: no data type with a textual Python type has converters outside the
round-tripping combinations. -/
theorem C17_table : ∀ r ∈ dataTypeTable, r.status ≠ .broken := by decide

/-- the rows whose round trip rests on the theorems above, resp. on sampling (reported in the evidence) -/
def provedRows : List String := (dataTypeTable.filter (·.status = .proved)).map (·.name)
def sampledRows : List String := (dataTypeTable.filter (·.status = .sampled)).map (·.name)

/-! ### Non-vacuity -/
example : parseDate (fmtDate ⟨2024, 2, 29, 23, 59, 58, 999999, some ⟨true, 23, 59, 59, 999999⟩⟩)
    = some ⟨2024, 2, 29, 23, 59, 58, 999999, some ⟨true, 23, 59, 59, 999999⟩⟩ := by decide
example : String.ofList (fmtDate ⟨87, 1, 2, 3, 4, 5, 6, none⟩) = "0087-01-02T03:04:05.000006" := by decide
example : String.ofList (fmtDate ⟨1000, 1, 2, 3, 4, 5, 6, some ⟨false, 1, 0, 0, 0⟩⟩) = "1000-01-02T03:04:05.000006+0100" := by
  decide
example : intFrom (intTo (-12345678901234567890123)) = some (-12345678901234567890123) := C17_int _
example : (dataTypeTable.filter (·.status = .proved)).length ≥ 30 := by decide

end Codec
