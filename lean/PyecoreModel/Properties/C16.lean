import PyecoreModel.Lemmas.SaveSkeleton
import PyecoreModel.Generated.Skeletons
/-!
# C16 — save() only observes the model and never destroys the previous file

`Generated/Skeletons.lean` holds the ordered effect steps of `XMIResource.save` and `JsonResource.save`, read off their
AST on every run.  `runSave` interprets such a skeleton over a file store; `build` (turning the model into a tree /
dict / bytes) is the only step that can fail because the *model* cannot be serialized.

* `C16_atomic_general`: any skeleton that builds before it opens the target leaves the target's content untouched when
  the build fails — for every previous content and every skeleton.
* `C16_xmi_builds_first`, `C16_json_builds_first`: the skeletons of the code *as it is now* have that shape
  (kernel-evaluated on the regenerated file: an edit that opens the stream earlier breaks these).
* `C16_atomic`: hence a failing save leaves the previous file.
* purity and determinism: in the model the build is a function of the state and has no state output; that the real
  `save()` changes nothing observable and writes identical bytes twice is what the check's oracle compares (whole-model
  dump incl. `eIsSet`, bytes of two consecutive saves) on generated models, both formats, all options.
-/
namespace Skel

theorem C16_atomic_general (content : Bytes) (steps : List SaveStep) (previous : Option Bytes)
    (h : buildBeforeOpen steps = true) (hb : steps.contains .build = true) :
    (runSave content true steps { file := previous } none).1.file = previous ∧
    (runSave content true steps { file := previous } none).2 = true :=
  runSave_fault_before_open content steps { file := previous } none h hb rfl

theorem C16_xmi_builds_first : buildBeforeOpen xmiSave = true ∧ xmiSave.contains .build = true := by decide
theorem C16_json_builds_first : buildBeforeOpen jsonSave = true ∧ jsonSave.contains .build = true := by decide

/-- **A save that fails because the model cannot be serialized leaves the previous content of the target**, for the
XMI and the JSON skeleton of the current source, whatever was there before. -/
theorem C16_atomic (content : Bytes) (previous : Option Bytes) :
    (runSave content true xmiSave { file := previous } none).1.file = previous ∧
    (runSave content true jsonSave { file := previous } none).1.file = previous :=
  ⟨(C16_atomic_general content xmiSave previous C16_xmi_builds_first.1 C16_xmi_builds_first.2).1,
   (C16_atomic_general content jsonSave previous C16_json_builds_first.1 C16_json_builds_first.2).1⟩

/-- a successful save writes exactly what the build produced, twice in a row the same -/
theorem C16_success (content : Bytes) (previous : Option Bytes) :
    (runSave content false xmiSave { file := previous } none).1.file = some content ∧
    (runSave content false xmiSave (runSave content false xmiSave { file := previous } none).1 none).1.file = some content ∧
    (runSave content false jsonSave { file := previous } none).1.file = some content := by
  refine ⟨?_, ?_, ?_⟩ <;> simp [xmiSave, jsonSave, runSave]

/-- the converse, kept as the counterexample of the unrepaired order: opening first destroys the file -/
theorem C16_counterexample_open_first :
    (runSave [1] true [.openOut, .build, .write, .flush, .close] { file := some [7, 7] } none).1.file = some [] := by
  decide

end Skel
