import PyecoreModel.Lemmas.StoreProps
import PyecoreModel.Lemmas.SetOps
/-!
# C01 — Opposite references stay symmetric

Model: `Store.step` (`Model/Store.lean`), the net effect of every public mutation of `valuecontainer.py` /
`EStructuralFeature.__set__/__delete__` / `EObject.delete` / `Resource.append`, for an arbitrary well-formed
metamodel `mm` (`MM.WF`: opposites mutual and distinct, ends of bidirectional and containment references unique,
the opposite of a containment single-valued).  All sixteen shapes of the quantifier are values of `mm`; nothing
is specialised per shape.  Only property statements live here.
-/
namespace Store

/-- **One call**: whatever the operation (assign, unset, del, append/add, extend/update, insert, remove, pop, clear,
item assignment/deletion, `+=`, whole-collection assignment, `delete()`, resource append/remove), whatever its
operands (wrong types, absent elements, out-of-range indices included), and whether it returns or raises —
`(step …).1` is the state the caller finds — symmetry holds afterwards. -/
theorem C01_step (mm : MM) (hwf : mm.WF) (s : St) (h : Inv mm s) (op : Op) : Sym mm (step mm s op).1 :=
  (inv_step mm hwf s h op).1

/-- **Every history**: after any finite sequence of public mutations from the empty model,
y is a value of x.f exactly when x is a value of y.g, for every pair of opposites. -/
theorem C01_reachable (mm : MM) (hwf : mm.WF) (ops : List Op) :
    ∀ f g, (mm.feat f).opp = some g → ∀ x y, y ∈ (run mm ops).rs x f ↔ x ∈ (run mm ops).rs y g :=
  (inv_run mm hwf ops).1

/-- … and **every history that also uses the other mutators of a set** (`discard`, `difference_update` / `-=`,
`intersection_update` / `&=`, `symmetric_difference_update` / `^=`; `Model/SetOps.lean`): it ends where a history of
public calls ends (`runAny_flat`). -/
theorem C01_reachable_setops (mm : MM) (hwf : mm.WF) (w : List (Op ⊕ SetOp)) :
    ∀ f g, (mm.feat f).opp = some g → ∀ x y, y ∈ (runAny mm w).rs x f ↔ x ∈ (runAny mm w).rs y g := by
  obtain ⟨ops, h⟩ := runAny_flat mm w
  rw [h]; exact C01_reachable mm hwf ops

/-- **Re-pointing releases the previous partner** (single-valued `f`, any multiplicity of the opposite, containment
or not): after `x.f = y`, `x.f` is exactly `y`, and no other object `y0` still holds `x` in the opposite. -/
theorem C01_release (mm : MM) (hwf : mm.WF) (s : St) (h : Inv mm s) (x f y g)
    (hm : (mm.feat f).many = false) (hopp : (mm.feat f).opp = some g) :
    (link mm s x f y 0).rs x f = [y] ∧ ∀ y0, y0 ≠ y → x ∉ (link mm s x f y 0).rs y0 g := by
  have hi := link_inv mm hwf s h x f y 0
  have hmem := link_mem mm hwf s x f y 0
  have hlen := (hi.2.1 x f).1 hm
  have hxy : (link mm s x f y 0).rs x f = [y] := by
    cases hl : (link mm s x f y 0).rs x f with
    | nil => rw [hl] at hmem; cases hmem
    | cons a t =>
      rw [hl] at hmem hlen
      cases t with
      | nil => simp at hmem; rw [hmem]
      | cons _ _ => simp at hlen
  refine ⟨hxy, ?_⟩
  intro y0 hne hx
  have := (hi.1 f g hopp x y0).2 hx
  rw [hxy] at this
  simp at this; exact hne this

/-- … and the same when the value arrives through the many-valued side: after `x.f.append(y)` with a single-valued
opposite, `y.g` is exactly `x` and no other `x0` still holds `y`. -/
theorem C01_steal (mm : MM) (hwf : mm.WF) (s : St) (h : Inv mm s) (x f y g pos)
    (hopp : (mm.feat f).opp = some g) (hm : (mm.feat g).many = false) :
    (link mm s x f y pos).rs y g = [x] ∧ ∀ x0, x0 ≠ x → y ∉ (link mm s x f y pos).rs x0 f := by
  have hi := link_inv mm hwf s h x f y pos
  have hmem : x ∈ (link mm s x f y pos).rs y g := (hi.1 f g hopp x y).1 (link_mem mm hwf s x f y pos)
  have hlen := (hi.2.1 y g).1 hm
  have hyx : (link mm s x f y pos).rs y g = [x] := by
    cases hl : (link mm s x f y pos).rs y g with
    | nil => rw [hl] at hmem; cases hmem
    | cons a t =>
      rw [hl] at hmem hlen
      cases t with
      | nil => simp at hmem; rw [hmem]
      | cons _ _ => simp at hlen
  refine ⟨hyx, ?_⟩
  intro x0 hne hy
  have := (hi.1 f g hopp x0 y).1 hy
  rw [hyx] at this
  simp at this; exact hne this

/-! ### Non-vacuity: a well-formed metamodel and a history with re-pointing and stealing (kernel-evaluated) -/

/-- f0 : C0 → C1 single, f1 : C1 → C0 single, opposites (1-1). -/
def exMM : MM :=
  { feat := fun f => if f = 0 then { owner := 0, tcls := 1, opp := some 1 }
                     else if f = 1 then { owner := 1, tcls := 0, opp := some 0 } else { isRef := false }
    nFeat := 2, sub := fun c t => c == t, abstr := fun _ => false, nCls := 2 }

theorem exMM_wf : exMM.WF := by
  refine ⟨?_, ?_, ?_, ?_, ?_⟩ <;> intro f <;> simp only [exMM] <;> (repeat' split) <;> simp_all

/-- a0.b = b0 ; a1.b = b0 (steals b0 from a0) ; a1.b = b1 (re-points, releasing b0) -/
example :
    let s := run exMM [.new 0, .new 0, .new 1, .new 1, .set 0 0 (.obj 2), .set 1 0 (.obj 2), .set 1 0 (.obj 3)]
    s.rs 0 0 = [] ∧ s.rs 1 0 = [3] ∧ s.rs 2 1 = [] ∧ s.rs 3 1 = [1] := by decide

end Store
