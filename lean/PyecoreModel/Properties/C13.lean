import PyecoreModel.Model.Static
/-!
# C13 — static and dynamic definitions of a metamodel are interchangeable

Model: `Model/Static.lean`.  The reflective description of a metaclass is what every other model of this project takes
as its metamodel parameter (`Store.MM`, the codecs' tables), so "same description" is what carries "same behaviour" from
one rendering to the other; that both renderings really behave like the model driven by that description is the
correspondence half (`harness/c13.py`).
-/
namespace Static
open Ops

theorem reflect_decl (f : FDescr) : reflectFeat f.name (declOf f) = f := by
  cases f; rfl

theorem reflParams_self (req opt : List Param) (hr : ∀ p ∈ req, p.required = true) (ho : ∀ p ∈ opt, p.required = false) :
    let ps : List Param := ⟨"self", true⟩ :: (req ++ opt)
    reflParams (ps.map (·.name)) (ps.filter (!·.required)).length = ps := by
  intro ps
  have hfr : req.filter (fun p => !p.required) = [] := List.filter_eq_nil_iff.mpr (by intro p hp; simp [hr p hp])
  have hfo : opt.filter (fun p => !p.required) = opt := List.filter_eq_self.mpr (by intro p hp; simp [ho p hp])
  have hnd : (ps.filter (!·.required)).length = opt.length := by
    simp [ps, List.filter_cons, List.filter_append, hfr, hfo]
  rw [hnd]
  apply List.ext_getElem
  · simp [reflParams]
  · intro i h1 h2
    simp only [reflParams, List.getElem_zipWith, List.getElem_range, List.getElem_map, List.length_map]
    have hlen : ps.length = 1 + req.length + opt.length := by simp [ps]; omega
    cases hp : ps[i] with
    | mk n r =>
      congr 1
      -- required flag of the i-th parameter: position decides
      rcases i with _ | j
      · have : ps[0] = ⟨"self", true⟩ := rfl
        rw [this] at hp; cases hp
        simp; omega
      · have hj : ps[j + 1] = (req ++ opt)[j]'(by simp [ps] at h2; simpa using h2) := rfl
        rw [hj] at hp
        by_cases hlt : j < req.length
        · rw [List.getElem_append_left hlt] at hp
          have := hr _ (List.getElem_mem hlt)
          rw [hp] at this; simp at this; subst this
          simp; omega
        · have hge : req.length ≤ j := by omega
          rw [List.getElem_append_right hge] at hp
          have := ho _ (List.getElem_mem (by simp [ps] at h2; omega : j - req.length < opt.length))
          rw [hp] at this; simp at this; subst this
          simp; omega

theorem promote_funcOf (op : Op) (h : OpOK op) :
    Ops.promote ⟨(funcOf op).1, op.name, .function, op.params.map (·.name), (op.params.filter (!·.required)).length⟩
      = some op := by
  obtain ⟨hn, req, opt, hp, hr, ho⟩ := h
  have hrp := reflParams_self req opt hr ho
  simp only at hrp
  cases op with
  | mk name params =>
    simp only at hp hn ⊢
    subst hp
    simp only [Ops.promote, funcOf, hn, List.map_cons]
    simp only [ne_eq, not_true_eq_false, if_false, Bool.false_eq_true]
    congr 2

theorem filterMap_map_some {α β : Type} (l : List α) (g : α → β) (f : β → Option α) (h : ∀ a ∈ l, f (g a) = some a) :
    (l.map g).filterMap f = l := by
  induction l with
  | nil => rfl
  | cons a t ih =>
    simp only [List.map_cons, List.filterMap_cons, h a (by simp)]
    rw [ih (fun x hx => h x (by simp [hx]))]

theorem filterMap_map_none {α β γ : Type} (l : List α) (g : α → β) (f : β → Option γ) (h : ∀ a ∈ l, f (g a) = none) :
    (l.map g).filterMap f = [] := by
  induction l with
  | nil => rfl
  | cons a t ih =>
    simp only [List.map_cons, List.filterMap_cons, h a (by simp)]
    exact ih (fun x hx => h x (by simp [hx]))

/-- **Same reflective description.**  Rendering a description as a static class and reflecting it gives the description
    back: name, abstractness, supertypes in order, structural features in order with all their properties, operations
    with their parameters. -/
theorem C13_describe (c : CDescr) (h : c.OK) : promote (render c) = c := by
  obtain ⟨hs, ho⟩ := h
  cases c with
  | mk name abstr supers feats ops =>
    simp only at hs ho
    unfold promote render
    simp only [CDescr.mk.injEq, true_and]
    refine ⟨?_, ?_, ?_⟩
    · cases supers with
      | nil => simp
      | cons s t =>
        simp only [List.isEmpty_cons, Bool.false_eq_true, if_false]
        apply List.filter_eq_self.mpr
        intro x hx
        have := hs x hx
        simp [this.1, this.2]
    · rw [List.filterMap_append, filterMap_map_some feats _ _ (by intro f _; simp [reflect_decl]),
        filterMap_map_none ops _ _ (by intro op _; rfl), List.append_nil]
    · rw [List.filterMap_append, filterMap_map_none feats _ _ (by intro f _; rfl),
        filterMap_map_some ops _ _ (by intro op hop; exact promote_funcOf op (ho op hop)), List.nil_append]

/-- **Interchangeable.**  Whatever is determined by the reflective descriptions of a metamodel's classes — the Store
    semantics (`Store.step` over the metamodel built from them), the codecs, the serialisers — is the same for the
    metamodel written as static classes and for the one built from EClass instances. -/
theorem C13_interchangeable {α : Type} (sem : List CDescr → α) (cs : List CDescr) (h : ∀ c ∈ cs, c.OK) :
    sem (cs.map fun c => promote (render c)) = sem cs := by
  congr 1
  conv => rhs; rw [← List.map_id cs]
  apply List.map_congr_left
  intro c hc
  exact C13_describe c (h c hc)

/-- an unnamed feature takes the key it is bound to; an explicit name wins -/
theorem C13_feature_name (k : String) (d : FDecl) :
    (reflectFeat k d).name = match d.name with | some n => n | none => k := by
  cases h : d.name <;> simp [reflectFeat, h]

example :
    let c : CDescr := ⟨"A", true, ["B", "C"], [⟨"x", false, true, true, false, false, "EInt", none, some "3"⟩],
      [⟨"run", [⟨"self", true⟩, ⟨"a", true⟩, ⟨"b", false⟩]⟩]⟩
    promote (render c) = c := by decide +kernel

end Static
