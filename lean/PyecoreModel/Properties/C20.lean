import PyecoreModel.Model.Operations
import PyecoreModel.Properties.C12
/-!
# C20 — declared operations are callable with their declared signature

Model: `Model/Operations.lean` (the signature `to_code` writes, Python's positional binding rule, `_promote`'s reflection
rule) and `Model/Classes.lean` (where the generated methods live, shared with C12).  `pyKeywords` is regenerated from
the interpreter on every run.
-/
namespace Ops

/-! ## names -/

theorem kw_underscore_not_kw : pyKeywords.all (fun k => !pyKeywords.contains (k ++ "_")) = true := by decide +kernel

/-- the method name is never a Python keyword, and is the declared name unless that is a keyword -/
theorem C20_normalized (n : String) :
    normalizedName n ∉ pyKeywords ∧ (n ∉ pyKeywords → normalizedName n = n) ∧
    (n ∈ pyKeywords → normalizedName n = n ++ "_") := by
  refine ⟨?_, ?_, ?_⟩
  · unfold normalizedName
    split
    · rename_i h
      have h' := List.all_eq_true.mp kw_underscore_not_kw n (List.contains_iff_mem.mp h)
      simpa using h'
    · rename_i h
      simpa using h
  · intro h; simp [normalizedName, h]
  · intro h; simp [normalizedName, h]

/-! ## the generated signature -/

theorem sigOf_noself (op : Op) (h : ∀ p ∈ op.params, p.name ≠ "self") :
    sigOf op = ⟨"self", false⟩ :: op.params.map paramCode := by
  unfold sigOf
  cases hp : op.params with
  | nil => rfl
  | cons p t =>
    have hne : p.name ≠ "self" := h p (by simp [hp])
    simp only [List.map_cons]
    split
    · rename_i heq
      simp only [List.cons.injEq] at heq
      have : (paramCode p).name = "self" := by rw [heq.1]
      exact absurd this hne
    · rfl

/-- the parameters seen on an instance are the declared ones in order, defaulted exactly when not required -/
theorem C20_signature_params (op : Op) (h : ∀ p ∈ op.params, p.name ≠ "self") :
    bound (sigOf op) = op.params.map fun p => ⟨p.name, !p.required⟩ := by
  rw [sigOf_noself op h]; rfl

theorem noReqAfterDflt_append (a b : List SigP) (ha : ∀ p ∈ a, p.dflt = false) (hb : ∀ p ∈ b, p.dflt = true) :
    noReqAfterDflt (a ++ b) = true := by
  induction a with
  | nil =>
    induction b with
    | nil => rfl
    | cons q t ih =>
      simp only [List.nil_append, noReqAfterDflt, Bool.and_eq_true]
      refine ⟨?_, ?_⟩
      · simp only [hb q (by simp), if_true, List.all_eq_true]
        intro x hx; exact hb x (by simp [hx])
      · simpa using ih (fun p hp => hb p (by simp [hp]))
  | cons q t ih =>
    simp only [List.cons_append, noReqAfterDflt, Bool.and_eq_true]
    refine ⟨?_, ih (fun p hp => ha p (by simp [hp]))⟩
    simp [ha q (by simp)]

theorem nRequired_append (a b : List SigP) (ha : ∀ p ∈ a, p.dflt = false) (hb : ∀ p ∈ b, p.dflt = true) :
    nRequired (a ++ b) = a.length := by
  unfold nRequired
  rw [List.filter_append]
  have h1 : a.filter (fun p => !p.dflt) = a := List.filter_eq_self.mpr (by intro p hp; simp [ha p hp])
  have h2 : b.filter (fun p => !p.dflt) = [] := List.filter_eq_nil_iff.mpr (by intro p hp; simp [hb p hp])
  simp [h1, h2]

/-- **Declared signature.**  For required parameters followed by optional ones (none called `self`): the generated `def`
    is one Python accepts as far as parameter order goes, and a call on an instance with `k` positional arguments
    reaches the body — which raises NotImplementedError — exactly when `#required ≤ k ≤ #required + #optional`;
    any other count is a TypeError. -/
theorem C20_signature (name : String) (req opt : List Param)
    (hr : ∀ p ∈ req, p.required = true) (ho : ∀ p ∈ opt, p.required = false)
    (hs : ∀ p ∈ req ++ opt, p.name ≠ "self") (k : Nat) :
    let op : Op := ⟨name, req ++ opt⟩
    noReqAfterDflt (sigOf op) = true ∧
    (callStub op k = .notImplemented ↔ req.length ≤ k ∧ k ≤ req.length + opt.length) ∧
    (callStub op k = .typeError ↔ ¬ (req.length ≤ k ∧ k ≤ req.length + opt.length)) := by
  intro op
  have hsig := sigOf_noself op hs
  have hb : bound (sigOf op) = req.map paramCode ++ opt.map paramCode := by
    rw [hsig]; simp [bound, op]
  have hra : ∀ p ∈ req.map paramCode, p.dflt = false := by
    intro p hp; obtain ⟨q, hq, rfl⟩ := List.mem_map.mp hp; simp [paramCode, hr q hq]
  have hoa : ∀ p ∈ opt.map paramCode, p.dflt = true := by
    intro p hp; obtain ⟨q, hq, rfl⟩ := List.mem_map.mp hp; simp [paramCode, ho q hq]
  have hacc : accepts (bound (sigOf op)) k = true ↔ req.length ≤ k ∧ k ≤ req.length + opt.length := by
    simp only [accepts, hb, nRequired_append _ _ hra hoa, Bool.and_eq_true, decide_eq_true_eq, List.length_append,
      List.length_map]
  refine ⟨?_, ?_, ?_⟩
  · rw [hsig]
    have : (⟨"self", false⟩ : SigP) :: List.map paramCode op.params
        = ((⟨"self", false⟩ : SigP) :: req.map paramCode) ++ opt.map paramCode := by simp [op]
    rw [this]
    exact noReqAfterDflt_append _ _ (by intro p hp; rcases List.mem_cons.mp hp with rfl | hp; rfl; exact hra p hp) hoa
  · unfold callStub; rw [← hacc]; split <;> simp_all
  · unfold callStub; rw [← hacc]; split <;> simp_all

/-! ## static reflection -/

theorem reflParams_names (args : List String) (nd : Nat) : (reflParams args nd).map (·.name) = args := by
  unfold reflParams
  apply List.ext_getElem
  · simp
  · intro i h1 h2; simp

/-- **Reflection.**  A plain function of a static class body whose key does not start with `__` and whose first
    parameter is `self` is reflected as an operation of the function's name whose parameters are the function's, in
    order, required exactly for those without default — so that the signature generated back from the operation is the
    function's own. -/
theorem C20_reflect (e : Entry) (rest : List String) (hk : e.kind = .function) (hd : e.key.startsWith "__" = false)
    (ha : e.args = "self" :: rest) (hn : e.ndefaults ≤ rest.length) :
    ∃ op, promote e = some op ∧ op.name = e.fname ∧ op.params.map (·.name) = e.args ∧
      (∀ i (h : i < op.params.length), (op.params[i]).required = decide (i < e.args.length - e.ndefaults)) ∧
      sigOf op = entrySig e := by
  refine ⟨⟨e.fname, reflParams e.args e.ndefaults⟩, ?_, rfl, reflParams_names _ _, ?_, ?_⟩
  · simp [promote, hk, hd, ha]
  · intro i h; simp [reflParams]
  · have hfirst : reflParams e.args e.ndefaults
        = ⟨"self", true⟩ :: (reflParams e.args e.ndefaults).tail := by
      rw [ha]; simp only [reflParams, List.length_cons, List.range_succ_eq_map, List.zipWith_cons_cons, List.tail_cons]
      congr 1; simp; omega
    have hsig : sigOf ⟨e.fname, reflParams e.args e.ndefaults⟩
        = (reflParams e.args e.ndefaults).map paramCode := by
      unfold sigOf
      simp only
      rw [hfirst]
      simp [paramCode]
    rw [hsig]
    apply List.ext_getElem
    · simp [entrySig, reflParams]
    · intro i h1 h2
      simp only [entrySig, reflParams, paramCode, List.getElem_map, List.getElem_zipWith, List.getElem_range]
      congr 1
      by_cases hi : i < e.args.length - e.ndefaults
      · have : ¬ (e.args.length - e.ndefaults ≤ i) := by omega
        simp [hi, this]
      · have : e.args.length - e.ndefaults ≤ i := by omega
        simp [hi, this]

/-- … and nothing else is: static and class methods, keys starting with `__`, functions without `self` first. -/
theorem C20_reflect_skips (e : Entry)
    (h : e.kind ≠ .function ∨ e.key.startsWith "__" = true ∨ e.args.head? ≠ some "self") : promote e = none := by
  unfold promote
  rcases h with h | h | h
  · simp [h]
  · simp [h]
  · split
    · rfl
    · split
      · rfl
      · cases ha : e.args with
        | nil => rfl
        | cons a t =>
          simp only [ha, List.head?_cons, ne_eq, Option.some.injEq] at h
          simp [h]

end Ops

namespace Cls

/-- **Method present.**  In every state reached by admissible edits, a declared operation of the class of an instance
    or of one of its transitive supertypes is found as a method (class-level entry) on the instance … -/
theorem C20_method_present (w : W) (h : Inv w) (i : Nat) (n : Name) (hn : n ∈ allOps w (w.icls i)) :
    getattr w i n = .descriptor := ((C12_getattr w h i n).2).mpr (Or.inr hn)

/-- … and a name that is neither an operation nor a feature of them is not found at all: removal removes the method. -/
theorem C20_method_absent (w : W) (h : Inv w) (i : Nat) (n : Name)
    (hf : n ∉ allFeatures w (w.icls i)) (ho : n ∉ allOps w (w.icls i)) : getattr w i n = .nothing := by
  have h1 := (C12_getattr w h i n).1
  have h2 := (C12_getattr w h i n).2
  cases hg : getattr w i n with
  | descriptor => exact absurd (h2.mp hg) (by simp [hf, ho])
  | rawHolder => exact absurd hg h1
  | nothing => rfl

/-- adding an operation to `c` makes it an operation of `c` and of every class that has `c` among its supertypes -/
theorem C20_add (w : W) (c d : Cid) (n : Name) (hd : d = c ∨ c ∈ allSupers w d) :
    n ∈ allOps (edit w (.addOp c n)) d := by
  simp only [allOps, allSupers, edit, List.mem_append, List.mem_flatMap]
  rcases hd with rfl | hd
  · left; simp
  · right; exact ⟨c, hd, by simp⟩

/-- removing it from `c` leaves no declaration of that name on `c` -/
theorem C20_remove (w : W) (c : Cid) (n : Name) : n ∉ (edit w (.removeOp c n)).ops c := by
  simp [edit]

example :
    let w := run [.newClass, .newClass, .addSuper 1 0 false, .newInst 1, .addOp 0 5]
    getattr w 0 5 = .descriptor ∧ getattr (edit w (.removeOp 0 5)) 0 5 = .nothing := by decide

end Cls

example : Ops.callStub ⟨"f", [⟨"a", true⟩, ⟨"b", false⟩]⟩ 0 = .typeError ∧
    Ops.callStub ⟨"f", [⟨"a", true⟩, ⟨"b", false⟩]⟩ 1 = .notImplemented ∧
    Ops.callStub ⟨"f", [⟨"a", true⟩, ⟨"b", false⟩]⟩ 3 = .typeError := by decide
example : Ops.normalizedName "class" = "class_" ∧ Ops.normalizedName "klass" = "klass" := by decide
