import PyecoreModel.Model.Defaults
/-!
# C15 — Unset features read as their default, privately, and reading is free

Model: `Model/Defaults.lean`.  `src f` is what `get_default_value()` evaluates to for feature `f`; the check reads it
off the real declaration on every run (default literal / explicit default / type default / factory), so a change of
the declaration-time logic shows up as a different `src` table, not as a silent mismatch.
-/
namespace Dflt
set_option linter.unusedVariables false

theorem dflt_fields (src : Nat → Src) (s : St) (f : Nat) :
    (dflt src s f).2.holder = s.holder ∧ (dflt src s f).2.isset = s.isset ∧
    (∀ c, c ≠ s.next → (dflt src s f).2.heap c = s.heap c) := by
  unfold dflt; cases src f <;> refine ⟨rfl, rfl, ?_⟩ <;> intro c hc <;> simp [hc]

/-- **A feature that has no holder yet and is not in `_isset` reads as its default and stays unset.** -/
theorem C15_default (src : Nat → Src) (s : St) (o f : Nat) (hh : s.holder o f = Option.none)
    (hi : s.isset o f = false) :
    (read src s o f).1 = (dflt src s f).1 ∧ (read src s o f).2.isset o f = false := by
  unfold read; rw [hh]
  refine ⟨rfl, ?_⟩
  simp only [St.setHolder, (dflt_fields src s f).2.1]; exact hi

/-- `_isset` only ever changes for the feature that is written or deleted: in particular never by a read, and a
history without write/delete on `(o, f)` leaves it unset. -/
def touches (o f : Nat) : Op → Bool
  | .write o' f' _ | .writeNone o' f' | .writeFresh o' f' | .del o' f' => o' = o && f' = f
  | _ => false

theorem C15_never_set (src : Nat → Src) (n : Nat) (ops : List Op) (o f : Nat)
    (h : ∀ op ∈ ops, touches o f op = false) : (run src n ops).isset o f = false := by
  unfold run
  suffices H : ∀ (ops : List Op) (s : St), s.isset o f = false → (∀ op ∈ ops, touches o f op = false) →
      (ops.foldl (step src) s).isset o f = false from H ops (init n) rfl h
  intro ops
  induction ops with
  | nil => intro s hs _; exact hs
  | cons op t ih =>
    intro s hs hall
    simp only [List.foldl_cons]
    apply ih
    · have hop := hall op (by simp)
      cases op <;> simp only [step, read, write, writeFresh, del, dflt, mutate, St.setHolder, touches] at hop ⊢ <;>
        (repeat' split) <;> simp_all
    · intro op' hm; exact hall op' (by simp [hm])

/-- **Reading is free**: it changes neither `_isset` nor what `save()` would write, for any object and feature; and a
second read returns the same value. -/
theorem C15_read_pure (src : Nat → Src) (s : St) (o f : Nat)
    (hal : ∀ o f c, s.holder o f = some (.cell c) → c < s.next) :
    (read src s o f).2.isset = s.isset ∧
    (∀ o' f', saved (read src s o f).2 o' f' = saved s o' f' ∨ s.isset o' f' = true ∧ s.holder o' f' = Option.none) ∧
    (read src (read src s o f).2 o f).1 = (read src s o f).1 := by
  unfold read
  cases hh : s.holder o f with
  | some v => simp [hh, saved]
  | none =>
    have hf := dflt_fields src s f
    simp only
    refine ⟨?_, ?_, ?_⟩
    · simp only [St.setHolder, hf.2.1]
    · intro o' f'
      unfold saved
      simp only [St.setHolder, hf.2.1, hf.1]
      by_cases hi : s.isset o' f' = true
      · by_cases he : o' = o ∧ f' = f
        · obtain ⟨rfl, rfl⟩ := he; exact Or.inr ⟨hi, hh⟩
        · left
          simp only [hi, if_true, he, if_false]
          cases hw : s.holder o' f' with
          | none => rfl
          | some w =>
            cases w with
            | none => simp [view]
            | imm i => simp [view]
            | cell c => simp [view, hf.2.2 c (Nat.ne_of_lt (hal _ _ _ hw))]
      · left
        have hi' : s.isset o' f' = false := by simpa using hi
        simp [hi']
    · simp [St.setHolder]

/-- **Deleting restores the default** (the value `get_default_value()` yields at that moment). -/
theorem C15_delete (src : Nat → Src) (s : St) (o f : Nat) :
    (read src (del src s o f) o f).1 = (dflt src s f).1 := by
  unfold del read write St.setHolder; simp

/-- holders never share a mutable value; held cells are allocated; unallocated cells are empty -/
def NoAlias (s : St) : Prop :=
  (∀ o f c, s.holder o f = some (.cell c) → c < s.next) ∧
  (∀ o1 f1 o2 f2 c, s.holder o1 f1 = some (.cell c) → s.holder o2 f2 = some (.cell c) → o1 = o2 ∧ f1 = f2) ∧
  (∀ c, s.next ≤ c → s.heap c = [])

/-- the declarations hand out no shared mutable default -/
def NoShared (src : Nat → Src) : Prop := ∀ f c, src f ≠ .shared c

theorem noAlias_init (n : Nat) : NoAlias (init n) := by
  refine ⟨?_, ?_, ?_⟩ <;> simp [init]

theorem noAlias_step (src : Nat → Src) (hs : NoShared src) (s : St) (h : NoAlias s) (op : Op) :
    NoAlias (step src s op) := by
  obtain ⟨h1, h2, h3⟩ := h
  have hread : ∀ o f, NoAlias (read src s o f).2 := by
    intro o f
    unfold read
    cases hh : s.holder o f with
    | some v => exact ⟨h1, h2, h3⟩
    | none =>
      simp only
      unfold dflt
      cases hsrc : src f with
      | none' =>
        refine ⟨?_, ?_, h3⟩
        · intro o' f' c hc; simp only [St.setHolder] at hc; split at hc
          · cases hc
          · exact h1 _ _ _ hc
        · intro o1 f1 o2 f2 c a b; simp only [St.setHolder] at a b
          split at a
          · cases a
          · split at b
            · cases b
            · exact h2 _ _ _ _ _ a b
      | imm i =>
        refine ⟨?_, ?_, h3⟩
        · intro o' f' c hc; simp only [St.setHolder] at hc; split at hc
          · cases hc
          · exact h1 _ _ _ hc
        · intro o1 f1 o2 f2 c a b; simp only [St.setHolder] at a b
          split at a
          · cases a
          · split at b
            · cases b
            · exact h2 _ _ _ _ _ a b
      | shared c => exact absurd hsrc (hs f c)
      | factory init =>
        refine ⟨?_, ?_, ?_⟩
        · intro o' f' c hc; simp only [St.setHolder] at hc; split at hc
          · cases hc; exact Nat.lt_succ_self _
          · exact Nat.lt_succ_of_lt (h1 _ _ _ hc)
        · intro o1 f1 o2 f2 c a b; simp only [St.setHolder] at a b
          split at a
          · rename_i e1; cases a
            split at b
            · rename_i e2; exact ⟨e1.1.trans e2.1.symm, e1.2.trans e2.2.symm⟩
            · exact absurd (h1 _ _ _ b) (Nat.lt_irrefl _)
          · split at b
            · cases b; exact absurd (h1 _ _ _ a) (Nat.lt_irrefl _)
            · exact h2 _ _ _ _ _ a b
        · intro c hc
          have hne : c ≠ s.next := by intro e; subst e; exact absurd hc (Nat.not_succ_le_self _)
          simp only [St.setHolder, hne, if_false]; exact h3 c (Nat.le_of_succ_le hc)
  have hwrite : ∀ (s : St), NoAlias s → ∀ o f v, (∀ c, v = .cell c → c < s.next ∧ ∀ o' f', s.holder o' f' ≠ some (.cell c)) →
      NoAlias (write s o f v) := by
    intro s ⟨a1, a2, a3⟩ o f v hv
    refine ⟨?_, ?_, a3⟩
    · intro o' f' c hc; simp only [write, St.setHolder] at hc; split at hc
      · cases hc; exact (hv c rfl).1
      · exact a1 _ _ _ hc
    · intro o1 f1 o2 f2 c a b; simp only [write, St.setHolder] at a b
      split at a
      · rename_i e1; cases a
        split at b
        · rename_i e2; exact ⟨e1.1.trans e2.1.symm, e1.2.trans e2.2.symm⟩
        · exact absurd b ((hv c rfl).2 _ _)
      · split at b
        · cases b; exact absurd a ((hv c rfl).2 _ _)
        · exact a2 _ _ _ _ _ a b
  cases op with
  | read o f => exact hread o f
  | write o f i => exact hwrite s ⟨h1, h2, h3⟩ o f _ (by intro c hc; cases hc)
  | writeNone o f => exact hwrite s ⟨h1, h2, h3⟩ o f _ (by intro c hc; cases hc)
  | writeFresh o f =>
    simp only [step, writeFresh]
    apply hwrite
    · exact ⟨fun o f c hc => Nat.lt_succ_of_lt (h1 o f c hc), h2, fun c hc => h3 c (Nat.le_of_succ_le hc)⟩
    · intro c hc; cases hc
      exact ⟨Nat.lt_succ_self _, fun o' f' hh => absurd (h1 _ _ _ hh) (Nat.lt_irrefl _)⟩
  | del o f =>
    simp only [step, del]
    unfold dflt
    cases hsrc : src f with
    | none' => exact hwrite s ⟨h1, h2, h3⟩ o f _ (by intro c hc; cases hc)
    | imm i => exact hwrite s ⟨h1, h2, h3⟩ o f _ (by intro c hc; cases hc)
    | shared c => exact absurd hsrc (hs f c)
    | factory init =>
      apply hwrite
      · refine ⟨fun o f c hc => Nat.lt_succ_of_lt (h1 o f c hc), h2, fun c hc => ?_⟩
        have hne : c ≠ s.next := by intro e; subst e; exact absurd hc (Nat.not_succ_le_self _)
        simp only [hne, if_false]; exact h3 c (Nat.le_of_succ_le hc)
      · intro c hc; cases hc
        exact ⟨Nat.lt_succ_self _, fun o' f' hh => absurd (h1 _ _ _ hh) (Nat.lt_irrefl _)⟩
  | mutateRead o f k =>
    simp only [step]
    have hr := hread o f
    obtain ⟨r1, r2, r3⟩ := hr
    split
    · rename_i c hc
      -- the cell read is allocated, so unallocated cells stay empty
      have hheld : (read src s o f).2.holder o f = some (.cell c) := by
        unfold read at hc ⊢
        cases hh : s.holder o f with
        | some v => simp only [hh] at hc ⊢; rw [hc]
        | none => simp only [hh] at hc ⊢; simp [St.setHolder, hc]
      have hlt := r1 _ _ _ hheld
      refine ⟨r1, r2, ?_⟩
      intro c' hc'
      simp only [mutate]
      split
      · rename_i e; subst e; exact absurd hlt (Nat.not_lt.2 hc')
      · exact r3 c' hc'
    · exact ⟨r1, r2, r3⟩

theorem noAlias_run (src : Nat → Src) (hs : NoShared src) (n : Nat) (ops : List Op) : NoAlias (run src n ops) := by
  unfold run
  suffices H : ∀ (ops : List Op) (s : St), NoAlias s → NoAlias (ops.foldl (step src) s) from H ops _ (noAlias_init n)
  intro ops; induction ops with
  | nil => intro s h; exact h
  | cons op t ih => intro s h; exact ih _ (noAlias_step src hs s h op)

/-- **Objects never share feature state**: mutating the value obtained by reading `o1.f1` never changes what any
other feature of any object holds, nor the contents of what it holds — after any history, provided no declaration
hands out a shared mutable default (`NoShared`, decided on the regenerated table of the real declarations). -/
theorem C15_private (src : Nat → Src) (hs : NoShared src) (s : St) (h : NoAlias s)
    (o1 f1 o2 f2 : Nat) (k : Int) (hne : ¬ (o1 = o2 ∧ f1 = f2)) (v : V) (hv : s.holder o2 f2 = some v) :
    (step src s (.mutateRead o1 f1 k)).holder o2 f2 = some v ∧
    view (step src s (.mutateRead o1 f1 k)) v = view s v := by
  obtain ⟨h1, h2, h3⟩ := h
  simp only [step]
  -- reading (o1, f1) does not disturb the holder of (o2, f2)
  have hkeep : (read src s o1 f1).2.holder o2 f2 = some v ∧
      (∀ c, c < s.next → (read src s o1 f1).2.heap c = s.heap c) := by
    unfold read
    cases hh : s.holder o1 f1 with
    | some w => exact ⟨hv, fun _ _ => rfl⟩
    | none =>
      simp only
      have : ¬ (o2 = o1 ∧ f2 = f1) := fun e => hne ⟨e.1.symm, e.2.symm⟩
      refine ⟨by simp [St.setHolder, this, hv, (dflt_fields src s f1).1], ?_⟩
      intro c hc
      simp only [St.setHolder]
      exact (dflt_fields src s f1).2.2 c (Nat.ne_of_lt hc)
  split
  · rename_i c hc
    refine ⟨by simpa [mutate] using hkeep.1, ?_⟩
    cases v with
    | none => rfl
    | imm i => rfl
    | cell c2 =>
      simp only [view, mutate]
      have hc2 : c2 < s.next := h1 _ _ _ hv
      have hcne : c2 ≠ c := by
        intro e; subst e
        -- both (o1,f1) (after the read) and (o2,f2) would hold c2
        unfold read at hc
        cases hh : s.holder o1 f1 with
        | some w =>
          simp only [hh] at hc; subst hc
          exact hne (h2 _ _ _ _ _ hh hv)
        | none =>
          simp only [hh] at hc
          unfold dflt at hc
          split at hc
          · cases hc
          · cases hc
          · rename_i c' hsrc; exact absurd hsrc (hs _ _)
          · cases hc; exact absurd (h1 _ _ _ hv) (Nat.lt_irrefl _)
      simp [hcne, hkeep.2 c2 hc2]
  · refine ⟨hkeep.1, ?_⟩
    cases v with
    | none => rfl
    | imm i => rfl
    | cell c2 => simp [view, hkeep.2 c2 (h1 _ _ _ hv)]

/-- … in particular after every history from the initial state. -/
theorem C15_private_reachable (src : Nat → Src) (hs : NoShared src) (n : Nat) (ops : List Op)
    (o1 f1 o2 f2 : Nat) (k : Int) (hne : ¬ (o1 = o2 ∧ f1 = f2)) (v : V)
    (hv : (run src n ops).holder o2 f2 = some v) :
    (step src (run src n ops) (.mutateRead o1 f1 k)).holder o2 f2 = some v ∧
    view (step src (run src n ops) (.mutateRead o1 f1 k)) v = view (run src n ops) v :=
  C15_private src hs _ (noAlias_run src hs n ops) o1 f1 o2 f2 k hne v hv

/-! ### Non-vacuity, and the excluded corner -/

/-- feature 0: factory (map-typed attribute), feature 1: type default 0 -/
def exSrc : Nat → Src := fun f => if f = 0 then .factory [] else .imm 0

example : NoShared exSrc := by intro f c; unfold exSrc; split <;> simp

/-- two objects read their (fresh) maps, one is mutated, the other still reads empty; reads never set `_isset` -/
example :
    let s := run exSrc 0 [.read 0 0, .read 1 0, .mutateRead 0 0 7, .read 1 1]
    view s ((read exSrc s 0 0).1) = (.cell 0, [7]) ∧ view s ((read exSrc s 1 0).1) = (.cell 1, []) ∧
    s.isset 0 0 = false ∧ s.isset 1 1 = false ∧ (read exSrc s 1 1).1 = .imm 0 := by decide

/-- **Counterexample with a shared default** (an explicit mutable `default_value`, recorded finding F-C15-1; the
factory defaults behaved like this before the repair): object 1 sees what was written through object 0. -/
theorem C15_counterexample_shared :
    let src : Nat → Src := fun _ => .shared 0
    let s := run src 1 [.mutateRead 0 0 7]
    view s ((read src s 1 0).1) = (.cell 0, [7]) := by decide

end Dflt
