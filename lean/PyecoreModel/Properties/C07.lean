import PyecoreModel.Lemmas.StoreDelete
/-!
# C07 — delete() leaves no dangling reference and touches nothing else

`Store.delete mm s x recursive` is the net effect of `EObject.delete`: the objects of the containment subtree (when
`recursive`), then `x`, each lose every link they take part in (`deleteOne` = `unlinkRaw` over `linksOf`).
In the code the incoming links are only known through `_inverse_rels` (references without opposite) and through the
opposite ends; the model *scans* for them.  That the bookkeeping finds exactly what a scan finds is what the
correspondence check of this property establishes on every run — a history after which the two differ is a
violation of this property with that history as the replay.

Hypotheses: `Inv` (C01/C02 invariants), `Typed` (C03), and `Nd` — no reference slot holds a value twice.  `Nd` is an
invariant of the admissible histories (a list-like reference is never offered a value it already holds); the
unchanged code does *not* satisfy C07 without it, see `C07_counterexample_duplicate`.
-/
namespace Store

/-- the deleted objects: `x` and, when recursive, everything below it -/
def deleted (mm : MM) (s : St) (x : Oid) (recursive : Bool) : List Oid :=
  (if recursive then descendants mm s s.nObj x else []) ++ [x]

/-- **No dangling reference**: afterwards no object whatsoever holds a deleted object in any feature. -/
theorem C07_no_dangling (mm : MM) (hwf : mm.WF) (hwft : mm.WFT) (s : St) (h : Inv mm s) (ht : Typed mm s) (hn : Nd s)
    (x : Oid) (r : Bool) :
    ∀ d ∈ deleted mm s x r, ∀ o f, d ∉ (delete mm s x r).rs o f := by
  intro d hd o f hm
  rw [delete_eq, deleteAll_rs mm hwf hwft s h ht hn, List.mem_filter] at hm
  simp only [deleted] at hd
  simp [hd] at hm

/-- **The deleted objects hold no references and have no container.** -/
theorem C07_deleted_clean (mm : MM) (hwf : mm.WF) (hwft : mm.WFT) (s : St) (h : Inv mm s) (ht : Typed mm s)
    (hn : Nd s) (x : Oid) (r : Bool) :
    ∀ d ∈ deleted mm s x r, (∀ f, (delete mm s x r).rs d f = []) ∧ (delete mm s x r).cont d = none := by
  intro d hd
  simp only [deleted] at hd
  constructor
  · intro f
    rw [delete_eq, deleteAll_rs mm hwf hwft s h ht hn]
    apply List.filter_eq_nil_iff.2
    intro b _; simp [hd]
  · cases hc : (delete mm s x r).cont d with
    | none => rfl
    | some pf =>
      obtain ⟨p, f⟩ := pf
      rw [delete_eq] at hc
      have := (deleteAll_cont mm hwf hwft s h ht hn _ d p f).1 hc
      exact absurd hd this.2.2

/-- **Nothing else is touched**: a surviving object keeps every reference value in the same order, minus the deleted
objects; its attributes, its resource membership and every resource's root list are what they were; it keeps its
container unless the container was deleted. -/
theorem C07_frame (mm : MM) (hwf : mm.WF) (hwft : mm.WFT) (s : St) (h : Inv mm s) (ht : Typed mm s) (hn : Nd s)
    (x : Oid) (r : Bool) (o : Oid) (ho : o ∉ deleted mm s x r) :
    (∀ f, (delete mm s x r).rs o f = (s.rs o f).filter (fun b => decide (b ∉ deleted mm s x r))) ∧
    (delete mm s x r).as = s.as ∧ (delete mm s x r).eres = s.eres ∧ (delete mm s x r).rcont = s.rcont ∧
    (∀ p f, (delete mm s x r).cont o = some (p, f) ↔ s.cont o = some (p, f) ∧ p ∉ deleted mm s x r) := by
  rw [delete_eq]
  refine ⟨?_, (deleteAll_frame mm s _).2.2.1, (deleteAll_res mm s _).1, (deleteAll_res mm s _).2, ?_⟩
  · intro f
    rw [deleteAll_rs mm hwf hwft s h ht hn]
    apply List.filter_congr; intro b _
    simp only [deleted] at ho
    simp [ho, deleted]
  · intro p f
    rw [deleteAll_cont mm hwf hwft s h ht hn]
    simp only [deleted] at ho ⊢
    constructor
    · rintro ⟨a, b, _⟩; exact ⟨a, b⟩
    · rintro ⟨a, b⟩; exact ⟨a, b, ho⟩

/-- and the invariants of C01/C02 hold afterwards (so the remaining model is still a forest with symmetric links) -/
theorem C07_inv (mm : MM) (hwf : mm.WF) (s : St) (h : Inv mm s) (x r) : Inv mm (delete mm s x r) :=
  delete_inv mm hwf s h x r

/-! ### Non-vacuity and the excluded corner -/

/-- f0 : C0 → C0 many containment, f1 : C0 → C0 single plain reference, f2 : C0 → C0 many list-like reference -/
def exMM7 : MM :=
  { feat := fun f => if f = 0 then { many := true, cont := true }
                     else if f = 1 then { } else { many := true, unique := false }
    nFeat := 3, sub := fun c t => c == t, abstr := fun _ => false, nCls := 1 }

/-- o0 contains o1 contains o2; o3 refers to o2 and to o1; deleting o1 recursively cleans o3 and o0 -/
example :
    let s := run exMM7 [.new 0, .new 0, .new 0, .new 0, .add 0 0 (.obj 1), .add 1 0 (.obj 2),
                        .set 3 1 (.obj 2), .add 3 2 (.obj 1), .add 3 2 (.obj 0)]
    deleted exMM7 s 1 true = [2, 1] ∧
    (delete exMM7 s 1 true).rs 0 0 = [] ∧ (delete exMM7 s 1 true).rs 3 1 = [] ∧
    (delete exMM7 s 1 true).rs 3 2 = [0] ∧ (delete exMM7 s 1 true).cont 2 = none := by decide

/-- **Counterexample outside `Nd`** (kept visible: this is the recorded finding F-C07-1): a list-like reference
holding the deleted object twice keeps one occurrence — the model mirrors what the code does. -/
theorem C07_counterexample_duplicate :
    let s := run exMM7 [.new 0, .new 0, .add 0 2 (.obj 1), .add 0 2 (.obj 1)]
    (delete exMM7 s 1 true).rs 0 2 = [1] := by decide

end Store
