import PyecoreModel.Lemmas.OSet
/-!
# C04 — Multi-valued features behave like the collection they declare

Model: `Py.OSet` (`Model/OSet.lean`) = `ordered_set.OrderedSet` + pyecore's patch, which is the base
class of `EOrderedSet`/`ESet`; `Py.listStep` = a plain Python list subjected to the same operations
("insertions of already-present elements ignored when unique").  `EList`/`EBag` *are* Python lists
(their base class is `list`), so for them the specification is the implementation and only the
correspondence check has something to say.

Only property statements live here; helper lemmas are in `Lemmas/OSet.lean`.
-/
namespace Py
variable {α : Type} [DecidableEq α]

/-- **One step**: from any state satisfying the invariant, every operation (any index, also negative or out of
range; any element, present or not) (i) leaves `items` exactly as the list specification does,
(ii) returns the same value or raises exactly when the list raises, (iii) re-establishes the invariant. -/
theorem C04_step (s : OSet α) (op : COp α) (h : s.MapOK) :
    (s.step op).1.items = (listStep true s.items op).1
    ∧ sameOutcome (s.step op).2 (listStep true s.items op).2
    ∧ (s.step op).1.MapOK := by
  cases op with
  | add x =>
    simp only [OSet.step, listStep, Bool.true_and]
    refine ⟨?_, ?_, OSet.add_mapOK s x h⟩
    · rw [OSet.add_items s x h]; split <;> rfl
    · split <;> simp [sameOutcome]
  | insert i x =>
    simp only [OSet.step, listStep, Bool.true_and]
    refine ⟨?_, ?_, OSet.insert_mapOK s i x h⟩
    · rw [OSet.insert_items s i x h]; split <;> rfl
    · split <;> simp [sameOutcome]
  | pop i =>
    have := OSet.pop_spec s i h
    simp only [OSet.step, listStep]
    cases hp : s.pop i with
    | error e =>
      cases hq : pyPop s.items i with
      | none => exact ⟨rfl, (by simp [sameOutcome]), h⟩
      | some r => rw [hp, hq] at this; exact this.elim
    | ok r =>
      obtain ⟨s', x⟩ := r
      cases hq : pyPop s.items i with
      | none => rw [hp, hq] at this; exact this.elim
      | some r' =>
        obtain ⟨l', y⟩ := r'
        rw [hp, hq] at this
        obtain ⟨h1, h2, h3⟩ := this
        exact ⟨h1, by simp [sameOutcome, h2], h3⟩
  | remove x =>
    simp only [OSet.step, listStep, OSet.remove, pyRemove]
    have hm := h.mem_iff x
    by_cases hc : s.contains x = true
    · have hx := hm.1 hc
      simp only [hc, if_true, hx]
      exact ⟨OSet.discard_items s x h, (by simp [sameOutcome]), OSet.discard_mapOK s x h⟩
    · have hx : x ∉ s.items := fun hx => hc (hm.2 hx)
      simp only [hc, hx, if_false]
      exact ⟨rfl, (by simp [sameOutcome]), h⟩
  | discard x =>
    simp only [OSet.step, listStep]
    exact ⟨OSet.discard_items s x h, (by simp [sameOutcome]), OSet.discard_mapOK s x h⟩
  | clear =>
    simp only [OSet.step, listStep, OSet.clear]
    exact ⟨rfl, (by simp [sameOutcome]), OSet.empty_mapOK⟩
  | delItem i =>
    have := OSet.pop_spec s i h
    simp only [OSet.step, listStep, OSet.delItem]
    cases hp : s.pop i with
    | error e =>
      cases hq : pyPop s.items i with
      | none => exact ⟨rfl, (by simp [sameOutcome]), h⟩
      | some r => rw [hp, hq] at this; exact this.elim
    | ok r =>
      obtain ⟨s', x⟩ := r
      cases hq : pyPop s.items i with
      | none => rw [hp, hq] at this; exact this.elim
      | some r' =>
        obtain ⟨l', y⟩ := r'
        rw [hp, hq] at this
        obtain ⟨h1, _, h3⟩ := this
        exact ⟨h1, (by simp [sameOutcome]), h3⟩
  | setItem i x =>
    simp only [OSet.step, listStep, OSet.setItem, if_true]
    -- the index handed to `pop` after normalisation
    by_cases hneg : (if i < 0 then (s.items.length : Int) + i else i) < 0
    · -- still negative: IndexError on both sides
      have hq : pyPop s.items i = none := by
        unfold pyPop normIdx
        split at hneg
        · rename_i hi; simp only [hi, if_true]
          have : ¬ ((s.items.length : Int) + i ≥ 0) := by omega
          simp [this]
        · omega
      simp only [hneg, if_true, hq]
      refine ⟨?_, ?_, h⟩ <;> simp [sameOutcome]
    · simp only [hneg, if_false]
      -- popping at the normalised index is popping at `i`
      have hsame : pyPop s.items (if i < 0 then (s.items.length : Int) + i else i) = pyPop s.items i := by
        unfold pyPop
        have : normIdx s.items.length (if i < 0 then (s.items.length : Int) + i else i)
            = normIdx s.items.length i := by
          unfold normIdx
          split
          · rename_i hi
            have h1 : ¬ ((s.items.length : Int) + i < 0) := by simpa [hi] using hneg
            simp only [h1, if_false]
            have : (s.items.length : Int) + i ≥ 0 := by omega
            simp only [this, if_true]
            have : (s.items.length : Int) + i < s.items.length := by omega
            simp [this]
          · rfl
        rw [this]
      have := OSet.pop_spec s (if i < 0 then (s.items.length : Int) + i else i) h
      rw [hsame] at this
      cases hp : s.pop (if i < 0 then (s.items.length : Int) + i else i) with
      | error e =>
        cases hq : pyPop s.items i with
        | none => exact ⟨rfl, (by simp [sameOutcome]), h⟩
        | some r => rw [hp, hq] at this; exact this.elim
      | ok r =>
        obtain ⟨s', y⟩ := r
        cases hq : pyPop s.items i with
        | none => rw [hp, hq] at this; exact this.elim
        | some r' =>
          obtain ⟨l', y'⟩ := r'
          rw [hp, hq] at this
          obtain ⟨h1, _, h3⟩ := this
          simp only
          -- the normalised index as an Int
          have hk : (if i < 0 then (s.items.length : Int) + i else i)
              = (match normIdx s.items.length i with | some k => (k : Int) | none => 0) := by
            unfold pyPop at hq
            cases hn : normIdx s.items.length i with
            | none => rw [hn] at hq; cases hq
            | some k =>
              simp only
              unfold normIdx at hn
              split at hn
              · rename_i hi
                split at hn
                · cases hn; simp only [hi, if_true]; omega
                · cases hn
              · rename_i hi
                split at hn
                · cases hn; simp only [hi, if_false]; omega
                · cases hn
          refine ⟨?_, ?_, OSet.insert_mapOK s' _ x h3⟩
          · rw [OSet.insert_items s' _ x h3, h1, hk]; split <;> rfl
          · split <;> simp [sameOutcome]

/-- **Every history**: after any finite sequence of operations from the empty collection the contents are those of
the list specification and the invariant holds. -/
theorem C04_run (ops : List (COp α)) :
    (OSet.run ops).items = listRun true ops ∧ (OSet.run ops).MapOK := by
  unfold OSet.run listRun
  suffices H : ∀ (s : OSet α) (l : List α), s.items = l → s.MapOK →
      (ops.foldl (fun s op => (s.step op).1) s).items = ops.foldl (fun l op => (listStep true l op).1) l
      ∧ (ops.foldl (fun s op => (s.step op).1) s).MapOK from
    H OSet.empty [] rfl OSet.empty_mapOK
  induction ops with
  | nil => intro s l hl h; exact ⟨hl, h⟩
  | cons op ops ih =>
    intro s l hl h
    simp only [List.foldl_cons]
    have := C04_step s op h
    exact ih _ _ (by rw [this.1, hl]) this.2.2

/-- A unique multi-valued feature never holds an element twice. -/
theorem C04_no_dup (ops : List (COp α)) : (OSet.run ops).items.Nodup := (C04_run ops).2.1

/-- The position reported for an element is the position at which iteration yields it (and conversely). -/
theorem C04_index_is_position (ops : List (COp α)) (k : α) (i : Nat) :
    (OSet.run ops).index k = some i ↔ (OSet.run ops).items[i]? = some k := (C04_run ops).2.2 k i

/-- Membership (`x in c`, answered from the map) is membership in the iteration. -/
theorem C04_contains (ops : List (COp α)) (k : α) :
    (OSet.run ops).contains k = true ↔ k ∈ listRun true ops := by
  rw [← (C04_run ops).1]; exact (C04_run ops).2.mem_iff k

/-- Length and positional access are those of the list. -/
theorem C04_len_get (ops : List (COp α)) (i : Int) :
    (OSet.run ops).len = (listRun true ops).length ∧ (OSet.run ops).getItem i = pyGet (listRun true ops) i := by
  unfold OSet.len OSet.getItem; rw [(C04_run ops).1]; exact ⟨rfl, rfl⟩

/-! ### Non-vacuity: concrete histories exercise the interesting branches (kernel-evaluated) -/

/-- `pop()` with the default index `-1`, then positions are still right: the history on which the unrepaired
patch (`if elem != -1` / `v >= index` with a negative index) corrupted the map. -/
example : let s := OSet.run (α := Nat) [.add 10, .add 11, .add 12, .pop (-1)]
    s.items = [10, 11] ∧ s.index 10 = some 0 ∧ s.index 11 = some 1 ∧ s.index 12 = none := by decide

example : let s := OSet.run (α := Nat) [.add 10, .add 11, .add 12, .pop (-3), .insert (-1) 13, .setItem (-1) 10]
    s.items = [11, 13, 10] ∧ s.index 11 = some 0 ∧ s.index 13 = some 1 ∧ s.index 10 = some 2 ∧ s.index 12 = none := by decide

example : ((OSet.run (α := Nat) [.add 1]).step (.pop 5)).2 = .error .indexError := by rfl
example : ((OSet.run (α := Nat) []).step (.pop (-1))).2 = .error .keyError := by rfl

/-- **Slice deletion** `del c[a:b:k]` on a list-like feature (specification `pyDelSlice`, the positions of
`slice(a, b, k).indices(len(c))` as CPython computes them — omitted, negative and out-of-range bounds, negative steps):
what remains is what was there, in its order, nothing added. -/
theorem C04_delslice_sublist {α : Type} (l : List α) (a b : Option Int) (k : Int) : (pyDelSlice l a b k).Sublist l := by
  unfold pyDelSlice
  have h : ((l.zipIdx.filter (fun (x : α × Nat) => !(slicePositions l.length a b k).contains x.2)).map (·.1)).Sublist
      (l.zipIdx.map (·.1)) := (List.filter_sublist).map _
  simpa using h

example : pyDelSlice [10, 11, 12, 13, 14] none none (-2) = [11, 13] ∧ pyDelSlice [10, 11, 12, 13, 14] (some 4) (some 0) (-2) = [10, 11, 13] ∧
    pyDelSlice [10, 11, 12] (some (-9)) (some 9) 1 = [] ∧ pyDelSlice [10, 11, 12] (some 1) none 3 = [10, 12] := by decide

end Py
