import PyecoreModel.Lemmas.StoreTyped
import PyecoreModel.Lemmas.SetOps
/-!
# C03 — No feature ever holds a value of the wrong type

`conforms mm s f v` mirrors `PyEcoreValue.check` / `EcoreUtils.isinstance` for the value kinds of the model
(`None`; an object whose class is the declared class or a subtype; a Python value of the data type's Python type —
with `bool ⊂ int` as in Python).  `Typed` says every stored value conforms.  Only property statements live here.
-/
namespace Store

/-- **Every observable value conforms**, after every call (returned or raised), for every well-formed and
well-typed metamodel. -/
theorem C03_typed (mm : MM) (hwf : mm.WF) (hwft : mm.WFT) (s : St) (ht : Typed mm s) (op : Op) :
    Typed mm (step mm s op).1 := typed_step mm hwf hwft s ht op

theorem C03_reachable (mm : MM) (hwf : mm.WF) (hwft : mm.WFT) (ops : List Op) : Typed mm (run mm ops) :=
  typed_run mm hwf hwft ops

/-- … with the other mutators of a set in the history; and `^=` / `symmetric_difference_update`, the one that brings
values in, refuses them all before anything leaves -/
theorem C03_reachable_setops (mm : MM) (hwf : mm.WF) (hwft : mm.WFT) (w : List (Op ⊕ SetOp)) : Typed mm (runAny mm w) := by
  obtain ⟨ops, h⟩ := runAny_flat mm w
  rw [h]; exact C03_reachable mm hwf hwft ops

theorem C03_symUpd_reject (mm : MM) (s : St) (x f vs) (hf : hasFeat mm s x f = true)
    (hbad : ∃ v ∈ vs, conforms mm s f v = false) :
    setStep mm s (.symUpd x f vs) = (s, .error .badValue) := by
  obtain ⟨v, hv, hc⟩ := hbad
  have : vs.all (conforms mm s f) = false := by
    rw [List.all_eq_false]; exact ⟨v, hv, by simp [hc]⟩
  simp [setStep, SetOp.target, hf, this]

/-- the operations that carry values to be type-checked, on an object that has the feature -/
def carries (op : Op) (x : Oid) (f : Fid) : Prop := targetOf op = some (x, f)

/-- **Rejection**: if any offered value does not conform, the call raises `BadValueError` and *nothing at all*
changes — the result state is the input state (slots, containers, resources, everything). -/
theorem C03_reject (mm : MM) (s : St) (op : Op) (x f)
    (ht : targetOf op = some (x, f)) (hx : hasFeat mm s x f = true)
    (hbad : ∃ v, v ∈ offered op ∧ conforms mm s f v = false) :
    step mm s op = (s, .error .badValue) := by
  have hall : (offered op).all (conforms mm s f) = false := by
    obtain ⟨v, hv, hc⟩ := hbad
    cases hb : (offered op).all (conforms mm s f) with
    | false => rfl
    | true => rw [List.all_eq_true] at hb; rw [hb v hv] at hc; cases hc
  cases op <;> simp only [targetOf, reduceCtorEq, Option.some.injEq, Prod.mk.injEq] at ht <;>
    (obtain ⟨rfl, rfl⟩ := ht; simp only [step, targetOf, hx, hall]; rfl)

/-- **Acceptance**: conforming values are never rejected as ill-typed by an append/add/insert/item
assignment/extend/whole-collection assignment, nor by an assignment to a single-valued feature. -/
theorem C03_accept (mm : MM) (s : St) (op : Op) (x f)
    (ht : targetOf op = some (x, f))
    (hall : ∀ v, v ∈ offered op → conforms mm s f v = true)
    (hset : ∀ v, op = .set x f v → (mm.feat f).many = false) :
    (step mm s op).2 ≠ .error .badValue := by
  have hall' : (offered op).all (conforms mm s f) = true := by rw [List.all_eq_true]; exact hall
  cases op <;> simp only [targetOf, reduceCtorEq, Option.some.injEq, Prod.mk.injEq] at ht
  all_goals
    obtain ⟨rfl, rfl⟩ := ht
    simp only [step, targetOf, hall']
    split
    · simp
    · simp only [Bool.not_true, Bool.false_eq_true, if_false]
      split
      · simp only [stepRef]; (repeat' split) <;> simp_all
      · simp only [stepAttr]; (repeat' split) <;> simp_all

/-! ### Non-vacuity -/

/-- C1 < C0; f0 : C0 → C1 single reference; f1 : C0 EInt attribute -/
def exMM3 : MM :=
  { feat := fun f => if f = 0 then { owner := 0, tcls := 1 }
                     else { owner := 0, isRef := false, tdt := "EInt", dflt := some (.int 0) }
    nFeat := 2, sub := fun c t => c == t || (c == 1 && t == 0), abstr := fun _ => false, nCls := 2 }

/-- an instance of the supertype is rejected where the subtype is declared, the state is unchanged; the subtype
instance is accepted; `True` is an `int` for EInt, a string is not. -/
example :
    let s := run exMM3 [.new 0, .new 1]
    step exMM3 s (.set 1 0 (.obj 0)) = (s, .error .badValue) ∧
    (step exMM3 s (.set 1 0 (.obj 1))).1.rs 1 0 = [1] ∧
    (step exMM3 s (.set 0 1 (.bool true))).1.as 0 1 = [.bool true] ∧
    (step exMM3 s (.set 0 1 (.str "a"))).2 = .error .badValue := by
  refine ⟨?_, by decide, by decide, by decide⟩
  rfl

end Store
