import PyecoreModel.Lemmas.StoreProps
import PyecoreModel.Lemmas.SetOps
/-!
# C02 — Every object has exactly one owner, and the back-pointers say so

Same model as C01.  `cont` is `_container/_containment_feature`, `eres` is `_eresource`, `rcont r` is
`Resource.contents`.  Only property statements live here.
-/
namespace Store

/-- **One call** (returned or raised): the back-pointers name exactly the containment slot / root list holding
the object; resource root lists are duplicate-free; a contained object is a root of nothing. -/
theorem C02_step (mm : MM) (hwf : mm.WF) (s : St) (h : Inv mm s) (op : Op) :
    Own mm (step mm s op).1 ∧ ResOK (step mm s op).1 ∧ Card mm (step mm s op).1 :=
  let i := inv_step mm hwf s h op; ⟨i.2.2.1, i.2.2.2, i.2.1⟩

theorem C02_reachable (mm : MM) (hwf : mm.WF) (ops : List Op) :
    Own mm (run mm ops) ∧ ResOK (run mm ops) ∧ Card mm (run mm ops) :=
  let i := inv_run mm hwf ops; ⟨i.2.2.1, i.2.2.2, i.2.1⟩

/-- … with the other mutators of a set (`discard`, `-=`, `&=`, `^=`, the `*_update` family) in the history -/
theorem C02_reachable_setops (mm : MM) (hwf : mm.WF) (w : List (Op ⊕ SetOp)) :
    Own mm (runAny mm w) ∧ ResOK (runAny mm w) ∧ Card mm (runAny mm w) := by
  obtain ⟨ops, h⟩ := runAny_flat mm w
  rw [h]; exact C02_reachable mm hwf ops

/-- **At most one owner**: two containment slots holding `o` are the same slot; it holds `o` once; an object held by a
containment slot is in no resource's root list; an object is a root of at most one resource, once. -/
theorem C02_one_owner (mm : MM) (hwf : mm.WF) (s : St) (h : Inv mm s) (o : Oid) :
    (∀ p f p' f', (mm.feat f).cont = true → o ∈ s.rs p f → (mm.feat f').cont = true → o ∈ s.rs p' f' →
        p = p' ∧ f = f') ∧
    (∀ p f, (mm.feat f).cont = true → o ∈ s.rs p f → (s.rs p f).count o = 1 ∧ ∀ r, o ∉ s.rcont r) ∧
    (∀ r r', o ∈ s.rcont r → o ∈ s.rcont r' → r = r') ∧
    (∀ r, o ∈ s.rcont r → (s.rcont r).count o = 1) := by
  obtain ⟨hsym, hcard, hown, hres⟩ := h
  refine ⟨?_, ?_, ?_, ?_⟩
  · intro p f p' f' hc hm hc' hm'
    have a := (hown o p f).2 ⟨hc, hm⟩
    have b := (hown o p' f').2 ⟨hc', hm'⟩
    rw [a] at b; cases b; exact ⟨rfl, rfl⟩
  · intro p f hc hm
    have hu : (mm.feat f).isList = false := isList_false_of_cont mm hwf hc
    refine ⟨by rw [((hcard p f).2 hu).count]; simp [hm], ?_⟩
    intro r hr
    have a := (hown o p f).2 ⟨hc, hm⟩
    have b := hres.2.2 o (by rw [a]; simp)
    have c := (hres.1 o r).2 hr
    rw [b] at c; cases c
  · intro r r' h1 h2
    have a := (hres.1 o r).2 h1
    have b := (hres.1 o r').2 h2
    rw [a] at b; cases b; rfl
  · intro r h1
    rw [(hres.2.1 r).count]; simp [h1]

/-- **An operation that fails leaves ownership as it was** — in fact the whole state. -/
theorem C02_failed_keeps (mm : MM) (s : St) (op : Op) (e : Py.Err)
    (h : (step mm s op).2 = .error e) : (step mm s op).1 = s :=
  step_error_unchanged mm s op e h

/-- **Giving an object a new owner removes it from the previous one**: after storing `y` into the containment
reference `x.f` (assignment, append, add, insert — `link` is their common net effect), `y`'s back-pointer names
`(x, f)`, `y` is in no other containment slot, and in no resource's root list. -/
theorem C02_move (mm : MM) (hwf : mm.WF) (s : St) (h : Inv mm s) (x f y pos)
    (hc : (mm.feat f).cont = true) :
    (link mm s x f y pos).cont y = some (x, f) ∧
    (∀ p f', (mm.feat f').cont = true → y ∈ (link mm s x f y pos).rs p f' → p = x ∧ f' = f) ∧
    (∀ r, y ∉ (link mm s x f y pos).rcont r) := by
  have hi := link_inv mm hwf s h x f y pos
  have hcont := link_cont mm hwf s h x f y pos hc
  refine ⟨hcont, ?_, ?_⟩
  · intro p f' hc' hm
    have := (hi.2.2.1 y p f').2 ⟨hc', hm⟩
    rw [hcont] at this; cases this; exact ⟨rfl, rfl⟩
  · intro r hr
    have a := hi.2.2.2.2.2 y (by rw [hcont]; simp)
    have b := (hi.2.2.2.1 y r).2 hr
    rw [a] at b; cases b

/-- `Resource.append`: the object is a root of that resource afterwards, of no other, and has no container. -/
theorem C02_rappend (mm : MM) (hwf : mm.WF) (s : St) (h : Inv mm s) (r o) :
    Inv mm (rappend mm s r o) := rappend_inv mm hwf s h r o

/-- `EObject.eResource`: delegate to the container, else own `_eresource` (bounded by `fuel` levels). -/
def eResourceOf (s : St) : Nat → Oid → Option Rid
  | 0, o => s.eres o
  | n + 1, o => match s.cont o with
    | some (p, _) => eResourceOf s n p
    | none => s.eres o

/-- the top of the container chain (`EcoreUtils.get_root`) -/
def rootOf (s : St) : Nat → Oid → Oid
  | 0, o => o
  | n + 1, o => match s.cont o with
    | some (p, _) => rootOf s n p
    | none => o

/-- **Every descendant reports its root's resource**, whatever the depth, whenever the chain ends within the fuel
(`(rootOf s n o)` has no container — always true for acyclic containment with `n ≥` the depth). -/
theorem C02_eResource_root (s : St) (n : Nat) (o : Oid) (hroot : s.cont (rootOf s n o) = none) :
    eResourceOf s n o = s.eres (rootOf s n o) := by
  induction n generalizing o with
  | zero => rfl
  | succ n ih =>
    simp only [eResourceOf, rootOf] at hroot ⊢
    cases hc : s.cont o with
    | none => rfl
    | some pf => obtain ⟨p, f⟩ := pf; simp only [hc] at hroot ⊢; exact ih p hroot

/-! ### Non-vacuity -/

/-- f0 : C0 → C0 many containment (kids), f1 : C0 → C0 single (parent), opposites. -/
def exMM2 : MM :=
  { feat := fun f => if f = 0 then { owner := 0, many := true, cont := true, tcls := 0, opp := some 1 }
                     else if f = 1 then { owner := 0, tcls := 0, opp := some 0 } else { isRef := false }
    nFeat := 2, sub := fun c t => c == t, abstr := fun _ => false, nCls := 1 }

theorem exMM2_wf : exMM2.WF := by
  refine ⟨?_, ?_, ?_, ?_, ?_⟩ <;> intro f <;> simp only [exMM2] <;> (repeat' split) <;> simp_all

/-- p0.kids += c ; c.parent = p1 (moves c through the container reference) ; resource.append(c) (takes it out);
then a failing removal changes nothing -/
example :
    let s := run exMM2 [.new 0, .new 0, .new 0, .res, .add 0 0 (.obj 2), .set 2 1 (.obj 1)]
    s.rs 0 0 = [] ∧ s.rs 1 0 = [2] ∧ s.cont 2 = some (1, 0) ∧ s.rs 2 1 = [1] ∧
    (let s' := (step exMM2 s (.rappend 0 2)).1
     s'.rs 1 0 = [] ∧ s'.cont 2 = none ∧ s'.eres 2 = some 0 ∧ s'.rcont 0 = [2] ∧ s'.rs 2 1 = []) ∧
    (step exMM2 s (.remove 0 0 (.obj 2))).2 = .error .keyError := by decide

end Store
