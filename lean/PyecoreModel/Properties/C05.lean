import PyecoreModel.Lemmas.Notif
import PyecoreModel.Lemmas.SliceSpec
/-!
# C05 — Observers can mirror the model from notifications alone

`slotStep` (Model/Notif.lean) is what each slot mutator of `valuecontainer.py` does to its slot and which
notifications it emits; `applyNotif` is the observer of the statement.  The theorems are per slot: every change of a
slot — explicit or made implicitly on an opposite end with `update_opposite=False` — goes through one of these
mutators, so the per-(notifier, feature) stream of an object is a `slotRun`.  That no *other* code path writes a
slot is what the history-level oracle of the check looks for (it found `list.__delitem__` and the index form of
`EList.__setitem__`, both repaired).
-/
namespace Py
variable {α : Type} [DecidableEq α]

/-- **One mutator call**: if the observer's mirror agrees with the slot, then after the call — returned or raised —
applying the notifications it emitted (in order) to the mirror agrees with the slot again: equal for a single-valued
feature, same multiset for a list-like one, same set for a unique one. -/
theorem C05_step (k : SlotKind) (l m : List α) (op : SOp α) (h : Same k l m) :
    Same k (slotStep k l op).items (replay k.unique m (slotStep k l op).notifs) := by
  cases k with
  | single =>
    cases op <;> simp only [slotStep, SOut.err, replay, List.foldl_nil] <;> try exact h
    simp [Same, applyNotif, List.foldl_cons]
    split <;> simp [applyNotif]
  | list =>
    have hp : l.Perm m := h
    cases op with
    | assign v => exact h
    | append x =>
      simp only [slotStep, replay, List.foldl_cons, List.foldl_nil, applyNotif, SlotKind.unique, obsAdd]
      exact hp.append_right [x]
    | insert i x =>
      simp only [slotStep, replay, List.foldl_cons, List.foldl_nil, applyNotif, SlotKind.unique, obsAdd]
      show (pyInsert l i x).Perm (m ++ [x])
      exact (insertAt_perm l _ x).trans ((List.perm_append_singleton x l).symm.trans (hp.append_right [x]))
    | remove x =>
      simp only [slotStep]; split
      · simp only [replay, List.foldl_cons, List.foldl_nil, applyNotif]
        exact hp.erase x
      · exact h
    | pop i =>
      simp only [slotStep]
      cases hq : pyPop l i with
      | none => exact h
      | some r =>
        obtain ⟨l', y⟩ := r
        obtain ⟨k, _, hg, rfl⟩ := pyPop_spec hq
        simp only [replay, List.foldl_cons, List.foldl_nil, applyNotif]
        show (l.eraseIdx k).Perm (m.erase y)
        have h1 : (y :: l.eraseIdx k).Perm m := (eraseIdx_perm hg).trans hp
        have := h1.erase y
        simpa using this
    | clear =>
      simp only [slotStep]; split
      · exact h
      · simp only [replay, List.foldl_cons, List.foldl_nil, applyNotif]
        rw [foldl_erase_perm_nil l m hp.symm]; exact List.Perm.refl _
    | extend xs =>
      simp only [slotStep, replay, List.foldl_cons, List.foldl_nil, applyNotif, SlotKind.unique]
      rw [foldl_obsAdd_list]; exact hp.append_right xs
    | setItem i x =>
      simp only [slotStep]
      cases hq : pyPop l i with
      | none => exact h
      | some r =>
        obtain ⟨l', y⟩ := r
        obtain ⟨k, hn, hg, rfl⟩ := pyPop_spec hq
        simp only [pySet, hn, Option.map_some]
        simp only [replay, List.foldl_cons, List.foldl_nil, applyNotif, SlotKind.unique, obsAdd]
        show (l.set k x).Perm (m.erase y ++ [x])
        have h1 : (l.eraseIdx k).Perm (m.erase y) := by
          have h1 : (y :: l.eraseIdx k).Perm m := (eraseIdx_perm hg).trans hp
          have := h1.erase y; simpa using this
        exact (set_perm x hg).trans ((List.perm_append_singleton x _).symm.trans (h1.append_right [x]))
    | delItem i =>
      simp only [slotStep]
      cases hq : pyPop l i with
      | none => exact h
      | some r =>
        obtain ⟨l', y⟩ := r
        obtain ⟨k, _, hg, rfl⟩ := pyPop_spec hq
        simp only [replay, List.foldl_cons, List.foldl_nil, applyNotif]
        show (l.eraseIdx k).Perm (m.erase y)
        have h1 : (y :: l.eraseIdx k).Perm m := (eraseIdx_perm hg).trans hp
        have := h1.erase y
        simpa using this
  | set =>
    have hc := h.1
    cases op with
    | assign v => exact h
    | append x =>
      simp only [slotStep, replay, List.foldl_cons, List.foldl_nil, applyNotif, SlotKind.unique]
      apply same_set_add h
      · split
        · exact hc
        · rename_i hx; have hx : x ∉ l := by simpa using hx
          rw [List.nodup_append]; refine ⟨hc, by simp, ?_⟩
          intro a ha b hb; simp at hb; subst hb; intro e; subst e; exact hx ha
      · intro b; split
        · rename_i hx; have hx : x ∈ l := by simpa using hx
          constructor
          · exact Or.inl
          · rintro (hb | rfl) <;> assumption
        · simp
    | insert i x =>
      simp only [slotStep, replay, List.foldl_cons, List.foldl_nil, applyNotif, SlotKind.unique]
      apply same_set_add h
      · split
        · exact hc
        · rename_i hx; exact nodup_insertAt' hc (by simpa using hx) _
      · intro b; split
        · rename_i hx; have hx : x ∈ l := by simpa using hx
          constructor
          · exact Or.inl
          · rintro (hb | rfl) <;> assumption
        · unfold pyInsert; rw [mem_insertAt]; constructor <;> (rintro (a | a) <;> simp [a])
    | remove x =>
      simp only [slotStep]; split
      · simp only [replay, List.foldl_cons, List.foldl_nil, applyNotif]
        apply same_set_erase h
        · exact hc.erase x
        · intro b; rw [hc.mem_erase_iff]; constructor <;> (intro ⟨a, c⟩; exact ⟨c, a⟩)
      · exact h
    | pop i =>
      simp only [slotStep]
      cases hq : pyPop l i with
      | none => exact h
      | some r =>
        obtain ⟨l', y⟩ := r
        obtain ⟨k, _, hg, rfl⟩ := pyPop_spec hq
        simp only [replay, List.foldl_cons, List.foldl_nil, applyNotif]
        apply same_set_erase h
        · exact hc.eraseIdx k
        · intro b
          have hp := eraseIdx_perm hg
          have hnd : (y :: l.eraseIdx k).Nodup := hp.nodup_iff.2 hc
          rw [← hp.mem_iff]
          simp only [List.mem_cons]
          constructor
          · intro hb; refine ⟨Or.inr hb, ?_⟩; rintro rfl; exact (List.nodup_cons.1 hnd).1 hb
          · rintro ⟨hb | hb, hne⟩
            · exact absurd hb hne
            · exact hb
    | clear =>
      simp only [slotStep]; split
      · exact h
      · simp only [replay, List.foldl_cons, List.foldl_nil, applyNotif]
        refine ⟨by simp, ?_, ?_⟩
        · -- erasing from a duplicate-free list keeps it duplicate-free
          have : ∀ (xs m : List α), m.Nodup → (xs.foldl (fun c x => c.erase x) m).Nodup := by
            intro xs; induction xs with
            | nil => intro m hm; exact hm
            | cons a t ih => intro m hm; exact ih _ (hm.erase a)
          exact this l m h.2.1
        · intro x
          have : ∀ (xs m : List α), m.Nodup → ∀ b, b ∈ xs.foldl (fun c x => c.erase x) m ↔ b ∈ m ∧ b ∉ xs := by
            intro xs; induction xs with
            | nil => intro m hm b; simp
            | cons a t ih =>
              intro m hm b
              simp only [List.foldl_cons]
              rw [ih _ (hm.erase a), hm.mem_erase_iff]; simp only [List.mem_cons, not_or]
              constructor
              · rintro ⟨⟨a1, a2⟩, a3⟩; exact ⟨a2, a1, a3⟩
              · rintro ⟨a2, a1, a3⟩; exact ⟨⟨a1, a2⟩, a3⟩
          rw [this l m h.2.1 x, ← h.2.2 x]; simp
    | extend xs =>
      simp only [slotStep, replay, List.foldl_cons, List.foldl_nil, applyNotif, SlotKind.unique]
      -- element by element, both sides make the same set-insertion
      have : ∀ (xs l m : List α), Same .set l m →
          Same .set (xs.foldl (fun c x => if c.contains x then c else c ++ [x]) l) (xs.foldl (obsAdd true) m) := by
        intro xs; induction xs with
        | nil => intro l m h; exact h
        | cons a t ih =>
          intro l m h
          simp only [List.foldl_cons]
          apply ih
          apply same_set_add h
          · split
            · exact h.1
            · rename_i hx; have hx : a ∉ l := by simpa using hx
              rw [List.nodup_append]; refine ⟨h.1, by simp, ?_⟩
              intro a' ha b hb; simp at hb; subst hb; intro e; subst e; exact hx ha
          · intro b; split
            · rename_i hx; have hx : a ∈ l := by simpa using hx
              constructor
              · exact Or.inl
              · rintro (hb | rfl) <;> assumption
            · simp
      exact this xs l m h
    | setItem i x =>
      simp only [slotStep]
      cases hq : pyPop l i with
      | none => exact h
      | some r =>
        obtain ⟨l', y⟩ := r
        obtain ⟨k, _, hg, rfl⟩ := pyPop_spec hq
        simp only [replay, List.foldl_cons, List.foldl_nil, applyNotif, SlotKind.unique]
        have hp := eraseIdx_perm hg
        have hnd : (y :: l.eraseIdx k).Nodup := hp.nodup_iff.2 hc
        have h1 : Same .set (l.eraseIdx k) (m.erase y) := by
          apply same_set_erase h
          · exact hc.eraseIdx k
          · intro b
            rw [← hp.mem_iff]; simp only [List.mem_cons]
            constructor
            · intro hb; refine ⟨Or.inr hb, ?_⟩; rintro rfl; exact (List.nodup_cons.1 hnd).1 hb
            · rintro ⟨hb | hb, hne⟩
              · exact absurd hb hne
              · exact hb
        apply same_set_add h1
        · split
          · exact h1.1
          · rename_i hx; exact nodup_insertAt' h1.1 (by simpa using hx) _
        · intro b; split
          · rename_i hx; have hx : x ∈ l.eraseIdx k := by simpa using hx
            constructor
            · exact Or.inl
            · rintro (hb | rfl) <;> assumption
          · unfold pyInsert; rw [mem_insertAt]; constructor <;> (rintro (a | a) <;> simp [a])
    | delItem i =>
      simp only [slotStep]
      cases hq : pyPop l i with
      | none => exact h
      | some r =>
        obtain ⟨l', y⟩ := r
        obtain ⟨k, _, hg, rfl⟩ := pyPop_spec hq
        simp only [replay, List.foldl_cons, List.foldl_nil, applyNotif]
        apply same_set_erase h
        · exact hc.eraseIdx k
        · intro b
          have hp := eraseIdx_perm hg
          have hnd : (y :: l.eraseIdx k).Nodup := hp.nodup_iff.2 hc
          rw [← hp.mem_iff]
          simp only [List.mem_cons]
          constructor
          · intro hb; refine ⟨Or.inr hb, ?_⟩; rintro rfl; exact (List.nodup_cons.1 hnd).1 hb
          · rintro ⟨hb | hb, hne⟩
            · exact absurd hb hne
            · exact hb

/-- **Every history of a slot**: an observer that starts from the initial value and applies every notification ends
up with the contents the slot really has. -/
theorem C05_mirror (k : SlotKind) (ops : List (SOp α)) (l0 : List α) (h0 : Same k l0 l0) :
    Same k (slotRun k ops l0).1 (replay k.unique l0 (slotRun k ops l0).2) := by
  unfold slotRun
  suffices H : ∀ (ops : List (SOp α)) (l : List α) (ns : List (Notif α)), Same k l (replay k.unique l0 ns) →
      Same k (ops.foldl (fun (acc : List α × List (Notif α)) op =>
                ((slotStep k acc.1 op).items, acc.2 ++ (slotStep k acc.1 op).notifs)) (l, ns)).1
             (replay k.unique l0 (ops.foldl (fun (acc : List α × List (Notif α)) op =>
                ((slotStep k acc.1 op).items, acc.2 ++ (slotStep k acc.1 op).notifs)) (l, ns)).2) from
    H ops l0 [] h0
  intro ops
  induction ops with
  | nil => intro l ns h; exact h
  | cons op t ih =>
    intro l ns h
    simp only [List.foldl_cons]
    apply ih
    have := C05_step k l (replay k.unique l0 ns) op h
    simpa [replay, List.foldl_append] using this

/-- a call that raises emits nothing -/
theorem C05_raise_silent (k : SlotKind) (l : List α) (op : SOp α) (h : (slotStep k l op).raised = true) :
    (slotStep k l op).notifs = [] ∧ (slotStep k l op).items = l := by
  cases k <;> cases op <;> simp only [slotStep, SOut.err] at h ⊢ <;> (repeat' split) <;> simp_all [SOut.err]

/-! ### Non-vacuity -/
example :
    let r := slotRun (α := Nat) .set [.append 1, .append 2, .append 1, .setItem 0 3, .pop (-1), .extend [5, 3, 6], .clear] []
    r.1 = [] ∧ replay true [] r.2 = [] ∧ r.2.length = 8 := by decide

example :
    let r := slotRun (α := Nat) .list [.append 1, .append 1, .setItem 0 3, .delItem 1, .extend [3, 4]] []
    r.1 = [3, 3, 4] ∧ replay false [] r.2 = [3, 3, 4] := by decide


/-- **Slices** (`l[a:b] = ys`, `del l[a:b]` on a list-like feature): what leaves is reported as REMOVE / REMOVE_MANY (nothing
when nothing leaves), what comes in as ADD / ADD_MANY (nothing when nothing comes in), and replaying that on the mirror
gives the slot's new contents. -/
theorem C05_slice {α : Type} [DecidableEq α] (l m : List α) (a b : Nat) (ys : List α) (h : Same .list l m) :
    Same .list (sliceStep l a b ys).items (replay false m (sliceStep l a b ys).notifs) :=
  slice_mirror l m a b ys h

example : (sliceStep [1, 2, 3, 4] 1 3 ([] : List Nat)).items = [1, 4] ∧
    (sliceStep [1, 2, 3, 4] 1 3 ([] : List Nat)).notifs.map (·.kind) = [.removeMany] ∧
    (sliceStep [1, 2, 3, 4] 2 2 [9]).notifs.map (·.kind) = [.add] ∧ (sliceStep [1, 2] 5 9 ([] : List Nat)).notifs = [] := by decide

/-- **Extended slices** (`del l[a:b:k]`, `l[a:b:k] = ys`): the deletion pops the positions from the highest one down
(one REMOVE each); the assignment is refused, silently for the observers, unless as many elements come in as leave, and
otherwise reports what leaves and what comes in; in both cases the mirror ends with the slot's contents. -/
theorem C05_ext_slice_del {α : Type} [DecidableEq α] (l m : List α) (a b k : Nat) (h : Same .list l m) :
    Same .list (delExtStep l a b k).items (replay false m (delExtStep l a b k).notifs) :=
  delExt_mirror l m a b k h

/-- **The slice is Python's slice**: the positions `inExt a b k` that the two theorems around this one speak of are exactly the
positions `slice(a, b, k).indices(len(l))` visits (CPython's specification, `Py.slicePositions`), and what the deletion
leaves is `del l[a:b:k]` of that specification — for every list, start, stop and positive step. -/
theorem C05_ext_positions_spec (n a b k : Nat) (hk : 0 < k) (j : Nat) :
    j ∈ slicePositions n (some (a : Int)) (some (b : Int)) (k : Int) ↔ (j < n ∧ inExt a b k j = true) :=
  mem_slicePositions_pos n a b k hk j

theorem C05_ext_del_spec {α : Type} (l : List α) (a b k : Nat) (hk : 0 < k) :
    (delExtStep l a b k).items = pyDelSlice l (some (a : Int)) (some (b : Int)) (k : Int) :=
  (pyDelSlice_eq_pickAt l a b k hk).symm

example : slicePositions 7 (some 1) (some 6) 2 = [1, 3, 5] ∧ (delExtStep [10, 11, 12, 13, 14, 15, 16] 1 6 2).items = [10, 12, 14, 16] := by
  decide

theorem C05_ext_slice_set {α : Type} [DecidableEq α] (l m : List α) (a b k : Nat) (ys : List α) (h : Same .list l m) :
    Same .list (setExtStep l a b k ys).items (replay false m (setExtStep l a b k ys).notifs) :=
  setExt_mirror l m a b k ys h

theorem C05_ext_slice_refused {α : Type} [DecidableEq α] (l : List α) (a b k : Nat) (ys : List α)
    (h : (setExtStep l a b k ys).raised = true) : (setExtStep l a b k ys).notifs = [] ∧ (setExtStep l a b k ys).items = l := by
  unfold setExtStep at h ⊢
  split
  · simp [SOut.err]
  · rename_i h'; simp [h'] at h

/-- **`l *= n`** is `clear()` or `extend(copies)`: an instance of `C05_mirror`. -/
theorem C05_imul {α : Type} [DecidableEq α] (l : List α) (n : Int) (h0 : Same .list l l) :
    Same .list (slotRun .list (imulOps l n) l).1 (replay false l (slotRun .list (imulOps l n) l).2) :=
  C05_mirror .list (imulOps l n) l h0

example : (delExtStep [1, 2, 3, 4, 5] 0 5 2).items = [2, 4] ∧
    (delExtStep [1, 2, 3, 4, 5] 0 5 2).notifs.map (·.old) = [[5], [3], [1]] ∧
    (setExtStep [1, 2, 3, 4] 0 4 2 [7, 8]).items = [7, 2, 8, 4] ∧
    (setExtStep [1, 2, 3, 4] 0 4 2 [7, 8]).notifs.map (·.kind) = [.removeMany, .addMany] ∧
    (setExtStep [1, 2, 3, 4] 0 4 2 [7]).raised = true ∧
    (slotRun (α := Nat) .list (imulOps [1, 2] 3) [1, 2]).1 = [1, 2, 1, 2, 1, 2] ∧
    (slotRun (α := Nat) .list (imulOps [1, 2] 0) [1, 2]).1 = [] := by decide

end Py
