import PyecoreModel.Lemmas.XmiValues
import PyecoreModel.Properties.C11
import PyecoreModel.Properties.C17
/-!
# C08 — XMI save then load reproduces the model  (**partial: layer theorems; the composition is decided by the check**)

Full statement (kept visible): for every well-formed model `s` in a resource `r` and all save options,
`canon (load (save s r opts)) = canon s r` — same roots in order, classes, attribute values (order, duplicates, every
XML-legal string), containment tree in order, reference targets in order; and the loaded model satisfies C01–C03.

Proved here are the layers the round trip is made of, each for *all* its inputs:
* L1 value ↔ text: C17 (`C17_int`, `C17_bool`, `C17_date`, `C17_enum`, …);
* L2 many-valued attribute ↔ one XML attribute or child elements: `C08_many_roundtrip` (every list of strings, incl.
  empty strings, whitespace of every kind, duplicates) on top of `C08_split_join` (Python's `str.split()` inverts
  `' '.join` on non-empty whitespace-free words);
* L3 single-valued attribute, default elision, `xsi:nil`: `C08_one_roundtrip` (every value, every default, both
  settings of SERIALIZE_DEFAULT_VALUES);
* L4 references: positional fragments resolve back (C11, `C11_resolve_frag`), ids registered once are found again
  (`C08_id_lookup`);
* L5 order of many-valued bidirectional references: `C08_reorder`.
* "whatever loads is well-formed": load only uses the Store's public operations, so `inv_run` / `typed_run`
  (C01–C03) apply to its result; the check verifies C01–C03 on every loaded model.
**Not proved**: the composition of the layers over a whole containment tree with two-pass reference resolution.  It is
decided on every run by the isomorphism oracle on generated (metamodel, model, options) triples.
-/
namespace Xmi

/-- Python's `str.split()` undoes `' '.join` on words that are non-empty and contain no whitespace, for any
whitespace predicate that contains the blank. -/
theorem C08_split_join (ws : Char → Bool) (hsp : ws ' ' = true) (l : List (List Char))
    (h : ∀ w ∈ l, w ≠ [] ∧ ∀ c ∈ w, ws c = false) : pySplit ws (joinSp l) = l :=
  split_join ws hsp l h

/-- **L2**: every list of strings survives being written as a many-valued attribute and read back. -/
theorem C08_many_roundtrip (ws : Char → Bool) (hsp : ws ' ' = true) (vs : List (List Char)) :
    decodeMany ws (encodeMany ws vs) = vs := many_roundtrip ws hsp vs

/-- **L3**: every single value (None included) survives, whatever the default and the serialize-defaults option. -/
theorem C08_one_roundtrip {α : Type} [DecidableEq α] (sd : Bool) (dflt value : Option α) :
    decodeOne dflt (encodeOne sd dflt value) = value := one_roundtrip sd dflt value

/-- **L4 (ids)**: an id that is registered once while decoding is found again, whatever else is in the table. -/
theorem C08_id_lookup {β : Type} (pre post : List (List Char × β)) (k : List Char) (b : β)
    (h : ∀ p ∈ post, p.1 ≠ k) : lookupId (pre ++ (k, b) :: post) k = some b := lookupId_unique pre post k b h

/-- **L5**: a collection that holds exactly the elements the document lists ends up in document order; otherwise it
is left alone; in both cases it keeps its elements. -/
theorem C08_reorder (coll doc : List Nat) :
    ((coll.length = doc.length ∧ ∀ x, x ∈ coll ↔ x ∈ doc) → reorder coll doc = doc) ∧
    (∀ x, x ∈ reorder coll doc ↔ x ∈ coll) :=
  ⟨fun h => reorder_perm coll doc h.1 h.2, reorder_same_elements coll doc⟩

/-! ### Non-vacuity -/
example : encodeMany (· == ' ') ["ab".toList, "c".toList] = some (.attr "ab c".toList) := by decide
example : encodeMany (· == ' ') ["a b".toList, "".toList] = some (.elements ["a b".toList, "".toList]) := by decide
example : decodeMany (· == ' ') (encodeMany (· == ' ') ["x".toList, "x".toList, " ".toList]) = ["x".toList, "x".toList, " ".toList] := by
  decide
example : encodeOne false (some 0) (none : Option Int) = .nil ∧ encodeOne false (some 0) (some 0) = .absent ∧
    encodeOne true (some 0) (some 0) = .attr 0 ∧ encodeOne false (none : Option Int) none = .absent := by decide

end Xmi
