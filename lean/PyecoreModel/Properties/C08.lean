import PyecoreModel.Lemmas.XmiValues
import PyecoreModel.Lemmas.XmiDoc
import PyecoreModel.Lemmas.XmiDocRefs
import PyecoreModel.Lemmas.XmiDocIds
import PyecoreModel.Properties.C11
/-!
# C08 — XMI save then load reproduces the model  (**partial: layer theorems; the composition is decided by the check**)

Full statement (kept visible): for every well-formed model `s` in a resource `r` and all save options,
`canon (load (save s r opts)) = canon s r` — same roots in order, classes, attribute values (order, duplicates, every
XML-legal string), containment tree in order, reference targets in order; and the loaded model satisfies C01–C03.

Proved here are the layers the round trip is made of, each for *all* its inputs:
* L1 value ↔ text: C17 (`C17_int`, `C17_bool`, `C17_date`, `C17_enum`, …);
* L2 many-valued attribute ↔ one XML attribute or child elements: `C08_many_roundtrip` (every list of strings, incl.
  empty strings, whitespace of every kind, duplicates) on top of `C08_split_join` (Python's `str.split()` inverts
  `' '.join` on non-empty whitespace-free words);
* L3 single-valued attribute, default elision, `xsi:nil`: `C08_one_roundtrip` (every value, every default, both
  settings of SERIALIZE_DEFAULT_VALUES);
* L4 references: positional fragments resolve back (C11, `C11_resolve_frag`), ids registered once are found again
  (`C08_id_lookup`);
* L5 order of many-valued bidirectional references: `C08_reorder`.
* "whatever loads is well-formed": load only uses the Store's public operations, so `inv_run` / `typed_run`
  (C01–C03) apply to its result; the check verifies C01–C03 on every loaded model.
The composition of the layers is proved at the level of the XML element tree (`Model/XmiDoc.lean`):
* `C08_element_roundtrip`: decoding the element written for a well-formed object tree gives its normal form — any depth,
  any number of children, every feature kind, every option;
* `C08_document`: the whole forest with two-pass reference resolution, given that each token resolves back;
* `C08_fragment_text`, `C08_document_fragment`: that hypothesis discharged for fragment addressing;
* `C08_key_resolves`, `C08_document_addressing`: … and for every addressing mode (uuid, id attribute value, fragment),
  under the only condition that no two objects go by the same key.
**Not proved**: the text level below the element tree (lxml's parsing and escaping), namespaces/prefixes, cross-resource
references and proxies, and that pyecore's objects correspond to the model's trees.  These are decided on every run by
the correspondence (`driver xdoc`) and by the isomorphism oracle on generated (metamodel, model, options) triples.
-/
namespace Xmi

/-- Python's `str.split()` undoes `' '.join` on words that are non-empty and contain no whitespace, for any
whitespace predicate that contains the blank. -/
theorem C08_split_join (ws : Char → Bool) (hsp : ws ' ' = true) (l : List (List Char))
    (h : ∀ w ∈ l, w ≠ [] ∧ ∀ c ∈ w, ws c = false) : pySplit ws (joinSp l) = l :=
  split_join ws hsp l h

/-- **L2**: every list of strings survives being written as a many-valued attribute and read back. -/
theorem C08_many_roundtrip (ws : Char → Bool) (hsp : ws ' ' = true) (vs : List (List Char)) :
    decodeMany ws (encodeMany ws vs) = vs := many_roundtrip ws hsp vs

/-- **L3**: every single value (None included) survives, whatever the default and the serialize-defaults option. -/
theorem C08_one_roundtrip {α : Type} [DecidableEq α] (sd : Bool) (dflt value : Option α) :
    decodeOne dflt (encodeOne sd dflt value) = value := one_roundtrip sd dflt value

/-- **L4 (ids)**: an id that is registered once while decoding is found again, whatever else is in the table. -/
theorem C08_id_lookup {β : Type} (pre post : List (List Char × β)) (k : List Char) (b : β)
    (h : ∀ p ∈ post, p.1 ≠ k) : lookupId (pre ++ (k, b) :: post) k = some b := lookupId_unique pre post k b h

/-- **L5**: a collection that holds exactly the elements the document lists ends up in document order; otherwise it
is left alone; in both cases it keeps its elements. -/
theorem C08_reorder (coll doc : List Nat) :
    ((coll.length = doc.length ∧ ∀ x, x ∈ coll ↔ x ∈ doc) → reorder coll doc = doc) ∧
    (∀ x, x ∈ reorder coll doc ↔ x ∈ coll) :=
  ⟨fun h => reorder_perm coll doc h.1 h.2, reorder_same_elements coll doc⟩

/-! ### Non-vacuity -/
example : encodeMany (· == ' ') ["ab".toList, "c".toList] = some (.attr "ab c".toList) := by decide
example : encodeMany (· == ' ') ["a b".toList, "".toList] = some (.elements ["a b".toList, "".toList]) := by decide
example : decodeMany (· == ' ') (encodeMany (· == ' ') ["x".toList, "x".toList, " ".toList]) = ["x".toList, "x".toList, " ".toList] := by
  decide
example : encodeOne false (some 0) (none : Option Int) = .nil ∧ encodeOne false (some 0) (some 0) = .absent ∧
    encodeOne true (some 0) (some 0) = .attr 0 ∧ encodeOne false (none : Option Int) none = .absent := by decide

end Xmi

/-! ## The document layer (`Model/XmiDoc.lean`): a whole containment tree, element by element -/
namespace XDoc
open Xmi

/-- **Element-level round trip.**  For every well-formed object tree — any depth, any number of children, every
    combination of set / unset / None / default / empty / blank-containing values, with or without `xsi:type`, in both
    uuid modes and both settings of SERIALIZE_DEFAULT_VALUES — what `load` builds from the element `save` wrote is the
    object's normal form: the same class, every attribute and reference with its effective value in order, the same
    children under the same containment features in the same order. -/
theorem C08_element_roundtrip (mm : MMX) (o : Opts) (hmm : MMOK mm) (n : SNode Str) (h : WFN mm n) (top : Bool) (decl : Nat) :
    decNode mm top decl (encNode mm o top decl n) = some (eff mm o top n) :=
  dec_enc mm o hmm n h top decl

/-- **Document-level round trip.**  With references written as tokens (`_build_path_from`) and resolved after all
    objects exist (`_decode_ereferences`): if every token is one word and resolves in the loaded forest to the path it
    was written for, loading the saved document gives the normal form of every root with every reference on its
    original target. -/
theorem C08_document (mm : MMX) (o : Opts) (hmm : MMOK mm) (render : Path → Str) (parse : Str → Option Path)
    (roots : List (SNode Path))
    (hwf : ∀ r ∈ roots, WFG mm (fun p => Word mm.ws (tokenOf mm o render roots p)) r)
    (hres : ∀ r ∈ roots, AllRefs (fun p =>
        resolveTok mm o parse (roots.map fun r => eff mm o true (mapT (tokenOf mm o render roots) r))
          (tokenOf mm o render roots p) = some p) r) :
    (encodeDoc mm o render roots).bind (decodeDoc mm o parse) = some (roots.map (eff mm o true)) :=
  doc_roundtrip mm o hmm render parse roots hwf hres

/-- the text of a fragment path reads back as the path (`eURIFragment` / `extract_rootnum_and_frag` + `_navigate_from`),
    for every path over feature names without `/` and `.` -/
theorem C08_fragment_text (single : Bool) (p : Path) (hn : ∀ s ∈ p.segs, NameOK s.1) (hroot : single = true → p.root = 0) :
    parsePath (renderPath single p) = some p :=
  parse_render single p hn hroot

/-- **Document-level round trip, fragment addressing — no resolution hypothesis left.**  A resource without uuids over
    a metamodel without id attributes: for every forest of well-formed objects whose references point into the forest,
    loading the saved document gives every root's normal form with every reference on its original target. -/
theorem C08_document_fragment (mm : MMX) (o : Opts) (hmm : MMOK mm) (single : Bool) (roots : List (SNode Path))
    (hu : o.uuid = false) (hid : ∀ c, ∀ fi ∈ mm.feats c, fi.isId = false)
    (hsingle : single = true → roots.length = 1)
    (hwf : ∀ r ∈ roots, WFG mm (fun p => Word mm.ws (renderPath single p)) r)
    (hrefs : ∀ r ∈ roots, AllRefs (fun p => (nodeAt roots p).isSome = true ∧ (∀ s ∈ p.segs, NameOK s.1 ∧ '#' ∉ s.1)) r) :
    (encodeDoc mm o (renderPath single) roots).bind (decodeDoc mm o parsePath) = some (roots.map (eff mm o true)) :=
  doc_roundtrip_fragment mm o hmm single roots hu hid hsingle hwf hrefs

section Example
/-- a two-class metamodel: `A` with a many-valued string attribute `tags`, a single-valued `n` defaulting to "0", a
    many-valued containment `kids : A`, a single containment `one : B`, a many-valued reference `refs : A`;
    `B` a subclass-like second class with attribute `v` -/
def exMM : MMX :=
  { nCls := 2
    cname := fun c => if c = 0 then "A".toList else "B".toList
    feats := fun c => if c = 0 then
        [⟨"tags".toList, .attr, true, none, 0, false, false⟩, ⟨"n".toList, .attr, false, some "0".toList, 0, false, false⟩,
         ⟨"kids".toList, .cont, true, none, 0, false, false⟩, ⟨"one".toList, .cont, false, none, 0, false, false⟩,
         ⟨"refs".toList, .ref, true, none, 0, false, false⟩]
      else [⟨"v".toList, .attr, false, none, 0, false, false⟩]
    ws := fun c => c == ' ' || c == '\t' || c == '\n' }

def exForest : List (SNode Path) :=
  [.mk [] 0 "u0".toList
     [("tags".toList, .attrN [some "a b".toList, none, some [] ]), ("kids".toList, .kids), ("refs".toList, .refN [⟨0, [("kids".toList, some 1)]⟩, ⟨0, []⟩]),
      ("one".toList, .kids)]
     [.mk "kids".toList 0 "u1".toList [("n".toList, .attr1 "0".toList)] [],
      .mk "kids".toList 0 "u2".toList [("n".toList, .attr1 "7".toList), ("tags".toList, .attrN [some "x".toList, some "y".toList])] [],
      .mk "one".toList 1 "u3".toList [("v".toList, .none)] []]]

/-- the whole pipeline on a concrete forest, in fragment mode and in uuid mode: save, load, same normal form -/
example :
    (encodeDoc exMM ⟨false, false⟩ (renderPath true) exForest).bind (decodeDoc exMM ⟨false, false⟩ parsePath)
      = some (exForest.map (eff exMM ⟨false, false⟩ true)) := by decide +kernel
example :
    (encodeDoc exMM ⟨true, true⟩ (renderPath true) exForest).bind (decodeDoc exMM ⟨true, true⟩ parsePath)
      = some (exForest.map (eff exMM ⟨true, true⟩ true)) := by decide +kernel
end Example

end XDoc

/-! non-vacuity: a concrete forest meets every hypothesis of `C08_document_fragment` -/
namespace XDoc
open Xmi

def tinyMM : MMX :=
  { nCls := 1
    cname := fun _ => "A".toList
    feats := fun _ => [⟨"n".toList, .attr, false, none, 0, false, false⟩, ⟨"kids".toList, .cont, true, none, 0, false, false⟩,
                       ⟨"to".toList, .ref, false, none, 0, false, false⟩]
    ws := fun c => c == ' ' }

def tinyForest : List (SNode Path) :=
  [.mk [] 0 [] [("n".toList, .attr1 "x y".toList), ("kids".toList, .kids), ("to".toList, .ref1 ⟨0, [("kids".toList, some 0)]⟩)]
     [.mk "kids".toList 0 [] [] []]]

theorem tinyMM_ok : MMOK tinyMM := by
  refine ⟨by decide, ?_, ?_, ?_⟩
  · intro c fi hfi
    simp only [tinyMM, List.mem_cons, List.mem_nil_iff, or_false] at hfi
    rcases hfi with rfl | rfl | rfl <;> rfl
  · intro c; show ((tinyMM.feats 0).map (·.name)).Nodup; decide
  · intro c hc
    have : c = 0 := by simp [tinyMM] at hc; omega
    subst this; decide

example :
    (∀ r ∈ tinyForest, WFG tinyMM (fun p => Word tinyMM.ws (renderPath true p)) r) ∧
    (∀ r ∈ tinyForest, AllRefs (fun p => (nodeAt tinyForest p).isSome = true ∧ (∀ s ∈ p.segs, NameOK s.1 ∧ '#' ∉ s.1)) r) := by
  constructor
  · intro r hr
    simp only [tinyForest, List.mem_singleton] at hr
    subst hr
    refine WFG.mk _ _ _ _ _ (by decide) (by decide) ?_ ?_ ?_ ?_
    · intro e he
      simp only [List.mem_cons, List.mem_nil_iff, or_false] at he
      rcases he with rfl | rfl | rfl
      · exact ⟨_, rfl, Or.inr ⟨rfl, rfl⟩⟩
      · exact ⟨_, rfl, Or.inr rfl⟩
      · refine ⟨_, rfl, Or.inr ⟨rfl, rfl, ?_⟩⟩
        refine ⟨by decide, ?_⟩
        intro c hc
        have : c ∈ "//@kids.0".toList := hc
        simp only [String.toList] at this
        revert c
        decide
    · intro k hk
      simp only [List.mem_singleton] at hk
      subst hk
      exact WFG.mk _ _ _ _ _ (by decide) (by decide) (by intro e he; cases he) (by intro k hk; cases hk) (by intro k hk; cases hk)
        (by intro fi _ _ _; simp)
    · intro k hk
      simp only [List.mem_singleton] at hk
      subst hk
      exact ⟨_, rfl, rfl, by decide⟩
    · intro fi hfi _ hm
      simp only [tinyMM, List.mem_cons, List.mem_nil_iff, or_false] at hfi
      rcases hfi with rfl | rfl | rfl <;> simp_all
  · intro r hr
    simp only [tinyForest, List.mem_singleton] at hr
    subst hr
    refine AllRefs.mk _ _ _ _ _ ?_ ?_
    · intro e he
      simp only [List.mem_cons, List.mem_nil_iff, or_false] at he
      rcases he with rfl | rfl | rfl
      · trivial
      · trivial
      · refine ⟨by decide, ?_⟩
        intro s hs
        simp only [List.mem_singleton] at hs
        subst hs
        exact ⟨⟨by decide, by decide⟩, by decide⟩
    · intro k hk
      simp only [List.mem_singleton] at hk
      subst hk
      exact AllRefs.mk _ _ _ _ _ (by intro e he; cases he) (by intro k hk; cases hk)

end XDoc

namespace XDoc
open Xmi

/-- **Document-level round trip, every addressing mode — no resolution hypothesis left.**  Whatever the resource uses to
    address a target (its uuid in a uuid resource, the value of its id attribute when that can stand as a token, its
    fragment path otherwise): for every forest of well-formed objects whose references point, by canonical path, at
    objects of the forest, and in which no two objects go by the same key, loading the saved document gives every
    root's normal form with every reference on its original target. -/
theorem C08_document_addressing (mm : MMX) (o : Opts) (hmm : MMOK mm) (hid : IdOK mm) (single : Bool) (roots : List (SNode Path))
    (hsingle : single = true → roots.length = 1)
    (hwf : ∀ r ∈ roots, WFG mm (Target mm single roots) r)
    (hrefs : ∀ r ∈ roots, AllRefs (Target mm single roots) r)
    (huuid : o.uuid = true → ∀ q m, (q, m) ∈ allNodes mm roots → UuidTok m.uuid ∧ Word mm.ws m.uuid)
    (hdist : ∀ q m q' m' k, (q, m) ∈ allNodes mm roots → (q', m') ∈ allNodes mm roots →
      k ∈ keysOf mm o m → k ∈ keysOf mm o m' → q = q') :
    (encodeDoc mm o (renderPath single) roots).bind (decodeDoc mm o parsePath) = some (roots.map (eff mm o true)) :=
  doc_roundtrip_addr mm o hmm hid single roots hsingle hwf hrefs huuid hdist

/-- a key that can stand as a token resolves to the object that goes by it, in the forest as loaded -/
theorem C08_key_resolves {P : Path → Prop} (mm : MMX) (o : Opts) (hmm : MMOK mm) (hid : IdOK mm) (roots : List (SNode Path))
    (g : Path → Str) (parse : Str → Option Path)
    (hwf : ∀ r ∈ roots, WFG mm P r)
    (hdist : ∀ q m q' m' k, (q, m) ∈ allNodes mm roots → (q', m') ∈ allNodes mm roots →
      k ∈ keysOf mm o m → k ∈ keysOf mm o m' → q = q')
    (p : Path) (n : SNode Path) (hp : (p, n) ∈ allNodes mm roots) (k : Str) (hk : k ∈ keysOf mm o n) (hshape : UuidTok k) :
    resolveTok mm o parse (roots.map fun r => eff mm o true (mapT g r)) k = some p :=
  resolveTok_key mm o hmm hid roots g parse hwf hdist p n hp k hk hshape

/-! non-vacuity: a forest with uuids and an id attribute meets every hypothesis of `C08_document_addressing` -/

def idMM : MMX :=
  { nCls := 1
    cname := fun _ => "A".toList
    feats := fun _ => [⟨"n".toList, .attr, false, none, 0, true, false⟩, ⟨"kids".toList, .cont, true, none, 0, false, false⟩,
                       ⟨"to".toList, .ref, false, none, 0, false, false⟩]
    ws := fun c => c == ' ' }

def idForest : List (SNode Path) :=
  [.mk [] 0 "u0".toList [("n".toList, .attr1 "x y".toList), ("kids".toList, .kids), ("to".toList, .ref1 ⟨0, [("kids".toList, some 0)]⟩)]
     [.mk "kids".toList 0 "u1".toList [("n".toList, .attr1 "k".toList)] []]]

theorem idMM_ok : MMOK idMM := by
  refine ⟨by decide, ?_, ?_, ?_⟩
  · intro c fi hfi
    simp only [idMM, List.mem_cons, List.mem_nil_iff, or_false] at hfi
    rcases hfi with rfl | rfl | rfl <;> rfl
  · intro c; show ((idMM.feats 0).map (·.name)).Nodup; decide
  · intro c hc
    have : c = 0 := by simp [idMM] at hc; omega
    subst this; decide

/-- the whole pipeline on this forest: uuid mode; id mode (the child goes by its id `k`, the root's id `x y` is no token so
    its fragment is used) -/
example : (encodeDoc idMM ⟨false, true⟩ (renderPath true) idForest).bind (decodeDoc idMM ⟨false, true⟩ parsePath)
    = some (idForest.map (eff idMM ⟨false, true⟩ true)) := by decide +kernel
example : (encodeDoc idMM ⟨false, false⟩ (renderPath true) idForest).bind (decodeDoc idMM ⟨false, false⟩ parsePath)
    = some (idForest.map (eff idMM ⟨false, false⟩ true)) := by decide +kernel
example : tokenOf idMM ⟨false, false⟩ (renderPath true) idForest ⟨0, [("kids".toList, some 0)]⟩ = "k".toList := by decide +kernel

theorem idMM_idok : IdOK idMM := by
  intro c fi hfi hi _
  simp only [idMM, List.mem_cons, List.mem_nil_iff, or_false] at hfi
  rcases hfi with rfl | rfl | rfl
  · exact ⟨rfl, rfl⟩
  · cases hi
  · cases hi

theorem idForest_nodes : allNodes idMM idForest =
    [(⟨0, []⟩, .mk [] 0 "u0".toList [("n".toList, .attr1 "x y".toList), ("kids".toList, .kids), ("to".toList, .ref1 ⟨0, [("kids".toList, some 0)]⟩)]
        [.mk "kids".toList 0 "u1".toList [("n".toList, .attr1 "k".toList)] []]),
     (⟨0, [("kids".toList, some 0)]⟩, .mk "kids".toList 0 "u1".toList [("n".toList, .attr1 "k".toList)] [])] := by
  decide +kernel


example :
    (∀ r ∈ idForest, WFG idMM (Target idMM true idForest) r) ∧
    (∀ r ∈ idForest, AllRefs (Target idMM true idForest) r) ∧
    (∀ o : Opts, o.uuid = true → ∀ q m, (q, m) ∈ allNodes idMM idForest → UuidTok m.uuid ∧ Word idMM.ws m.uuid) ∧
    (∀ o : Opts, ∀ q m q' m' k, (q, m) ∈ allNodes idMM idForest → (q', m') ∈ allNodes idMM idForest →
      k ∈ keysOf idMM o m → k ∈ keysOf idMM o m' → q = q') := by
  have htarget : Target idMM true idForest ⟨0, [("kids".toList, some 0)]⟩ := by
    refine ⟨⟨_, by rw [idForest_nodes]; exact List.mem_cons_of_mem _ (List.mem_singleton.mpr rfl)⟩, ?_, ?_⟩
    · intro s hs
      simp only [List.mem_singleton] at hs
      subst hs
      exact ⟨⟨by decide, by decide⟩, by decide⟩
    · refine ⟨by decide, ?_⟩
      intro c hc
      have : c ∈ "//@kids.0".toList := hc
      simp only [String.toList] at this
      revert c
      decide
  refine ⟨?_, ?_, ?_, ?_⟩
  · intro r hr
    simp only [idForest, List.mem_singleton] at hr
    subst hr
    refine WFG.mk _ _ _ _ _ (by decide) (by decide) ?_ ?_ ?_ ?_
    · intro e he
      simp only [List.mem_cons, List.mem_nil_iff, or_false] at he
      rcases he with rfl | rfl | rfl
      · exact ⟨_, rfl, Or.inr ⟨rfl, rfl⟩⟩
      · exact ⟨_, rfl, Or.inr rfl⟩
      · exact ⟨_, rfl, Or.inr ⟨rfl, rfl, htarget⟩⟩
    · intro k hk
      simp only [List.mem_singleton] at hk
      subst hk
      refine WFG.mk _ _ _ _ _ (by decide) (by decide) ?_ (by intro k hk; cases hk) (by intro k hk; cases hk)
        (by intro fi _ _ _; simp)
      intro e he
      simp only [List.mem_singleton] at he
      subst he
      exact ⟨_, rfl, Or.inr ⟨rfl, rfl⟩⟩
    · intro k hk
      simp only [List.mem_singleton] at hk
      subst hk
      exact ⟨_, rfl, rfl, by decide⟩
    · intro fi hfi _ hm
      simp only [idMM, List.mem_cons, List.mem_nil_iff, or_false] at hfi
      rcases hfi with rfl | rfl | rfl <;> simp_all
  · intro r hr
    simp only [idForest, List.mem_singleton] at hr
    subst hr
    refine AllRefs.mk _ _ _ _ _ ?_ ?_
    · intro e he
      simp only [List.mem_cons, List.mem_nil_iff, or_false] at he
      rcases he with rfl | rfl | rfl
      · trivial
      · trivial
      · exact htarget
    · intro k hk
      simp only [List.mem_singleton] at hk
      subst hk
      exact AllRefs.mk _ _ _ _ _ (by intro e he; cases he; trivial; rename_i h; cases h) (by intro k hk; cases hk)
  · intro o _ q m hm
    rw [idForest_nodes] at hm
    simp only [List.mem_cons, List.mem_nil_iff, or_false, Prod.mk.injEq] at hm
    rcases hm with ⟨_, rfl⟩ | ⟨_, rfl⟩
    · refine ⟨⟨by decide, 'u', "0".toList, rfl, by decide⟩, by decide, ?_⟩
      intro c hc
      have : c ∈ "u0".toList := hc
      simp only [String.toList] at this
      revert c; decide
    · refine ⟨⟨by decide, 'u', "1".toList, rfl, by decide⟩, by decide, ?_⟩
      intro c hc
      have : c ∈ "u1".toList := hc
      simp only [String.toList] at this
      revert c; decide
  · intro o q m q' m' k hm hm' hk hk'
    rw [idForest_nodes] at hm hm'
    simp only [List.mem_cons, List.mem_nil_iff, or_false, Prod.mk.injEq] at hm hm'
    rcases hm with ⟨rfl, rfl⟩ | ⟨rfl, rfl⟩ <;> rcases hm' with ⟨rfl, rfl⟩ | ⟨rfl, rfl⟩
    · rfl
    · exfalso
      cases hu : o.uuid <;> simp [keysOf, hu, idValue, idMM, SNode.cls, SNode.slots, SNode.uuid, veq] at hk hk'
      · subst hk; revert hk'; decide
      · rcases hk with rfl | rfl <;> revert hk' <;> decide
    · exfalso
      cases hu : o.uuid <;> simp [keysOf, hu, idValue, idMM, SNode.cls, SNode.slots, SNode.uuid, veq] at hk hk'
      · subst hk; revert hk'; decide
      · rcases hk with rfl | rfl <;> revert hk' <;> decide
    · rfl

end XDoc
