import PyecoreModel.Model.EcoreTable
import PyecoreModel.Generated.EcoreTable
import PyecoreModel.Properties.C08
/-!
# C10 — A metamodel survives a trip through an .ecore file  (**partial**)

An .ecore document is an XMI document whose metamodel is Ecore itself, so the layers are those of C08 (value codec,
many/one attribute forms, fragments — here name-based — and ids).  What is specific to C10 is *which* constructs reach
the file at all: `save()` writes exactly the features recorded in `_isset` that are neither derived nor transient, and
several Ecore features sit behind Python properties that must record themselves.

`Generated/EcoreTable.lean` is rebuilt from `pyecore.ecore` on every run: for every concrete metaclass and every
structural feature, its derived/transient flags and the observed answer to "does assigning it through attribute syntax
put it into `_isset`?".  `C10_persisted` is the kernel-checked statement over that table: every construct the property
lists is persisted.  (On the unrepaired tree it failed for `eOpposite`.)
The round trip itself — generated metamodels and the shipped corpus, compared by structural signature, reloaded classes
instantiated — is decided by the check's oracle.
-/
namespace EcoreT

/-- every construct of the statement (name, abstract, interface, supertypes, bounds, ordered, unique, containment, iD,
eOpposite, default literal, literals and their values, instanceClassName, operations, parameters, annotations, package
URI/prefix, classifiers, sub-packages) is written by `save()` -/
theorem C10_persisted : ∀ r ∈ ecoreTable, r.inSignature = true → r.persisted = true := by decide +kernel

/-- the table is not vacuous: it lists the constructs -/
theorem C10_table_covers :
    (ecoreTable.filter (·.inSignature)).length ≥ 40 ∧
    (ecoreTable.any fun r => r.name == "eOpposite" && r.inSignature) = true ∧
    (ecoreTable.any fun r => r.name == "eSuperTypes" && r.inSignature) = true := by decide +kernel

/-- the attribute layers of an .ecore document are those of C08 -/
theorem C10_layers (ws : Char → Bool) (hsp : ws ' ' = true) (vs : List (List Char)) (sd : Bool) (d v : Option (List Char)) :
    Xmi.decodeMany ws (Xmi.encodeMany ws vs) = vs ∧ Xmi.decodeOne d (Xmi.encodeOne sd d v) = v :=
  ⟨Xmi.C08_many_roundtrip ws hsp vs, Xmi.C08_one_roundtrip sd d v⟩

end EcoreT
