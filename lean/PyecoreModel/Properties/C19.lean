import PyecoreModel.Lemmas.StoreNav
import PyecoreModel.Properties.C07
/-!
# C19 — The reflective views agree with the model they describe (object level)

`children` = `eContents`, `descendants`/`eAllContents` = `eAllContents()`, `eRoot` = `eRoot()`, `anc s k x` = the k-th
container of `x`.  `eGet`/`eSet` by name or by feature object are the same slot functions of the Store behind a name
lookup (the correspondence drives both spellings: `set`/`eset`).  The metamodel-level views (`eAllSuperTypes`,
`eAllStructuralFeatures`, …) are in `Properties/C12.lean`'s class model.
-/
namespace Store

/-- `eContents` is exactly the content of the containment references (the code iterates a *set* of references, so
only membership is claimed, not order). -/
theorem C19_contents (mm : MM) (s : St) (o x : Oid) :
    x ∈ children mm s o ↔ ∃ f, f < mm.nFeat ∧ (mm.feat f).cont = true ∧ x ∈ s.rs o f :=
  mem_children mm s o x

/-- … and those are exactly the objects that name `o` as their container. -/
theorem C19_contents_container (mm : MM) (s : St) (h : Inv mm s) (ht : Typed mm s) (o x : Oid) :
    x ∈ children mm s o ↔ ∃ f, s.cont x = some (o, f) :=
  mem_children_iff_cont mm s h ht o x

/-- `eAllContents()` yields exactly the objects strictly below `o` in the containment tree (within `n` levels):
`x` is yielded iff some k-th container of `x`, k ≥ 1, is `o`. -/
theorem C19_allcontents (mm : MM) (s : St) (h : Inv mm s) (ht : Typed mm s) (n : Nat) (o x : Oid) :
    x ∈ descendants mm s n o ↔ ∃ k, k < n ∧ anc s (k + 1) x = some o :=
  mem_descendants mm s h ht n o x

/-- `eRoot()` is the end of the container chain: an ancestor of the object, without container
(when the chain ends within the fuel). -/
theorem C19_root (s : St) (n : Nat) (o : Oid) :
    ∃ k, k ≤ n ∧ anc s k o = some (eRoot s n o) := by
  induction n generalizing o with
  | zero => exact ⟨0, Nat.le_refl 0, rfl⟩
  | succ n ih =>
    simp only [eRoot]
    cases hc : s.cont o with
    | none => exact ⟨0, Nat.zero_le _, rfl⟩
    | some pf =>
      obtain ⟨p, f⟩ := pf
      obtain ⟨k, hk, ha⟩ := ih p
      exact ⟨k + 1, Nat.succ_le_succ hk, by simp [anc, hc, ha]⟩

/-- every reachable state meets the hypotheses -/
theorem C19_reachable (mm : MM) (hwf : mm.WF) (hwft : mm.WFT) (ops : List Op) (n : Nat) (o x : Oid) :
    x ∈ descendants mm (run mm ops) n o ↔ ∃ k, k < n ∧ anc (run mm ops) (k + 1) x = some o :=
  mem_descendants mm _ (inv_run mm hwf ops) (typed_run mm hwf hwft ops) n o x

example :
    let s := run exMM7 [.new 0, .new 0, .new 0, .new 0, .add 0 0 (.obj 1), .add 1 0 (.obj 2), .add 0 0 (.obj 3)]
    children exMM7 s 0 = [1, 3] ∧ descendants exMM7 s 4 0 = [1, 2, 3] ∧ eRoot s 4 2 = 0 ∧ anc s 2 2 = some 0 := by
  decide

end Store
