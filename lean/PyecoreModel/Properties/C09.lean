import PyecoreModel.Model.JsonValues
import PyecoreModel.Lemmas.XmiValues
import PyecoreModel.Lemmas.Codec
import PyecoreModel.Lemmas.StoreStep
/-!
# C09 — JSON save then load reproduces the model  (**partial: layer theorems; the composition is decided by the check**)

Full statement (kept visible): as C08 with JSON for XML — `canon (load (save s r opts)) = canon s r`, values keep their
JSON-native kind, a unique collection holds no target twice after load.

Proved for all inputs: the value layer (`C09_value_roundtrip`: every modelled attribute value is read back as itself,
native kinds natively, enumeration literals by name, dates through the ISO text of C17), single-valued elision and
`null` (`C09_one_roundtrip`), many-valued attributes (`C09_many_roundtrip`), and "no duplicates" as a consequence of the
C02 invariant for any load that performs Store operations on real targets (`C09_no_dup`).  References and order are the
same layers as in C08 (C11, `C08_id_lookup`, `C08_reorder`).
**Not proved**: the composition over a whole tree; decided on every run by the isomorphism oracle (with proxies standing
for their targets) on generated (metamodel, model, options) triples.
-/
namespace Json

/-- well-formed value: an enumeration literal is one of its enumeration, names unique; a date fits the fixed-width
form -/
def AV.WF : AV → Prop
  | .lit names k => names.Nodup ∧ k < names.length
  | .date d => d.Fits
  | _ => True

/-- **every attribute value is read back as itself**, in its JSON-native kind where it has one -/
theorem C09_value_roundtrip (v : AV) (h : v.WF) : decodeVal v.kind (encodeVal v) = some v := by
  cases v with
  | bool b => rfl
  | int i => rfl
  | float t => rfl
  | str s => rfl
  | lit names k =>
    obtain ⟨hn, hk⟩ := h
    simp only [AV.kind, encodeVal, decodeVal]
    have : names.getD k "" = names[k] := by simp [List.getD, List.getElem?_eq_getElem hk]
    rw [this, Codec.enum_roundtrip names hn k hk]; rfl
  | date d =>
    simp only [AV.kind, encodeVal, decodeVal]
    have : (String.ofList (Codec.fmtDate d)).toList = Codec.fmtDate d := by simp
    rw [this, Codec.parseDate_fmtDate d h]; rfl

/-- single-valued attribute: None ↔ null, default elision, both option settings -/
theorem C09_one_roundtrip (sd : Bool) (k : Kind) (dflt value : Option AV)
    (hk : ∀ v, value = some v → v.kind = k ∧ v.WF) :
    decodeOne k dflt (encodeOne sd dflt value) = some value := by
  cases value with
  | none =>
    simp only [encodeOne]
    cases hd : dflt with
    | none => cases sd <;> simp [decodeOne]
    | some d => simp [decodeOne]
  | some v =>
    obtain ⟨hkind, hwf⟩ := hk v rfl
    simp only [encodeOne]
    by_cases h : some v = dflt
    · cases sd
      · simp [h, decodeOne]
      · simp only [Bool.or_true, if_true, decodeOne]
        rw [← hkind, C09_value_roundtrip v hwf]; rfl
    · simp only [h, ne_eq, not_false_eq_true, decide_true, Bool.true_or, if_true, decodeOne]
      rw [← hkind, C09_value_roundtrip v hwf]; rfl

/-- many-valued attribute: order and duplicates kept -/
theorem C09_many_roundtrip (k : Kind) (vs : List AV) (hk : ∀ v ∈ vs, v.kind = k ∧ v.WF) :
    decodeMany k (encodeMany vs) = some vs := by
  simp only [encodeMany, decodeMany]
  induction vs with
  | nil => rfl
  | cons v t ih =>
    have hv := hk v (by simp)
    simp only [List.map_cons, List.mapM_cons]
    rw [← hv.1, C09_value_roundtrip v hv.2]
    have := ih (fun w hw => hk w (by simp [hw]))
    rw [hv.1]
    simp only [Option.bind_eq_bind, Option.bind_some]
    rw [this]; rfl

/-- **no target twice in a unique collection**: whatever sequence of Store operations a load performs on real
targets, the C02 cardinality invariant holds afterwards (it is the proxies standing in for local targets that used to
break this; see the fix log). -/
theorem C09_no_dup (mm : Store.MM) (hwf : mm.WF) (ops : List Store.Op) (x : Store.Oid) (f : Store.Fid)
    (hu : (mm.feat f).isList = false) : ((Store.run mm ops).rs x f).Nodup :=
  ((Store.inv_run mm hwf ops).2.1 x f).2 hu

example : decodeVal (.enum ["A", "B"]) (encodeVal (.lit ["A", "B"] 1)) = some (.lit ["A", "B"] 1) := by decide
example : encodeOne false (some (.bool false)) none = .nil ∧ encodeOne false (some (.int 0)) (some (.int 0)) = .absent :=
  ⟨rfl, rfl⟩

end Json
