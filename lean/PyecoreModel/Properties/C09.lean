import PyecoreModel.Model.JsonValues
import PyecoreModel.Lemmas.XmiValues
import PyecoreModel.Lemmas.Codec
import PyecoreModel.Lemmas.StoreStep
import PyecoreModel.Lemmas.JsonDocRefs
/-!
# C09 — JSON save then load reproduces the model  (**partial: layer theorems; the composition is decided by the check**)

Full statement (kept visible): as C08 with JSON for XML — `canon (load (save s r opts)) = canon s r`, values keep their
JSON-native kind, a unique collection holds no target twice after load.

Proved for all inputs: the value layer (`C09_value_roundtrip`: every modelled attribute value is read back as itself,
native kinds natively, enumeration literals by name, dates through the ISO text of C17), single-valued elision and
`null` (`C09_one_roundtrip`), many-valued attributes (`C09_many_roundtrip`), and "no duplicates" as a consequence of the
C02 invariant for any load that performs Store operations on real targets (`C09_no_dup`).  References and order are the
same layers as in C08 (C11, `C08_id_lookup`, `C08_reorder`).
The composition is proved at the level of the JSON value tree (`Model/JsonDoc.lean`): `C09_tree_roundtrip` (any depth,
every feature kind and option), `C09_document` (forest + two-pass resolution, given that tokens resolve back),
`C09_document_fragment` (that hypothesis discharged for fragment addressing) and `C09_document_addressing` (… for every
addressing mode — uuid, id attribute value, fragment — provided no two objects go by the same key).
**Not proved**: the text level below the value tree (Python's `json` module), cross-resource references and proxies,
and that pyecore's objects correspond to the model's trees; decided on every run by the correspondence (`driver jdoc`)
and by the isomorphism oracle (with proxies standing for their targets) on generated (metamodel, model, options) triples.
-/
namespace Json

/-- well-formed value: an enumeration literal is one of its enumeration, names unique; a date fits the fixed-width
form -/
def AV.WF : AV → Prop
  | .lit names k => names.Nodup ∧ k < names.length
  | .date d => d.Fits
  | _ => True

/-- **every attribute value is read back as itself**, in its JSON-native kind where it has one -/
theorem C09_value_roundtrip (v : AV) (h : v.WF) : decodeVal v.kind (encodeVal v) = some v := by
  cases v with
  | bool b => rfl
  | int i => rfl
  | float t => rfl
  | str s => rfl
  | lit names k =>
    obtain ⟨hn, hk⟩ := h
    simp only [AV.kind, encodeVal, decodeVal]
    have : names.getD k "" = names[k] := by simp [List.getD, List.getElem?_eq_getElem hk]
    rw [this, Codec.enum_roundtrip names hn k hk]; rfl
  | date d =>
    simp only [AV.kind, encodeVal, decodeVal]
    have : (String.ofList (Codec.fmtDate d)).toList = Codec.fmtDate d := by simp
    rw [this, Codec.parseDate_fmtDate d h]; rfl

/-- single-valued attribute: None ↔ null, default elision, both option settings -/
theorem C09_one_roundtrip (sd : Bool) (k : Kind) (dflt value : Option AV)
    (hk : ∀ v, value = some v → v.kind = k ∧ v.WF) :
    decodeOne k dflt (encodeOne sd dflt value) = some value := by
  cases value with
  | none =>
    simp only [encodeOne]
    cases hd : dflt with
    | none => cases sd <;> simp [decodeOne]
    | some d => simp [decodeOne]
  | some v =>
    obtain ⟨hkind, hwf⟩ := hk v rfl
    simp only [encodeOne]
    by_cases h : some v = dflt
    · cases sd
      · simp [h, decodeOne]
      · simp only [Bool.or_true, if_true, decodeOne]
        rw [← hkind, C09_value_roundtrip v hwf]; rfl
    · simp only [h, ne_eq, not_false_eq_true, decide_true, Bool.true_or, if_true, decodeOne]
      rw [← hkind, C09_value_roundtrip v hwf]; rfl

/-- many-valued attribute: order and duplicates kept -/
theorem C09_many_roundtrip (k : Kind) (vs : List AV) (hk : ∀ v ∈ vs, v.kind = k ∧ v.WF) :
    decodeMany k (encodeMany vs) = some vs := by
  simp only [encodeMany, decodeMany]
  induction vs with
  | nil => rfl
  | cons v t ih =>
    have hv := hk v (by simp)
    simp only [List.map_cons, List.mapM_cons]
    rw [← hv.1, C09_value_roundtrip v hv.2]
    have := ih (fun w hw => hk w (by simp [hw]))
    rw [hv.1]
    simp only [Option.bind_eq_bind, Option.bind_some]
    rw [this]; rfl

/-- **no target twice in a unique collection**: whatever sequence of Store operations a load performs on real
targets, the C02 cardinality invariant holds afterwards (it is the proxies standing in for local targets that used to
break this; see the fix log). -/
theorem C09_no_dup (mm : Store.MM) (hwf : mm.WF) (ops : List Store.Op) (x : Store.Oid) (f : Store.Fid)
    (hu : (mm.feat f).isList = false) : ((Store.run mm ops).rs x f).Nodup :=
  ((Store.inv_run mm hwf ops).2.1 x f).2 hu

example : decodeVal (.enum ["A", "B"]) (encodeVal (.lit ["A", "B"] 1)) = some (.lit ["A", "B"] 1) := by decide
example : encodeOne false (some (.bool false)) none = .nil ∧ encodeOne false (some (.int 0)) (some (.int 0)) = .absent :=
  ⟨rfl, rfl⟩

end Json

/-! ## The document layer (`Model/JsonDoc.lean`): a whole containment tree, value by value -/
namespace JDoc
open XDoc Xmi

/-- **Value-level round trip.**  For every well-formed object tree — any depth and width, every mix of unset / None /
    default / empty values, `eClass` written or implied, uuid mode or not, both SERIALIZE_DEFAULT_VALUES settings — what
    `to_obj` builds from the dictionary `to_dict_from_obj` wrote is the object's normal form: class, every attribute and
    reference with its effective value in order (attribute values with their JSON kind), the same children under the
    same containment features in order. -/
theorem C09_tree_roundtrip (mm : MMX) (o : Opts) (hmm : MMJ mm) (n : SNode JRef) (h : WFJ mm n) (top : Bool) (decl : Nat)
    (via' : Str) (hv : top = false → via' = n.via) :
    jDec mm top via' decl (jEnc mm o top decl n) = some (eff mm o top (mapT JRef.tok n)) :=
  jdec_enc mm o hmm n h top decl via' hv

/-- **Document-level round trip.**  References written as `{"eClass": …, "$ref": token}` and resolved once the tree
    exists: the whole forest comes back (uuids included: `to_obj` keeps them on the objects since repair 41d1d7b; the model used to strip them, as the code did) with every reference
    on its original target, provided each token resolves in the loaded forest to the path it was written for. -/
theorem C09_document (mm : MMX) (o : Opts) (hmm : MMJ mm) (render : Path → Str) (parse : Str → Option Path)
    (roots : List (SNode Path))
    (hwf : ∀ r ∈ roots, WFG mm (fun _ => True) r)
    (hvalid : ∀ r ∈ roots, AllRefs (fun p => (nodeAt roots p).isSome = true) r)
    (hres : ∀ r ∈ roots, AllRefs (fun p =>
        resolveTok mm o parse (roots.map fun r => eff mm o true (mapT (tokenOf mm o render roots) r))
          (tokenOf mm o render roots p) = some p) r) :
    (jEncodeDoc mm o render roots).bind (jDecodeDoc mm o parse) = some (roots.map (eff mm o true)) :=
  jdoc_roundtrip mm o hmm render parse roots hwf hvalid hres

/-- … and with fragment addressing (no uuids, no id attributes) nothing is left to assume about resolution. -/
theorem C09_document_fragment (mm : MMX) (o : Opts) (hmm : MMJ mm) (single : Bool) (roots : List (SNode Path))
    (hu : o.uuid = false) (hid : ∀ c, ∀ fi ∈ mm.feats c, fi.isId = false)
    (hsingle : single = true → roots.length = 1)
    (hwf : ∀ r ∈ roots, WFG mm (fun _ => True) r)
    (hrefs : ∀ r ∈ roots, AllRefs (fun p => (nodeAt roots p).isSome = true ∧ (∀ s ∈ p.segs, NameOK s.1 ∧ '#' ∉ s.1)) r) :
    (jEncodeDoc mm o (renderPath single) roots).bind (jDecodeDoc mm o parsePath)
      = some (roots.map (eff mm o true)) :=
  jdoc_roundtrip_fragment mm o hmm single roots hu hid hsingle hwf hrefs

/-- **Document level, every addressing mode.**  Whatever addresses a target — its uuid, the value of its id attribute, or
    its fragment path — nothing is left to assume about resolution, provided no two objects go by the same key. -/
theorem C09_document_addressing (mm : MMX) (o : Opts) (hmm : MMJ mm) (hid : IdOK mm) (single : Bool) (roots : List (SNode Path))
    (hsingle : single = true → roots.length = 1)
    (hwf : ∀ r ∈ roots, WFG mm (fun _ => True) r)
    (hrefs : ∀ r ∈ roots, AllRefs (Target mm single roots) r)
    (huuid : o.uuid = true → ∀ q m, (q, m) ∈ allNodes mm roots → UuidTok m.uuid ∧ Word mm.ws m.uuid)
    (hdist : ∀ q m q' m' k, (q, m) ∈ allNodes mm roots → (q', m') ∈ allNodes mm roots →
      k ∈ keysOf mm o m → k ∈ keysOf mm o m' → q = q') :
    (jEncodeDoc mm o (renderPath single) roots).bind (jDecodeDoc mm o parsePath)
      = some (roots.map (eff mm o true)) :=
  jdoc_roundtrip_addr mm o hmm hid single roots hsingle hwf hrefs huuid hdist

end JDoc
