import PyecoreModel.Lemmas.Paths
import PyecoreModel.Lemmas.HrefText
import PyecoreModel.Properties.C11
/-!
# C14 — References across resources reach the right object after a reload  (**partial**)

An href is `relpath(file of target, dirname(file of referrer)) # fragment`; reading it applies `join(dirname(referrer),
·)` and normalises.  Proved for all inputs: the path half (`C14_path`), composed with C11 for the fragment half
(`C14_href`), and the transparency of a *resolved* proxy (`C14_transparent`).  The statement's remaining demand — that an
*unresolved* proxy already hashes like its target — is refuted by construction of `EProxy.__hash__`
(`C14_counterexample_unresolved_hash`, recorded finding F-C14-1); the order of a many-valued XMI reference mixing
local and cross-resource targets is finding F-C14-2.  On-demand loading, the resource-set key discipline and the JSON
path are decided by the check's oracle.
-/
namespace Paths

/-- **Every directory layout**: the relative path written from `me` to `other`, joined to `me`'s directory and
normalised, is `other` — whatever the depths, the common prefix, equal file names in different directories. -/
theorem C14_path (me other : Path) (hme : Clean me) (ho : Clean other) (hne : other ≠ []) :
    hrefRoundTrip me other = other := href_roundtrip me other hme ho hne

/-- **href = (file, fragment) resolves to the object**: the file by `C14_path`, the fragment by C11. -/
theorem C14_href (me other : Path) (hme : Clean me) (ho : Clean other) (hne : other ≠ [])
    (mm : Store.MM) (s : Store.St) (h : Store.Inv mm s) (n : Nat) (o : Store.Oid) (r : Store.Rid)
    (hroot : s.cont (Store.eRoot s n o) = none) (he : s.eres (Store.eRoot s n o) = some r) :
    hrefRoundTrip me other = other ∧ Store.resolve mm s r (Store.frag mm s n o) = some o :=
  ⟨C14_path me other hme ho hne, Store.C11_resolve_frag mm s h n o r hroot he⟩

/-- `EProxy`: equality forces resolution and delegates; the hash is the target's once resolved, the proxy's own
identity before. -/
structure Proxy where
  ident : Nat            -- object.__hash__(proxy)
  targetHash : Nat
  resolved : Bool

def Proxy.hash (p : Proxy) : Nat := if p.resolved then p.targetHash else p.ident
def Proxy.eqTarget (_ : Proxy) : Bool := true      -- `__eq__`: force_resolve(); self._wrapped == other

/-- a resolved proxy compares equal to and hashes like its target -/
theorem C14_transparent (p : Proxy) (h : p.resolved = true) : p.hash = p.targetHash ∧ p.eqTarget = true := by
  simp [Proxy.hash, h, Proxy.eqTarget]

/-- … an unresolved one does not hash like it (F-C14-1): a collection that hashed it before resolution cannot find the
target afterwards -/
theorem C14_counterexample_unresolved_hash :
    ∃ p : Proxy, p.resolved = false ∧ p.hash ≠ p.targetHash := ⟨⟨1, 2, false⟩, rfl, by decide⟩

example : hrefRoundTrip ["t", "d1", "x", "a.xmi"] ["t", "d2", "b.xmi"] = ["t", "d2", "b.xmi"] := by decide
example : relpath ["t", "d2", "b.xmi"] ["t", "d1", "x"] = ["..", "..", "d2", "b.xmi"] := by decide
example : hrefRoundTrip ["t", "d1", "m.xmi"] ["t", "d2", "m.xmi"] = ["t", "d2", "m.xmi"] := by decide

end Paths

namespace HrefText

/-- **The text of an href**: reading drops an announced type (`prefix:Type uri#fragment` is `uri#fragment`) … -/
theorem C14_href_typed (t u : List Char) (ht : ∀ x ∈ t, x ≠ ' ') (htw : typeWord t = true) (hu : u ≠ [])
    (h1 : ∀ c, u.head? = some c → isBlank c = false) (h2 : ∀ c, u.getLast? = some c → isBlank c = false) :
    normalize (t ++ ' ' :: u) = u := normalize_typed t u ht htw hu h1 h2

/-- … and nothing else: a path with blanks in it (`my dir/b.xmi#//@kids.0`, `a b.xmi#/`, `../x y/z.json#id`) is read as
written — the word in front of its first blank has a `/` or a `#` in it, or no `:` -/
theorem C14_href_blanks (s : List Char) (h : typeWord (head s) = false) : normalize s = s := normalize_plain s h

example : normalize "ecore:EClass http://x/y#//A".toList = "http://x/y#//A".toList := by decide
example : normalize "my dir/b.xmi#//@kids.0".toList = "my dir/b.xmi#//@kids.0".toList := by decide
example : normalize "a b.xmi#/".toList = "a b.xmi#/".toList := by decide
example : typeWord (head "../my models/x y.json#id7".toList) = false := by decide

end HrefText

