import PyecoreModel.Model.Classes
/-! Line protocol for the class machinery model (C12, C20). -/
namespace Cls.Proto
open Cls

structure S where
  w : W := {}
  names : List Nat := []      -- every feature / operation name ever declared

def init : S := {}

def observe (p : S) : String :=
  let w := p.w
  let rows := (List.range w.nInst).map fun i =>
    let g := p.names.map fun n => match getattr w i n with
      | .descriptor => "D" | .rawHolder => "R" | .nothing => "N"
    let inst := (List.range w.nCls).map fun c => if isInstance w i c then "1" else "0"
    s!"i{i}:{"".intercalate g}:{"".intercalate inst}"
  " ".intercalate rows

def step (p : S) (line : String) : S × String :=
  let ws := (line.splitOn " ").filter (· ≠ "")
  let go (e : Edit) (nm : Option Nat) : S × String :=
    let p' : S := { w := edit p.w e, names := match nm with | some n => if p.names.contains n then p.names else p.names ++ [n] | none => p.names }
    (p', observe p')
  match ws with
  | ["reset"] => (init, "ok")
  | ["newclass"] => go .newClass none
  | ["addfeat", c, n] => (match c.toNat?, n.toNat? with | some c, some n => go (.addFeat c n) (some n) | _, _ => (p, "bad-op"))
  | ["removefeat", c, n] => (match c.toNat?, n.toNat? with | some c, some n => go (.removeFeat c n) none | _, _ => (p, "bad-op"))
  | ["addop", c, n] => (match c.toNat?, n.toNat? with | some c, some n => go (.addOp c n) (some n) | _, _ => (p, "bad-op"))
  | ["removeop", c, n] => (match c.toNat?, n.toNat? with | some c, some n => go (.removeOp c n) none | _, _ => (p, "bad-op"))
  | ["addsuper", c, s, f] => (match c.toNat?, s.toNat? with | some c, some s => go (.addSuper c s (f == "1")) none | _, _ => (p, "bad-op"))
  | ["removesuper", c, s] => (match c.toNat?, s.toNat? with | some c, some s => go (.removeSuper c s) none | _, _ => (p, "bad-op"))
  | ["newinst", c] => (match c.toNat? with | some c => go (.newInst c) none | _ => (p, "bad-op"))
  | ["touch", i, n] => (match i.toNat?, n.toNat? with | some i, some n => go (.touch i n) none | _, _ => (p, "bad-op"))
  | _ => (p, "bad-op")

end Cls.Proto
