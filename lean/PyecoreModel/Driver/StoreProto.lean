import PyecoreModel.Model.Store
import PyecoreModel.Model.SetOps
import PyecoreModel.Model.StoreNav
import PyecoreModel.Model.Commands
import PyecoreModel.Model.Compound
/-! Line protocol for the Store model (C01 C02 C03 C05 C07 C11 C19).  Same records as `harness/store.py::World`. -/
namespace Store.Proto
open Store

structure S where
  feats   : Array Feature := #[]
  supers  : Array (List Cid) := #[]
  abstr   : Array Bool := #[]
  st      : St := {}
  cs      : CStack := {}
  ks      : KStack := {}

def init : S := {}

def subFuel (supers : Array (List Cid)) : Nat → Cid → Cid → Bool
  | 0, c, t => c == t
  | n + 1, c, t => c == t || ((supers.getD c []).any fun p => subFuel supers n p t)

def S.mm (p : S) : MM :=
  { feat := fun f => p.feats.getD f default
    nFeat := p.feats.size
    sub := fun c t => subFuel p.supers p.supers.size c t
    abstr := fun c => p.abstr.getD c false
    nCls := p.supers.size }

def kv (w : String) : Option (String × String) :=
  match w.splitOn "=" with
  | [k, v] => some (k, v)
  | _ => none

def lookupKV (ws : List String) (k : String) : Option String :=
  (ws.filterMap kv).lookup k

def parseVal (t : String) : Option PyVal :=
  if t == "n" then some .none else
  match t.splitOn ":" with
  | ["o", r] => r.toNat?.map .obj
  | ["i", r] => r.toInt?.map .int
  | ["b", r] => some (.bool (r == "1"))
  | "s" :: rest => some (.str (":".intercalate rest))
  | ["x", r] => some (.other r)
  | _ => none

def fmtVal : PyVal → String
  | .none => "n" | .bool b => if b then "b:1" else "b:0" | .int i => s!"i:{i}" | .str s => "s:" ++ s
  | .obj o => s!"o:{o}" | .other k => "x:" ++ k

def parseVals (ts : List String) : Option (List PyVal) := ts.mapM parseVal

def dump (p : S) : String :=
  let mm := p.mm
  let s := p.st
  let objs := (List.range s.nObj).map fun o =>
    let fs := (List.range mm.nFeat).filterMap fun f =>
      if mm.sub (s.cls o) (mm.feat f).owner then
        some (s!"f{f}=" ++ ",".intercalate
          (if (mm.feat f).isRef then (s.rs o f).map (fun y => s!"o:{y}") else (s.as o f).map fmtVal))
      else none
    let c := match s.cont o with | some (q, f) => s!"{q}.{f}" | none => "-"
    let r := match s.eres o with | some r => toString r | none => "-"
    s!"o{o}[{" ".intercalate fs} c={c} r={r}]"
  let ress := (List.range s.nRes).map fun r => s!"r{r}[{",".intercalate ((s.rcont r).map toString)}]"
  " ".intercalate (objs ++ ress)

def parseOp (ws : List String) : Option Op :=
  match ws with
  | ["new", c] => c.toNat?.map .new
  | ["res"] => some .res
  | ["rappend", r, o] => do pure (.rappend (← r.toNat?) (← o.toNat?))
  | ["rremove", r, o] => do pure (.rremove (← r.toNat?) (← o.toNat?))
  | ["delete", o, r] => do pure (.delete (← o.toNat?) (r == "1"))
  | ["set", x, f, v] | ["eset", x, f, v] => do pure (.set (← x.toNat?) (← f.toNat?) (← parseVal v))
  | ["del", x, f] => do pure (.del (← x.toNat?) (← f.toNat?))
  | ["add", x, f, v] => do pure (.add (← x.toNat?) (← f.toNat?) (← parseVal v))
  | ["insert", x, f, i, v] => do pure (.insert (← x.toNat?) (← f.toNat?) (← i.toInt?) (← parseVal v))
  | ["remove", x, f, v] => do pure (.remove (← x.toNat?) (← f.toNat?) (← parseVal v))
  | ["pop", x, f, i] => do pure (.pop (← x.toNat?) (← f.toNat?) (← i.toInt?))
  | ["popd", x, f] => do pure (.pop (← x.toNat?) (← f.toNat?) (-1))
  | ["clear", x, f] => do pure (.clear (← x.toNat?) (← f.toNat?))
  | ["setitem", x, f, i, v] => do pure (.setItem (← x.toNat?) (← f.toNat?) (← i.toInt?) (← parseVal v))
  | ["delitem", x, f, i] => do pure (.delItem (← x.toNat?) (← f.toNat?) (← i.toInt?))
  | "extend" :: x :: f :: vs | "iadd" :: x :: f :: vs | "ior" :: x :: f :: vs => do pure (.extend (← x.toNat?) (← f.toNat?) (← parseVals vs))
  | "assign" :: x :: f :: vs => do pure (.assign (← x.toNat?) (← f.toNat?) (← parseVals vs))
  | _ => none

def parseSetOp (ws : List String) : Option SetOp :=
  match ws with
  | ["discard", x, f, v] => do pure (.discard (← x.toNat?) (← f.toNat?) (← parseVal v))
  | "diffupd" :: x :: f :: vs | "isub" :: x :: f :: vs => do pure (.diffUpd (← x.toNat?) (← f.toNat?) (← parseVals vs))
  | "interupd" :: x :: f :: vs | "iand" :: x :: f :: vs => do pure (.interUpd (← x.toNat?) (← f.toNat?) (← parseVals vs))
  | "symupd" :: x :: f :: vs | "ixor" :: x :: f :: vs => do pure (.symUpd (← x.toNat?) (← f.toNat?) (← parseVals vs))
  | "setslice" :: x :: f :: a :: b :: vs => do
    pure (.setSlice (← x.toNat?) (← f.toNat?) (← a.toNat?) (← b.toNat?) (← parseVals vs))
  | ["delslice", x, f, a, b] => do pure (.setSlice (← x.toNat?) (← f.toNat?) (← a.toNat?) (← b.toNat?) [])
  | ["imul", x, f, n] => do pure (.imul (← x.toNat?) (← f.toNat?) (← n.toInt?))
  | _ => none

def renderPath (p : Path) : String :=
  let root := match p.root with | none => "/" | some k => s!"/{k}"
  root ++ "".intercalate (p.segs.map fun (f, i) => match i with
    | none => s!"/@f{f}"
    | some k => s!"/@f{f}.{k}")

/-- `extract_rootnum_and_frag` + the segment syntax of `_navigate_from` (feature names are `f<fid>`) -/
def parsePath (t : String) : Option Path :=
  let parts := (t.splitOn "/").filter (· ≠ "")
  let (root, rest) := match parts with
    | h :: tl => match h.toNat? with
      | some k => (some k, tl)
      | none => (none, parts)
    | [] => (none, [])
  let segs := rest.mapM fun seg =>
    if seg.startsWith "@f" then
      match (seg.drop 2).toString.splitOn "." with
      | [f] => f.toNat?.map fun f => (f, none)
      | [f, i] => do pure ((← f.toNat?), some (← i.toNat?))
      | _ => none
    else none
  segs.map fun sg => { root := root, segs := sg }

def fmtOids (l : List Oid) : String := ",".intercalate (l.map toString)

def query (p : S) (ws : List String) : Option String :=
  let mm := p.mm
  let s := p.st
  match ws with
  | ["frag", o] => o.toNat?.map fun o => renderPath (frag mm s s.nObj o)
  | ["resolve", r, t] => do
    let r ← r.toNat?
    match parsePath t with
    | none => pure "unparsed"
    | some path => pure (match resolve mm s r path with | some o => s!"o:{o}" | none => "none")
  | ["contents", o] => o.toNat?.map fun o => fmtOids ((children mm s o).mergeSort (· ≤ ·))
  | ["allcontents", o] => o.toNat?.map fun o => fmtOids ((eAllContents mm s o).mergeSort (· ≤ ·))
  | ["root", o] => o.toNat?.map fun o => s!"o:{eRoot s s.nObj o}"
  | _ => none

def b01 (s : Option String) : Bool := s == some "1"

def step (p : S) (line : String) : S × String :=
  let ws := (line.splitOn " ").filter (· ≠ "")
  match ws with
  | ["reset"] => (init, "ok")
  | "mm" :: "class" :: _cid :: rest =>
    let sup := match lookupKV rest "supers" with
      | some "-" | none => []
      | some l => (l.splitOn ",").filterMap String.toNat?
    ({ p with supers := p.supers.push sup, abstr := p.abstr.push (b01 (lookupKV rest "abstract")) }, "ok")
  | "mm" :: "feat" :: _fid :: rest =>
    let ty := (lookupKV rest "type").getD ""
    let (tcls, tdt) := match ty.splitOn ":" with
      | ["cls", c] => (c.toNat?.getD 0, "")
      | ["dt", d] => (0, d)
      | _ => (0, "")
    let F : Feature :=
      { owner := ((lookupKV rest "owner").bind String.toNat?).getD 0
        isRef := b01 (lookupKV rest "ref"), many := b01 (lookupKV rest "many")
        ordered := b01 (lookupKV rest "ordered"), unique := b01 (lookupKV rest "unique")
        cont := b01 (lookupKV rest "cont"), tcls := tcls, tdt := tdt
        opp := (lookupKV rest "opp").bind String.toNat?
        dflt := match (lookupKV rest "dflt").bind parseVal with
          | some .none | none => none
          | some v => some v }
    ({ p with feats := p.feats.push F }, "ok")
  | ["mm", "end"] => (p, "ok")
  | "q" :: rest => (p, match query p rest with | some r => r | none => "bad-op")
  | ["insertbad", x, f, _kind, v] =>
    -- `insert(pos, v)` with a position that is no integer: the value is checked first (BadValueError), then the position
    -- is refused (TypeError) — before anything is touched
    match x.toNat?, f.toNat?, parseVal v with
    | some x, some f, some v =>
      let r := Store.step p.mm p.st (.insert x f 0 v)
      let out := match r.2 with
        | .error .attributeError => "err AttributeError"
        | .error .badValue => "err BadValueError"
        | _ => "err TypeError"
      (p, out ++ " | " ++ dump p)
    | _, _, _ => (p, "bad-op")
  | "kcmd" :: rest =>
    -- `kcmd exec <spec> ;; <spec> ;; …` (a Compound of the specs, possibly none), `kcmd undo`, `kcmd redo`
    let optInt (t : String) : Option (Option Int) := if t == "-" then some none else t.toInt?.map some
    let optVal (t : String) : Option (Option PyVal) := if t == "-" then some none else (parseVal t).map some
    let spec (ws : List String) : Option Spec := match ws with
      | ["Set", x, f, v] => do pure (.set (← x.toNat?) (← f.toNat?) (← parseVal v))
      | ["Add", x, f, v, i] => do pure (.add (← x.toNat?) (← f.toNat?) (← parseVal v) (← optInt i))
      | ["Remove", x, f, v, i] => do pure (.remove (← x.toNat?) (← f.toNat?) (← optVal v) (← optInt i))
      | ["Move", x, f, a, b, v] => do pure (.move (← x.toNat?) (← f.toNat?) (← optInt a) (← b.toInt?) (← optVal v))
      | _ => none
    let rec groups (ws : List String) (cur : List String) (acc : List (List String)) : List (List String) :=
      match ws with
      | [] => (if cur.isEmpty then acc else cur.reverse :: acc).reverse
      | w :: t => if w == ";;" then groups t [] (cur.reverse :: acc) else groups t (w :: cur) acc
    let letter : Option KLetter := match rest with
      | ["undo"] => some .undo
      | ["redo"] => some .redo
      | "exec" :: ws => ((groups ws [] []).mapM spec).map .exec
      | _ => none
    match letter with
    | none => (p, "bad-op")
    | some l =>
      let (ks', st', out) := kstep p.mm p.ks p.st l
      let p' := { p with ks := ks', st := st' }
      (p', out ++ s!" n={ks'.n} len={ks'.stack.length} | " ++ dump p')
  | "cmd" :: rest =>
    let optInt (t : String) : Option (Option Int) := if t == "-" then some none else t.toInt?.map some
    let optVal (t : String) : Option (Option PyVal) := if t == "-" then some none else (parseVal t).map some
    let letter : Option Letter := match rest with
      | ["undo"] => some .undo
      | ["redo"] => some .redo
      | ["exec", "Set", x, f, v] => do pure (.exec (.set (← x.toNat?) (← f.toNat?) (← parseVal v)))
      | ["exec", "Add", x, f, v, i] => do pure (.exec (.add (← x.toNat?) (← f.toNat?) (← parseVal v) (← optInt i)))
      | ["exec", "Remove", x, f, v, i] => do pure (.exec (.remove (← x.toNat?) (← f.toNat?) (← optVal v) (← optInt i)))
      | ["exec", "Move", x, f, a, b, v] => do
        pure (.exec (.move (← x.toNat?) (← f.toNat?) (← optInt a) (← b.toInt?) (← optVal v)))
      | _ => none
    match letter with
    | none => (p, "bad-op")
    | some l =>
      let (cs', st', out) := cstep p.mm p.cs p.st l
      let p' := { p with cs := cs', st := st' }
      (p', out ++ s!" n={cs'.n} len={cs'.stack.length} | " ++ dump p')
  | _ =>
    match (parseOp ws).map Sum.inl <|> (parseSetOp ws).map Sum.inr with
    | none => (p, "bad-op")
    | some op =>
      let (s', r) := Store.stepAny p.mm p.st op
      let p' := { p with st := s' }
      let out := match r with
        | .ok (some v) => "ok " ++ fmtVal v
        | .ok none => "ok -"
        | .error e => "err " ++ e.name
      (p', out ++ " | " ++ dump p')

end Store.Proto
