import PyecoreModel.Model.Static
/-! Line protocol for the static-definition model (C13): one class body per line. -/
namespace Static.Proto
open Static

def b (c : Char) : Bool := c == '1'
def csv (t : String) : List String := if t == "-" then [] else t.splitOn ","
def opt (t : String) : Option String := if t == "-" then none else some t

def parseItem (t : String) : Option (String × Item) :=
  match t.splitOn ":" with
  | ["F", key, nm, flags, typ, opp, dflt] =>
    (match flags.toList with
    | [r, m, o, u, c] => some (key, .feat ⟨opt nm, b r, b m, b o, b u, b c, typ, opt opp, opt dflt⟩)
    | _ => none)
  | ["M", key, fname, kind, nd, args] =>
    let k := match kind with | "function" => Ops.Kind.function | "static" => .staticMethod | "class" => .classMethod | _ => .other
    nd.toNat?.map fun nd => (key, .func k fname (csv args) nd)
  | ["O", key] => some (key, .other)
  | _ => none

def f01 (x : Bool) : String := if x then "1" else "0"

def fmt (c : CDescr) : String :=
  let fs := c.feats.map fun f =>
    s!"{f.name}:{f01 f.isRef}{f01 f.many}{f01 f.ordered}{f01 f.unique}{f01 f.cont}:{f.typ}:{f.opp.getD "-"}:{f.dflt.getD "-"}"
  let os := c.ops.map fun o => o.name ++ "(" ++ ",".intercalate (o.params.map fun p => p.name ++ (if p.required then ":r" else ":o")) ++ ")"
  let j (l : List String) := if l.isEmpty then "-" else ";".intercalate l
  s!"{c.name} {f01 c.abstr} supers={if c.supers.isEmpty then "-" else ",".intercalate c.supers} feats={j fs} ops={j os}"

def step (_ : Unit) (line : String) : Unit × String :=
  let ws := (line.splitOn " ").filter (· ≠ "")
  let out := match ws with
    | "body" :: name :: ab :: bases :: items =>
      (match items.mapM parseItem with
      | none => "bad-op"
      | some its => fmt (promote ⟨name, csv bases, ab == "1", its⟩))
    | _ => "bad-op"
  ((), out)

end Static.Proto
