import PyecoreModel.Model.Codec
/-! Line protocol for C17: the modelled converters. -/
namespace Codec.Proto
open Codec

def fmtDT (d : DT) : String :=
  let tz := match d.tz with
    | none => "-"
    | some t => s!"{if t.neg then "-" else "+"},{t.hh},{t.mm},{t.ss},{t.us}"
  s!"{d.Y},{d.M},{d.D},{d.h},{d.m},{d.s},{d.us},{tz}"

def parseDT (ws : List String) : Option DT :=
  match ws with
  | [y, mo, d, h, mi, s, us, "-"] => do
    pure ⟨← y.toNat?, ← mo.toNat?, ← d.toNat?, ← h.toNat?, ← mi.toNat?, ← s.toNat?, ← us.toNat?, none⟩
  | [y, mo, d, h, mi, s, us, sg, th, tm, ts, tu] => do
    pure ⟨← y.toNat?, ← mo.toNat?, ← d.toNat?, ← h.toNat?, ← mi.toNat?, ← s.toNat?, ← us.toNat?,
          some ⟨sg == "-", ← th.toNat?, ← tm.toNat?, ← ts.toNat?, ← tu.toNat?⟩⟩
  | _ => none

def step (u : Unit) (line : String) : Unit × String :=
  let ws := (line.splitOn " ").filter (· ≠ "")
  (u, match ws with
  | ["intto", n] => (match n.toInt? with | some n => intTo n | none => "bad-op")
  | ["intfrom", s] => (match intFrom s with | some n => toString n | none => "error")
  | ["boolto", b] => boolTo (b == "1")
  | ["boolfrom", s] => if boolFrom s then "1" else "0"
  | "datefmt" :: rest => (match parseDT rest with | some d => String.ofList (fmtDate d) | none => "bad-op")
  | ["dateparse", s] => (match parseDate s.toList with | some d => fmtDT d | none => "error")
  | _ => "bad-op")

end Codec.Proto
