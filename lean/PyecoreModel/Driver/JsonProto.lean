import PyecoreModel.Model.JsonValues
import PyecoreModel.Driver.XmiProto
import PyecoreModel.Driver.CodecProto
/-! Line protocol for the JSON value layer (C09). -/
namespace Json.Proto
open Json

def enumNames : List String := ["A", "B", "SHARED"]

def parseAV (t : String) : Option (Option AV) :=
  if t == "N" then some none else
  match t.splitOn ":" with
  | ["b", x] => some (some (.bool (x == "1")))
  | ["i", x] => x.toInt?.map fun i => some (.int i)
  | ["s", x] => some (some (.str (String.ofList (Xmi.Proto.decStr x))))
  | ["l", k] => k.toNat?.map fun k => some (.lit enumNames k)
  | ["d", x] => (Codec.Proto.parseDT (x.splitOn ",")).map fun d => some (.date d)
  | _ => none

def fmtJV : JV → String
  | .null => "null" | .bool b => if b then "true" else "false" | .int i => toString i | .float t => s!"float{t}"
  | .str s => "str:" ++ Xmi.Proto.encStr s.toList
  | .arr _ => "arr"

def step (u : Unit) (line : String) : Unit × String :=
  let ws := (line.splitOn " ").filter (· ≠ "")
  (u, match ws with
  | ["one", sd, d, v] =>
    (match parseAV d, parseAV v with
     | some d, some v =>
       (match encodeOne (sd == "1") d v with
        | .absent => "absent" | .nil => "null" | .attr j => fmtJV j)
     | _, _ => "bad-op")
  | _ => "bad-op")

end Json.Proto
