import PyecoreModel.Model.Operations
/-! Line protocol for the operations model (C20). -/
namespace Ops.Proto
open Ops

def parseParam (t : String) : Option Param :=
  match t.splitOn ":" with
  | [n, "r"] => some ⟨n, true⟩
  | [n, "o"] => some ⟨n, false⟩
  | _ => none

def fmtSig (s : List SigP) : String :=
  ",".intercalate (s.map fun p => if p.dflt then p.name ++ "=" else p.name)

def step (_ : Unit) (line : String) : Unit × String :=
  let ws := (line.splitOn " ").filter (· ≠ "")
  let out := match ws with
    | ["norm", n] => normalizedName n
    | "sig" :: n :: ps =>
      (match ps.mapM parseParam with
      | none => "bad-op"
      | some params =>
        let op : Op := ⟨n, params⟩
        let s := sigOf op
        let calls := (List.range (s.length + 2)).map fun k =>
          match callStub op k with | .typeError => "T" | .notImplemented => "N"
        s!"{normalizedName n} | {fmtSig (bound s)} | {"".intercalate calls} | {if validDef s then "valid" else "invalid"}")
    | "fun" :: key :: fname :: kind :: nd :: args =>
      (match nd.toNat? with
      | none => "bad-op"
      | some nd =>
        let k := match kind with | "function" => Kind.function | "static" => .staticMethod | "class" => .classMethod | _ => .other
        match promote ⟨key, fname, k, args, nd⟩ with
        | none => "skip"
        | some op => "op " ++ op.name ++ " " ++ " ".intercalate (op.params.map fun p => p.name ++ (if p.required then ":r" else ":o")))
    | _ => "bad-op"
  ((), out)

end Ops.Proto
