import PyecoreModel.Model.OSet
/-! Line protocol for C04: drives `Py.OSet` (unique declarations) or the list specification (non-unique). -/
namespace Py.OSetProto

structure S where
  unique : Bool := true
  univ   : Nat := 0
  oset   : OSet Nat := OSet.empty
  list   : List Nat := []

def init : S := {}

def fmtOpt (o : Option Nat) : String := match o with | some v => toString v | none => "-"

def window (n : Nat) : List Int :=
  (List.range (2 * (n + 2) + 1)).map (fun (k : Nat) => (k : Int) - ((n : Int) + 2))

/-- canonical observation: `list(c)`, `c.index(x)` / `x in c` for every x of the universe, `c[i]` on a window -/
def observe (s : S) : String :=
  let items := if s.unique then s.oset.items else s.list
  let idx := (List.range s.univ).map (fun x =>
    if s.unique then fmtOpt (s.oset.index x) else fmtOpt (pyIndex s.list x))
  let mem := (List.range s.univ).map (fun x =>
    if s.unique then (if s.oset.contains x then "1" else "0") else (if s.list.contains x then "1" else "0"))
  let gets := (window items.length).map (fun i =>
    if s.unique then fmtOpt (s.oset.getItem i) else fmtOpt (pyGet s.list i))
  s!"items={",".intercalate (items.map toString)} len={if s.unique then s.oset.len else s.list.length} idx={",".intercalate idx} in={"".intercalate mem} get={",".intercalate gets}"

def parseOp (ws : List String) : Option (COp Nat) :=
  match ws with
  | ["add", x] => x.toNat?.map .add
  | ["insert", i, x] => do let i ← i.toInt?; let x ← x.toNat?; pure (.insert i x)
  | ["pop", i] => i.toInt?.map .pop
  | ["remove", x] => x.toNat?.map .remove
  | ["discard", x] => x.toNat?.map .discard
  | ["clear"] => some .clear
  | ["setitem", i, x] => do let i ← i.toInt?; let x ← x.toNat?; pure (.setItem i x)
  | ["delitem", i] => i.toInt?.map .delItem
  | _ => none

def fmtOut (r : Except Err (Option Nat)) : String :=
  match r with
  | .ok (some v) => s!"ok {v}"
  | .ok none => "ok -"
  | .error e => s!"err {e.name}"

def step (s : S) (line : String) : S × String :=
  let ws := (line.splitOn " ").filter (· ≠ "")
  match ws with
  | ["reset", u, n] =>
    match u.toNat?, n.toNat? with
    | some u, some n => let s' : S := { unique := u == 1, univ := n }; (s', "ok - " ++ observe s')
    | _, _ => (s, "bad-op")
  | ["delslice", a, b, k] =>
    -- `del c[a:b:k]` on a list-like collection (`-` is an omitted bound); sets refuse slices
    let ob (t : String) : Option (Option Int) := if t == "-" then some none else t.toInt?.map some
    match ob a, ob b, k.toInt? with
    | some a, some b, some k =>
      if s.unique || k == 0 then (s, "bad-op") else
      let s' := { s with list := pyDelSlice s.list a b k }
      (s', "ok - " ++ observe s')
    | _, _, _ => (s, "bad-op")
  | "extend" :: xs =>
    -- `extend` / `update` / `+=`: the elements are added one after the other (`C04_run` covers the sequence)
    match xs.mapM String.toNat? with
    | none => (s, "bad-op")
    | some xs =>
      let s' := xs.foldl (fun (s : S) x =>
        if s.unique then { s with oset := (s.oset.step (.add x)).1 } else { s with list := (listStep false s.list (.add x)).1 }) s
      (s', "ok - " ++ observe s')
  | _ =>
    match parseOp ws with
    | none => (s, "bad-op")
    | some op =>
      if s.unique then
        let (o', r) := s.oset.step op
        let s' := { s with oset := o' }
        (s', fmtOut r ++ " " ++ observe s')
      else
        let (l', r) := listStep false s.list op
        let s' := { s with list := l' }
        (s', fmtOut r ++ " " ++ observe s')

end Py.OSetProto
