import PyecoreModel.Model.NamedTree
/-! Line protocol for name-based fragments (C11): `tree <prefix form>` sets the tree — a node is `name arity` followed by its
children, names without blanks —, `frag i.j.k` answers the names joined by `/`, `resolve a/b/c` the position. -/
namespace NamedTree.Proto
open NamedTree

partial def parseNode (ws : List String) : Option (NT × List String) :=
  match ws with
  | n :: a :: rest =>
    match a.toNat? with
    | none => none
    | some k =>
      let rec kids (k : Nat) (ws : List String) (acc : List NT) : Option (List NT × List String) :=
        match k with
        | 0 => some (acc.reverse, ws)
        | k + 1 => match parseNode ws with
          | none => none
          | some (c, ws') => kids k ws' (c :: acc)
      (kids k rest []).map fun (ks, r) => (.node n ks, r)
  | _ => none

def fmtPos (p : List Nat) : String := ".".intercalate (p.map toString)

def step (t : NT) (line : String) : NT × String :=
  let ws := (line.splitOn " ").filter (· ≠ "")
  match ws with
  | "tree" :: rest => match parseNode rest with
    | some (t', []) => (t', "ok")
    | _ => (t, "bad-op")
  | ["frag"] => (t, match t.frag [] with | some ns => "#//" ++ "/".intercalate ns | none => "none")
  | ["frag", p] =>
    match ((p.splitOn ".").filter (· ≠ "")).mapM String.toNat? with
    | none => (t, "bad-op")
    | some pos => (t, match t.frag pos with | some ns => "#//" ++ "/".intercalate ns | none => "none")
  | ["resolve"] => (t, "")
  | ["resolve", f] =>
    (t, match t.resolve ((f.splitOn "/").filter (· ≠ "")) with | some p => fmtPos p | none => "none")
  | _ => (t, "bad-op")

end NamedTree.Proto
