import PyecoreModel.Model.JsonDoc
import PyecoreModel.Driver.XDocProto
/-! Line protocol for the JSON document model (C09): same metamodel lines and object S-expressions as `xdoc`;
JSON values as `(null)`, `(a <str>)`, `(arr v…)`, `(obj (k v)…)`. -/
namespace JDoc.Proto
open XDoc XDoc.Proto JDoc

partial def parseJV : Sexp → Option JV
  | .list [.atom "null"] => some .null
  | .list [.atom "a", .atom s] => (decStr s).map .atom
  | .list (.atom "arr" :: vs) => (vs.mapM parseJV).map .arr
  | .list (.atom "obj" :: es) => (es.mapM fun (e : Sexp) => match e with
      | Sexp.list [Sexp.atom k, v] => do pure ((← decStr k), (← parseJV v))
      | _ => none).map .obj
  | _ => none

partial def fmtJV : JV → String
  | .null => "(null)"
  | .atom a => s!"(a {encStr a})"
  | .arr l => "(arr" ++ "".intercalate (l.map fun v => " " ++ fmtJV v) ++ ")"
  | .obj l => "(obj" ++ "".intercalate (l.map fun (k, v) => s!" ({encStr k} {fmtJV v})") ++ ")"

def step (p : XDoc.Proto.S) (line : String) : XDoc.Proto.S × String :=
  let ws := tokenize line
  match ws with
  | "jenc" :: sd :: uu :: "(" :: rest =>
    let mm := p.mmx wsDefault true
    (match parseSexp ("(" :: rest) with
    | some (.list roots) =>
      (match roots.mapM parseNode with
      | some rs => (match jEncodeDoc mm ⟨sd == "1", uu == "1"⟩ (renderPath (rs.length == 1)) rs with
        | some es => (p, " ".intercalate (es.map fmtJV))
        | none => (p, "fail"))
      | none => (p, "bad-op"))
    | _ => (p, "bad-op"))
  | "jdec" :: sd :: uu :: "(" :: rest =>
    let mm := p.mmx wsDefault true
    (match parseSexp ("(" :: rest) with
    | some (.list es) =>
      (match es.mapM parseJV with
      | some es' => (match jDecodeDoc mm ⟨sd == "1", uu == "1"⟩ parsePath es' with
        | some rs => (p, " ".intercalate (rs.map fmtNode))
        | none => (p, "fail"))
      | none => (p, "bad-op"))
    | _ => (p, "bad-op"))
  | _ => XDoc.Proto.step p line

end JDoc.Proto
