import PyecoreModel.Model.XmiValues
/-! Line protocol for the XMI value layers (C08).  Strings travel as comma-separated code points. -/
namespace Xmi.Proto
open Xmi

/-- Python's `str.isspace()` for one character -/
def pyIsSpace (c : Char) : Bool :=
  let n := c.toNat
  (9 ≤ n && n ≤ 13) || (28 ≤ n && n ≤ 32) || n == 133 || n == 160 || n == 5760 || (8192 ≤ n && n ≤ 8202) ||
    n == 8232 || n == 8233 || n == 8239 || n == 8287 || n == 12288

def decStr (t : String) : List Char :=
  if t == "_" then [] else (t.splitOn ",").filterMap fun x => x.toNat?.map Char.ofNat

def encStr (s : List Char) : String :=
  if s.isEmpty then "_" else ",".intercalate (s.map fun c => toString c.toNat)

def step (u : Unit) (line : String) : Unit × String :=
  let ws := (line.splitOn " ").filter (· ≠ "")
  (u, match ws with
  | "many" :: vals =>
    (match encodeMany pyIsSpace (vals.map decStr) with
     | none => "none"
     | some (.attr t) => "attr " ++ encStr t
     | some (.elements vs) => "elements " ++ " ".intercalate (vs.map encStr))
  | ["split", t] => "list " ++ " ".intercalate ((pySplit pyIsSpace (decStr t)).map encStr)
  | ["one", sd, d, v] =>
    let dec (t : String) : Option (List Char) := if t == "N" then none else some (decStr t)
    (match encodeOne (sd == "1") (dec d) (dec v) with
     | .absent => "absent" | .nil => "nil" | .attr x => "attr " ++ encStr x)
  | _ => "bad-op")

end Xmi.Proto
