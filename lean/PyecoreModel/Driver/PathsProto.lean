import PyecoreModel.Model.Paths
import PyecoreModel.Model.HrefText
/-! Line protocol for the path algebra (C14): `relpath <target> <start>`, `joinnorm <start> <rel>`; paths are separated by slashes. -/
namespace Paths.Proto
open Paths

def parseP (t : String) : Path := (t.splitOn "/").filter (· ≠ "")
def fmtAbs (p : Path) : String := "/" ++ "/".intercalate p
def fmtRel (p : Path) : String := "/".intercalate p

def step (u : Unit) (line : String) : Unit × String :=
  -- `hrefnorm <text>`: the text is everything after the first blank, blanks included
  if line.startsWith "hrefnorm " then
    (u, String.ofList (HrefText.normalize ((line.drop 9).toString.toList.filter (· ≠ '\n'))))
  else
  let ws := (line.splitOn " ").filter (· ≠ "")
  (u, match ws with
  | ["relpath", t, s] => fmtRel (relpath (parseP t) (parseP s))
  | ["joinnorm", s, r] => fmtAbs (normalize (join (parseP s) ((r.splitOn "/").filter (· ≠ ""))))
  | _ => "bad-op")

end Paths.Proto
