import PyecoreModel.Model.Notif
/-! Line protocol for C05's slot model: one slot, its mutators, the notifications each call emits. -/
namespace Py.SlotProto

structure S where
  kind : SlotKind := .list
  items : List Nat := []

def init : S := {}

def fmtList (l : List Nat) : String := ",".intercalate (l.map toString)

def fmtNotif (n : Notif Nat) : String := s!"{n.kind.name}:{fmtList n.old}>{fmtList n.new}"

def parseOp (ws : List String) : Option (SOp Nat) :=
  match ws with
  | ["assign", "none"] => some (.assign none)
  | ["assign", x] => x.toNat?.map fun x => .assign (some x)
  | ["append", x] => x.toNat?.map .append
  | ["insert", i, x] => do pure (.insert (← i.toInt?) (← x.toNat?))
  | ["remove", x] => x.toNat?.map .remove
  | ["pop", i] => i.toInt?.map .pop
  | ["clear"] => some .clear
  | "extend" :: xs => (xs.mapM String.toNat?).map .extend
  | ["setitem", i, x] => do pure (.setItem (← i.toInt?) (← x.toNat?))
  | ["delitem", i] => i.toInt?.map .delItem
  | _ => none

def step (s : S) (line : String) : S × String :=
  let ws := (line.splitOn " ").filter (· ≠ "")
  match ws with
  | ["reset", k] =>
    let kind := if k == "single" then SlotKind.single else if k == "set" then .set else .list
    ({ kind := kind, items := [] }, "ok items= notifs=")
  | _ =>
    match ws with
    | "setslice" :: a :: b :: ys =>
      (match a.toNat?, b.toNat?, ys.mapM String.toNat? with
       | some a, some b, some ys =>
         if s.kind == .list then
           let o := sliceStep s.items a b ys
           ({ s with items := o.items }, s!"ok items={fmtList o.items} notifs={";".intercalate (o.notifs.map fmtNotif)}")
         else (s, "bad-op")
       | _, _, _ => (s, "bad-op"))
    | ["extendself", _] =>
      -- `c.extend(c)` / `c += c`: the elements the collection had when the call was made
      let o := slotStep s.kind s.items (.extend s.items)
      ({ s with items := o.items },
       (if o.raised then "err" else "ok") ++ s!" items={fmtList o.items} notifs={";".intercalate (o.notifs.map fmtNotif)}")
    | ["setslicescalar", _, _, _] =>
      -- `l[a:b] = x` with `x` no iterable: TypeError of the list, before anything is reported (`SOut.err`)
      if s.kind == .list then (s, s!"err items={fmtList s.items} notifs=") else (s, "bad-op")
    | ["delslice3", a, b, k] =>
      (match a.toNat?, b.toNat?, k.toNat? with
       | some a, some b, some k =>
         if s.kind == .list then
           let o := delExtStep s.items a b k
           ({ s with items := o.items }, s!"ok items={fmtList o.items} notifs={";".intercalate (o.notifs.map fmtNotif)}")
         else (s, "bad-op")
       | _, _, _ => (s, "bad-op"))
    | "setslice3" :: a :: b :: k :: ys =>
      (match a.toNat?, b.toNat?, k.toNat?, ys.mapM String.toNat? with
       | some a, some b, some k, some ys =>
         if s.kind == .list then
           let o := setExtStep s.items a b k ys
           ({ s with items := o.items },
            (if o.raised then "err" else "ok") ++ s!" items={fmtList o.items} notifs={";".intercalate (o.notifs.map fmtNotif)}")
         else (s, "bad-op")
       | _, _, _, _ => (s, "bad-op"))
    | ["imul", n] =>
      (match n.toInt? with
       | some n =>
         if s.kind == .list then
           let r := slotRun .list (imulOps s.items n) s.items
           ({ s with items := r.1 }, s!"ok items={fmtList r.1} notifs={";".intercalate (r.2.map fmtNotif)}")
         else (s, "bad-op")
       | none => (s, "bad-op"))
    | _ =>
    match parseOp ws with
    | none => (s, "bad-op")
    | some op =>
      let o := slotStep s.kind s.items op
      ({ s with items := o.items },
       (if o.raised then "err" else "ok") ++ s!" items={fmtList o.items} notifs={";".intercalate (o.notifs.map fmtNotif)}")

end Py.SlotProto
