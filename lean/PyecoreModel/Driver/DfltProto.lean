import PyecoreModel.Model.Defaults
/-! Line protocol for C15 (`Model/Defaults.lean`). -/
namespace Dflt.Proto
open Dflt

structure S where
  src : Array Src := #[]
  st  : St := {}
  nObj : Nat := 3

def init : S := {}

def S.srcFn (p : S) : Nat → Src := fun f => p.src.getD f .none'

def fmtV (s : St) (v : V) : String :=
  match v with
  | .none => "n" | .imm i => s!"i:{i}" | .cell c => s!"c{c}=[{",".intercalate (((s.heap c).mergeSort (· ≤ ·)).map toString)}]"

/-- one line: per object and feature the `_isset` bit and the held value (`-` = no holder yet) -/
def dump (p : S) : String :=
  " ".intercalate ((List.range p.nObj).flatMap fun o => (List.range p.src.size).map fun f =>
    s!"{o}.{f}:{if p.st.isset o f then 1 else 0}:" ++ (match p.st.holder o f with | some v => fmtV p.st v | none => "-"))

def step (p : S) (line : String) : S × String :=
  let ws := (line.splitOn " ").filter (· ≠ "")
  let run (op : Op) : S × String :=
    let st' := Dflt.step p.srcFn p.st op
    let p' := { p with st := st' }
    (p', dump p')
  match ws with
  | ["reset", n, k] => ({ nObj := n.toNat?.getD 3, st := Dflt.init (k.toNat?.getD 0) }, "ok")
  | ["src", _f, kind] =>
    let s := match kind.splitOn ":" with
      | ["none"] => some Src.none'
      | ["imm", i] => i.toInt?.map Src.imm
      | ["shared", c] => c.toNat?.map Src.shared
      | ["factory"] => some (Src.factory [])
      | ["factory", l] => ((l.splitOn ",").filter (· ≠ "")).mapM String.toInt? |>.map Src.factory
      | _ => none
    match s with
    | some s => ({ p with src := p.src.push s }, "ok")
    | none => (p, "bad-op")
  | ["read", o, f] =>
    match o.toNat?, f.toNat? with
    | some o, some f =>
      let r := read p.srcFn p.st o f
      let p' := { p with st := r.2 }
      (p', fmtV r.2 r.1 ++ " | " ++ dump p')
    | _, _ => (p, "bad-op")
  | ["write", o, f, i] => match o.toNat?, f.toNat?, i.toInt? with
    | some o, some f, some i => run (.write o f i) | _, _, _ => (p, "bad-op")
  | ["writenone", o, f] => match o.toNat?, f.toNat? with
    | some o, some f => run (.writeNone o f) | _, _ => (p, "bad-op")
  | ["writefresh", o, f] => match o.toNat?, f.toNat? with
    | some o, some f => run (.writeFresh o f) | _, _ => (p, "bad-op")
  | ["del", o, f] => match o.toNat?, f.toNat? with
    | some o, some f => run (.del o f) | _, _ => (p, "bad-op")
  | ["mutate", o, f, k] => match o.toNat?, f.toNat?, k.toInt? with
    | some o, some f, some k => run (.mutateRead o f k) | _, _, _ => (p, "bad-op")
  | _ => (p, "bad-op")

end Dflt.Proto
