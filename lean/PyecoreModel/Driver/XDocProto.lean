import PyecoreModel.Model.XmiDoc
/-! Line protocol for the XMI document model (C08): metamodel lines, then `enc …` / `dec …` with trees as S-expressions.
Strings travel as comma-separated code points (`_` = empty string, `-` = None). -/
namespace XDoc.Proto
open XDoc

inductive Sexp | atom (s : String) | list (l : List Sexp)
deriving Repr, Inhabited

partial def parseList : List String → List Sexp → Option (List Sexp × List String)
  | [], _ => none
  | ")" :: rest, acc => some (acc.reverse, rest)
  | "(" :: rest, acc => match parseList rest [] with
    | some (l, rest') => parseList rest' (.list l :: acc)
    | none => none
  | a :: rest, acc => parseList rest (.atom a :: acc)

def parseSexp (ws : List String) : Option Sexp :=
  match ws with
  | "(" :: rest => match parseList rest [] with
    | some (l, []) => some (.list l)
    | _ => none
  | _ => none

def decStr (t : String) : Option Str :=
  if t == "_" then some [] else (t.splitOn ",").mapM fun c => c.toNat?.map Char.ofNat

def decOStr (t : String) : Option (Option Str) := if t == "-" then some none else (decStr t).map some

def encStr (s : Str) : String := if s.isEmpty then "_" else ",".intercalate (s.map fun c => toString c.toNat)
def encOStr : Option Str → String | none => "-" | some s => encStr s

structure S where
  mm : MMX := { nCls := 0, cname := fun _ => [], feats := fun _ => [], ws := fun c => c.isWhitespace }
  names : Array Str := #[]
  feats : Array (List FInfo) := #[]

def init : S := {}

def S.mmx (p : S) (wsCodes : List Nat) (json : Bool := false) : MMX :=
  { nCls := p.names.size, cname := fun c => p.names.getD c [], feats := fun c => p.feats.getD c [],
    ws := fun c => wsCodes.contains c.toNat, idText := if json then (fun s => s.drop 1) else (fun s => s) }

def parseFeat (t : String) : Option FInfo :=
  match t.splitOn ":" with
  | [n, k, m, d, tc, i, fl] => do
    let kind ← (match k with | "attr" => some FKind.attr | "ref" => some .ref | "cont" => some .cont | "skip" => some .skip | _ => none)
    pure { name := (← decStr n), kind := kind, many := m == "1", dflt := (← decOStr d), tcls := (← tc.toNat?), isId := i == "1", float := fl == "1" }
  | _ => none

/-! trees -/

def parsePathS : List Sexp → Option Path
  | .atom "p" :: .atom r :: segs => do
    let root ← r.toNat?
    let rec go : List Sexp → Option (List (Str × Option Nat))
      | [] => some []
      | .atom f :: .atom i :: t => do
        let f' ← decStr f
        let i' ← (if i == "-" then some none else i.toNat?.map some)
        let rest ← go t
        pure ((f', i') :: rest)
      | _ => none
    pure ⟨root, ← go segs⟩
  | _ => none

def parseSlot : Sexp → Option (Str × SlotV Path)
  | .list (.atom "none" :: .atom f :: []) => do pure ((← decStr f), .none)
  | .list (.atom "a1" :: .atom f :: .atom v :: []) => do pure ((← decStr f), .attr1 (← decStr v))
  | .list (.atom "aN" :: .atom f :: vs) => do
    let vs' ← vs.mapM fun | .atom v => decOStr v | _ => none
    pure ((← decStr f), .attrN vs')
  | .list (.atom "r1" :: .atom f :: .list p :: []) => do pure ((← decStr f), .ref1 (← parsePathS p))
  | .list (.atom "rN" :: .atom f :: ps) => do
    let ps' ← ps.mapM fun | .list p => parsePathS p | _ => none
    pure ((← decStr f), .refN ps')
  | .list (.atom "kids" :: .atom f :: []) => do pure ((← decStr f), .kids)
  | _ => none

partial def parseNode : Sexp → Option (SNode Path)
  | .list (.atom "n" :: .atom via :: .atom cls :: .atom uuid :: .list slots :: .list kids :: []) => do
    pure (.mk (← decStr via) (← cls.toNat?) (← decStr uuid) (← slots.mapM parseSlot) (← kids.mapM parseNode))
  | _ => none

def fmtPath (p : Path) : String :=
  s!"(p {p.root}" ++ "".intercalate (p.segs.map fun (f, i) => s!" {encStr f} {match i with | none => "-" | some k => toString k}") ++ ")"

def fmtSlot : Str × SlotV Path → String
  | (f, .none) => s!"(none {encStr f})"
  | (f, .attr1 v) => s!"(a1 {encStr f} {encStr v})"
  | (f, .attrN vs) => s!"(aN {encStr f}" ++ "".intercalate (vs.map fun v => " " ++ encOStr v) ++ ")"
  | (f, .ref1 t) => s!"(r1 {encStr f} {fmtPath t})"
  | (f, .refN ts) => s!"(rN {encStr f}" ++ "".intercalate (ts.map fun t => " " ++ fmtPath t) ++ ")"
  | (f, .kids) => s!"(kids {encStr f})"

partial def fmtNode : SNode Path → String
  | .mk via cls uuid slots kids =>
    s!"(n {encStr via} {cls} {encStr uuid} ({" ".intercalate (slots.map fmtSlot)}) ({" ".intercalate (kids.map fmtNode)}))"

partial def parseElem : Sexp → Option Elem
  | .list (.atom "e" :: .atom tag :: .atom type :: .atom uuid :: .atom nil :: .list attrs :: .atom text :: .list kids :: []) => do
    let attrs' ← attrs.mapM fun
      | .list (.atom k :: .atom v :: []) => do pure ((← decStr k), (← decStr v))
      | _ => none
    pure (.mk (← decStr tag) (← decOStr type) (← decOStr uuid) (nil == "1") attrs' (← decOStr text) (← kids.mapM parseElem))
  | _ => none

partial def fmtElem : Elem → String
  | .mk tag type uuid nil attrs text kids =>
    s!"(e {encStr tag} {encOStr type} {encOStr uuid} {if nil then "1" else "0"} ({" ".intercalate (attrs.map fun (k, v) => s!"({encStr k} {encStr v})")}) {encOStr text} ({" ".intercalate (kids.map fmtElem)}))"

def tokenize (s : String) : List String :=
  ((s.replace "(" " ( ").replace ")" " ) ").splitOn " " |>.filter (· ≠ "")

def wsDefault : List Nat := [9, 10, 11, 12, 13, 28, 29, 30, 31, 32, 133, 160, 5760, 8192, 8193, 8194, 8195, 8196, 8197, 8198, 8199,
  8200, 8201, 8202, 8232, 8233, 8239, 8287, 12288]

def step (p : S) (line : String) : S × String :=
  let ws := tokenize line
  match ws with
  | ["reset"] => (init, "ok")
  | "class" :: _cid :: name :: feats =>
    (match decStr name, feats.mapM parseFeat with
    | some n, some fs => ({ p with names := p.names.push n, feats := p.feats.push fs }, "ok")
    | _, _ => (p, "bad-op"))
  | "enc" :: sd :: uu :: "(" :: rest =>
    let mm := p.mmx wsDefault
    (match parseSexp ("(" :: rest) with
    | some (.list roots) =>
      (match roots.mapM parseNode with
      | some rs => (match encodeDoc mm ⟨sd == "1", uu == "1"⟩ (renderPath (rs.length == 1)) rs with
        | some es => (p, " ".intercalate (es.map fmtElem))
        | none => (p, "fail"))
      | none => (p, "bad-op"))
    | _ => (p, "bad-op"))
  | "dec" :: sd :: uu :: "(" :: rest =>
    let mm := p.mmx wsDefault
    (match parseSexp ("(" :: rest) with
    | some (.list es) =>
      (match es.mapM parseElem with
      | some es' => (match decodeDoc mm ⟨sd == "1", uu == "1"⟩ parsePath es' with
        | some rs => (p, " ".intercalate (rs.map fmtNode))
        | none => (p, "fail"))
      | none => (p, "bad-op"))
    | _ => (p, "bad-op"))
  | _ => (p, "bad-op")

end XDoc.Proto
