import PyecoreModel.Driver.OSetProto
import PyecoreModel.Driver.StoreProto
import PyecoreModel.Driver.SlotProto
import PyecoreModel.Driver.DfltProto
import PyecoreModel.Driver.CodecProto
import PyecoreModel.Driver.XmiProto
import PyecoreModel.Driver.JsonProto
import PyecoreModel.Driver.PathsProto
import PyecoreModel.Driver.ClsProto
import PyecoreModel.Driver.OpsProto
import PyecoreModel.Driver.StaticProto
import PyecoreModel.Driver.XDocProto
import PyecoreModel.Driver.JDocProto
import PyecoreModel.Driver.NTreeProto
/-!
Line-protocol driver over the executable model (`Model/*`, no Mathlib ⇒ links natively).
`driver <protocol>` reads one operation per line on stdin and prints one record per line.
-/

partial def loop {σ : Type} (h : IO.FS.Stream) (step : σ → String → σ × String) (s : σ) : IO Unit := do
  let line ← h.getLine
  if line.isEmpty then return ()
  let l := line.trimAscii.toString
  if l.isEmpty || l.startsWith "#" then loop h step s else
  let (s', out) := step s l
  IO.println out
  loop h step s'

def main (args : List String) : IO UInt32 := do
  let stdin ← IO.getStdin
  match args with
  | ["oset"] => loop stdin Py.OSetProto.step Py.OSetProto.init; return 0
  | ["jdoc"] => loop stdin JDoc.Proto.step XDoc.Proto.init; return 0
  | ["xdoc"] => loop stdin XDoc.Proto.step XDoc.Proto.init; return 0
  | ["static"] => loop stdin Static.Proto.step (); return 0
  | ["ops"] => loop stdin Ops.Proto.step (); return 0
  | ["cls"] => loop stdin Cls.Proto.step Cls.Proto.init; return 0
  | ["paths"] => loop stdin Paths.Proto.step (); return 0
  | ["jsonv"] => loop stdin Json.Proto.step (); return 0
  | ["xmiv"] => loop stdin Xmi.Proto.step (); return 0
  | ["codec"] => loop stdin Codec.Proto.step (); return 0
  | ["dflt"] => loop stdin Dflt.Proto.step Dflt.Proto.init; return 0
  | ["slot"] => loop stdin Py.SlotProto.step Py.SlotProto.init; return 0
  | ["store"] => loop stdin Store.Proto.step Store.Proto.init; return 0
  | ["ntree"] => loop stdin NamedTree.Proto.step (.node "" []); return 0
  | _ => IO.eprintln "usage: driver <oset|store>"; return 2
