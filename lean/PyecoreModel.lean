import PyecoreModel.Model.PyList
import PyecoreModel.Model.OSet
import PyecoreModel.Lemmas.OSet
import PyecoreModel.Properties.C04
