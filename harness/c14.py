"""C14 — references across resources reach the right object after a reload (DESIGN.md section 4)."""
import os
import shutil
import tempfile
from . import common, models
from .c08 import unproxy

LAYOUTS = [('a', 'b', 'c'), ('d1/a', 'd1/b', 'd1/c'), ('d1/a', 'd2/b', 'c'), ('d1/x/a', 'd2/b', 'd1/c'), ('a', 'd1/d2/d3/b', 'd1/c'),
           ('d1/m', 'd2/m', 'd3/m'),
           # directory and file names are free text: blanks
           ('a', 'my dir/b', 'my dir/other  dir/c'), ('my models/a 1', 'b', 'my models/c 2'),
           # a sibling directory whose name extends the referrer's directory name (model / model2, run1 / run10)
           ('model/a', 'model2/b', 'model/c'), ('run1/x/a', 'run10/b', 'run1/x2/c')]


def _refs(o):
    # eAllReferences() walks a *set* of supertypes: its order differs from run to run
    return sorted(o.eClass.eAllReferences(), key=lambda f: f.name)


def preorder(roots):
    out = []

    def walk(o):
        out.append(o)
        for f in sorted((f for f in _refs(o) if f.containment), key=lambda f: f.name):
            v = o.eGet(f)
            for c in (v if f.many else ([v] if v is not None else [])):
                walk(c)
    for r in roots:
        walk(r)
    return out


def build_world(rng, h, tmp, fmt, nres):
    """nres models over one metamodel, each in its own resource, with references across them"""
    from pyecore.resources import ResourceSet, URI
    sp = models.gen_mmspec(rng, h)
    built = models.build(sp)
    ms = [models.gen_model(rng, sp, built=built, nobj=rng.randint(2, 5), values='safe') for _ in range(nres)]
    layout = LAYOUTS[h % len(LAYOUTS)]
    rset = ResourceSet()
    paths = []
    for k, m in enumerate(ms):
        p = os.path.join(tmp, f'{layout[k]}.{fmt}')
        os.makedirs(os.path.dirname(p), exist_ok=True)
        res = rset.create_resource(URI(p))
        # each resource chooses its own addressing: uuids or positions / id attributes (every mix across the files)
        res.use_uuid = rng.random() < .3
        for r in m.roots:
            res.append(r)
        paths.append(p)
    # cross references: plain (non-containment) references to objects of the other models, mixed with local ones
    ncross = 0
    for k, m in enumerate(ms):
        others = [o for j, mo in enumerate(ms) if j != k for o in mo.objs]
        for o in m.objs:
            for f in models.feats_of(sp, o._vname):
                if f['kind'] != 'ref' or f['cont']:
                    continue
                if f['opp'] and any(g['name'] == f['opp'] and g['cont'] for g in sp.feats):
                    continue
                targets = [t for t in others if models.conforms(sp, t._vname, f['type'])]
                if not targets or rng.random() < .5:
                    continue
                if f['many']:
                    for t in rng.sample(targets, min(len(targets), rng.randint(1, 2))):
                        getattr(o, f['name']).append(t); ncross += 1
                elif getattr(o, f['name']) is None:
                    setattr(o, f['name'], rng.choice(targets)); ncross += 1
    return sp, built, ms, rset, paths, ncross


def expected_links(ms):
    """(resource k, position i, feature) -> [(resource, position)] from the original objects"""
    where = {}
    for k, m in enumerate(ms):
        for i, o in enumerate(preorder(m.roots)):
            where[id(o)] = (k, i)
    exp = {}
    for k, m in enumerate(ms):
        for i, o in enumerate(preorder(m.roots)):
            for f in _refs(o):
                if f.containment:
                    continue
                v = o.eGet(f)
                tg = list(v) if f.many else ([v] if v is not None else [])
                exp[(k, i, f.name)] = [where.get(id(t)) for t in tg]
    return exp


def run_case(ctx, h, tmp):
    from pyecore.resources import ResourceSet, URI
    rng = common.sub_rng(ctx.seed, 'C14', h)
    fmt = 'xmi' if h % 3 != 2 else 'json'
    nres = rng.choice([2, 2, 3])
    case_dir = os.path.join(tmp, f'case{h}')
    os.makedirs(case_dir)
    rep = {'case': h, 'format': fmt}
    try:
        sp, built, ms, rset, paths, ncross = build_world(rng, h, case_dir, fmt, nres)
        exp = expected_links(ms)
        for p in paths:
            rset.resources[URI(p).normalize()].save()
    except Exception as e:
        ctx.count('setup-raised/' + type(e).__name__)
        return
    ctx.evaluations += 1
    ctx.count('format/' + fmt)
    ctx.count(f'layout/{LAYOUTS[h % len(LAYOUTS)]}')
    if not ncross:
        return
    ctx.nontriv(h)
    start = rng.randrange(len(paths))
    rset2 = ResourceSet()
    rset2.metamodel_registry[built[0].nsURI] = built[0]
    problems = []
    try:
        first = rset2.get_resource(URI(paths[start]))
        objs_first = preorder(first.contents)
        # two references to the same target, one followed and one not yet: they compare equal, both ways
        groups = {}
        for i, o in enumerate(objs_first):
            for f in _refs(o):
                if f.containment:
                    continue
                v = o.eGet(f)
                vals = list(v) if f.many else ([v] if v is not None else [])
                for t in vals:
                    # (the same path read from the same resource names the same object)
                    if hasattr(t, '_proxy_path') and not t.resolved:
                        tgt = str(t._proxy_path)
                        groups.setdefault(tgt, [])
                        if not any(t is x for x in groups[tgt]):
                            groups[tgt].append(t)
        for tgt, ps in sorted(groups.items()):
            if len(ps) < 2:
                continue
            p_, q_ = ps[0], ps[1]
            _ = p_.eClass                      # followed
            ctx.count('proxy-pairs')
            ctx.evaluations += 1
            res_ = (p_ == q_, not (p_ != q_), q_ == p_, not (q_ != p_))
            if not all(res_):
                problems.append(('proxy-equality', f'two references to the same object of another resource, the first followed, the second '
                                 f'not yet: (a == b, not a != b, b == a, not b != a) = {res_}', 'none'))
            break
        # follow every reference of the first resource (this loads the others on demand) ...
        followed = {}
        for i, o in enumerate(objs_first):
            for f in _refs(o):
                if f.containment:
                    continue
                v = o.eGet(f)
                vals = list(v) if f.many else ([v] if v is not None else [])
                for t in vals:
                    _ = t.eClass           # touching the value resolves a proxy and loads its resource
                followed[(i, f.name)] = (f, v, vals)
        # ... then navigate the other resources directly
        direct = {}
        for k, p in enumerate(paths):
            r = rset2.get_resource(URI(p))
            direct[k] = preorder(r.contents)
        nres_loaded = len({id(r) for r in rset2.resources.values()})
        if nres_loaded > len(paths):
            problems.append(('extra-resource', f'{nres_loaded} distinct resources for {len(paths)} files: {sorted(rset2.resources)}'))
        for (i, fname), (f, coll, vals) in followed.items():
            want = exp.get((start, i, fname))
            if want is None:
                continue
            got_targets = []
            for t in vals:
                real = unproxy(t)
                hit = next(((k, j) for k in direct for j, d in enumerate(direct[k]) if d is real), None)
                got_targets.append(hit)
            if got_targets != want:
                mixed = len({k for (k, _) in want if k is not None}) > 1 or (any(k == start for (k, _) in want) and any(k != start for (k, _) in want))
                order_only = sorted(map(str, got_targets)) == sorted(map(str, want))
                problems.append(('wrong-target', f'object {i}.{fname}: reaches {got_targets}, saved {want}',
                                 'xmi-mixed-local-and-cross-order' if (fmt == 'xmi' and order_only and mixed) else 'none'))
                continue
            for t, (k, j) in zip(vals, want):
                d = direct[k][j]
                if not (t == d and d == t):
                    problems.append(('not-equal', f'object {i}.{fname}: the reference value does not compare equal to the instance'))
                elif hash(t) != hash(d):
                    problems.append(('hash-differs', f'object {i}.{fname}: hash(reference value) != hash(instance)', 'none'))
                elif f.many and not (d in coll):
                    was_proxy = hasattr(t, '_proxy_path')
                    problems.append(('membership', f'object {i}.{fname}: `instance in collection` is False for a collection holding it',
                                     'proxy-rehash-after-resolution' if (was_proxy and f.unique) else 'none'))
            # a write through the reference acts on the instance
            for t, (k, j) in zip(vals, want):
                d = direct[k][j]
                attr = next((a for a in d.eClass.eAllAttributes() if a.eType.name == 'EInt' and not a.many), None)
                if attr is not None:
                    t.eSet(attr.name, 4242)
                    if d.eGet(attr) != 4242:
                        problems.append(('write-through', f'object {i}.{fname}: a write through the reference did not reach the instance'))
                    # ... and so does `del`: the instance reads its default again
                    try:
                        delattr(t, attr.name)
                        if d.eGet(attr) == 4242:
                            problems.append(('write-through', f'object {i}.{fname}: `del` through the reference did not reach the instance'))
                    except Exception as e:
                        problems.append(('write-through', f'object {i}.{fname}: `del value.{attr.name}` through the reference raised {type(e).__name__}'))
                    break
        # the reference value used as a *value*: given to the same single-valued reference of another object of the loaded
        # resource, when that reference has an opposite: the instance's other end names the new holder
        if not [p for p in problems if (p[2] if len(p) == 3 else 'none') == 'none']:
            done = False
            for (i, fname), (f, coll, vals) in followed.items():
                want = exp.get((start, i, fname))
                if done or f.many or f.eOpposite is None or f.eOpposite.containment or want is None or len(want) != len(vals) or not vals:
                    continue
                t, wk = vals[0], want[0]
                if wk is None or wk[0] == start or not hasattr(t, '_proxy_path') or unproxy(t) is not direct[wk[0]][wk[1]]:
                    continue
                d = direct[wk[0]][wk[1]]
                others = [o for j, o in enumerate(direct[start]) if j != i and isinstance(o, f.eContainingClass.python_class)
                          and o.eGet(f) is None]
                if not others:
                    continue
                o2, g = others[0], f.eOpposite
                done = True
                ctx.count('value-of-reference-assigned')
                try:
                    o2.eSet(f, t)
                    back = d.eGet(g)
                    held = [unproxy(z) for z in (list(back) if g.many else ([back] if back is not None else []))]
                    if not any(z is o2 for z in held):
                        problems.append(('write-through', f'object {i}.{fname}: the reference value was given to another object\'s {fname}; '
                                         f'the instance\'s {g.name} does not name that object'))
                except Exception as e:
                    problems.append(('write-through', f'object {i}.{fname}: giving the reference value to another object\'s {fname} raised {type(e).__name__}'))
        # deletion through a reference acts on the instance: whichever way the target is deleted (through the reference
        # value or through the instance found by direct navigation), it leaves its container and nothing in the
        # loaded world refers to it any more
        if not [p for p in problems if (p[2] if len(p) == 3 else 'none') == 'none']:
            cands = [(i, fname, f, n, t, want[n]) for (i, fname), (f, coll, vals) in followed.items()
                     for want in [exp.get((start, i, fname))] if want is not None and len(want) == len(vals)
                     for n, t in enumerate(vals) if want[n] is not None and want[n][0] != start
                     and unproxy(t) is direct[want[n][0]][want[n][1]]]      # (order findings aside: the value really is that instance)
            if cands:
                # targets that contain other objects make recursive / non-recursive deletion differ: preferred
                rich = [c for c in cands if len(direct[c[5][0]][c[5][1]].eContents)]
                i, fname, f, n, t, (k, j) = rng.choice(rich if rich and rng.random() < .7 else cands)
                d = direct[k][j]
                was_proxy = hasattr(t, '_proxy_path')
                how = rng.choice(['through-reference', 'direct-instance'])
                ctx.count('delete/' + how)
                everything = [o for kk in direct for o in direct[kk]]

                def holders(targets=None):
                    tids = {id(d)} if targets is None else {id(x) for x in targets}
                    out = []
                    for o in everything:
                        if o is d:
                            continue
                        for g in _refs(o):
                            v = o.eGet(g)
                            vs = list(v) if g.many else ([v] if v is not None else [])
                            for x in vs:
                                # a proxy nobody ever followed is a path, not a reference to the instance: not judged
                                if id(x) in tids or (getattr(x, 'resolved', False) and id(getattr(x, '_wrapped', None)) in tids):
                                    out.append((o, g, x))
                    return out
                rec = rng.random() < .6

                def subtree(x):
                    out = [x]
                    for c in x.eContents:
                        out += subtree(c)
                    return out
                gone = {id(x) for x in (subtree(d) if rec else [d])}

                tid_cache = {}

                def target_id(x):
                    # whom a proxy stands for — asked of its resource for one nobody has followed, so that the proxy
                    # itself stays as it is (a deletion may follow it, and rightly drops it when it names the deleted)
                    if x.resolved:
                        return id(x._wrapped)
                    if id(x) not in tid_cache:        # (asked once, before the deletion: positions shift afterwards)
                        try:
                            tid_cache[id(x)] = id(x._proxy_resource.resolve_object(x._proxy_path))
                        except Exception:
                            tid_cache[id(x)] = None
                    return tid_cache[id(x)]

                def values():
                    snap = {}
                    for o in everything:
                        if id(o) in gone:
                            continue
                        for g in _refs(o):
                            v = o.eGet(g)
                            vs = list(v) if g.many else ([v] if v is not None else [])
                            snap[(id(o), g.name)] = [('proxy', x._proxy_path, target_id(x), id(x))
                                                     if hasattr(x, '_proxy_path') else ('obj', None, id(x), id(x)) for x in vs]
                    return snap

                def same_value(a, b):
                    # the same target: the same instance, or the same proxy (which the deletion may have resolved)
                    if a[0] == 'proxy' and b[0] == 'proxy':
                        return a[1] == b[1]
                    return a[2] is not None and a[2] == b[2]
                before_values = values()
                before_holders = holders(subtree(d) if rec else [d])      # a recursive delete also deletes the descendants
                ctx.count('delete/recursive' if rec else 'delete/non-recursive')
                rehash = lambda hs: bool(hs) and all(g.many and g.unique and hasattr(x, '_proxy_path') for (_o, g, x) in hs)

                def stale_sets():
                    # the condition of F-C14-1 anywhere in the loaded world: a unique collection that yields an element (a proxy
                    # hashed before it was followed) it can no longer find — whatever has to take anything out of such a
                    # collection, or renumber it, fails inside the ordered set
                    for o in everything:
                        for g in _refs(o):
                            if g.many and g.unique:
                                c = o.eGet(g)
                                if any(hasattr(x, '_proxy_path') and x not in c for x in list(c)):
                                    return True
                    return False
                stale_before = stale_sets()
                try:
                    (t if how == 'through-reference' else d).delete(recursive=rec)
                except Exception as e:
                    # F-C14-1's root cause (a proxy hashed before it was resolved cannot be found in its ordered set any more)
                    # also makes the removal itself fail
                    risky = [hd for hd in before_holders if hd[1].many and hd[1].unique and hasattr(hd[2], '_proxy_path')] or stale_before
                    problems.append(('deletion', f'object {i}.{fname}[{n}] deleted ({how}): raised {type(e).__name__}: {str(e)[:60]}',
                                     'proxy-rehash-after-resolution' if risky and isinstance(e, (KeyError, RuntimeError)) else 'none'))
                    raise StopIteration
                still = []
                if d.eContainer() is not None:
                    still.append('it still has a container')
                left = holders()
                for (o, g, x) in left:
                    still.append(f'{o.eClass.name}.{g.name} (many={g.many} unique={g.unique} opp={g.eOpposite is not None} via={type(x).__name__}) still refers to it')
                collateral = False
                if not still:
                    # ... and nothing else changed: every other feature value of every surviving object is what it was,
                    # minus the deleted objects (with recursive=False that is the target alone)
                    after_values = values()
                    # a proxy nobody had followed that named a deleted object by its position is a path, not a reference
                    # to the instance (the object could not know it): whatever that path names afterwards — a sibling
                    # that moved up, if something followed it meanwhile — is not judged, on either side
                    stale = {e[3] for was in before_values.values() for e in was if e[0] == 'proxy' and e[2] in gone}
                    for key, was in before_values.items():
                        want_now = [x for x in was if x[2] not in gone]
                        now = [x for x in after_values.get(key, []) if x[2] not in gone and x[3] not in stale]
                        if len(now) != len(want_now) or not all(same_value(a, b) for a, b in zip(want_now, now)):
                            o_ = next(o for o in everything if id(o) == key[0])
                            still.append(f'{o_.eClass.name}.{key[1]} of a surviving object changed beyond losing the deleted object'
                                         f'{"s" if rec else ""} (recursive={rec})')
                            collateral = True
                            break
                if still:
                    risky_before = [hd for hd in before_holders if hd[1].many and hd[1].unique and hasattr(hd[2], '_proxy_path')]
                    trig = 'proxy-rehash-after-resolution' if (not collateral and (risky_before or (d.eContainer() is None and left and rehash(left)))) else \
                           ('duplicate-in-list-like-reference' if (left and all(g.many and not g.unique for (_o, g, _x) in left)) else 'none')
                    problems.append(('deletion', f'object {i}.{fname}[{n}] deleted ({how}): ' + '; '.join(still[:3]), trig))
    except StopIteration:
        pass
    except Exception as e:
        import traceback
        tb = [l.strip() for l in traceback.format_exc().splitlines() if 'pyecore' in l]
        problems.append(('raised', f'{type(e).__name__}: {str(e)[:100]} at {tb[-1] if tb else ""}'))
    # report one problem per case, an unlisted kind first (so that a listed finding cannot hide a new one)
    problems = [p if len(p) == 3 else (p[0], p[1], 'none') for p in problems]
    problems.sort(key=lambda p: p[2] != 'none')
    for (clause, detail, trigger) in problems[:1]:
        ctx.violate({'clause': clause, 'format': fmt, 'trigger': trigger},
                    f'{clause}: {detail} [layout {LAYOUTS[h % len(LAYOUTS)]}, start {start}]', rep)
    if h < 2:
        ctx.sample({'case': h, 'format': fmt, 'files': [os.path.relpath(p, case_dir) for p in paths], 'cross_references': ncross})


def alias_case(ctx, tmp, fmt, k):
    """two directories using the *same relative path* for two different files, loaded in one resource set"""
    from pyecore import ecore as E
    from pyecore.resources import ResourceSet, URI
    pk = E.EPackage('al', f'http://verif/al{k}{fmt}', 'al')
    N = E.EClass('N')
    N.eStructuralFeatures.append(E.EAttribute('name', E.EString))
    N.eStructuralFeatures.append(E.EReference('to', N))
    N.eStructuralFeatures.append(E.EReference('tos', N, upper=-1))
    pk.eClassifiers.append(N)
    sub = ['common', 'x/y', '.'][k % 3]
    rset = ResourceSet()
    files = {}
    for d in ('d1', 'd2'):
        b = N(name=f'b-of-{d}')
        a = N(name=f'a-of-{d}')
        a.to = b
        a.tos.append(b)
        pa = os.path.join(tmp, f'al{k}', d, f'a.{fmt}')
        pb = os.path.normpath(os.path.join(tmp, f'al{k}', d, sub, f'b.{fmt}'))
        os.makedirs(os.path.dirname(pb), exist_ok=True)
        ra = rset.create_resource(URI(pa)); ra.append(a)
        rb = rset.create_resource(URI(pb)); rb.append(b)
        files[d] = (pa, pb)
    for r in list(rset.resources.values()):
        r.save()
    rset2 = ResourceSet()
    rset2.metamodel_registry[pk.nsURI] = pk
    ctx.evaluations += 1
    ctx.nontriv(('alias', fmt, k))
    try:
        for d in ('d1', 'd2'):
            a = rset2.get_resource(URI(files[d][0])).contents[0]
            for got in (a.to.name, a.tos[0].name):
                if got != f'b-of-{d}':
                    ctx.violate({'clause': 'wrong-file', 'format': fmt},
                                f'{d}/a.{fmt} refers to {sub}/b.{fmt} in its own directory but reaches {got!r} '
                                f'(resource keys: {sorted(os.path.relpath(x, tmp) if os.path.isabs(x) else x for x in rset2.resources)})',
                                {'case': f'alias-{k}', 'format': fmt})
                    return
    except Exception as e:
        ctx.violate({'clause': 'raised', 'format': fmt}, f'alias scenario raised {type(e).__name__}: {e}', {'case': f'alias-{k}', 'format': fmt})


def path_correspondence(ctx):
    """the Lean relpath / join+normalize against URI.relative_from_me / apply_relative_from_me + normalize"""
    from pyecore.resources import URI
    rng = common.sub_rng(ctx.seed, 'C14-paths')
    names = ['d1', 'd2', 'x', 'common', 'a.b', 'm', 'd10', 'x2', 'comm']
    model_in, expect = [], []

    def rnd():
        return '/t/' + '/'.join([rng.choice(names) for _ in range(rng.randint(0, 4))] + [rng.choice(['a.xmi', 'b.xmi', 'm.json'])])
    pairs = [(rnd(), rnd()) for _ in range(300 if ctx.quick() else 5000)]
    pairs += [('/t/a.xmi', '/t/a.xmi'), ('/t/d1/a.xmi', '/t/d1/b.xmi'), ('/a.xmi', '/b.xmi'), ('/t/d1/d2/d3/a.xmi', '/b.xmi')]
    for me, other in pairs:
        rel = URI(me).relative_from_me(URI(other))
        back = URI(URI(me).apply_relative_from_me(rel)).normalize()
        ctx.evaluations += 1
        model_in.append(f'relpath {other} {os.path.dirname(me)}'); expect.append((me, other, rel))
        model_in.append(f'joinnorm {os.path.dirname(me)} {rel}'); expect.append((me, other, back))
        if back != other:
            ctx.violate({'clause': 'href-path', 'format': '-', 'trigger': 'none'},
                        f'href from {me} to {other} is {rel!r} and reads back as {back}', {'case': 'paths', 'me': me, 'other': other})
    # the text of an href: `Resource.normalize` drops an announced type and nothing else (blanks belong to the path)
    from pyecore.resources.resource import Resource
    words = ['my dir', 'x  y', 'a', 'b.xmi', 'm 1.json', '..', 'd1', 'http:', 'C', 'tab\there']
    types = ['ecore:EClass', 'p:A', 'ns0:C1', 'x:y:z']
    frags = ['#//@kids.0', '#/', '#id 7', '#//A', '']
    for k in range(200 if ctx.quick() else 4000):
        uri = '/'.join(rng.choice(words) for _ in range(rng.randint(1, 4))) + rng.choice(frags)
        text = uri if rng.random() < .5 else rng.choice(types) + rng.choice([' ', '  ', ' \t']) + uri
        if rng.random() < .1:
            text = rng.choice(['a:b c', 'a:b', 'a:b/c d', 'x#y:z w', ':', ': x', 'a: ', 'p:A  '])
        if text != text.rstrip('\n') or '\n' in text or text.endswith(' ') or text.endswith('\t'):
            text = text.rstrip() or 'a'
        got_real = Resource.normalize(text)
        ctx.evaluations += 1
        ctx.count('href-text/' + ('typed' if text != got_real else 'as-written'))
        model_in.append('hrefnorm ' + text); expect.append((text, '-', got_real))
    out = common.run_driver('paths', model_in)
    for line, exp, got in zip(model_in, expect, out):
        me, other, want = exp
        if got != want and len(ctx.divergences) < 20:
            ctx.diverge(f'`{line}`: model `{got}` vs implementation `{want}`', {'me': me, 'other': other})
    ctx.traces += len(model_in)


def links_now(resources):
    """(resource k, position i, feature) -> [(resource, position)] of the loaded objects, proxies standing for their targets"""
    where = {}
    pre = [preorder(r.contents) for r in resources]
    for k, objs in enumerate(pre):
        for i, o in enumerate(objs):
            where[id(o)] = (k, i)
    out = {}
    for k, objs in enumerate(pre):
        for i, o in enumerate(objs):
            for f in _refs(o):
                if f.containment or f.derived:
                    continue
                v = o.eGet(f)
                tg = list(v) if f.many else ([v] if v is not None else [])
                out[(k, i, f.name)] = [where.get(id(unproxy(t))) for t in tg]
    return out


def resave_case(ctx, h, tmp):
    """load, follow, *edit*, save, reload: the files are all loaded in one resource set and every reference followed;
    then objects are inserted in front of referenced ones (their positions change); every file is saved again and one is
    reloaded in a fresh resource set — each reference must reach the object it reached before the save"""
    from pyecore.resources import ResourceSet, URI
    from pyecore.resources.json import JsonResource
    rng = common.sub_rng(ctx.seed, 'C14', 'resave', h)
    fmt = 'xmi' if h % 3 != 2 else 'json'
    case_dir = os.path.join(tmp, f'resave{h}')
    os.makedirs(case_dir)

    def fresh(built):
        r = ResourceSet()
        r.resource_factory['json'] = lambda uri: JsonResource(uri)
        r.metamodel_registry[built[0].nsURI] = built[0]
        return r
    try:
        sp, built, ms, rset, paths, ncross = build_world(rng, h, case_dir, fmt, rng.choice([2, 2, 3]))
        if h % 2 == 0 and rng.random() < .6:
            for p in paths:         # (ids instead of positions: what a re-save must keep stable)
                rset.resources[URI(p).normalize()].use_uuid = True
        for p in paths:
            rset.resources[URI(p).normalize()].save()
        rset2 = fresh(built)
        res2 = [rset2.get_resource(URI(p)) for p in paths]
        for r in res2:
            for o in preorder(r.contents):
                for f in _refs(o):
                    v = o.eGet(f)
                    for t in (list(v) if f.many else ([v] if v is not None else [])):
                        _ = t.eClass
    except Exception as e:
        ctx.count('resave/setup-raised/' + type(e).__name__)
        return
    if not ncross:
        return
    # a third of the cases: nothing is edited, and only the files *referred to* are saved again (a tool that loads a
    # model and writes it back): the referring file, untouched on disk, still reaches the same objects
    only_targets = h % 2 == 0
    start = rng.randrange(len(paths))
    # edit: a new sibling in front of the children of some containers
    edits = 0
    for r in (res2 if not only_targets else []):
        for o in preorder(r.contents):
            for f in _refs(o):
                if f.containment and f.many and len(o.eGet(f)) and rng.random() < .6:
                    first = o.eGet(f)[0]
                    try:
                        o.eGet(f).insert(0, first.eClass())
                        edits += 1
                    except Exception:
                        pass
    if not edits and not only_targets:
        ctx.count('resave/no-edit-possible')
        return
    want = links_now(res2)
    try:
        for k, r in enumerate(res2):
            if not only_targets or k != start:
                r.save()
        rset3 = fresh(built)
        first = rset3.get_resource(URI(paths[start]))
        for o in preorder(first.contents):
            for f in _refs(o):
                v = o.eGet(f)
                for t in (list(v) if f.many else ([v] if v is not None else [])):
                    _ = t.eClass
        res3 = [rset3.get_resource(URI(p)) for p in paths]
        got = links_now(res3)
    except Exception as e:
        ctx.violate({'clause': 'resave-raised', 'format': fmt, 'trigger': 'none'},
                    f'resave-raised: saving the edited files and reloading one raised {type(e).__name__}: {e}',
                    {'case': h, 'resave': True, 'format': fmt})
        return
    ctx.evaluations += 1
    ctx.count('resave/' + fmt + ('/targets-only' if only_targets else '/edited'))
    ctx.nontriv(('resave', h))
    for key in sorted(want):
        if key[0] != start:
            continue
        w_, g_ = want[key], got.get(key)
        if g_ != w_:
            mixed = len({k for (k, _) in [x for x in w_ if x]}) > 1
            order_only = g_ is not None and sorted(map(str, g_)) == sorted(map(str, w_))
            ctx.violate({'clause': 'wrong-target', 'format': fmt,
                         'trigger': 'xmi-mixed-local-and-cross-order' if (fmt == 'xmi' and order_only and mixed) else 'none'},
                        f'wrong-target: after load, follow, edit (objects inserted in front of referenced ones), save and reload, object {key[1]}.{key[2]} of file {key[0]} '
                        f'reaches {g_}, before the save it reached {w_}', {'case': h, 'resave': True, 'format': fmt})
            return


def falsy_id_case(ctx, k, tmp):
    """the target of a cross-resource reference is named by its id attribute, and the id is a value Python takes for
    false (0, 0.0 for a nullable numeric id whose default is None): the reference still reaches that object"""
    from pyecore import ecore as E
    from pyecore.resources import ResourceSet, URI
    from pyecore.resources.json import JsonResource
    fmt = 'xmi' if k % 2 == 0 else 'json'
    t, zero = [(E.EIntegerObject, 0), (E.ELongObject, 0), (E.EDoubleObject, 0.0)][(k // 2) % 3]
    pk = E.EPackage('fid', f'http://verif/c14/fid{k}', 'fid')
    A = E.EClass('A')
    pk.eClassifiers.append(A)
    A.eStructuralFeatures.extend([E.EAttribute('key', t, iD=True), E.EAttribute('name', E.EString), E.EReference('one', A),
                                  E.EReference('many', A, upper=-1), E.EReference('kids', A, upper=-1, containment=True)])
    d = os.path.join(tmp, f'fid{k}')
    os.makedirs(d)

    def rs():
        r = ResourceSet()
        r.resource_factory['json'] = lambda uri: JsonResource(uri)
        r.metamodel_registry[pk.nsURI] = pk
        return r
    w = rs()
    ra, rb = w.create_resource(URI(os.path.join(d, f'a.{fmt}'))), w.create_resource(URI(os.path.join(d, f'b.{fmt}')))
    a, b = A(name='a'), A(name='b', key=type(zero)(7))
    z = A(name='zero', key=zero)
    b.kids.extend([A(name='other', key=type(zero)(3)), z])
    ra.append(a); rb.append(b)
    a.one = z
    a.many.extend([b, z])
    ctx.evaluations += 1
    ctx.count(f'falsy-id/{fmt}/{t.name}')
    ctx.nontriv(('falsy-id', k))
    try:
        ra.save(); rb.save()
        la = rs().get_resource(URI(os.path.join(d, f'a.{fmt}'))).contents[0]
        got = (la.one.name, [x.name for x in la.many])
    except Exception as e:
        got = f'raised {type(e).__name__}: {str(e)[:80]}'
    if got != ('zero', ['b', 'zero']):
        ctx.violate({'clause': 'wrong-target', 'format': fmt, 'trigger': 'none', 'falsy_id': True},
                    f'wrong-target: a {fmt} reference to an object of another file whose id ({t.name}) is {zero!r}: following it gives {got}',
                    {'case': k, 'falsy_id': True, 'format': fmt})


def moved_case(ctx, h, tmp):
    """a resource is given another URI (`res.uri = ...`: another file name, another directory) after the references across
    the files exist and before anything is saved: the resource set knows it under the new URI only, the files are written
    where the resources now are, and the references written into the other files lead to the new location"""
    from pyecore.resources import ResourceSet, URI
    from pyecore.resources.json import JsonResource
    rng = common.sub_rng(ctx.seed, 'C14', 'moved', h)
    fmt = 'xmi' if h % 3 != 2 else 'json'
    case_dir = os.path.join(tmp, f'moved{h}')
    os.makedirs(case_dir)
    try:
        sp, built, ms, rset, paths, ncross = build_world(rng, h, case_dir, fmt, rng.choice([2, 3]))
    except Exception as e:
        ctx.count('moved/setup-raised/' + type(e).__name__)
        return
    if not ncross:
        return
    k = rng.randrange(1, len(paths))
    res = rset.resources[URI(paths[k]).normalize()]
    where = rng.choice(['renamed', 'other-directory', 'deeper'])
    d, b = os.path.split(paths[k])
    new = {'renamed': os.path.join(d, 'renamed_' + b), 'other-directory': os.path.join(case_dir, 'elsewhere', b),
           'deeper': os.path.join(d, 'down', 'below', b)}[where]
    os.makedirs(os.path.dirname(new), exist_ok=True)
    rep = {'case': h, 'moved': True, 'format': fmt, 'where': where}
    # every other case: everything has been saved once where it was (what is remembered from a save must not outlive a move)
    presaved = h % 2 == 1
    if presaved:
        try:
            for p in paths:
                rset.resources[URI(p).normalize()].save()
        except Exception as e:
            ctx.count('moved/presave-raised/' + type(e).__name__)
            return
        rep['saved_before_the_move'] = True
    old_key = URI(paths[k]).normalize()
    try:
        res.uri = URI(new) if rng.random() < .5 else new
    except Exception as e:
        ctx.violate({'clause': 'moved-raised', 'format': fmt, 'trigger': 'none'},
                    f'moved-raised: giving a resource of a resource set another URI raised {type(e).__name__}: {e}', rep)
        return
    ctx.evaluations += 1
    ctx.count(f'moved/{fmt}/{where}' + ('/saved-before' if presaved else ''))
    ctx.nontriv(('moved', h))
    keys = list(rset.resources)
    if old_key in keys or URI(new).normalize() not in keys or rset.resources[URI(new).normalize()] is not res \
            or len(keys) != len(paths):
        ctx.violate({'clause': 'moved-registry', 'format': fmt, 'trigger': 'none'},
                    f'moved-registry: after `res.uri = new` the resource set holds {len(keys)} entries for {len(paths)} resources '
                    f'(old key still there: {old_key in keys}; new key leads to the resource: '
                    f'{rset.resources.get(URI(new).normalize()) is res})', rep)
        return
    newpaths = list(paths)
    newpaths[k] = new
    want = expected_links(ms)
    try:
        for p in newpaths:
            rset.resources[URI(p).normalize()].save()
        if os.path.exists(paths[k]) and not presaved:
            ctx.violate({'clause': 'moved-registry', 'format': fmt, 'trigger': 'none'},
                        'moved-registry: a resource saved after it had been given another URI wrote to the old location', rep)
            return
        rset2 = ResourceSet()
        rset2.resource_factory['json'] = lambda uri: JsonResource(uri)
        rset2.metamodel_registry[built[0].nsURI] = built[0]
        first = rset2.get_resource(URI(newpaths[0]))
        for o in preorder(first.contents):
            for f in _refs(o):
                v = o.eGet(f)
                for t in (list(v) if f.many else ([v] if v is not None else [])):
                    _ = t.eClass
        res2 = [rset2.get_resource(URI(p)) for p in newpaths]
        got = links_now(res2)
    except Exception as e:
        ctx.violate({'clause': 'moved-raised', 'format': fmt, 'trigger': 'none'},
                    f'moved-raised: saving the files after one resource had been given another URI ({where}) and reloading the first raised '
                    f'{type(e).__name__}: {e}', rep)
        return
    for key in sorted(want):
        if key[0] != 0:
            continue
        w_, g_ = want[key], got.get(key)
        if g_ != w_:
            mixed = len({kk for (kk, _) in [x for x in w_ if x]}) > 1
            order_only = g_ is not None and sorted(map(str, g_)) == sorted(map(str, w_))
            ctx.violate({'clause': 'wrong-target', 'format': fmt,
                         'trigger': 'xmi-mixed-local-and-cross-order' if (fmt == 'xmi' and order_only and mixed) else 'none'},
                        f'wrong-target: after resource {k} had been given another URI ({where}), object {key[1]}.{key[2]} of file 0 reaches '
                        f'{g_}, as built it reached {w_}', rep)
            return


def run(ctx):
    common.use_repo()
    n = 200 if ctx.quick() else 4000
    ctx.rule = (f'{n} worlds: 2-3 generated models over one metamodel, each in its own file under 10 directory layouts (two of them with blanks in directory and file names) (same dir, '
                'sibling dirs, nested up to depth 3, same file name in different dirs), XMI and JSON, with references across them '
                '(single, many, mixed with local targets, with and without opposites), each file with or without uuids; all saved, one reloaded in a fresh resource set, '
                'every reference followed, then the other files navigated directly: same target (resource, position), ==, hash, '
                'membership, write-through, deletion (through the reference value or the direct instance: gone from its container and from every referrer), no extra resource entries. non-trivial & distinct = worlds with at least one cross reference')
    tmp = tempfile.mkdtemp(prefix='verif_c14_')
    try:
        for h in range(n):
            run_case(ctx, h, tmp)
        for h in range(n // 4):
            resave_case(ctx, h, tmp)
        for h in range(n // 5):
            moved_case(ctx, h, tmp)
        for k in range(12 if ctx.quick() else 60):
            falsy_id_case(ctx, k, tmp)
        for k in range(6):
            alias_case(ctx, tmp, 'xmi' if k % 2 == 0 else 'json', k)
        path_correspondence(ctx)
    finally:
        shutil.rmtree(tmp, ignore_errors=True)


def search(ctx):
    pass


def replay(ctx, data):
    common.use_repo()
    tmp = tempfile.mkdtemp(prefix='verif_c14_')
    c2 = common.Ctx('C14', data['tier'], data['seed'])
    try:
        (resave_case if data['replay'].get('resave') else run_case)(c2, data['replay']['case'], tmp)
    finally:
        shutil.rmtree(tmp, ignore_errors=True)
    for v in c2.violations:
        print('  ', v['what'])
    return 1 if c2.violations else 0
