"""C06 — undo restores the previous model state; redo restores the next one (DESIGN.md section 4)."""
from . import common, store, storecheck

KNOWN_TRIGGERS = {}


def no_steal(w, mm, kind, x, f, v):
    """the property's exclusion, on the pre-state: the command would take its value away from another container,
    resource root position or opposite partner"""
    if v is None or not f.ref or not isinstance(v, int):
        return True
    vo, xo = w.objs[v], w.objs[x]
    cur = w.slot(xo, f)
    if any(c is vo for c in cur):
        return True                      # already there: nothing is taken from anybody
    if f.cont and (vo.eContainer() is not None or vo._eresource is not None):
        return False
    if f.opp is not None:
        g = mm.feats[f.opp]
        if g.cont and (xo.eContainer() is not None or xo._eresource is not None):
            return False                 # the owner itself would be moved into `v`
        if not g.many and w.slot(vo, g):
            return False                 # v already has a partner on its single-valued end
    return True


class CmdWorld:
    def __init__(self, mm):
        from pyecore import commands as C
        self.C = C
        self.w = store.World(mm, observe=False)
        self.stack = C.CommandStack()
        self.shadow = []        # (pre dump, post dump, is_delete) of the commands on the stack, up to index
        self.idx = -1

    def build(self, spec):
        """spec: ('Set', x, fid, valtok) | ('Add', x, fid, valtok, idx|None) | ('Remove', x, fid, valtok|None, idx|None)
        | ('Move', x, fid, from|None, to, valtok|None) | ('Delete', x) | ('Compound', [specs])"""
        C, w = self.C, self.w
        k = spec[0]
        if k == 'Compound':
            return C.Compound(*[self.build(s) for s in spec[1]])
        x = w.objs[spec[1]]
        if k == 'Delete':
            return C.Delete(x)
        f = w.feats[spec[2]]
        if k == 'Set':
            return C.Set(x, f if spec[4] else f.name, w.val(spec[3]))
        if k == 'Add':
            return C.Add(x, f, w.val(spec[3]), index=spec[4])
        if k == 'Remove':
            return C.Remove(x, f, value=None if spec[3] is None else w.val(spec[3]), index=spec[4])
        if k == 'Move':
            return C.Move(x, f, from_index=spec[3], to_index=spec[4], value=None if spec[5] is None else w.val(spec[5]))
        raise ValueError(k)


def gen_cmd(rng, mm, w, depth=0, prefer_delete=()):
    """-> (spec, steals?) or None"""
    objs = list(range(len(w.objs)))
    k = rng.random()
    if k < .1 and depth == 0:
        subs = []
        used = set()
        for _ in range(rng.randint(2, 3)):
            c = gen_cmd(rng, mm, w, 1)
            if c is None or c[0][0] == 'Delete':
                continue
            # sub-commands must not interfere (one stealing from the other): disjoint sets of objects involved
            vals = {t for t in c[0][3:] if isinstance(t, str) and t.startswith('o:')} | {f'o:{c[0][1]}'}
            fx = mm.feats[c[0][2]]
            if fx.ref:      # whoever is in the slot now is affected as well (released, shifted)
                vals |= {w.tok(v) for v in w.slot(w.objs[c[0][1]], fx)}
            if vals & used:
                continue
            used |= vals
            subs.append(c)
        if len(subs) < 2:
            return None
        return ('Compound', [s for s, _ in subs]), any(st for _, st in subs)
    if k < .2:
        if prefer_delete and rng.random() < .6:
            return ('Delete', rng.choice(list(prefer_delete))), False
        return ('Delete', rng.choice(objs)), False
    f = rng.choice(mm.feats)
    if depth and f.ref and (f.cont or (f.opp is not None and mm.feats[f.opp].cont)):
        return None      # containment moves inside a Compound could build a cycle the per-command check cannot see
    xs = [i for i in objs if f in mm.feats_of(w.classes.index(w.objs[i].eClass))]
    if not xs:
        return None
    x = rng.choice(xs)
    g = store.Gen(rng, mm, w)
    cur = w.slot(w.objs[x], f)
    if not f.many:
        v = g.value_for(f, x, True)
        if v is None:
            return None
        vi = int(v[0][2:]) if v[0].startswith('o:') else None
        return ('Set', x, f.fid, v[0], rng.random() < .7), not no_steal(w, mm, 'Set', x, f, vi)
    n = len(cur)
    j = rng.random()
    if j < .45:
        v = g.value_for(f, x, True)
        if v is None or v[0] == 'n':
            return None
        vi = int(v[0][2:]) if v[0].startswith('o:') else None
        idx = rng.choice([None, None, rng.randint(0, n), rng.randint(-(n + 1), n + 2)])
        return ('Add', x, f.fid, v[0], idx), not no_steal(w, mm, 'Add', x, f, vi)
    if j < .75:
        if cur and rng.random() < .5:
            return ('Remove', x, f.fid, w.tok(rng.choice(cur)), None), False
        if rng.random() < .8:
            return ('Remove', x, f.fid, None, rng.choice([-1, -1, -2, 0, 1, rng.randint(-(n + 1), n + 1)])), False
        v = g.value_for(f, x, True)
        if v is None or v[0] == 'n':
            return None
        return ('Remove', x, f.fid, v[0], None), False
    if rng.random() < .5 and cur:
        return ('Move', x, f.fid, None, rng.randint(-(n + 1), n + 1), w.tok(rng.choice(cur))), False
    return ('Move', x, f.fid, rng.randint(-(n + 1), n + 1), rng.randint(-(n + 1), n + 1), None), False


def order_only(mm, a, b):
    """the two dumps differ only in the order of many-valued references that are one end of an opposite pair
    (the signature of finding F-C06-1)"""
    oa, ra = storecheck.parse_dump(a)
    ob, rb = storecheck.parse_dump(b)
    if ra != rb or oa.keys() != ob.keys():
        return False
    differs = False
    for o in oa:
        fa, ca, ea = oa[o]
        fb, cb, eb = ob[o]
        if (ca, ea) != (cb, eb) or fa.keys() != fb.keys():
            return False
        for f in fa:
            F = mm.feats[f]
            if fa[f] == fb[f]:
                continue
            if F.ref and F.many and F.opp is not None and sorted(fa[f].split(',')) == sorted(fb[f].split(',')):
                differs = True
            else:
                return False
    return differs


def relaxed_equal(mm, a, b):
    """dumps equal up to the order of many-valued references whose opposite is many-valued (after undoing a Delete)"""
    oa, ra = storecheck.parse_dump(a)
    ob, rb = storecheck.parse_dump(b)
    if ra != rb or oa.keys() != ob.keys():
        return False
    for o in oa:
        fa, ca, ea = oa[o]
        fb, cb, eb = ob[o]
        if (ca, ea) != (cb, eb) or fa.keys() != fb.keys():
            return False
        for f in fa:
            F = mm.feats[f]
            if F.ref and F.many and F.opp is not None and mm.feats[F.opp].many:
                if sorted(fa[f].split(',')) != sorted(fb[f].split(',')):
                    return False
            elif fa[f] != fb[f]:
                return False
    return True


def run_word(ctx, h, nletters, prefix_ops=12):
    rng = common.sub_rng(ctx.seed, 'C06', h)
    mm = storecheck.shape_mm(rng, h // 3) if h % 3 == 0 else store.gen_mm(rng)
    cw = CmdWorld(mm)
    w = cw.w
    # a twin model that goes through the same word one command per `execute` call: several commands handed to one call
    # must do what the same commands do one call at a time
    cw2 = CmdWorld(mm)
    w2 = cw2.w
    _apply = w.apply

    def both(line):
        w2.apply(line)
        return _apply(line)
    w.apply = both
    g = store.Gen(rng, mm, w, max_objs=6)
    pre = []
    for _ in range(prefix_ops):                 # reach some model state first
        line = g.next_op()
        if line.startswith('delete'):
            continue
        w.apply(line); pre.append(line)
    for _ in range(3):                          # … with a few well-filled collections (positions matter for undo)
        f = rng.choice(mm.feats)
        xs = g.objs_with(f)
        if not f.many or not xs:
            continue
        x = rng.choice(xs)
        vs = []
        for _ in range(4):
            v = g.value_for(f, x, True)
            if v is not None and v[0] != 'n' and v[0] not in vs:
                vs.append(v[0])
        if vs:
            line = f"extend {x} {f.fid} {' '.join(vs)}"
            w.apply(line); pre.append(line)
    # … and with single-valued references pointed somewhere else than where they first pointed: the objects left
    # behind (which may still be remembered as referenced) are preferred targets of Delete commands
    left_behind = []
    for _ in range(3):
        cands = [(x, f) for f in mm.feats if f.ref and not f.many for x in g.objs_with(f) if w.slot(w.objs[x], f)]
        if not cands:
            break
        x, f = rng.choice(cands)
        old = w.slot(w.objs[x], f)[0]
        v = g.value_for(f, x, True)
        if v is None or v[0] == 'n' or w.val(v[0]) is old:
            continue
        line = f'set {x} {f.fid} {v[0]}'
        if w.apply(line).startswith('ok'):
            pre.append(line)
            left_behind.append(w.oid(old))
    word = []
    shadow, idx = [], -1
    problems = []
    reordered = [False]     # an undo of Delete was accepted with a (permitted) reordering of a many-many reference

    def fail(clause, detail, extra=None):
        problems.append((clause, detail, extra or {}))

    for step in range(nletters):
        letter = rng.random()
        before = w.dump()
        if letter < .55 or idx < 0 and letter < .8:
            c = gen_cmd(rng, mm, w, prefer_delete=left_behind)
            if c is None:
                continue
            spec, steals = c
            try:
                cmd = cw.build(spec)
                can = cmd.can_execute
            except Exception as e:
                ctx.count('cmd/can_execute-raised')
                continue
            if not can:
                ctx.count('cmd/cannot-execute')
                continue
            if steals:
                ctx.count('cmd/excluded-steal')
                continue
            if rng.random() < .2 and spec[0] != 'Compound':
                # two or three commands in one call of execute()
                specs = [spec]
                for _ in range(rng.randint(1, 2)):
                    c2 = gen_cmd(rng, mm, w, prefer_delete=left_behind)
                    if c2 is not None and c2[0][0] != 'Compound' and not c2[1]:
                        # the operands of a command are chosen on the state before the call: two commands that each
                        # change who contains whom could build a containment cycle together
                        def touches_containment(sp_):
                            if sp_[0] == 'Delete':
                                return True
                            f_ = mm.feats[sp_[2]]
                            return f_.ref and (f_.cont or (f_.opp is not None and mm.feats[f_.opp].cont))
                        if touches_containment(c2[0]) and any(touches_containment(sp_) for sp_ in specs):
                            continue
                        specs.append(c2[0])
                if len(specs) > 1:
                    word.append(('exec-batch', specs))
                    ctx.count('cmd/batch')
                    # the twin: one at a time, each judged (can it execute? does it steal?) in the state it runs in
                    stop, tainted, entries = None, False, []
                    for sp2 in specs:
                        try:
                            c_t = cw2.build(sp2)
                            can_t = c_t.can_execute
                        except Exception:
                            can_t = False
                        if not can_t:
                            stop = sp2
                            break
                        if sp2[0] in ('Set', 'Add') and isinstance(sp2[3], str) and sp2[3].startswith('o:') \
                                and not no_steal(w2, mm, sp2[0], sp2[1], mm.feats[sp2[2]], int(sp2[3][2:])):
                            tainted = True
                        b2 = w2.dump()
                        try:
                            cw2.stack.execute(c_t)
                        except Exception:
                            tainted = True
                            break
                        entries.append((b2, w2.dump(), sp2))
                    try:
                        cw.stack.execute(*[cw.build(sp2) for sp2 in specs])
                        raised = None
                    except Exception as e:
                        raised = type(e).__name__
                    if tainted:
                        ctx.count('cmd/batch-excluded')
                        break
                    ctx.evaluations += 1
                    if w.dump() != w2.dump() and order_only(mm, w.dump(), w2.dump()):
                        # the twin drifted by the order of an opposite end alone: an undo somewhere before restored
                        # that order differently in the two worlds (finding F-C06-1 restores it in no defined order)
                        ctx.count('cmd/batch-twin-order-drift')
                        break
                    if w.dump() != w2.dump() or bool(raised) != (stop is not None):
                        fail('batch', f'execute(c1, …, cn) with {specs}: the model is not what executing them one call at a time gives '
                                      f'(the call {"raised " + raised if raised else "returned"}; one at a time '
                                      f'{"stops at " + str(stop) if stop else "executes all"})', {'cmd': 'batch'})
                        break
                    if w.dump() != before:
                        ctx.nontriv((h, step))
                    shadow = shadow[:idx + 1] + entries
                    idx += len(entries)
                    continue
            word.append(('exec', spec))
            try:
                cw2.stack.execute(cw2.build(spec))
            except Exception:
                pass
            try:
                cw.stack.execute(cmd)
            except Exception as e:
                # a command that reports it can execute but raises is outside the statement (it never reaches the
                # stack); nothing is claimed about it, and the word ends here because the model may be half-changed
                ctx.count('cmd/execute-raised')
                break
            ctx.count('cmd/' + spec[0])
            after = w.dump()
            if after != before:
                ctx.nontriv((h, step))
            shadow = shadow[:idx + 1] + [(before, after, spec)]
            idx += 1
        elif letter < .8:
            word.append(('undo',))
            ctx.count('letter/undo')
            try:
                cw2.stack.undo()
            except Exception:
                pass
            try:
                cw.stack.undo()
                raised = None
            except Exception as e:
                raised = type(e).__name__
            now = w.dump()
            if idx < 0:
                if now != before:
                    fail('undo-empty-changed', f'undo on an empty history changed the model ({raised})')
                    break
                continue
            want = shadow[idx][0]
            spec = shadow[idx][2]
            isdel = spec[0] == 'Delete' or (spec[0] == 'Compound' and any(s[0] == 'Delete' for s in spec[1]))
            ok = (now == want) or (isdel and relaxed_equal(mm, now, want))
            if not ok or raised:
                trig = 'opposite-end-order-only' if (not raised and order_only(mm, now, want)) else \
                    ('after-permitted-delete-reordering' if reordered[0] else 'none')
                fail('undo', f'after undo of {spec} the model is not what it was before the command ({raised or "returned"})'
                     if not ok else f'undo of {spec} raised {raised}',
                     {'cmd': spec[0], 'raised': bool(raised), 'trigger': trig})
                break
            if now != want:
                reordered[0] = True
            idx -= 1
        else:
            word.append(('redo',))
            ctx.count('letter/redo')
            try:
                cw2.stack.redo()
            except Exception:
                pass
            try:
                cw.stack.redo()
                raised = None
            except Exception as e:
                raised = type(e).__name__
            now = w.dump()
            if idx + 1 >= len(shadow):
                if now != before:
                    fail('redo-superseded', f'redo with nothing to redo changed the model ({raised or "returned"})',
                         {'after_exec_after_undo': True})
                    break
                continue
            want = shadow[idx + 1][1]
            spec = shadow[idx + 1][2]
            isdel = spec[0] == 'Delete'
            ok = (now == want) or (isdel and relaxed_equal(mm, now, want))
            if not ok or raised:
                fail('redo', f'after redo of {spec} the model is not the state after the command ({raised or "returned"})'
                     if not ok else f'redo of {spec} raised {raised}',
                     {'cmd': spec[0], 'raised': bool(raised),
                      'trigger': 'opposite-end-order-only' if (not raised and order_only(mm, now, want)) else
                      ('after-permitted-delete-reordering' if reordered[0] else 'none')})
                break
            idx += 1
        ctx.evaluations += 1
    ctx.traces += 1
    if h < 2:
        ctx.sample({'metamodel': w.mm_lines(), 'prefix': pre[:6], 'word': [list(map(str, x)) for x in word[:8]]})
    for (clause, detail, extra) in problems[:1]:
        sig = {'clause': clause}
        sig.update({k: v for k, v in extra.items()})
        ctx.violate(sig, f'{clause}: {detail}',
                    {'metamodel': w.mm_lines(), 'prefix': pre, 'word': [list(x) for x in word], 'detail': detail, 'history': h})


def spec_line(spec):
    d = lambda t: '-' if t is None else str(t)
    k = spec[0]
    if k == 'Set':
        return f'cmd exec Set {spec[1]} {spec[2]} {spec[3]}'
    if k == 'Add':
        return f'cmd exec Add {spec[1]} {spec[2]} {spec[3]} {d(spec[4])}'
    if k == 'Remove':
        return f'cmd exec Remove {spec[1]} {spec[2]} {d(spec[3])} {d(spec[4])}'
    if k == 'Move':
        return f'cmd exec Move {spec[1]} {spec[2]} {d(spec[3])} {spec[4]} {d(spec[5])}'
    raise ValueError(k)


def corr_word(ctx, h, nletters, model_in, expect):
    """Set/Add/Remove/Move words (steals included) on the real stack and on the Lean `cstep`, letter by letter"""
    rng = common.sub_rng(ctx.seed, 'C06-corr', h)
    mm = storecheck.shape_mm(rng, h // 3) if h % 3 == 0 else store.gen_mm(rng)
    cw = CmdWorld(mm)
    w = cw.w
    g = store.Gen(rng, mm, w, max_objs=6)
    model_in.append('reset'); expect.append(None)
    for l in w.mm_lines():
        model_in.append(l); expect.append(None)
    lines = []
    for _ in range(10):
        line = g.next_op()
        if line.startswith('delete'):
            continue
        rec = w.apply(line)
        lines.append(line)
        model_in.append(line); expect.append((h, mm, lines[:], rec + ' | ' + w.dump()))
    for step in range(nletters):
        k = rng.random()
        if k < .6:
            c = None
            for _ in range(5):
                c = gen_cmd(rng, mm, w, depth=2)      # depth 2: neither Compound nor Delete
                if c is not None and c[0][0] != 'Delete':
                    break
                c = None
            if c is None:
                continue
            spec = c[0]
            line = spec_line(spec)
            try:
                cmd = cw.build(spec)
                can = cmd.can_execute
            except Exception:
                can = None
            if can is None:
                out = 'raises'
            elif not can:
                out = 'cannot'
            else:
                before = w.dump()
                try:
                    cw.stack.execute(cmd)
                    out = 'ok'
                except Exception:
                    # whether the refusal comes from can_execute or from the first statement of do_execute is not compared
                    out = 'raises' if w.dump() == before else 'exec-raised'
        else:
            line = 'cmd undo' if k < .82 else 'cmd redo'
            n0 = cw.stack.stack_index
            try:
                (cw.stack.undo if line.endswith('undo') else cw.stack.redo)()
            except Exception:
                pass
            # an undo that finds can_undo False returns silently: "nothing was undone" is what is compared
            out = 'ok' if cw.stack.stack_index != n0 else 'err'
        lines.append(line)
        model_in.append(line)
        expect.append((h, mm, lines[:], f'{out} n={cw.stack.stack_index + 1} len={len(cw.stack.stack)} | {w.dump()}'))
        ctx.evaluations += 1
        ctx.count('corr/' + (line.split()[2] if 'exec' in line else line.split()[1]) + '/' + out)
        if out == 'exec-raised':
            break      # `Remove` by value of an absent element: pyecore has already run part of do_execute
    ctx.traces += 1


def _kspec(spec):
    return spec_line(spec)[len('cmd exec '):]


def corr_kword(ctx, h, nletters, model_in, expect):
    """words whose commands are `Compound`s of 0-3 Set/Add/Remove/Move sub-commands — on purpose often on the *same*
    feature of the same object, so that what a sub-command remembers from `can_execute` (asked of all of them before any
    runs) and what it meets when it runs differ — on the real stack and on the Lean `kstep` (Model/Compound.lean),
    letter by letter: outcome class, stack cursor and length, whole model state"""
    rng = common.sub_rng(ctx.seed, 'C06-kcorr', h)
    mm = storecheck.shape_mm(rng, h // 3) if h % 3 == 0 else store.gen_mm(rng)
    cw = CmdWorld(mm)
    w = cw.w
    C = cw.C
    g = store.Gen(rng, mm, w, max_objs=6)
    model_in.append('reset'); expect.append(None)
    for l in w.mm_lines():
        model_in.append(l); expect.append(None)
    lines = []
    for _ in range(10):
        line = g.next_op()
        if line.startswith('delete'):
            continue
        rec = w.apply(line)
        lines.append(line)
        model_in.append(line); expect.append((h, mm, lines[:], rec + ' | ' + w.dump()))
    for step in range(nletters):
        k = rng.random()
        before = w.dump()
        n0 = cw.stack.stack_index
        if k < .6:
            size = rng.choice([0, 1, 1, 2, 2, 2, 3, 3])
            specs = []
            for _ in range(size):
                want = specs[-1][1:3] if specs and rng.random() < .6 else None      # the same (object, feature) again
                for _try in range(12):
                    c = gen_cmd(rng, mm, w, depth=2 if size == 1 else 1)
                    if c is None or c[0][0] in ('Delete', 'Compound'):
                        continue
                    if want is not None and tuple(c[0][1:3]) != tuple(want):
                        continue
                    specs.append(c[0])
                    break
            if len(specs) != size:
                continue
            line = 'kcmd exec ' + ' ;; '.join(_kspec(sp) for sp in specs)
            cmds = None
            try:
                cmds = [cw.build(sp) for sp in specs]
                comp = C.Compound(*cmds)
                can = comp.can_execute
            except Exception:
                can = None
            if can is None:
                out = 'raised'
            elif not can:
                out = 'cannot'
            else:
                try:
                    cw.stack.execute(comp)
                    out = 'ok'
                except Exception:
                    out = 'raised'
            ctx.count(f'kcorr/compound-of-{size}/{out}')
            same = len({tuple(sp[1:3]) for sp in specs}) < len(specs)
            if same:
                ctx.count('kcorr/sub-commands-on-one-feature')
            # a negative index that stayed negative after `+= len` (Python would count it from the end a second time):
            # the model stops with `corner`; so does this word
            if can and _corner(cmds, C, out):
                out = 'corner'
        else:
            line = 'kcmd undo' if k < .82 else 'kcmd redo'
            try:
                (cw.stack.undo if line.endswith('undo') else cw.stack.redo)()
            except Exception:
                pass
            out = 'ok' if cw.stack.stack_index != n0 else 'noop'
            ctx.count('kcorr/' + line.split()[1] + '/' + out)
        lines.append(line)
        model_in.append(line)
        expect.append((h, mm, lines[:], ('K', out, f'n={cw.stack.stack_index + 1} len={len(cw.stack.stack)} | {w.dump()}')))
        ctx.evaluations += 1
        if out != 'ok' and w.dump() != before:
            break      # half-run execute / undo / redo: the sub-commands have changed what they remember
        if out == 'corner':
            break
    ctx.traces += 1


def _corner(cmds, C, out):
    for c in cmds:
        idx = c.index if isinstance(c, C.Remove) else (c.from_index if isinstance(c, C.Move) else None)
        if getattr(c, '_executed', False):
            if isinstance(idx, int) and idx < 0:
                return True
        else:
            # the first sub-command that did not complete: the one that raised (its index is adjusted first thing)
            return out == 'raised' and isinstance(idx, int) and idx < 0
    return False


def knorm(got):
    """model record of a `kcmd` line -> (outcome class, rest)"""
    word, _, rest = got.partition(' ')
    cls = {'ok': 'ok', 'cannot': 'cannot', 'raises': 'raised', 'exec-raised': 'raised', 'corner': 'corner'}.get(word, 'noop')
    return cls, rest


INTERFERING = [
    # (name, builder of the sub-commands from (C, a, b1, b2, k1, k2))
    ('Add then Remove of the same element', lambda C, a, b1, b2, k1, k2: [C.Add(a, 'bs', b2), C.Remove(a, 'bs', value=b2)]),
    ('Remove then Add of the same element', lambda C, a, b1, b2, k1, k2: [C.Remove(a, 'bs', value=b1), C.Add(a, 'bs', b1)]),
    ('Add then Move of the added element', lambda C, a, b1, b2, k1, k2: [C.Add(a, 'bs', b2), C.Move(a, 'bs', value=b2, to_index=0)]),
    ('Add of a child then Delete of the owner', lambda C, a, b1, b2, k1, k2: [C.Add(a, 'kids', k2), C.Delete(a)]),
    ('Set then Delete of the target', lambda C, a, b1, b2, k1, k2: [C.Set(a, 'one', b2), C.Delete(b2)]),
    ('Remove by index twice', lambda C, a, b1, b2, k1, k2: [C.Remove(a, 'kids', index=0), C.Remove(a, 'kids', index=0)]),
    ('Add, Remove, Set', lambda C, a, b1, b2, k1, k2: [C.Add(a, 'bs', b2), C.Remove(a, 'bs', value=b2), C.Set(a, 'name', 'y')]),
]


def compound_interference_pass(ctx):
    """Compound commands whose sub-commands work on the same feature or on each other's operands: `Compound.can_execute`
    asks every sub-command before any of them runs (so a snapshot taken there is a snapshot of the state before the
    whole compound), `Compound.can_undo` asks every sub-command after all of them ran.  Recorded finding F-C06-3; the
    generated words keep the sub-commands of a compound disjoint, where the statement is decided as for any command."""
    from pyecore import ecore as E
    from pyecore import commands as C
    for k, (name, build) in enumerate(INTERFERING):
        A, B = E.EClass('A'), E.EClass('B')
        A.eStructuralFeatures.extend([E.EAttribute('name', E.EString), E.EReference('bs', B, upper=-1),
                                      E.EReference('one', B), E.EReference('kids', A, upper=-1, containment=True)])
        root, a, b1, b2, k1, k2 = A(name='root'), A(name='x'), B(), B(), A(name='k1'), A(name='k2')
        root.kids.append(a)
        a.bs.append(b1); a.kids.append(k1)
        objs = [root, a, b1, b2, k1, k2]

        def snap():
            out = []
            for o in objs:
                for f in sorted(o.eClass.eAllStructuralFeatures(), key=lambda f: f.name):
                    v = o.eGet(f)
                    vals = list(v) if f.many else [v]
                    out.append((objs.index(o), f.name, [objs.index(x) if any(x is y for y in objs) else x for x in vals]))
                c = o.eContainer()
                out.append((objs.index(o), 'container', objs.index(c) if c is not None else None))
            return out
        before = snap()
        stack = C.CommandStack()
        try:
            cmd = C.Compound(*build(C, a, b1, b2, k1, k2))
            if not cmd.can_execute:
                ctx.count('compound-interference/cannot-execute')
                continue
            stack.execute(cmd)
        except Exception:
            ctx.count('compound-interference/execute-raised')
            continue
        after = snap()
        ctx.evaluations += 1
        ctx.count('compound-interference/executed')
        ctx.nontriv(('compound-interference', k))
        raised = None
        try:
            stack.undo()
        except Exception as e:
            raised = type(e).__name__
        now = snap()
        if now != before or raised:
            ctx.violate({'clause': 'undo', 'cmd': 'Compound', 'trigger': 'compound-subcommands-interfere'},
                        f'undo: after undo of Compound({name}) the model is not what it was before the command ({raised or "returned"})',
                        {'compound_interference': k, 'name': name})
            continue
        try:
            stack.redo()
        except Exception as e:
            raised = type(e).__name__
        if snap() != after or raised:
            ctx.violate({'clause': 'redo', 'cmd': 'Compound', 'trigger': 'compound-subcommands-interfere'},
                        f'redo: after redo of Compound({name}) the model is not the state after the command ({raised or "returned"})',
                        {'compound_interference': k, 'name': name})


def editing_domain_pass(ctx):
    """the same commands through an `EditingDomain` (the stack behind `domain.execute / undo / redo`): a model in a resource
    of the domain's resource set; words of Set / Add / Remove / Move / Delete / Compound on features without opposite; after
    each letter the snapshot history must agree (undo = the state before, redo = the state after); a command on an object
    outside the domain is refused and changes nothing"""
    from pyecore import ecore as E
    from pyecore import commands as C
    from pyecore.resources import URI
    for k in range(40 if ctx.quick() else 600):
        rng = common.sub_rng(ctx.seed, 'C06', 'domain', k)
        A = E.EClass('A')
        A.eStructuralFeatures.extend([E.EAttribute('name', E.EString), E.EAttribute('nums', E.EInt, upper=-1, unique=False),
                                      E.EReference('bs', A, upper=-1), E.EReference('one', A),
                                      E.EReference('kids', A, upper=-1, containment=True)])
        dom = C.EditingDomain()
        res = dom.create_resource(URI(f'/nonexistent/verif_c06_domain_{k}.xmi'))
        root = A(name='root')
        res.append(root)
        objs = [root]
        for i in range(rng.randint(2, 5)):
            o = A(name=f'o{i}')
            rng.choice(objs).kids.append(o)
            objs.append(o)
        outsider = A(name='outside')

        def snap():
            out = []
            for o in objs + [outsider]:
                out.append((o.name, list(o.nums), [x.name for x in o.bs], o.one.name if o.one is not None else None,
                            [x.name for x in o.kids], o.eContainer().name if o.eContainer() is not None else None,
                            o.eResource is res))
            return out

        def gen():
            o = rng.choice(objs)
            j = rng.random()
            if j < .2:
                return C.Set(o, 'name', rng.choice(['x', 'y', o.name]))
            if j < .35:
                return C.Set(o, 'one', rng.choice(objs + [None]))
            if j < .55:
                return C.Add(o, 'nums', rng.randint(0, 3), index=rng.choice([None, 0, -1, 9]))
            if j < .7:
                t = rng.choice(objs)
                return C.Add(o, 'bs', t) if all(t is not x for x in o.bs) else C.Remove(o, 'bs', value=t)
            if j < .8 and len(o.nums):
                return C.Remove(o, 'nums', index=rng.randrange(-len(o.nums), len(o.nums)))
            if j < .9 and len(o.nums) > 1:
                return C.Move(o, 'nums', from_index=rng.randrange(len(o.nums)), to_index=rng.randrange(-1, len(o.nums) + 1))
            leaf = [x for x in objs if x is not root and not len(x.kids)]
            if leaf and j < .96:
                return C.Delete(rng.choice(leaf))
            return C.Compound(C.Set(o, 'name', 'c'), C.Add(rng.choice(objs), 'nums', 7))
        hist = [snap()]      # hist[i] = state with i commands applied
        applied = 0
        stack = dom._EditingDomain__stack
        letters = []
        for step in range(rng.randint(4, 10)):
            c = rng.random()
            before = snap()
            if c < .55:
                cmd = gen()
                letters.append(f'execute {cmd!r}'[:80])
                try:
                    dom.execute(cmd)
                except Exception:
                    if snap() != before:
                        ctx.violate({'clause': 'refused-changed', 'cmd': 'domain'}, f'a command the editing domain refused changed the model ({letters})',
                                    {'domain': k, 'letters': letters})
                        return
                    continue
                hist = hist[:applied + 1] + [snap()]
                applied = stack.stack_index + 1
            elif c < .65:
                cmd = C.Set(outsider, 'name', 'changed')
                letters.append('execute on an object outside the domain')
                try:
                    dom.execute(cmd)
                    refused = False
                except ValueError:
                    refused = True
                if not refused or snap() != before:
                    ctx.violate({'clause': 'outside-domain', 'cmd': 'domain'}, f'a command on an object outside the editing domain was not refused ({letters})',
                                {'domain': k, 'letters': letters})
                    return
                continue
            elif c < .85:
                letters.append('undo')
                try:
                    dom.undo()
                except Exception:
                    pass
                applied = stack.stack_index + 1        # (the cursor tells how many commands are applied now)
                if not 0 <= applied < len(hist) or snap() != hist[applied]:
                    ctx.violate({'clause': 'undo', 'cmd': 'domain'}, f'undo: the model after undo through the editing domain is not the one before the command ({letters})',
                                {'domain': k, 'letters': letters})
                    return
            else:
                letters.append('redo')
                try:
                    dom.redo()
                except Exception:
                    pass
                applied = stack.stack_index + 1
                if not 0 <= applied < len(hist) or snap() != hist[applied]:
                    ctx.violate({'clause': 'redo', 'cmd': 'domain'}, f'redo: the model after redo through the editing domain is not the one after the command ({letters})',
                                {'domain': k, 'letters': letters})
                    return
            ctx.evaluations += 1
        ctx.nontriv(('domain', k))
        ctx.count('domain/words')


def reused_delete_pass(ctx):
    """one `Delete` object asked and used more than once: `can_execute` polled (as an editor does to enable its actions)
    before the model changes further, and the same object executed again after an undo and other commands — every undo
    brings back the state its own execute started from"""
    from pyecore import ecore as E
    from pyecore import commands as C
    for k in range(30 if ctx.quick() else 400):
        rng = common.sub_rng(ctx.seed, 'C06', 'reused-delete', k)
        A = E.EClass('A')
        A.eStructuralFeatures.extend([E.EAttribute('name', E.EString), E.EReference('toa', A), E.EReference('many', A, upper=-1),
                                      E.EReference('kids', A, upper=-1, containment=True)])
        root = A(name='root')
        objs = [root]
        for i in range(rng.randint(3, 6)):
            o = A(name=f'o{i}')
            rng.choice(objs).kids.append(o)
            objs.append(o)

        def snap():
            return [(o.name, o.toa.name if o.toa is not None else None, [v.name for v in o.many], [v.name for v in o.kids],
                     o.eContainer().name if o.eContainer() is not None else None) for o in objs]

        def link():
            a, b = rng.choice(objs), rng.choice(objs[1:])
            if rng.random() < .5:
                a.toa = b
            elif all(v is not b for v in a.many):
                a.many.append(b)
        for _ in range(rng.randint(1, 4)):
            link()
        victim = rng.choice([o for o in objs[1:]])
        stack = C.CommandStack()
        d = C.Delete(victim)
        mode = rng.choice(['polled-then-changed', 'executed-twice'])
        ctx.evaluations += 1
        ctx.count('reused-delete/' + mode)
        ctx.nontriv(('reused-delete', k))
        try:
            if mode == 'polled-then-changed':
                _ = d.can_execute
                for _ in range(rng.randint(1, 3)):
                    link()
                if rng.random() < .5 and victim.eContainer() is not None:
                    victim.kids.append(A(name='late'))
                    objs.append(victim.kids[-1])
            else:
                stack.execute(d)
                stack.undo()
                for _ in range(rng.randint(1, 3)):
                    stack.execute(C.Set(rng.choice(objs), 'toa', victim))
            before = snap()
            stack.execute(d)
            stack.undo()
            after = snap()
        except Exception as e:
            ctx.violate({'clause': 'undo', 'cmd': 'Delete', 'reused': mode}, f'a Delete object {mode}: {type(e).__name__}: {e}', {'reused_delete': k, 'mode': mode})
            return
        if after != before:
            d_ = next(((a, b) for a, b in zip(before, after) if a != b), None)
            ctx.violate({'clause': 'undo', 'cmd': 'Delete', 'reused': mode},
                        f'undo: a Delete object {mode}: after execute and undo the model is not what it was before that execute: {d_[0]} became {d_[1]}',
                        {'reused_delete': k, 'mode': mode})
            return


def run(ctx):
    common.use_repo()
    compound_interference_pass(ctx)
    editing_domain_pass(ctx)
    reused_delete_pass(ctx)
    n = 600 if ctx.quick() else 12000
    nl = 14 if ctx.quick() else 22
    ctx.rule = (f'{n} words over {{execute(Set|Add|Remove|Move|Delete|Compound), undo, redo}} (<= {nl} letters, about 45% undo/redo) from a '
                'model state reached by 12 random mutations over generated metamodels; commands with valid and invalid owners, '
                'features, values, indices (negative, out of range, None); commands that cannot execute or that steal (the '
                'property\'s exclusion, decided on the pre-state) are skipped; oracle: whole-model dump equality pre-exec vs post-undo, '
                'post-exec vs post-redo, redo after a new execute must not change the model. non-trivial & distinct = executed commands that changed the model')
    for h in range(n):
        run_word(ctx, h, nl)
    model_in, expect = [], []
    for h in range(n):
        corr_word(ctx, h, nl, model_in, expect)
    for h in range(n):
        corr_kword(ctx, 1000000 + h, nl, model_in, expect)
    out = common.run_driver('store', model_in)
    bad = set()
    for line, exp, got in zip(model_in, expect, out):
        if exp is None:
            continue
        h, mm, lines, want = exp
        if isinstance(want, tuple):
            cls, rest = knorm(got)
            got = f'{cls} {rest}' if want[1] != 'corner' else cls
            want = f'{want[1]} {want[2]}' if want[1] != 'corner' else 'corner'
        if h not in bad and got != want:
            bad.add(h)
            if len(ctx.divergences) < 20:
                ctx.diverge(f'word {h} `{line}`: model `{got[:260]}` vs implementation `{want[:260]}`',
                            {'metamodel': mm.lines(), 'letters': lines})
    ctx.assumptions += ['the Lean model contains Set/Add/Remove/Move, Compound and the stack; Delete is judged by the oracle only',
                        'commands that steal are excluded from the oracle (the statement excludes them) but included in the correspondence']


def search(ctx):
    for h in range(50000, 53000):
        run_word(ctx, h, 25)
        if ctx.violations:
            return


def replay(ctx, data):
    common.use_repo()
    r = data['replay']
    if 'compound_interference' in r:
        c2 = common.Ctx('C06', 'quick', 0)
        compound_interference_pass(c2)
        hits = [v for v in c2.violations if v['replay'].get('compound_interference') == r['compound_interference']]
        for v in hits:
            print('  ', v['what'])
        return 1 if hits else 0
    mm = storecheck.mm_from_lines(r['metamodel'])
    cw = CmdWorld(mm)
    for l in r['prefix']:
        cw.w.apply(l)
    print('  start :', cw.w.dump())

    def tup(x):
        return tuple(tup(y) if isinstance(y, list) and y and isinstance(y[0], (list, str)) and x[0] == 'Compound' else y for y in x)
    for letter in r['word']:
        try:
            if letter[0] == 'exec':
                spec = letter[1]
                spec = tuple(spec) if spec[0] != 'Compound' else ('Compound', [tuple(s) for s in spec[1]])
                cw.stack.execute(cw.build(spec))
            elif letter[0] == 'exec-batch':
                cw.stack.execute(*[cw.build(tuple(s)) for s in letter[1]])
            elif letter[0] == 'undo':
                cw.stack.undo()
            else:
                cw.stack.redo()
            res = 'returned'
        except Exception as e:
            res = 'raised ' + type(e).__name__
        print(f'  {str(letter):<60} {res}: {cw.w.dump()}')
    print('  reported:', data['what'])
    return 1
