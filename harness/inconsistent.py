"""Documents that load but state the two ends of a bidirectional reference inconsistently (a badly merged file): one token
of one end replaced by another valid token of the same feature, a token dropped, a token given twice.  Used by C01
("... or load") and C18 ("whatever loads is well-formed")."""
import json
import re


def xmi_variants(rng, data, classes, n):
    from lxml import etree
    feats = {}
    for c in classes:
        for f in c.eAllStructuralFeatures():
            feats[f.name] = f
    out = []
    for _ in range(n):
        root = etree.fromstring(data)
        slots = [(e, k) for e in root.iter() if isinstance(e.tag, str) for k in e.attrib
                 if k in feats and feats[k].is_reference and not feats[k].containment and feats[k].eOpposite is not None
                 and e.attrib[k].strip()]
        if not slots:
            break
        e, k = rng.choice(slots)
        toks = e.attrib[k].split()
        pool = sorted({t for (e2, k2) in slots if k2 == k for t in e2.attrib[k2].split()})
        how = rng.choice(['swap', 'swap', 'drop', 'dup'])
        i = rng.randrange(len(toks))
        if how == 'swap':
            others = [t for t in pool if t != toks[i]]
            if not others:
                continue
            toks[i] = rng.choice(others)
        elif how == 'drop':
            del toks[i]
        else:
            toks.insert(i, toks[i])
        if toks:
            e.attrib[k] = ' '.join(toks)
        else:
            del e.attrib[k]
        out.append((how, etree.tostring(root, xml_declaration=True, encoding='UTF-8')))
    return out


def json_variants(rng, data, classes, n):
    feats = {}
    for c in classes:
        for f in c.eAllStructuralFeatures():
            feats[f.name] = f
    out = []
    for _ in range(n):
        d = json.loads(data.decode('utf-8'))
        slots = []

        def walk(x):
            if isinstance(x, dict):
                for k, v in x.items():
                    if k in feats and feats[k].is_reference and not feats[k].containment and feats[k].eOpposite is not None and v:
                        slots.append((x, k))
                    walk(v)
            elif isinstance(x, list):
                for v in x:
                    walk(v)
        walk(d)
        if not slots:
            break
        o, k = rng.choice(slots)
        pool = []
        for (o2, k2) in slots:
            if k2 == k:
                v2 = o2[k2]
                pool += [r for r in (v2 if isinstance(v2, list) else [v2]) if isinstance(r, dict) and '$ref' in r]
        how = rng.choice(['swap', 'swap', 'drop', 'dup'])
        v = o[k]
        if isinstance(v, list):
            i = rng.randrange(len(v))
            if how == 'swap':
                others = [r for r in pool if r.get('$ref') != v[i].get('$ref')]
                if not others:
                    continue
                v[i] = dict(rng.choice(others))
            elif how == 'drop':
                del v[i]
            else:
                v.insert(i, dict(v[i]))
        else:
            if how == 'drop':
                del o[k]
            else:
                others = [r for r in pool if r.get('$ref') != v.get('$ref')]
                if not others:
                    continue
                o[k] = dict(rng.choice(others))
        out.append((how, json.dumps(d).encode('utf-8')))
    return out


def asymmetric(roots, unproxy):
    """first pair that breaks `y in x.r  <=>  x in y.r'` in a loaded model, or None"""
    objs = []

    def walk(o):
        objs.append(o)
        for c in o.eContents:
            walk(c)
    for r in roots:
        walk(r)
    for o in objs:
        for f in o.eClass.eAllReferences():
            if f.eOpposite is None:
                continue
            v = o.eGet(f)
            vals = list(v) if f.many else ([v] if v is not None else [])
            for t in vals:
                t = unproxy(t)
                if t is None:
                    continue
                back = t.eGet(f.eOpposite)
                bl = list(back) if f.eOpposite.many else ([back] if back is not None else [])
                if not any(unproxy(b) is o for b in bl):
                    return f'{o.eClass.name}.{f.name} holds a {t.eClass.name} whose {f.eOpposite.name} does not hold it back'
    return None
