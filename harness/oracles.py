"""Oracles: each property stated directly on the real pyecore objects, written from the property text only
(never from the Lean model).  "is a value of" is decided by scanning with `is` (DESIGN 5.4)."""


def holds(world, o, f, y):
    return any(v is y for v in world.slot(o, f))


def c01_symmetry(world):
    """y is a value of x.r exactly when x is a value of y.r'"""
    mm, out = world.mm, []
    for f in mm.feats:
        if f.opp is None or f.fid > f.opp:
            continue
        g = mm.feats[f.opp]
        for xi, x in enumerate(world.objs):
            if f not in mm.feats_of(world.classes.index(x.eClass)):
                continue
            for yi, y in enumerate(world.objs):
                if g not in mm.feats_of(world.classes.index(y.eClass)):
                    continue
                a, b = holds(world, x, f, y), holds(world, y, g, x)
                if a != b:
                    out.append(('sym', f'o{yi} in o{xi}.f{f.fid} is {a} but o{xi} in o{yi}.f{g.fid} is {b}',
                                {'f.many': f.many, 'g.many': g.many, 'containment': f.cont or g.cont}))
    # values of an opposite reference must also *have* the opposite feature (else they cannot be symmetric)
    return out


def owner_view(world):
    """(containment slot positions, resource root positions, back-pointers) of every object"""
    mm = world.mm
    positions = {i: [] for i in range(len(world.objs))}
    for xi, x in enumerate(world.objs):
        for f in mm.feats_of(world.classes.index(x.eClass)):
            if f.ref and f.cont:
                for pos, v in enumerate(world.slot(x, f)):
                    vi = world.oid(v)
                    if vi is not None:
                        positions[vi].append(('c', xi, f.fid, pos))
    for k, r in enumerate(world.res):
        for pos, v in enumerate(r.contents):
            vi = world.oid(v)
            if vi is not None:
                positions[vi].append(('r', k, pos))
    back = {}
    for i, o in enumerate(world.objs):
        c, cf, r = o.eContainer(), o.eContainmentFeature(), o._eresource
        back[i] = (None if c is None else world.oid(c), None if cf is None else world.fid_of[id(cf)],
                   None if r is None else world.res.index(r))
    return positions, back


def c02_ownership(world):
    out = []
    positions, back = owner_view(world)
    for i, o in enumerate(world.objs):
        ps = positions[i]
        if len(ps) > 1:
            out.append(('multi-owner', f'o{i} is held at {ps}', {}))
            continue
        c, cf, r = back[i]
        if not ps:
            if c is not None or cf is not None:
                out.append(('stale-container', f'o{i} is held nowhere but eContainer()=o{c}.f{cf}', {}))
            if r is not None:
                out.append(('stale-resource', f'o{i} is a root of no resource but _eresource=r{r}', {}))
        elif ps[0][0] == 'c':
            _, xi, fid, _ = ps[0]
            if c != xi or cf != fid:
                out.append(('wrong-container', f'o{i} is held by o{xi}.f{fid} but eContainer()/feature = {c}/{cf}', {}))
            if r is not None:
                out.append(('contained-root', f'o{i} is contained by o{xi} but still names resource r{r} as root owner', {}))
        else:
            _, k, _ = ps[0]
            if r != k:
                out.append(('wrong-resource', f'o{i} is a root of r{k} but _eresource={r}', {}))
            if c is not None:
                out.append(('root-with-container', f'o{i} is a root of r{k} but eContainer()=o{c}', {}))
    # every descendant reports its root's resource
    for i, o in enumerate(world.objs):
        root, n = o, 0
        while root.eContainer() is not None and n < 100:
            root, n = root.eContainer(), n + 1
        if n >= 100:
            out.append(('cycle', f'container chain of o{i} does not end', {}))
            continue
        if o.eResource is not root._eresource:
            out.append(('descendant-resource', f'o{i}.eResource differs from its root o{world.oid(root)}', {}))
    return out


PYTYPES = {'EInt': int, 'EString': str, 'EBoolean': bool}


def conforms(world, f, v):
    """Independent conformance predicate (property text): instance of the class or a subtype; value of the data
    type's Python type; None only for single-valued features."""
    if v is None:
        return not f.many
    if f.ref:
        i = world.oid(v)
        if i is None:
            return False
        return world.mm.conforms(world.classes.index(v.eClass), f.typ[1])
    return isinstance(v, PYTYPES[f.typ[1]])


def c03_typed(world):
    out = []
    for xi, x in enumerate(world.objs):
        for f in world.mm.feats_of(world.classes.index(x.eClass)):
            for v in world.slot(x, f):
                if not conforms(world, f, v):
                    out.append(('ill-typed', f'o{xi}.f{f.fid} holds {world.tok(v)}', {}))
    return out


# ---- C07 ---------------------------------------------------------------------------------------------------

def snapshot(world):
    """every feature value of every object (by identity), container, for before/after comparisons"""
    snap = []
    for xi, x in enumerate(world.objs):
        feats = {}
        for f in world.mm.feats_of(world.classes.index(x.eClass)):
            feats[f.fid] = list(world.slot(x, f))
        snap.append((feats, x.eContainer(), x.eContainmentFeature(), x._eresource))
    return snap


def subtree(world, snap, i):
    """containment subtree below object i according to a snapshot (independent of eAllContents)"""
    out, todo = [], [i]
    while todo:
        k = todo.pop()
        for fid, vals in snap[k][0].items():
            f = world.mm.feats[fid]
            if f.ref and f.cont:
                for v in vals:
                    j = world.oid(v)
                    if j is not None and j not in out and j != i:
                        out.append(j)
                        todo.append(j)
    return out


def c07_delete(world, snap, i, recursive):
    """after objs[i].delete(recursive): no dangling reference, deleted objects clean, survivors untouched"""
    out = []
    D = [i] + (subtree(world, snap, i) if recursive else [])
    Dobj = [world.objs[k] for k in D]
    isD = lambda v: any(v is d for d in Dobj)
    after = snapshot(world)
    for xi in range(len(world.objs)):
        feats, cont, cf, res = after[xi]
        if xi in D:
            for fid, vals in feats.items():
                if world.mm.feats[fid].ref and vals:
                    out.append(('deleted-holds', f'deleted o{xi}.f{fid} still holds {[world.tok(v) for v in vals]}',
                                {'list_like': world.mm.feats[fid].many and not world.mm.feats[fid].unique}))
            if cont is not None:
                out.append(('deleted-has-container', f'deleted o{xi} still has container o{world.oid(cont)}', {}))
            continue
        for fid, vals in feats.items():
            f = world.mm.feats[fid]
            bad = [v for v in vals if f.ref and isD(v)]
            if bad:
                out.append(('dangling', f'o{xi}.f{fid} still holds deleted {[world.tok(v) for v in bad]}',
                            {'list_like': f.many and not f.unique, 'opposite': f.opp is not None}))
                continue
            want = [v for v in snap[xi][0][fid] if not (f.ref and isD(v))]
            if len(want) != len(vals) or any(a is not b and a != b for a, b in zip(want, vals)):
                out.append(('survivor-changed', f'o{xi}.f{fid} was {[world.tok(v) for v in snap[xi][0][fid]]} '
                            f'is {[world.tok(v) for v in vals]}', {}))
        if res is not snap[xi][3]:
            out.append(('survivor-resource', f'o{xi} resource membership changed', {}))
        old_c = snap[xi][1]
        if old_c is not None and not isD(old_c) and cont is not old_c:
            out.append(('survivor-container', f'o{xi} lost its container', {}))
    return out


# ---- C05 ---------------------------------------------------------------------------------------------------

class Mirror:
    """An observer-side copy of every feature of every object, driven by notifications only."""

    def __init__(self, world):
        self.w = world
        self.state = {}      # (oid, fid) -> list of tokens

    def ensure(self, i):
        o = self.w.objs[i]
        for f in self.w.mm.feats_of(self.w.classes.index(o.eClass)):
            if (i, f.fid) not in self.state:
                self.state[(i, f.fid)] = [self.w.tok(v) for v in self.w.slot(o, f)]

    def toks(self, t):
        if t == 'n':
            return []
        if t.startswith('['):
            inner = t[1:-1]
            return [x for x in inner.split(',') if x] if inner else []
        return [t]

    def apply(self, notif):
        who, fid, kind, old, new = notif
        if who is None or fid is None:
            return
        cur = self.state.setdefault((who, fid), [])
        f = self.w.mm.feats[fid]
        if kind in ('SET', 'UNSET'):
            cur[:] = self.toks(new)
        elif kind in ('ADD', 'ADD_MANY'):
            for t in self.toks(new):
                if f.many and f.unique and t in cur:
                    continue          # a set: adding what is there changes nothing
                cur.append(t)
        elif kind in ('REMOVE', 'REMOVE_MANY'):
            for t in self.toks(old):
                if t in cur:
                    cur.remove(t)

    def compare(self):
        out = []
        for i, o in enumerate(self.w.objs):
            for f in self.w.mm.feats_of(self.w.classes.index(o.eClass)):
                real = [self.w.tok(v) for v in self.w.slot(o, f)]
                mine = self.state.get((i, f.fid), [])
                if sorted(real) != sorted(mine):
                    out.append(('mirror', f'o{i}.f{f.fid} is {real}, the observer reconstructs {mine}',
                                {'many': f.many, 'unique': f.unique, 'ref': f.ref}))
        return out
