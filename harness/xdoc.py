"""Document-layer tie for C08: real objects / real XML  <->  the S-expressions of `driver xdoc` (Model/XmiDoc.lean).

Everything here reads the real pyecore objects through their public or documented state (`_isset` order, `eGet`,
`eContainmentFeature`, `_internal_id`) and the written bytes through lxml; nothing is shared with the Lean model except
the line format."""
from lxml import etree

XSI = 'http://www.w3.org/2001/XMLSchema-instance'
XMI = 'http://www.omg.org/XMI'


def enc(s):
    return '_' if s == '' else ','.join(str(ord(c)) for c in s)


def enco(s):
    return '-' if s is None else enc(s)


def kind_of(f):
    if f.derived or f.transient:
        return 'skip'
    if f.is_attribute:
        if hasattr(f._eType, 'eType') and f._eType.eType is dict:
            return 'skip'
        return 'attr'
    if f.eOpposite is not None and f.eOpposite.containment:
        return 'skip'
    return 'cont' if f.containment else 'ref'


def mm_lines(classes):
    """classes: list of EClass (index = cid)"""
    out = ['reset']
    idx = {id(c): i for i, c in enumerate(classes)}
    for i, c in enumerate(classes):
        fs = []
        for f in c.eAllStructuralFeatures():
            k = kind_of(f)
            d = '-'
            if k == 'attr' and not f.many:
                dv = f.get_default_value()
                d = '-' if dv is None else enc(f._eType.to_string(dv))
            t = idx.get(id(f._eType), 0) if k in ('ref', 'cont') else 0
            fl = 1 if (k == 'attr' and getattr(f._eType, 'eType', None) is float) else 0
            fs.append(f"{enc(f.name)}:{k}:{1 if f.many else 0}:{d}:{t}:{1 if (k == 'attr' and f.iD) else 0}:{fl}")
        out.append(f'class {i} {enc(c.name)} ' + ' '.join(fs))
    return out


def path_of(o, roots):
    segs = []
    cur = o
    while cur.eContainer() is not None:
        f = cur.eContainmentFeature()
        p = cur.eContainer()
        if f.many:
            coll = list(p.eGet(f))
            i = next(k for k, x in enumerate(coll) if x is cur)
            segs.append((f.name, str(i)))
        else:
            segs.append((f.name, '-'))
        cur = p
    r = next(k for k, x in enumerate(roots) if x is cur)
    return f'(p {r}' + ''.join(f' {enc(n)} {i}' for n, i in reversed(segs)) + ')'


def unwrap(t):
    return getattr(t, '_wrapped', t) if hasattr(t, 'force_resolve') and not isinstance(t, type) else t


def slot_sexp(o, f, roots, value):
    n = enc(f.name)
    if value is None:
        return f'(none {n})'
    if f.is_attribute:
        if hasattr(f._eType, 'eType') and f._eType.eType is dict:
            return None
        ts = f._eType.to_string
        if f.many:
            return f'(aN {n}' + ''.join(' ' + ('-' if v is None else enc(ts(v))) for v in value) + ')'
        return f'(a1 {n} {enc(ts(value))})'
    if f.containment:
        return f'(kids {n})'
    if f.many:
        return f'(rN {n}' + ''.join(' ' + path_of(unwrap(t), roots) for t in value) + ')'
    return f'(r1 {n} {path_of(unwrap(value), roots)})'


def snode(o, classes, roots, use_uuid=True):
    """the object as the model's SNode: `_isset` entries in order, contained children in feature-of-isset order"""
    cf = o.eContainmentFeature()
    via = cf.name if cf is not None else ''
    cid = next(i for i, c in enumerate(classes) if c is o.eClass)
    slots, kids = [], []
    for f in o._isset:
        v = o.__getattribute__(f._name)
        s = slot_sexp(o, f, roots, v)
        if s is None:
            continue
        slots.append(s)
        if not f.is_attribute and f.containment and v is not None and kind_of(f) == 'cont':
            for ch in (v if f.many else [v]):
                kids.append(snode(ch, classes, roots, use_uuid))
    uid = o._internal_id if (use_uuid and o._internal_id) else ''
    return f"(n {enc(via)} {cid} {enc(uid)} ({' '.join(slots)}) ({' '.join(kids)}))"


def normal_form(o, classes, roots, use_uuid):
    """what the loaded object *is*: every attribute / reference of its class with its effective value, in the
    metamodel's feature order; children grouped by containment feature in that order"""
    cf = o.eContainmentFeature()
    via = cf.name if cf is not None else ''
    cid = next(i for i, c in enumerate(classes) if c is o.eClass)
    slots, kids = [], []
    for f in o.eClass.eAllStructuralFeatures():
        k = kind_of(f)
        if k == 'skip':
            continue
        v = o.eGet(f)
        if k == 'cont':
            if v is not None:
                for ch in (v if f.many else [v]):
                    kids.append(normal_form(ch, classes, roots, use_uuid))
            continue
        slots.append(slot_sexp(o, f, roots, v))
    uid = o._internal_id if (use_uuid and o._internal_id) else ''
    return f"(n {enc(via)} {cid} {enc(uid)} ({' '.join(slots)}) ({' '.join(kids)}))"


def elem_sexp(e, top):
    q = etree.QName(e.tag)
    tag = q.localname
    typ = e.get(f'{{{XSI}}}type')
    if typ is None:
        typ = e.get(f'{{{XMI}}}type')
    if typ is not None and ':' in typ:
        typ = typ.split(':', 1)[1]
    uid = e.get(f'{{{XMI}}}id')
    nil = 1 if f'{{{XSI}}}nil' in e.attrib else 0
    attrs = [(k, v) for k, v in e.attrib.items() if not k.startswith('{')]
    kids = [c for c in e if isinstance(c.tag, str)]
    text = None if kids else (e.text if e.text else None)
    return (f"(e {enc(tag)} {enco(typ)} {enco(uid)} {nil} ({' '.join(f'({enc(k)} {enc(v)})' for k, v in attrs)}) "
            f"{enco(text)} ({' '.join(elem_sexp(c, False) for c in kids)}))")


def doc_elems(data):
    root = etree.fromstring(data)
    if root.tag == f'{{{XMI}}}XMI':
        return [c for c in root if isinstance(c.tag, str)]
    return [root]


def doc_sexp(data):
    return '(' + ' '.join(elem_sexp(e, True) for e in doc_elems(data)) + ')'


# ---------------------------------------------------------------------------------------------
# JSON (C09): the same objects, attribute values as tagged atoms; documents as JSON value S-expressions

import json as _json


def jatom(f, v):
    """the atom `to_dict` writes for one attribute value: n<number text> / b<true|false> / s<string>"""
    if v is None:
        return None
    py = getattr(f._eType, 'eType', None)
    if hasattr(v, 'name') and hasattr(f._eType, 'eLiterals'):
        return 's' + v.name
    if py in (int, float, bool, str):
        return jnative(v)
    return 's' + f._eType.to_string(v)


def jnative(v):
    if isinstance(v, bool):
        return 'b' + ('true' if v else 'false')
    if isinstance(v, (int, float)):
        return 'n' + _json.dumps(v)
    return 's' + str(v)


def jslot_sexp(o, f, roots, value):
    n = enc(f.name)
    if value is None:
        return f'(none {n})'
    if f.is_attribute:
        if hasattr(f._eType, 'eType') and f._eType.eType is dict:
            return None
        if f.many:
            return f'(aN {n}' + ''.join(' ' + enco(jatom(f, v)) for v in value) + ')'
        return f'(a1 {n} {enc(jatom(f, value))})'
    if f.containment:
        return f'(kids {n})'
    if f.many:
        return f'(rN {n}' + ''.join(' ' + path_of(unwrap(t), roots) for t in value) + ')'
    return f'(r1 {n} {path_of(unwrap(value), roots)})'


def jsnode(o, classes, roots, use_uuid=True):
    cf = o.eContainmentFeature()
    via = cf.name if cf is not None else ''
    cid = next(i for i, c in enumerate(classes) if c is o.eClass)
    slots, kids = [], []
    for f in o._isset:
        v = o.eGet(f)
        s = jslot_sexp(o, f, roots, v)
        if s is None:
            continue
        slots.append(s)
        if not f.is_attribute and f.containment and v is not None and kind_of(f) == 'cont':
            for ch in (v if f.many else [v]):
                kids.append(jsnode(ch, classes, roots, use_uuid))
    uid = o._internal_id if (use_uuid and o._internal_id) else ''
    return f"(n {enc(via)} {cid} {enc(uid)} ({' '.join(slots)}) ({' '.join(kids)}))"


def jnormal_form(o, classes, roots, use_uuid):
    cf = o.eContainmentFeature()
    via = cf.name if cf is not None else ''
    cid = next(i for i, c in enumerate(classes) if c is o.eClass)
    slots, kids = [], []
    for f in o.eClass.eAllStructuralFeatures():
        k = kind_of(f)
        if k == 'skip':
            continue
        v = o.eGet(f)
        if k == 'cont':
            if v is not None:
                for ch in (v if f.many else [v]):
                    kids.append(jnormal_form(ch, classes, roots, use_uuid))
            continue
        slots.append(jslot_sexp(o, f, roots, v))
    uid = o._internal_id if (use_uuid and o._internal_id) else ''
    return f"(n {enc(via)} {cid} {enc(uid)} ({' '.join(slots)}) ({' '.join(kids)}))"


def jmm_lines(classes):
    """as mm_lines, but a class is named by what `serialize_eclass` writes and defaults are atoms"""
    out = ['reset']
    idx = {id(c): i for i, c in enumerate(classes)}
    for i, c in enumerate(classes):
        fs = []
        for f in c.eAllStructuralFeatures():
            k = kind_of(f)
            d = '-'
            if k == 'attr' and not f.many:
                dv = f.get_default_value()
                d = '-' if dv is None else enc(jatom(f, dv))
            t = idx.get(id(f._eType), 0) if k in ('ref', 'cont') else 0
            fl = 1 if (k == 'attr' and getattr(f._eType, 'eType', None) is float) else 0
            fs.append(f"{enc(f.name)}:{k}:{1 if f.many else 0}:{d}:{t}:{1 if (k == 'attr' and f.iD) else 0}:{fl}")
        uri = f'{c.eRoot().nsURI}{c.eURIFragment()}'
        out.append(f'class {i} {enc(uri)} ' + ' '.join(fs))
    return out


def jv_sexp(v):
    if v is None:
        return '(null)'
    if isinstance(v, list):
        return '(arr' + ''.join(' ' + jv_sexp(x) for x in v) + ')'
    if isinstance(v, dict):
        return '(obj' + ''.join(f' ({enc(k)} {jv_sexp(x)})' for k, x in v.items()) + ')'
    return f'(a {enc(jnative(v))})'


def jdoc_sexp(data):
    d = _json.loads(data.decode('utf-8'))
    roots = d if isinstance(d, list) else [d]
    return '(' + ' '.join(jv_sexp(r) for r in roots) + ')'
