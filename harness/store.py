"""The "Store" harness shared by C01 C02 C03 C05 C07 C11 C15 C19 (DESIGN.md sections 3, 5).

* metamodel generator (well-formed shapes: WF of the Lean model) and its line rendering,
* `World`: runs protocol lines on the real pyecore, in-process, and emits canonical records,
* history generator,
* oracles: each property stated directly on the real objects (independent of the Lean model).
"""
import itertools
from . import common

DTYPES = ['EInt', 'EString', 'EBoolean']


# ------------------------------------------------------------------------------------------------
# metamodel descriptions

class Feat:
    def __init__(self, fid, owner, name, ref, many, ordered, unique, cont, typ, opp=None, transient=False):
        self.fid, self.owner, self.name, self.ref, self.many = fid, owner, name, ref, many
        self.ordered, self.unique, self.cont, self.typ, self.opp = ordered, unique, cont, typ, opp
        self.transient = transient      # not persisted; behaves like any other feature in memory
        self.volatile = False           # "no storage of its own" in EMF; pyecore stores it like any other feature

    def line(self):
        b = lambda x: 1 if x else 0
        t = f'cls:{self.typ[1]}' if self.typ[0] == 'cls' else f'dt:{self.typ[1]}'
        return (f'mm feat {self.fid} owner={self.owner} ref={b(self.ref)} many={b(self.many)} '
                f'ordered={b(self.ordered)} unique={b(self.unique)} cont={b(self.cont)} type={t} '
                f'opp={self.opp if self.opp is not None else "-"}' + (' volatile=1' if self.volatile else ''))

    def shape(self):
        return ('ref' if self.ref else 'attr', 'many' if self.many else 'single',
                'o' if self.ordered else 'n', 'u' if self.unique else 'd', 'cont' if self.cont else '-')


class MMDesc:
    def __init__(self):
        self.classes = []   # (cid, abstract, [super cids])
        self.feats = []
        self.falsy = set()  # cids whose instances are falsy (a class defining __bool__/__len__, as static ones may)

    def lines(self):
        out = []
        for (cid, abstract, supers) in self.classes:
            out.append(f"mm class {cid} abstract={1 if abstract else 0} supers={','.join(map(str, supers)) or '-'}"
                       + (' falsy=1' if cid in self.falsy else ''))
        out += [f.line() for f in self.feats]
        out.append('mm end')
        return out

    def all_supers(self, cid):
        seen, todo = [], list(self.classes[cid][2])
        while todo:
            c = todo.pop(0)
            if c not in seen:
                seen.append(c)
                todo += self.classes[c][2]
        return seen

    def conforms(self, cid, target):
        return cid == target or target in self.all_supers(cid)

    def feats_of(self, cid):
        cs = [cid] + self.all_supers(cid)
        return [f for f in self.feats if f.owner in cs]

    def add_feat(self, **kw):
        f = Feat(len(self.feats), **kw)
        f.name = f'f{f.fid}'
        self.feats.append(f)
        return f

    def add_pair(self, a, b, many_f, many_g, ord_f, ord_g, cont):
        """f : a -> b, g : b -> a, mutual opposites; `cont` makes f a containment (then g must be single)."""
        f = self.add_feat(owner=a, name='', ref=True, many=many_f, ordered=ord_f, unique=True, cont=cont, typ=('cls', b))
        g = self.add_feat(owner=b, name='', ref=True, many=many_g, ordered=ord_g, unique=True, cont=False, typ=('cls', a))
        f.opp, g.opp = g.fid, f.fid
        return f, g


def gen_mm(rng, profile='mixed'):
    """A well-formed metamodel: 2-3 classes (optionally B' < B), 1-2 opposite pairs of every multiplicity pairing,
    containment with/without a parent opposite, references without opposite, a few attributes."""
    mm = MMDesc()
    ncls = rng.choice([2, 2, 3, 5])
    mm.classes.append((0, False, []))
    mm.classes.append((1, False, []))
    if ncls == 3:
        mm.classes.append((2, False, [rng.choice([0, 1])]))
    if ncls == 5:       # a diamond below class 0 (in either declaration order), so that features are inherited along two paths
        mm.classes.append((2, False, [0]))
        mm.classes.append((3, False, [0]))
        mm.classes.append((4, False, rng.choice([[2, 3], [3, 2]])))
    cls = lambda: rng.randrange(2)

    def pair():
        many_f, many_g = rng.random() < .5, rng.random() < .5
        cont = rng.random() < (.5 if profile != 'sym' else .3)
        if cont:
            many_g = False
        a, b = cls(), cls()
        mm.add_pair(a, b, many_f, many_g, rng.random() < .8, rng.random() < .8, cont)

    for _ in range(rng.choice([1, 2, 2])):
        pair()
    # containment without opposite
    for _ in range(rng.choice([0, 1, 1])):
        mm.add_feat(owner=cls(), name='', ref=True, many=rng.random() < .6, ordered=rng.random() < .8, unique=True,
                    cont=True, typ=('cls', cls()), transient=rng.random() < .3)
    # plain references without opposite (many ones may be non-unique: EList/EBag)
    for _ in range(rng.choice([0, 1, 2])):
        many = rng.random() < .6
        pf = mm.add_feat(owner=cls(), name='', ref=True, many=many, ordered=rng.random() < .8,
                         unique=(rng.random() < .6) if many else True, cont=False, typ=('cls', cls()))
        pf.volatile = rng.random() < .25
    for _ in range(rng.choice([0, 1, 2])):
        many = rng.random() < .5
        mm.add_feat(owner=cls(), name='', ref=False, many=many, ordered=rng.random() < .8,
                    unique=(rng.random() < .5) if many else True, cont=False, typ=('dt', rng.choice(DTYPES)))
    add_falsy(rng, mm)
    return mm


def add_falsy(rng, mm):
    """now and then the instances of some classes are falsy objects (the Python class defines __bool__)"""
    if rng.random() < .25:
        mm.falsy = {c[0] for c in mm.classes if rng.random() < .6}


def build_mm(mm):
    """Instantiate the description as dynamic pyecore EClasses."""
    from pyecore import ecore as E
    pk = E.EPackage('p', 'http://verif/p', 'p')
    classes = []
    for (cid, abstract, supers) in mm.classes:
        c = E.EClass(f'C{cid}', abstract=abstract)
        classes.append(c)
        pk.eClassifiers.append(c)
        if cid in getattr(mm, 'falsy', ()):
            c.python_class.__bool__ = lambda self: False
    for (cid, abstract, supers) in mm.classes:
        for s in supers:
            classes[cid].eSuperTypes.append(classes[s])
    feats = []
    for f in mm.feats:
        if f.ref:
            ef = E.EReference(f.name, classes[f.typ[1]], upper=-1 if f.many else 1, ordered=f.ordered,
                              unique=f.unique, containment=f.cont, transient=getattr(f, 'transient', False),
                              volatile=getattr(f, 'volatile', False))
        else:
            ef = E.EAttribute(f.name, getattr(E, f.typ[1]), upper=-1 if f.many else 1, ordered=f.ordered,
                              unique=f.unique)
        classes[f.owner].eStructuralFeatures.append(ef)
        feats.append(ef)
    for f in mm.feats:
        if f.opp is not None and f.fid < f.opp:
            feats[f.fid].eOpposite = feats[f.opp]
    return pk, classes, feats


# ------------------------------------------------------------------------------------------------
# running protocol lines on the real code

ERR = {'BadValueError': 'BadValueError', 'KeyError': 'KeyError', 'IndexError': 'IndexError',
       'ValueError': 'ValueError', 'AttributeError': 'AttributeError', 'TypeError': 'TypeError',
       'RecursionError': 'RecursionError', 'RuntimeError': 'RuntimeError'}


class World:
    def __init__(self, mm, observe=True, builder=None):
        from pyecore.resources import ResourceSet
        from pyecore.resources.resource import Resource
        from pyecore.notification import EObserver
        self.mm = mm
        self.pk, self.classes, self.feats = (builder or build_mm)(mm)
        self.fid_of = {id(f): i for i, f in enumerate(self.feats)}
        self.objs = []
        self.res = []
        self.Resource = Resource
        self.EObserver = EObserver
        self.notifs = []          # (notifier oid | 'r<k>', fid, kind, old, new) of the current call
        self.observe_on = observe
        self.res_notifs = []

    def mm_lines(self):
        """metamodel lines for the model driver; defaults of single-valued attributes are read off the real features"""
        out = []
        for l in self.mm.lines():
            ws = l.split()
            if ws[:2] == ['mm', 'feat']:
                f = self.mm.feats[int(ws[2])]
                if not f.ref and not f.many:
                    l += ' dflt=' + self.tok(self.feats[f.fid].get_default_value())
            out.append(l)
        return out

    # -- tokens -------------------------------------------------------------------------------
    def oid(self, o):
        for i, x in enumerate(self.objs):
            if x is o:
                return i
        return None

    def tok(self, v):
        if v is None:
            return 'n'
        if isinstance(v, bool):
            return f'b:{1 if v else 0}'
        if isinstance(v, int):
            return f'i:{v}'
        if isinstance(v, str):
            return 's:' + v
        if isinstance(v, (list, tuple)) or hasattr(v, '_update_opposite'):
            return '[' + ','.join(self.tok(x) for x in v) + ']'
        i = self.oid(v)
        if i is not None:
            return f'o:{i}'
        return 'x:' + type(v).__name__

    def val(self, t):
        if t == 'n':
            return None
        k, _, r = t.partition(':')
        if k == 'o':
            return self.objs[int(r)]
        if k == 'i':
            return int(r)
        if k == 'b':
            return r == '1'
        if k == 's':
            return r
        if k == 'x':
            return {'bytes': b'z', 'float': 1.5, 'dict': {}, 'object': object()}[r]
        raise ValueError(t)

    # -- observation --------------------------------------------------------------------------
    def slot(self, o, f):
        v = o.eGet(self.feats[f.fid])
        if f.many:
            return list(v)
        return [] if v is None else [v]

    def dump(self):
        parts = []
        for i, o in enumerate(self.objs):
            cid = self.classes.index(o.eClass)
            fs = []
            for f in self.mm.feats_of(cid):
                fs.append(f'f{f.fid}=' + ','.join(self.tok(x) for x in self.slot(o, f)))
            c = o.eContainer()
            cf = o.eContainmentFeature()
            cs = '-' if c is None else f'{self.oid(c)}.{self.fid_of[id(cf)]}'
            r = o._eresource
            rs = '-' if r is None else str(self.res.index(r))
            parts.append(f"o{i}[{' '.join(fs)} c={cs} r={rs}]")
        for k, r in enumerate(self.res):
            parts.append(f"r{k}[{','.join(str(self.oid(x)) for x in r.contents)}]")
        return ' '.join(parts)

    emission_hook = None

    def on_notif(self, n):
        if self.emission_hook:
            self.emission_hook(n)
        who = self.oid(n.notifier)
        fid = self.fid_of.get(id(n.feature))
        self.notifs.append((who, fid, n.kind.name, self.payload(n.kind.name, 'REMOVE', n.old),
                            self.payload(n.kind.name, 'ADD', n.new)))

    def payload(self, kind, family, v):
        """what an observer takes from a notification: one element for ADD / REMOVE, the elements of the collection for
        ADD_MANY / REMOVE_MANY (read the way Python reads them: a str given as the collection is its characters, a
        collection given as the one element is an element)"""
        if kind == family + '_MANY':
            if isinstance(v, str) or not hasattr(v, '__iter__'):
                return '[x:not-a-collection]'
            return '[' + ','.join(self.tok(x) for x in v) + ']'
        if kind == family and (isinstance(v, (list, tuple, set)) or hasattr(v, '_update_opposite')):
            return 'x:collection-as-element'
        return self.tok(v)

    def new_obj(self, cid):
        o = self.classes[cid]()
        self.objs.append(o)
        if self.observe_on:
            self.EObserver(o, notifyChanged=self.on_notif)
        return o

    # -- one protocol line ----------------------------------------------------------------------
    def apply(self, line):
        ws = line.split()
        op = ws[0]
        self.notifs = []
        try:
            ret = self._apply(op, ws[1:])
            out = 'ok ' + ('-' if ret is None else self.tok(ret))
        except Exception as e:   # noqa
            name = type(e).__name__
            out = 'err ' + ERR.get(name, name)
        return out

    def query(self, line):
        """read-only observations (`q …` lines): same canonical text as the model driver"""
        ws = line.split()[1:]
        O = self.objs
        try:
            if ws[0] == 'frag':
                return O[int(ws[1])].eURIFragment()
            if ws[0] == 'resolve':
                try:
                    r = self.res[int(ws[1])].resolve(ws[2])
                except Exception:
                    return 'none'
                i = self.oid(r) if r is not None else None
                return 'none' if i is None else f'o:{i}'
            if ws[0] == 'contents':
                return ','.join(map(str, sorted(self.oid(x) for x in O[int(ws[1])].eContents)))
            if ws[0] == 'allcontents':
                return ','.join(map(str, sorted(self.oid(x) for x in O[int(ws[1])].eAllContents())))
            if ws[0] == 'root':
                return f'o:{self.oid(O[int(ws[1])].eRoot())}'
        except Exception as e:
            return 'err ' + type(e).__name__
        return 'bad-op'

    def _apply(self, op, a):
        O, F = self.objs, self.feats
        if op == 'new':
            self.new_obj(int(a[0]))
            return None
        if op == 'res':
            # (a harness may hand out resources obtained another way, e.g. by loading an empty document)
            self.res.append(self.res_factory() if getattr(self, 'res_factory', None) else self.Resource())
            return None
        if op == 'rappend':
            self.res[int(a[0])].append(O[int(a[1])]); return None
        if op == 'rremove':
            self.res[int(a[0])].remove(O[int(a[1])]); return None
        if op == 'delete':
            O[int(a[0])].delete(recursive=a[1] == '1'); return None
        if op == 'pdelete':
            # the same deletion asked of a (resolved) proxy standing for the object, as a holder in another resource would
            from pyecore.ecore import EProxy
            EProxy(wrapped=O[int(a[0])]).delete(recursive=a[1] == '1'); return None
        o, f = O[int(a[0])], self.mm.feats[int(a[1])]
        ef = F[f.fid]
        if op == 'set':
            setattr(o, f.name, self.val(a[2])); return None
        if op == 'eset':
            o.eSet(ef, self.val(a[2])); return None
        if op == 'del':
            delattr(o, f.name); return None
        if op == 'assign':
            setattr(o, f.name, [self.val(t) for t in a[2:]]); return None
        c = getattr(o, f.name)
        if op == 'add':
            c.append(self.val(a[2])); return None
        if op == 'insert':
            c.insert(int(a[2]), self.val(a[3])); return None
        if op == 'insertbad':
            # a position that is no integer: refused (TypeError) before the other end or the container is touched
            c.insert({'none': None, 'str': '0', 'float': 1.5}[a[2]], self.val(a[3])); return None
        if op == 'remove':
            c.remove(self.val(a[2])); return None
        if op == 'pop':
            return c.pop(int(a[2]))
        if op == 'popd':
            return c.pop()
        if op == 'clear':
            c.clear(); return None
        if op == 'setitem':
            c[int(a[2])] = self.val(a[3]); return None
        if op == 'delitem':
            del c[int(a[2])]; return None
        if op == 'extend':
            c.extend([self.val(t) for t in a[2:]]); return None
        if op == 'iadd':
            vals = [self.val(t) for t in a[2:]]
            from collections.abc import Iterable
            if len(vals) == 1 and not isinstance(vals[0], Iterable) and len(list(c)) % 2 == 0:
                c += vals[0]        # `c += x` with one value that is no collection: the value itself is appended
            else:
                c += vals
            return None
        if op in SETOPS:
            vals = [self.val(t) for t in a[2:]]
            if op == 'discard':
                c.discard(vals[0])
            elif op == 'diffupd':
                c.difference_update(vals)
            elif op == 'interupd':
                c.intersection_update(vals)
            elif op == 'symupd':
                c.symmetric_difference_update(vals)
            elif op == 'isub':
                c -= vals
            elif op == 'iand':
                c &= vals
            elif op == 'ixor':
                c ^= vals
            else:
                c |= vals
            return None
        if op == 'delslice':
            del c[int(a[2]):int(a[3])]; return None
        if op == 'setslice':
            c[int(a[2]):int(a[3])] = [self.val(t) for t in a[4:]]; return None
        if op == 'imul':
            c *= int(a[2]); return None
        raise common.InfraError('bad op ' + op)


# ------------------------------------------------------------------------------------------------
# history generation (op by op, looking at the real state so that re-assignment / stealing / failures are frequent)

# the other mutators of a unique many-valued feature (Model/SetOps.lean)
SETOPS = ('discard', 'diffupd', 'isub', 'interupd', 'iand', 'symupd', 'ixor', 'ior')


class Gen:
    def __init__(self, rng, mm, world, triggers=False, weights=None, focus=None, max_objs=7):
        self.rng, self.mm, self.w, self.triggers = rng, mm, world, triggers
        self.weights = weights or {}
        self.focus = focus or []       # features to prefer (e.g. many-valued containments for C11)
        self.max_objs = max_objs

    def objs_with(self, f):
        return [i for i, o in enumerate(self.w.objs)
                if f in self.mm.feats_of(self.w.classes.index(o.eClass))]

    def ancestors(self, i):
        out, o = [], self.w.objs[i]
        while o.eContainer() is not None and len(out) < 50:
            o = o.eContainer()
            out.append(self.w.oid(o))
        return out

    def would_cycle(self, f, x, y):
        """x.f gets y: does a containment cycle arise?"""
        if f.cont:       # x contains y
            return x == y or y in self.ancestors(x)
        if f.opp is not None and self.mm.feats[f.opp].cont:   # y contains x
            return x == y or x in self.ancestors(y)
        return False

    def attr_val(self, f, ok=True):
        rng, t = self.rng, f.typ[1]
        if not ok:
            bad = {'EInt': ['s:a', 'x:bytes', 'x:float'], 'EString': ['i:1', 'b:1', 'x:bytes'],
                   'EBoolean': ['i:1', 's:true', 'x:dict']}[t]
            return rng.choice(bad)
        if t == 'EInt':
            return f'i:{rng.choice([0, 1, 2, 3, -1, 7])}'
        if t == 'EString':
            return 's:' + rng.choice(['a', 'b', 'c', 'dd'])
        return f'b:{rng.choice([0, 1])}'

    def value_for(self, f, x, want_ok=None):
        """-> (token, conforming?) or None when no admissible value exists"""
        rng = self.rng
        ok = (rng.random() < .88) if want_ok is None else want_ok
        if not f.ref:
            if ok and not f.many and rng.random() < .15:
                return 'n', True
            if (f.many and f.unique and f.typ[1] == 'EBoolean'):
                pass
            return self.attr_val(f, ok), ok
        if ok and not f.many and rng.random() < .2:
            return 'n', True
        cands = []
        for i, o in enumerate(self.w.objs):
            conf = self.mm.conforms(self.w.classes.index(o.eClass), f.typ[1])
            if conf != ok:
                continue
            if conf and self.would_cycle(f, x, i):
                continue
            if conf and f.many and not f.unique and not self.triggers:
                if any(v is o for v in self.w.slot(self.w.objs[x], f)):
                    continue
            cands.append(i)
        if not cands:
            if not ok:
                return rng.choice(['i:1', 's:a', 'x:object']), False
            return None
        # prefer values that already have a partner / owner (stealing, moving)
        busy = [] if not ok else [
            i for i in cands if self.w.objs[i].eContainer() is not None or self.w.objs[i]._eresource is not None
            or (f.opp is not None and self.w.slot(self.w.objs[i], self.mm.feats[f.opp]))]
        if busy and rng.random() < .5:
            return f'o:{rng.choice(busy)}', ok
        return f'o:{rng.choice(cands)}', ok

    def next_op(self):
        rng, w, mm = self.rng, self.w, self.mm
        for _ in range(50):
            k = rng.random()
            if len(w.objs) < 3 or (k < .06 and len(w.objs) < self.max_objs):
                cs = [c for c in mm.classes if not c[1]]
                return f'new {rng.choice(cs)[0]}'
            if k < .09 and len(w.res) < 2:
                return 'res'
            if k < .17 and w.res:
                r = rng.randrange(len(w.res))
                o = rng.randrange(len(w.objs))
                if rng.random() < .7:
                    return f'rappend {r} {o}'
                return f'rremove {r} {o}'
            if k < .22:
                return f'delete {rng.randrange(len(w.objs))} {rng.choice([0, 1, 1])}'
            f = rng.choice(self.focus) if self.focus and rng.random() < .6 else rng.choice(mm.feats)
            xs = self.objs_with(f)
            if not xs:
                continue
            x = rng.choice(xs)
            cur = w.slot(w.objs[x], f)
            if not f.many:
                j = rng.random()
                if j < .1:
                    return f'del {x} {f.fid}'
                v = self.value_for(f, x)
                if v is None:
                    continue
                return f"{'set' if j < .8 else 'eset'} {x} {f.fid} {v[0]}"
            n = len(cur)
            j = rng.random()
            idx = rng.randint(-(n + 2), n + 2)
            if j < .3:
                v = self.value_for(f, x)
                if v is None or v[0] == 'n':
                    continue
                if rng.random() < .06:
                    return f"insertbad {x} {f.fid} {rng.choice(['none', 'str', 'float'])} {v[0]}"
                return f'add {x} {f.fid} {v[0]}' if rng.random() < .6 else f'insert {x} {f.fid} {idx} {v[0]}'
            if j < .45:
                if cur and rng.random() < .8:
                    return f'remove {x} {f.fid} {w.tok(rng.choice(cur))}'
                v = self.value_for(f, x, True)
                if v is None or v[0] == 'n':
                    continue
                return f'remove {x} {f.fid} {v[0]}'
            if j < .57:
                return rng.choice([f'pop {x} {f.fid} {idx}', f'popd {x} {f.fid}', f'delitem {x} {f.fid} {idx}'])
            if j < .62:
                return rng.choice([f'clear {x} {f.fid}', f'del {x} {f.fid}'])
            if j < .75:
                v = self.value_for(f, x)
                if v is None or v[0] == 'n':
                    continue
                return f'setitem {x} {f.fid} {idx} {v[0]}'
            if not f.unique and j < .82:
                # a list-like feature: slices (what comes in may be what leaves) and *=
                a_ = rng.randint(0, n)
                b_ = rng.randint(a_, min(n, a_ + 3))
                k_ = rng.random()
                if k_ < .3:
                    return f'delslice {x} {f.fid} {a_} {b_}'
                if k_ < .4:
                    if f.ref and not self.triggers and n:
                        continue        # (copies of a reference's elements are the trigger of F-C07-1)
                    return f'imul {x} {f.fid} {rng.choice([-1, 0, 1, 2])}'
                vs = []
                for _ in range(rng.randint(0, 3)):
                    if b_ > a_ and rng.random() < .5:
                        vs.append(w.tok(cur[rng.randrange(a_, b_)]))
                    else:
                        v = self.value_for(f, x)
                        if v is not None and v[0] != 'n':
                            vs.append(v[0])
                if f.ref and len(set(vs)) != len(vs) and not self.triggers:
                    continue
                return f"setslice {x} {f.fid} {a_} {b_} {' '.join(vs)}".rstrip()
            if f.unique and j < .82:
                kind = rng.choice(SETOPS)
                vs = []
                for _ in range(1 if kind == 'discard' else rng.randint(0, 3)):
                    if cur and rng.random() < .55:
                        vs.append(w.tok(rng.choice(cur)))
                    else:
                        v = self.value_for(f, x)
                        if v is not None and v[0] != 'n':
                            vs.append(v[0])
                if kind != 'discard' and cur and rng.random() < .15:
                    # elements the collection holds, then one value it cannot take: the call is refused as a whole
                    bad = self.value_for(f, x, False)
                    if bad is not None:
                        vs = [w.tok(v) for v in rng.sample(cur, min(len(cur), rng.randint(1, 2)))] + [bad[0]]
                if (kind == 'discard' and not vs) or len(set(vs)) != len(vs):
                    continue
                if 'x:dict' in vs and kind not in ('symupd', 'ixor', 'ior'):
                    continue     # asking a set about an unhashable value is a TypeError of Python's, not a type check
                if f.ref and kind in ('symupd', 'ixor', 'ior') and not self.multi_ok(f, x, vs):
                    continue
                return f"{kind} {x} {f.fid} {' '.join(vs)}".rstrip()
            vs = []
            for _ in range(rng.randint(0, 3)):
                v = self.value_for(f, x)
                if v is not None and v[0] != 'n':
                    vs.append(v[0])
            # several values for one call must not create a cycle together / duplicates for non unique refs
            if f.ref and len(set(vs)) != len(vs):
                continue
            if f.ref and not self.multi_ok(f, x, vs):
                continue
            return f"{rng.choice(['extend', 'iadd', 'assign'])} {x} {f.fid} {' '.join(vs)}".rstrip()
        return 'new 0'

    def multi_ok(self, f, x, vs):
        return True


def admissible_delete(world, i, rec):
    return True
