"""Generic history runner over the real code: generate op by op, run, evaluate oracles after every call."""
from . import common, store, oracles


def op_conforming(world, line):
    """-> (single_value_op?, all values conform?) for the value-carrying ops, judged by the independent predicate"""
    ws = line.split()
    op = ws[0]
    if op in ('set', 'eset', 'add', 'insert', 'setitem', 'extend', 'iadd', 'assign', 'remove', 'ior', 'symupd', 'ixor', 'setslice', 'insertbad'):
        f = world.mm.feats[int(ws[2])]
        toks = {'set': ws[3:4], 'eset': ws[3:4], 'add': ws[3:4], 'insert': ws[4:5], 'setitem': ws[4:5],
                'remove': [], 'setslice': ws[5:], 'insertbad': ws[4:5]}.get(op, ws[3:])
        vals = []
        for t in toks:
            try:
                vals.append(world.val(t))
            except Exception:
                return None
        single = op in ('set', 'eset', 'add', 'insert', 'setitem', 'insertbad')
        return single, all(oracles.conforms(world, f, v) for v in vals), f
    return None


def judge(w, line, rec, before, after, ov_before, conf, checks):
    ps = []
    if 'c01' in checks:
        ps += [('C01',) + p for p in oracles.c01_symmetry(w)]
    if 'c02' in checks:
        ps += [('C02',) + p for p in oracles.c02_ownership(w)]
        if rec.startswith('err') and oracles.owner_view(w) != ov_before:
            ps.append(('C02', 'failed-op-changed-ownership', f'`{line}` raised but ownership changed', {}))
    if 'c03' in checks:
        ps += [('C03',) + p for p in oracles.c03_typed(w)]
        if conf is not None:
            single, ok, f = conf
            if not ok and rec != 'err BadValueError':
                ps.append(('C03', 'not-rejected', f'`{line}` offers a non-conforming value: {rec}', {}))
            if not ok and single and after != before:
                ps.append(('C03', 'rejected-but-changed', f'`{line}`: state changed', {}))
            if ok and rec == 'err BadValueError':
                ps.append(('C03', 'conforming-rejected', f'`{line}`: {rec}', {}))
    return ps


def run_history(rng, mm, nops, triggers=False, checks=('c01', 'c02', 'c03'), observe=True):
    w = store.World(mm, observe=observe)
    g = store.Gen(rng, mm, w, triggers=triggers)
    lines, recs, problems = [], [], []
    for step in range(nops):
        line = g.next_op()
        conf = op_conforming(w, line) if 'c03' in checks else None
        before = w.dump()
        ov_before = oracles.owner_view(w) if 'c02' in checks else None
        rec = w.apply(line)
        after = w.dump()
        lines.append(line)
        recs.append((rec, after, list(w.notifs)))
        ps = judge(w, line, rec, before, after, ov_before, conf, checks)
        for p in ps:
            problems.append((step, line) + p)
        if ps:
            break
    return w, lines, recs, problems
